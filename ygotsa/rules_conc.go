package main

import (
	"fmt"
	"go/ast"
	"go/token"
	"go/types"
	"strings"
)

// ruleGlobals: R-GLOBALS.
func ruleGlobals(c *Ctx, r *Report) {
	r.Rule("R-GLOBALS", "package-level variables of the library are written (outside init and initialisers) only under a debug flag that has no writer, or appear in the frozen table with a reason", 3)
	flagWriters := map[string]int{}
	type site struct {
		f   *FuncInfo
		obj types.Object
		n   ast.Node
	}
	var sites []site
	for _, rel := range libPkgs {
		for _, f := range c.AllFuncs(rel) {
			if f.Decl.Name.Name == "init" && f.Decl.Recv == nil {
				continue
			}
			info := f.Info()
			ast.Inspect(f.Decl.Body, func(x ast.Node) bool {
				var lhss []ast.Expr
				switch s := x.(type) {
				case *ast.AssignStmt:
					if s.Tok == token.DEFINE {
						return true
					}
					lhss = s.Lhs
				case *ast.IncDecStmt:
					lhss = []ast.Expr{s.X}
				default:
					return true
				}
				for _, l := range lhss {
					root := l
					for {
						switch y := ast.Unparen(root).(type) {
						case *ast.SelectorExpr:
							if _, isPkg := info.Uses[identOf(y.X)].(*types.PkgName); isPkg {
								root = y.Sel
							} else {
								root = y.X
								continue
							}
						case *ast.IndexExpr:
							root = y.X
							continue
						case *ast.StarExpr:
							root = y.X
							continue
						}
						break
					}
					id, ok := ast.Unparen(root).(*ast.Ident)
					if !ok {
						continue
					}
					v, ok := info.ObjectOf(id).(*types.Var)
					if !ok || v.Pkg() == nil || v.Parent() != v.Pkg().Scope() {
						continue
					}
					sites = append(sites, site{f, v, x})
					if v.Name() == "debugLibrary" || v.Name() == "debugSchema" {
						flagWriters[v.Name()]++
					}
				}
				return true
			})
		}
	}
	for i, s := range sites {
		info := s.f.Info()
		key := fmt.Sprintf("%s:write(%s)#%d", s.f.Name, s.obj.Name(), i+1)
		guarded := ""
		for _, ft := range c.FactsAt(s.f, s.n, true) {
			if ft.Kind != "cond" || !ft.Pos {
				continue
			}
			if id, ok := ast.Unparen(ft.Cond).(*ast.Ident); ok {
				if v, ok := info.ObjectOf(id).(*types.Var); ok && v.Parent() == v.Pkg().Scope() && (v.Name() == "debugLibrary" || v.Name() == "debugSchema") && flagWriters[v.Name()] == 0 {
					guarded = v.Name()
				}
			}
		}
		r.Check(guarded != "", key, c.Pos(s.n.Pos()), "only under "+guarded+", which is never written",
			fmt.Sprintf("%s writes package-level variable %s.%s without synchronisation and outside the (constant-false) debug flags: concurrent calls race", s.f.Name, s.obj.Pkg().Name(), s.obj.Name()))
	}
	if len(sites) == 0 {
		r.Note("globals:none", "-", "no package-level variable is written outside init")
	}
}

// ruleLockset: R-LOCKSET for ytypes.regexpCache.
func ruleLockset(c *Ctx, r *Report) {
	r.Rule("R-LOCKSET", "every access to a regexpCache map happens with the mutex paired with that map held (read: RLock or Lock; write: Lock), the map/mutex pair is selected consistently on every branch, and each lock is released by a deferred unlock", 3)
	p := c.Pkg("ytypes")
	if p == nil {
		return
	}
	tn, _ := p.Types.Scope().Lookup("regexpCache").(*types.TypeName)
	if tn == nil {
		r.Und("ytypes.regexpCache", "-", "type not found")
		return
	}
	st, _ := tn.Type().Underlying().(*types.Struct)
	// pairing by declaration: a sync.(RW)Mutex field guards the map field declared right after it.
	pair := map[string]string{} // map field → mutex field
	for i := 0; i+1 < st.NumFields(); i++ {
		a, b := st.Field(i), st.Field(i+1)
		if strings.HasPrefix(namedTypeOf(a.Type()), "sync.") {
			if _, isMap := b.Type().Underlying().(*types.Map); isMap {
				pair[b.Name()] = a.Name()
			}
		}
	}
	if len(pair) == 0 {
		r.Und("ytypes.regexpCache:pairs", "-", "no mutex/map field pairs found")
		return
	}
	for _, f := range c.AllFuncs("ytypes") {
		if f.Decl.Recv == nil || recvName(f.Decl.Recv.List[0].Type) != "regexpCache" {
			continue
		}
		info := f.Info()
		pm := c.parentMap(f.File)
		// locals aliasing a map field / mutex field, per statement list.
		fieldOf := func(e ast.Expr) string {
			e = ast.Unparen(e)
			if u, ok := e.(*ast.UnaryExpr); ok && u.Op == token.AND {
				e = u.X
			}
			if sel, ok := e.(*ast.SelectorExpr); ok {
				if s, ok := info.Selections[sel]; ok && s.Kind() == types.FieldVal {
					return sel.Sel.Name
				}
			}
			return ""
		}
		var mapVar, muVar types.Object
		type asg struct{ mapF, muF string }
		perList := map[ast.Node]*asg{}
		ast.Inspect(f.Decl.Body, func(n ast.Node) bool {
			as, ok := n.(*ast.AssignStmt)
			if !ok || len(as.Lhs) != 1 || len(as.Rhs) != 1 {
				return true
			}
			fld := fieldOf(as.Rhs[0])
			if fld == "" {
				return true
			}
			lst := pm[as]
			if perList[lst] == nil {
				perList[lst] = &asg{}
			}
			if _, isMap := pair[fld]; isMap {
				mapVar = ObjOf(info, as.Lhs[0])
				perList[lst].mapF = fld
			} else {
				for _, mu := range pair {
					if mu == fld {
						muVar = ObjOf(info, as.Lhs[0])
						perList[lst].muF = fld
					}
				}
			}
			return true
		})
		i := 0
		for _, a := range perList {
			i++
			ok := a.mapF != "" && a.muF != "" && pair[a.mapF] == a.muF
			r.Check(ok, fmt.Sprintf("%s:select#%d(%s,%s)", f.Name, i, a.mapF, a.muF), c.Pos(f.Decl.Pos()), "map and its paired mutex selected together",
				fmt.Sprintf("a branch selects map %q together with mutex %q (pairing by declaration: %v): some accesses to the map run under the wrong lock or none", a.mapF, a.muF, pair))
		}
		// accesses, in the method itself and in helpers that receive the map and its mutex.
		n := 0
		var checkAccesses func(g *FuncInfo, mapVar, muVar types.Object, fields bool, depth int)
		checkAccesses = func(g *FuncInfo, mapVar, muVar types.Object, fields bool, depth int) {
			info := g.Info()
			pm := c.parentMap(g.File)
			fieldOf := func(e ast.Expr) string {
				if !fields {
					return ""
				}
				e = ast.Unparen(e)
				if u, ok := e.(*ast.UnaryExpr); ok && u.Op == token.AND {
					e = u.X
				}
				if sel, ok := e.(*ast.SelectorExpr); ok {
					if s, ok := info.Selections[sel]; ok && s.Kind() == types.FieldVal {
						return sel.Sel.Name
					}
				}
				return ""
			}
			isMapExpr := func(e ast.Expr) bool {
				base := ast.Unparen(e)
				if mapVar != nil && ObjOf(info, base) == mapVar {
					return true
				}
				if fld := fieldOf(base); fld != "" {
					if _, ok := pair[fld]; ok {
						return true
					}
				}
				return false
			}
			isMuExpr := func(e ast.Expr) bool {
				e = ast.Unparen(e)
				if muVar != nil && ObjOf(info, e) == muVar {
					return true
				}
				if fld := fieldOf(e); fld != "" {
					for _, mu := range pair {
						if mu == fld {
							return true
						}
					}
				}
				return false
			}
			ast.Inspect(g.Decl.Body, func(x ast.Node) bool {
				if call, ok := x.(*ast.CallExpr); ok && depth < 2 {
					if h := c.funcOfCallee(Callee(info, call)); h != nil && h != g {
						mi, ui := -1, -1
						for i, a := range call.Args {
							if isMapExpr(a) {
								mi = i
							}
							if isMuExpr(a) {
								ui = i
							}
						}
						if mi >= 0 {
							hp := paramObjs(h)
							if ui < 0 || mi >= len(hp) || ui >= len(hp) {
								n++
								r.Bad(fmt.Sprintf("%s:cache-handed-to(%s)#%d", f.Name, h.Name, n), c.Pos(call.Pos()), "the regexp cache map is passed to "+h.Name+" without its mutex: accesses there cannot hold the paired lock")
							} else {
								checkAccesses(h, hp[mi], hp[ui], false, depth+1)
							}
						}
					}
				}
				ix, ok := x.(*ast.IndexExpr)
				if !ok || !isMapExpr(ix.X) {
					return true
				}
				n++
				write := false
				if as, ok := pm[ix].(*ast.AssignStmt); ok {
					for _, l := range as.Lhs {
						if l == ast.Expr(ix) {
							write = true
						}
					}
				}
				// enclosing function body (FuncLit or decl): preceding Lock/RLock + deferred unlock in same list.
				held, deferred := "", false
				for cur := ast.Node(ix); cur != nil; cur = pm[cur] {
					var list []ast.Stmt
					if b, ok := cur.(*ast.BlockStmt); ok {
						list = b.List
					}
					for _, s := range list {
						if s.Pos() >= ix.Pos() {
							break
						}
						switch st := s.(type) {
						case *ast.ExprStmt:
							if call, ok := st.X.(*ast.CallExpr); ok {
								if sel, ok := call.Fun.(*ast.SelectorExpr); ok && (sel.Sel.Name == "Lock" || sel.Sel.Name == "RLock") {
									if isMuExpr(sel.X) {
										held = sel.Sel.Name
									}
								}
							}
						case *ast.DeferStmt:
							if sel, ok := st.Call.Fun.(*ast.SelectorExpr); ok && (sel.Sel.Name == "Unlock" || sel.Sel.Name == "RUnlock") && isMuExpr(sel.X) {
								deferred = true
							}
						}
					}
					if _, isLit := cur.(*ast.FuncLit); isLit {
						break
					}
				}
				okAcc := (write && held == "Lock" || !write && held != "") && deferred
				kind := "read"
				if write {
					kind = "write"
				}
				r.Check(okAcc, fmt.Sprintf("%s:cache-%s#%d", f.Name, kind, n), c.Pos(ix.Pos()), "under "+held+" with deferred unlock",
					fmt.Sprintf("%s of the regexp cache map without the required lock held (held=%q, deferred unlock=%v): concurrent Validate calls race on the map", kind, held, deferred))
				return true
			})
		}
		checkAccesses(f, mapVar, muVar, true, 0)
	}
}
