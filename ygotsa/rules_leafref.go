package main

import (
	"fmt"
	"go/ast"
	"go/token"
	"go/types"
	"sort"
	"strings"
)

// ---- shared helpers ------------------------------------------------------------------

// returnsOf lists the return statements that belong to body itself (not to nested FuncLits).
func returnsOf(body ast.Node) []*ast.ReturnStmt {
	var out []*ast.ReturnStmt
	first := true
	ast.Inspect(body, func(n ast.Node) bool {
		if _, ok := n.(*ast.FuncLit); ok && !first {
			return false
		}
		first = false
		if rs, ok := n.(*ast.ReturnStmt); ok {
			out = append(out, rs)
		}
		return true
	})
	return out
}

// mentionsObj: e mentions the object.
func mentionsObj(info *types.Info, e ast.Node, obj types.Object) bool {
	if e == nil || obj == nil {
		return false
	}
	found := false
	ast.Inspect(e, func(n ast.Node) bool {
		if id, ok := n.(*ast.Ident); ok && info.ObjectOf(id) == obj {
			found = true
		}
		return !found
	})
	return found
}

// errTestedAfter: the error result bound at the assignment hosting call is tested by a later
// `if … err … { <terminating> }` within scope, or is returned directly.
func errTestedAfter(c *Ctx, f *FuncInfo, scope ast.Node, call *ast.CallExpr) bool {
	info := f.Info()
	pm := c.parentMap(f.File)
	var errObj types.Object
	var host ast.Node
	switch p := pm[call].(type) {
	case *ast.AssignStmt:
		if len(p.Lhs) >= 1 {
			errObj = ObjOf(info, p.Lhs[len(p.Lhs)-1])
			host = p
		}
	case *ast.ReturnStmt:
		return true
	}
	if errObj == nil || host == nil {
		return false
	}
	if tv, ok := info.Types[pm[call].(*ast.AssignStmt).Lhs[len(pm[call].(*ast.AssignStmt).Lhs)-1]]; ok && tv.Type != nil {
		if !isErrorLike(tv.Type) {
			return false
		}
	}
	checked := false
	// an if-init form: `if x, err := call(); err != nil {…}`
	if is, ok := pm[host].(*ast.IfStmt); ok && is.Init == host {
		if mentionsObj(info, is.Cond, errObj) && terminates(info, is.Body.List) {
			return true
		}
	}
	ast.Inspect(scope, func(m ast.Node) bool {
		switch s := m.(type) {
		case *ast.IfStmt:
			if s.Pos() > host.Pos() && mentionsObj(info, s.Cond, errObj) && terminates(info, s.Body.List) {
				checked = true
			}
		case *ast.ReturnStmt:
			if s.Pos() > host.Pos() {
				for _, res := range s.Results {
					if ObjOf(info, res) == errObj {
						checked = true
					}
				}
			}
		}
		return !checked
	})
	return checked
}

// isFieldOfParam: e is <param>.<field> (possibly through parens).
func isFieldOfParam(f *FuncInfo, e ast.Expr, param int, field string) bool {
	sel, ok := ast.Unparen(e).(*ast.SelectorExpr)
	if !ok || sel.Sel.Name != field {
		return false
	}
	id, ok := ast.Unparen(sel.X).(*ast.Ident)
	if !ok {
		return false
	}
	return paramIndex(f, f.Info().ObjectOf(id)) == param
}

// isSelOnType: e is a selector x.<field> where x's (pointer-stripped) named type is typeName.
func isSelOnType(info *types.Info, e ast.Expr, typeName, field string) bool {
	sel, ok := ast.Unparen(e).(*ast.SelectorExpr)
	if !ok || sel.Sel.Name != field {
		return false
	}
	tv, ok := info.Types[sel.X]
	return ok && namedTypeOf(tv.Type) == typeName
}

// localObj resolves a local variable by name among the definitions in f's body (first definition).
func localObj(f *FuncInfo, name string) types.Object {
	var out types.Object
	ast.Inspect(f.Decl.Body, func(n ast.Node) bool {
		if id, ok := n.(*ast.Ident); ok && id.Name == name && out == nil {
			if o := f.Info().Defs[id]; o != nil {
				out = o
			}
		}
		return out == nil
	})
	return out
}

// ---- C30 -------------------------------------------------------------------------------

// ruleLeafrefErr: R-LEAFREF-ERR.
func ruleLeafrefErr(c *Ctx, r *Report) {
	r.Rule("R-LEAFREF-ERR", "leafref errors are suppressed only under opt.IgnoreMissingData: leafrefErrOrLog returns nil only when IgnoreMissingData is true; ValidateLeafRefData skips the walk only under IgnoreMissingData and otherwise returns ForEachField's result; the per-node iterator returns nil only for nil nodes, non-leafref nodes or after a successful match; every error of the path/lookup/match helpers is tested and returned", 6)
	const lo = "LeafrefOptions"
	if f := c.MustFunc(r, "ytypes", "leafrefErrOrLog"); f != nil {
		info := f.Info()
		n := 0
		for _, rs := range returnsOf(f.Decl.Body) {
			if len(rs.Results) != 1 {
				continue
			}
			if id, ok := ast.Unparen(rs.Results[0]).(*ast.Ident); ok && paramIndex(f, info.ObjectOf(id)) == 0 {
				continue // returns the error it was given
			}
			n++
			ok := false
			for _, ft := range c.FactsAt(f, rs, false) {
				if ft.Kind == "cond" && ft.Pos && isSelOnType(info, ft.Cond, P("ytypes")+"."+lo, "IgnoreMissingData") {
					ok = true
				}
			}
			r.Check(ok, fmt.Sprintf("ytypes.leafrefErrOrLog:drop#%d", n), c.Pos(rs.Pos()), "error dropped only when opt.IgnoreMissingData is known true",
				"leafrefErrOrLog drops a leafref error on a path where opt.IgnoreMissingData is not known to be true: dangling references validate silently")
		}
		if n == 0 {
			r.Und("ytypes.leafrefErrOrLog:drop", c.Pos(f.Decl.Pos()), "no suppressing return found: shape not recognised")
		}
	}
	f := c.MustFunc(r, "ytypes", "ValidateLeafRefData")
	if f == nil {
		return
	}
	info := f.Info()
	// top level returns.
	var iterLit *ast.FuncLit
	var iterObj types.Object
	ast.Inspect(f.Decl.Body, func(n ast.Node) bool {
		if as, ok := n.(*ast.AssignStmt); ok && len(as.Rhs) == 1 && iterLit == nil {
			if fl, ok := as.Rhs[0].(*ast.FuncLit); ok {
				iterLit = fl
				iterObj = ObjOf(info, as.Lhs[0])
			}
		}
		return iterLit == nil
	})
	walk := false
	nTop := 0
	for _, rs := range returnsOf(f.Decl.Body) {
		if len(rs.Results) != 1 {
			continue
		}
		nTop++
		res := ast.Unparen(rs.Results[0])
		if call, ok := res.(*ast.CallExpr); ok && IsCall(info, call, P("util")+".ForEachField") {
			last := call.Args[len(call.Args)-1]
			isIter := ObjOf(info, last) == iterObj && iterObj != nil
			if fl, ok := last.(*ast.FuncLit); ok {
				iterLit, isIter = fl, true
			}
			uncond := len(c.FactsAt(f, rs, false)) == 0 || onlyNegIgnore(info, c.FactsAt(f, rs, false))
			r.Check(isIter && uncond, "ytypes.ValidateLeafRefData:walk", c.Pos(rs.Pos()), "ForEachField with the leafref iterator, result returned",
				"ValidateLeafRefData's walk is conditional or does not use the leafref iterator")
			walk = true
			continue
		}
		ok := false
		for _, ft := range c.FactsAt(f, rs, false) {
			if ft.Kind == "cond" && ft.Pos && isSelOnType(info, ft.Cond, P("ytypes")+"."+lo, "IgnoreMissingData") {
				ok = true
			}
		}
		r.Check(ok, fmt.Sprintf("ytypes.ValidateLeafRefData:early-return#%d", nTop), c.Pos(rs.Pos()), "skips validation only under IgnoreMissingData",
			"ValidateLeafRefData returns without walking the tree on a path where IgnoreMissingData is not known to be true")
	}
	if !walk {
		r.Bad("ytypes.ValidateLeafRefData:walk", c.Pos(f.Decl.Pos()), "ValidateLeafRefData no longer returns the result of util.ForEachField over the tree")
	}
	if iterLit == nil {
		r.Und("ytypes.ValidateLeafRefData:iterator", c.Pos(f.Decl.Pos()), "iterator closure not found")
		return
	}
	// the iterator: helper errors are tested.
	helpers := []string{P("ytypes") + ".leafRefToGNMIPath", P("ytypes") + ".dataNodesAtPath", P("ytypes") + ".matchesNodes"}
	seen := map[string]bool{}
	for _, call := range CallsIn(info, iterLit.Body, helpers...) {
		nm := ShortName(Callee(info, call))
		seen[nm] = true
		r.Check(errTestedAfter(c, f, iterLit.Body, call), "ytypes.ValidateLeafRefData$iter:err:"+nm, c.Pos(call.Pos()), "error tested and returned",
			"the leafref iterator ignores the error of "+nm)
	}
	for _, h := range helpers {
		if !seen[short(h)] {
			r.Bad("ytypes.ValidateLeafRefData$iter:calls:"+short(h), c.Pos(iterLit.Pos()), "the leafref iterator no longer calls "+short(h)+": references are not resolved/compared")
		}
	}
	// the iterator: nil returns.
	var matchObj types.Object
	ast.Inspect(iterLit.Body, func(n ast.Node) bool {
		if as, ok := n.(*ast.AssignStmt); ok && len(as.Rhs) == 1 && IsCall(info, as.Rhs[0], P("ytypes")+".matchesNodes") {
			matchObj = ObjOf(info, as.Lhs[0])
		}
		return true
	})
	n := 0
	for _, rs := range returnsOf(iterLit) {
		if len(rs.Results) != 1 || constName(info, rs.Results[0]) != "nil" {
			if len(rs.Results) == 1 {
				if tv, ok := info.Types[rs.Results[0]]; !ok || !tv.IsNil() {
					continue
				}
			} else {
				continue
			}
		}
		n++
		why := ""
		for _, ft := range c.FactsAt(f, rs, false) {
			if ft.Kind != "cond" {
				continue
			}
			switch {
			case ft.Pos && len(CallsIn(info, ft.Cond, P("util")+".IsValueNil", P("util")+".IsNilOrInvalidValue")) > 0:
				why = "nil node"
			case ft.Pos && len(CallsIn(info, ft.Cond, P("util")+".IsLeafRef")) > 0 && hasNegatedCall(info, ft.Cond, P("util")+".IsLeafRef"):
				why = "not a leafref leaf"
			case !ft.Pos && len(CallsIn(info, ft.Cond, P("util")+".IsLeafRef")) > 0 && !hasNegatedCall(info, ft.Cond, P("util")+".IsLeafRef"):
				why = "not a leafref leaf"
			case ft.Pos && matchObj != nil && ObjOf(info, ft.Cond) == matchObj:
				why = "after a successful match"
			}
		}
		r.Check(why != "", fmt.Sprintf("ytypes.ValidateLeafRefData$iter:nil-return#%d", n), c.Pos(rs.Pos()), why,
			"the leafref iterator returns no error on a path that is neither a nil node, a non-leafref node, nor a successful match")
	}
}

func onlyNegIgnore(info *types.Info, facts []Fact) bool {
	for _, ft := range facts {
		if ft.Kind != "cond" || ft.Pos {
			return false
		}
		ok := false
		ast.Inspect(ft.Cond, func(n ast.Node) bool {
			if sel, isSel := n.(*ast.SelectorExpr); isSel && sel.Sel.Name == "IgnoreMissingData" {
				ok = true
			}
			if be, isBE := n.(*ast.BinaryExpr); isBE && (be.Op == token.EQL || be.Op == token.NEQ) {
				if tv, has := info.Types[be.Y]; has && tv.IsNil() {
					ok = true
				}
			}
			return true
		})
		if !ok {
			return false
		}
	}
	return true
}

// hasNegatedCall: e contains !name(...).
func hasNegatedCall(info *types.Info, e ast.Expr, name string) bool {
	found := false
	ast.Inspect(e, func(n ast.Node) bool {
		if u, ok := n.(*ast.UnaryExpr); ok && u.Op == token.NOT && IsCall(info, ast.Unparen(u.X), name) {
			found = true
		}
		return true
	})
	return found
}

// ruleLeafrefMatch: R-LEAFREF-MATCH.
func ruleLeafrefMatch(c *Ctx, r *Report) {
	r.Rule("R-LEAFREF-MATCH", "matchesNodes reports a match only for an empty source value or after an equality test succeeded (DeepEqualDerefPtrs / reflect.DeepEqual); with a non-empty source and an empty node set it reports no match; its fall-through result is false", 5)
	f := c.MustFunc(r, "ytypes", "matchesNodes")
	if f == nil {
		return
	}
	info := f.Info()
	rets := returnsOf(f.Decl.Body)
	nTrue := 0
	emptySetFalse := false
	for _, rs := range rets {
		if len(rs.Results) != 2 {
			continue
		}
		v := constName(info, rs.Results[0])
		facts := c.FactsAt(f, rs, false)
		if v == "false" || v == "untyped.false" {
			for _, ft := range facts {
				if ft.Kind == "cond" && ft.Pos && isLenZero(info, ft.Cond, 1, f) {
					emptySetFalse = true
				}
			}
			continue
		}
		nTrue++
		why := ""
		for _, ft := range facts {
			if ft.Kind != "cond" || !ft.Pos {
				continue
			}
			if len(CallsIn(info, ft.Cond, P("util")+".DeepEqualDerefPtrs", "reflect.DeepEqual")) > 0 {
				why = "equality test succeeded"
			}
			if len(CallsIn(info, ft.Cond, P("util")+".IsNilOrInvalidValue", P("util")+".IsValueNilOrDefault")) > 0 && mentionsParam(f, ft.Cond, 0) {
				why = "source value empty"
			}
		}
		r.Check(why != "", fmt.Sprintf("ytypes.matchesNodes:match#%d", nTrue), c.Pos(rs.Pos()), why,
			"matchesNodes reports a match on a path with neither an empty source value nor a successful equality test: dangling references are accepted")
	}
	if nTrue == 0 {
		r.Und("ytypes.matchesNodes:match", c.Pos(f.Decl.Pos()), "no positive return found")
	}
	// "empty source" must mean "no value": leaf-list members, and union leaves held by value, are
	// visited as plain values, for which a zero test (IsValueNilOrDefault) also fires on the set
	// values "" and 0.
	zeroTest := false
	var ztPos token.Pos
	for _, rs := range rets {
		if len(rs.Results) != 2 || !strings.HasSuffix(constName(info, rs.Results[0]), "true") {
			continue
		}
		for _, ft := range c.FactsAt(f, rs, false) {
			if ft.Kind == "cond" && ft.Pos && len(CallsIn(info, ft.Cond, P("util")+".IsValueNilOrDefault")) > 0 && mentionsParam(f, ft.Cond, 0) {
				zeroTest, ztPos = true, ft.Cond.Pos()
			}
		}
	}
	if !zeroTest {
		ztPos = f.Decl.Pos()
	}
	r.Check(!zeroTest, "ytypes.matchesNodes:empty-source-is-nil-test", c.Pos(ztPos), "the source counts as empty only when it is nil/invalid",
		"matchesNodes treats a source value as unset when it is the zero value of its type (util.IsValueNilOrDefault): a leaf-list member \"\" or 0 (members are visited as plain values) is reported as matching whatever the target holds, so a dangling reference with that value is never reported")
	r.Check(emptySetFalse, "ytypes.matchesNodes:empty-set", c.Pos(f.Decl.Pos()), "non-empty source with empty node set → no match",
		"matchesNodes no longer reports `no match` when the node set is empty and the source is set")
	// fall-through result.
	last := f.Decl.Body.List[len(f.Decl.Body.List)-1]
	lr, ok := last.(*ast.ReturnStmt)
	isFalse := ok && len(lr.Results) == 2 && strings.HasSuffix(constName(info, lr.Results[0]), "false")
	r.Check(isFalse, "ytypes.matchesNodes:fallthrough", c.Pos(last.Pos()), "false", "matchesNodes' fall-through result is not false: a reference that equals no target is accepted")
	// the equality loop skips only nil/default targets.
	for i, bs := range branchStmts(f.Decl.Body, token.CONTINUE) {
		okc := false
		for _, ft := range c.FactsAt(f, bs, false) {
			if ft.Kind == "cond" && ft.Pos && len(CallsIn(info, ft.Cond, P("util")+".IsValueNilOrDefault")) > 0 {
				okc = true
			}
		}
		r.Check(okc, fmt.Sprintf("ytypes.matchesNodes:skip#%d", i+1), c.Pos(bs.Pos()), "skips only nil/default targets", "matchesNodes skips a candidate target for a reason other than being nil/default")
	}
}

func branchStmts(body ast.Node, tok token.Token) []*ast.BranchStmt {
	var out []*ast.BranchStmt
	ast.Inspect(body, func(n ast.Node) bool {
		if b, ok := n.(*ast.BranchStmt); ok && b.Tok == tok {
			out = append(out, b)
		}
		return true
	})
	return out
}

func mentionsParam(f *FuncInfo, e ast.Node, i int) bool {
	found := false
	ast.Inspect(e, func(n ast.Node) bool {
		if id, ok := n.(*ast.Ident); ok && paramIndex(f, f.Info().ObjectOf(id)) == i {
			found = true
		}
		return !found
	})
	return found
}

// isLenZero: e is len(<param i>) == 0.
func isLenZero(info *types.Info, e ast.Expr, param int, f *FuncInfo) bool {
	be, ok := ast.Unparen(e).(*ast.BinaryExpr)
	if !ok || be.Op != token.EQL {
		return false
	}
	call, ok := ast.Unparen(be.X).(*ast.CallExpr)
	if !ok || len(call.Args) != 1 {
		return false
	}
	if id, ok := call.Fun.(*ast.Ident); !ok || id.Name != "len" {
		return false
	}
	if v, ok := ConstOf(info, be.Y); !ok || v != "0" {
		return false
	}
	return mentionsParam(f, call.Args[0], param)
}

// ruleLockstep: R-LOCKSTEP — data cursor and memo cursor of dataNodesAtPath move together.
func ruleLockstep(c *Ctx, r *Report) {
	r.Rule("R-LOCKSTEP", "in dataNodesAtPath the data-tree cursor (root) and the memo cursor (pathQueryRoot) are assigned together in every block with corresponding right-hand sides (tree root ↔ memo root, node ↔ node's memo, .Parent ↔ .Parent), the memo is read and written at the memo cursor under the string of the path that is looked up from the data cursor", 5)
	f := c.MustFunc(r, "ytypes", "dataNodesAtPath")
	if f == nil {
		return
	}
	info := f.Info()
	// cursors: the two locals whose types are *util.NodeInfo and *util.PathQueryNodeMemo and that are assigned more than once.
	type asg = cursorAsg
	byBlock := map[ast.Node]map[string][]asg{}
	pm := c.parentMap(f.File)
	var dataObj, memoObj types.Object
	ast.Inspect(f.Decl.Body, func(n ast.Node) bool {
		as, ok := n.(*ast.AssignStmt)
		if !ok || len(as.Lhs) != 1 || len(as.Rhs) != 1 {
			return true
		}
		id, ok := as.Lhs[0].(*ast.Ident)
		if !ok {
			return true
		}
		obj := info.ObjectOf(id)
		if obj == nil || paramIndex(f, obj) >= 0 {
			return true
		}
		if oneToOneDef(f, obj) != nil {
			return true // assigned once: a hoisted sub-expression, not a cursor
		}
		role := ""
		switch namedTypeOf(obj.Type()) {
		case P("util") + ".NodeInfo":
			role = "data"
			dataObj = obj
		case P("util") + ".PathQueryNodeMemo":
			role = "memo"
			memoObj = obj
		default:
			return true
		}
		shape := "other"
		rhs := ast.Unparen(as.Rhs[0])
		// a hoisted local (parent := root.Parent) stands for its definition.
		if id, ok := rhs.(*ast.Ident); ok && paramIndex(f, info.ObjectOf(id)) < 0 {
			if d := oneToOneDef(f, info.ObjectOf(id)); d != nil {
				rhs = ast.Unparen(d)
			}
		}
		switch x := rhs.(type) {
		case *ast.Ident:
			if paramIndex(f, info.ObjectOf(x)) >= 0 {
				shape = "param"
			}
		case *ast.SelectorExpr:
			if x.Sel.Name == "Parent" && ObjOf(info, x.X) == obj {
				shape = "up"
			}
		case *ast.CallExpr:
			shape = "root"
		}
		blk := pm[as]
		if byBlock[blk] == nil {
			byBlock[blk] = map[string][]asg{}
		}
		byBlock[blk][role] = append(byBlock[blk][role], asg{shape, as.Pos()})
		return true
	})
	if dataObj == nil || memoObj == nil {
		r.Und("ytypes.dataNodesAtPath:cursors", c.Pos(f.Decl.Pos()), "data/memo cursors not found")
		return
	}
	var blocks []ast.Node
	for b := range byBlock {
		blocks = append(blocks, b)
	}
	sort.Slice(blocks, func(i, j int) bool { return blocks[i].Pos() < blocks[j].Pos() })
	for i, b := range blocks {
		d, m := byBlock[b]["data"], byBlock[b]["memo"]
		ds, ms := shapes(d), shapes(m)
		pos := b.Pos()
		if len(d) > 0 {
			pos = d[0].pos
		} else if len(m) > 0 {
			pos = m[0].pos
		}
		r.Check(ds == ms, fmt.Sprintf("ytypes.dataNodesAtPath:block#%d", i+1), c.Pos(pos), "cursors assigned together: "+ds,
			fmt.Sprintf("dataNodesAtPath moves the data cursor (%s) and the memo cursor (%s) differently in one block: lookups are cached at / read from the memo of a different node than the one the path is relative to", ds, ms))
	}
	// memo accesses.
	var keyObjs []types.Object
	nMemo := 0
	ast.Inspect(f.Decl.Body, func(n ast.Node) bool {
		ix, ok := n.(*ast.IndexExpr)
		if !ok {
			return true
		}
		sel, ok := ast.Unparen(ix.X).(*ast.SelectorExpr)
		if !ok || sel.Sel.Name != "Memo" {
			return true
		}
		nMemo++
		r.Check(ObjOf(info, sel.X) == memoObj, fmt.Sprintf("ytypes.dataNodesAtPath:memo-access#%d:cursor", nMemo), c.Pos(ix.Pos()), "memo of the memo cursor", "dataNodesAtPath accesses the memo of something other than the memo cursor")
		keyObjs = append(keyObjs, ObjOf(info, ix.Index))
		return true
	})
	if nMemo < 2 {
		r.Und("ytypes.dataNodesAtPath:memo-access", c.Pos(f.Decl.Pos()), "expected a memo read and a memo write")
		return
	}
	same := true
	for _, k := range keyObjs {
		if k == nil || k != keyObjs[0] {
			same = false
		}
	}
	r.Check(same, "ytypes.dataNodesAtPath:memo-key:same", c.Pos(f.Decl.Pos()), "one key variable for read and write", "memo read and write use different keys")
	// the key is PathToString(path) and GetNode looks up that same path from the data cursor.
	var pathArg types.Object
	ast.Inspect(f.Decl.Body, func(n ast.Node) bool {
		if as, ok := n.(*ast.AssignStmt); ok && len(as.Rhs) == 1 && len(keyObjs) > 0 && ObjOf(info, as.Lhs[0]) == keyObjs[0] {
			if call, ok := as.Rhs[0].(*ast.CallExpr); ok && IsCall(info, call, P("ygot")+".PathToString") {
				pathArg = ObjOf(info, call.Args[0])
			}
		}
		return true
	})
	gets := CallsIn(info, f.Decl.Body, P("ytypes")+".GetNode")
	okGet := len(gets) == 1 && pathArg != nil && len(gets[0].Args) >= 3 && ObjOf(info, gets[0].Args[2]) == pathArg &&
		mentionsObj(info, gets[0].Args[0], dataObj) && mentionsObj(info, gets[0].Args[1], dataObj)
	pos := f.Decl.Pos()
	if len(gets) > 0 {
		pos = gets[0].Pos()
	}
	r.Check(okGet, "ytypes.dataNodesAtPath:lookup", c.Pos(pos), "GetNode(root.Schema, root value, path) with the path whose string is the memo key",
		"dataNodesAtPath's memo key is not the string of the path that GetNode resolves from the data cursor")
	// the memo stores the nodes and error of that lookup.
	if len(gets) == 1 {
		if as, ok := pm[gets[0]].(*ast.AssignStmt); ok && len(as.Lhs) == 2 {
			errObj := ObjOf(info, as.Lhs[1])
			stored := false
			ast.Inspect(f.Decl.Body, func(n ast.Node) bool {
				if a2, ok := n.(*ast.AssignStmt); ok && len(a2.Lhs) == 1 {
					if ix, ok := a2.Lhs[0].(*ast.IndexExpr); ok {
						if sel, ok := ast.Unparen(ix.X).(*ast.SelectorExpr); ok && sel.Sel.Name == "Memo" && mentionsObj(info, a2.Rhs[0], errObj) {
							stored = true
						}
					}
				}
				return true
			})
			r.Check(stored, "ytypes.dataNodesAtPath:memo-stores-err", c.Pos(gets[0].Pos()), "lookup error cached with the nodes", "the memo entry does not carry GetNode's error: a repeated failing query returns no error")
		}
	}
}

type cursorAsg struct {
	shape string
	pos   token.Pos
}

func shapes(as []cursorAsg) string {
	var s []string
	for _, a := range as {
		s = append(s, a.shape)
	}
	return strings.Join(s, ",")
}

// rulePredicateKey: R-PREDICATE-KEY — a leafref predicate always yields a keyed path element.
func rulePredicateKey(c *Ctx, r *Report) {
	r.Rule("R-PREDICATE-KEY", "leafRefToGNMIPath gives the path element of a predicate `[k = <path or literal>]` the key k on every non-error path — with the empty string when the referenced leaf is unset — because the lookup runs with partial-key matching, where an element without keys selects every entry", 2)
	f := c.MustFunc(r, "ytypes", "leafRefToGNMIPath")
	if f == nil {
		return
	}
	info := f.Info()
	var sw *ast.SwitchStmt
	ast.Inspect(f.Decl.Body, func(n ast.Node) bool {
		if s, ok := n.(*ast.SwitchStmt); ok && s.Tag == nil && sw == nil {
			sw = s
		}
		return true
	})
	if sw == nil {
		r.Und("ytypes.leafRefToGNMIPath:switch", c.Pos(f.Decl.Pos()), "predicate dispatch not found")
		return
	}
	n := 0
	for _, cc := range sw.Body.List {
		cl := cc.(*ast.CaseClause)
		if len(cl.Body) == 0 {
			continue // no predicate
		}
		n++
		key := fmt.Sprintf("ytypes.leafRefToGNMIPath:predicate-arm#%d", n)
		// an arm-level store of the Key map that contains k.
		ok := false
		for _, s := range cl.Body {
			as, isAs := s.(*ast.AssignStmt)
			if !isAs || len(as.Lhs) != 1 {
				continue
			}
			l := ast.Unparen(as.Lhs[0])
			if ix, isIx := l.(*ast.IndexExpr); isIx {
				l = ix.X
				if sel, isSel := ast.Unparen(l).(*ast.SelectorExpr); isSel && sel.Sel.Name == "Key" {
					ok = true
				}
				continue
			}
			if sel, isSel := l.(*ast.SelectorExpr); isSel && sel.Sel.Name == "Key" {
				if clit, isLit := ast.Unparen(as.Rhs[0]).(*ast.CompositeLit); isLit && len(clit.Elts) == 1 {
					ok = true
				}
			}
		}
		_ = info
		r.Check(ok, key, c.Pos(cl.Pos()), "the element's Key map receives k at the arm's top level (all non-error paths)", "a predicate arm of leafRefToGNMIPath sets the element's key only on some paths (e.g. only when the referenced leaf resolves to a node): with the source leaf unset the element has no key, matches every list entry under partial-key matching, and a dangling reference is accepted")
	}
}

// ruleVisitorCopy: R-VISITOR-COPY — util's memo visitor derives the child visitor by mutating a copy.
func ruleVisitorCopy(c *Ctx, r *Report) {
	r.Rule("R-VISITOR-COPY", "a util.Visitor whose Visit assigns to its receiver's fields to derive the visitor for the children has a value receiver and is stored by value: with a pointer receiver the assignment leaks to later siblings (the memo node's Parent would be the previously visited node, not the parent)", 1)
	n := 0
	for _, f := range c.AllFuncs("util") {
		if f.Decl.Recv == nil || f.Decl.Name.Name != "Visit" || len(f.Decl.Recv.List) == 0 || len(f.Decl.Recv.List[0].Names) == 0 {
			continue
		}
		info := f.Info()
		recv := info.ObjectOf(f.Decl.Recv.List[0].Names[0])
		writes := false
		ast.Inspect(f.Decl.Body, func(x ast.Node) bool {
			if as, ok := x.(*ast.AssignStmt); ok {
				for _, l := range as.Lhs {
					if sel, ok := ast.Unparen(l).(*ast.SelectorExpr); ok && ObjOf(info, sel.X) == recv {
						writes = true
					}
				}
			}
			return true
		})
		if !writes {
			continue
		}
		n++
		_, isPtr := f.Decl.Recv.List[0].Type.(*ast.StarExpr)
		r.Check(!isPtr, f.Name+":value-receiver", c.Pos(f.Decl.Pos()), "Visit mutates a copy of the visitor", f.Name+" assigns to its receiver through a pointer: the state meant for the children of one node is seen by its later siblings (leafref memo nodes get the wrong Parent)")
	}
	if n == 0 {
		r.Und("util:Visit-with-receiver-writes", "-", "no visitor deriving child state from its receiver found (shape changed)")
	}
}
