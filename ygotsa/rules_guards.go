package main

import (
	"fmt"
	"go/ast"
	"go/token"
	"go/types"
)

// factHasCall: some cond fact with polarity pos contains a call to one of names.
func factHasCall(info *types.Info, facts []Fact, pos bool, names ...string) bool {
	return HasFact(facts, pos, func(e ast.Expr) bool { return len(CallsIn(info, e, names...)) > 0 })
}

// factIsCall: some cond fact with polarity pos *is* a call to one of names (after unparen).
func factIsCall(info *types.Info, facts []Fact, pos bool, names ...string) *ast.CallExpr {
	for _, ft := range facts {
		if ft.Kind == "cond" && ft.Pos == pos {
			if call, ok := ast.Unparen(ft.Cond).(*ast.CallExpr); ok && IsCall(info, call, names...) {
				return call
			}
		}
	}
	return nil
}

// factOkOfLookup: a fact "ok"(pos) where ok was bound by `v, ok := M[k]` in an enclosing if-init
// or preceding statement; returns the map expression M.
func factOkOfLookup(c *Ctx, f *FuncInfo, n ast.Node, pos bool) []ast.Expr {
	info := f.Info()
	var out []ast.Expr
	for _, ft := range c.FactsAt(f, n, true) {
		if ft.Kind != "cond" || ft.Pos != pos {
			continue
		}
		id, ok := ast.Unparen(ft.Cond).(*ast.Ident)
		if !ok {
			continue
		}
		obj := info.ObjectOf(id)
		ast.Inspect(f.Decl.Body, func(m ast.Node) bool {
			as, ok := m.(*ast.AssignStmt)
			if !ok || len(as.Lhs) != 2 || len(as.Rhs) != 1 {
				return true
			}
			if ObjOf(info, as.Lhs[1]) != obj {
				return true
			}
			if ix, ok := ast.Unparen(as.Rhs[0]).(*ast.IndexExpr); ok {
				if _, isMap := info.Types[ix.X].Type.Underlying().(*types.Map); isMap {
					out = append(out, ix.X)
				}
			}
			return true
		})
	}
	return out
}

// originParam follows a value back to the parameter it was computed from: through local
// definitions, and through calls by descending into their first argument.
func originParam(f *FuncInfo, e ast.Expr, depth int) int {
	info := f.Info()
	e = ast.Unparen(e)
	if depth > 10 {
		return -1
	}
	switch x := e.(type) {
	case *ast.CallExpr:
		if len(x.Args) > 0 {
			if tv, ok := info.Types[x.Fun]; ok && tv.IsType() {
				return originParam(f, x.Args[0], depth+1)
			}
			if sel, ok := x.Fun.(*ast.SelectorExpr); ok {
				if _, isMethod := info.Selections[sel]; isMethod {
					return originParam(f, sel.X, depth+1)
				}
			}
			return originParam(f, x.Args[0], depth+1)
		}
		if sel, ok := x.Fun.(*ast.SelectorExpr); ok {
			return originParam(f, sel.X, depth+1)
		}
	case *ast.Ident:
		obj := info.ObjectOf(x)
		if i := paramIndex(f, obj); i >= 0 {
			return i
		}
		res := -1
		ast.Inspect(f.Decl.Body, func(n ast.Node) bool {
			switch s := n.(type) {
			case *ast.AssignStmt:
				for i, l := range s.Lhs {
					if ObjOf(info, l) == obj {
						if _, isID := l.(*ast.Ident); !isID {
							continue
						}
						j := i
						if len(s.Rhs) == 1 {
							j = 0
						}
						if rp := originParam(f, s.Rhs[j], depth+1); rp >= 0 {
							res = rp
						}
					}
				}
			case *ast.RangeStmt:
				if (s.Value != nil && ObjOf(info, s.Value) == obj) || (s.Key != nil && ObjOf(info, s.Key) == obj) {
					res = originParam(f, s.X, depth+1)
				}
			}
			return true
		})
		return res
	case *ast.SelectorExpr:
		return originParam(f, x.X, depth+1)
	case *ast.IndexExpr:
		return originParam(f, x.X, depth+1)
	case *ast.StarExpr:
		return originParam(f, x.X, depth+1)
	case *ast.UnaryExpr:
		return originParam(f, x.X, depth+1)
	case *ast.TypeAssertExpr:
		return originParam(f, x.X, depth+1)
	}
	return -1
}

// ---- C03: ygot.diff --------------------------------------------------------------

func ruleDiffGuards(c *Ctx, r *Report) {
	r.Rule("R-GUARD(diff)", "in ygot.diff: a delete is emitted only for a path absent from the modified leaves; an update for a common path only when reflect.DeepEqual of the two values fails; additions only for paths absent from the original leaves and only without IgnoreAdditions; both leaf maps are keyed through PathToString", 5)
	f := c.MustFunc(r, "ygot", "diff")
	if f == nil {
		return
	}
	info := f.Info()
	// (1) appends to the Delete field.
	nDel := 0
	ast.Inspect(f.Decl.Body, func(n ast.Node) bool {
		as, ok := n.(*ast.AssignStmt)
		if !ok || len(as.Lhs) != 1 {
			return true
		}
		sel, ok := as.Lhs[0].(*ast.SelectorExpr)
		if !ok || sel.Sel.Name != "Delete" {
			return true
		}
		nDel++
		ms := factOkOfLookup(c, f, as, false)
		ok2 := false
		for _, m := range ms {
			if originParam(f, m, 0) == 1 {
				ok2 = true
			}
		}
		r.Check(ok2, fmt.Sprintf("ygot.diff:Delete-append#%d:absent-from-modified", nDel), c.Pos(as.Pos()),
			"delete emitted only when the lookup in the modified struct's leaf map failed",
			"a delete is appended without being conditional on the path being absent from the modified struct's leaves: unchanged or changed leaves are deleted")
		return true
	})
	if nDel == 0 {
		r.Bad("ygot.diff:Delete-append", c.Pos(f.Decl.Pos()), "diff no longer emits deletes")
	}
	// (2)/(3) processUpdate call sites.
	var pu types.Object
	ast.Inspect(f.Decl.Body, func(n ast.Node) bool {
		if as, ok := n.(*ast.AssignStmt); ok && len(as.Rhs) == 1 {
			if _, isLit := as.Rhs[0].(*ast.FuncLit); isLit {
				if id, ok := as.Lhs[0].(*ast.Ident); ok && id.Name != "_" {
					if pu == nil {
						pu = info.ObjectOf(id)
					}
				}
			}
		}
		return true
	})
	common, added := 0, 0
	ast.Inspect(f.Decl.Body, func(n ast.Node) bool {
		call, ok := n.(*ast.CallExpr)
		if !ok {
			return true
		}
		id, ok := call.Fun.(*ast.Ident)
		if !ok || pu == nil || info.ObjectOf(id) != pu {
			return true
		}
		facts := c.FactsAt(f, call, false)
		okTrue := factOkOfLookup(c, f, call, true)
		okFalse := factOkOfLookup(c, f, call, false)
		switch {
		case len(okTrue) > 0:
			common++
			de := factIsCall(info, facts, false, "reflect.DeepEqual")
			good := false
			if de != nil && len(de.Args) == 2 {
				a, b := originParam(f, de.Args[0], 0), originParam(f, de.Args[1], 0)
				sa, oka := ast.Unparen(de.Args[0]).(*ast.SelectorExpr)
				sb, okb := ast.Unparen(de.Args[1]).(*ast.SelectorExpr)
				good = a+b == 1 && a*b == 0 && oka && okb && sa.Sel.Name == sb.Sel.Name
			}
			r.Check(good, fmt.Sprintf("ygot.diff:update-common#%d:DeepEqual", common), c.Pos(call.Pos()),
				"update for a common path only when reflect.DeepEqual(original value, modified value) is false",
				"the update for a path present in both structs is not guarded by !reflect.DeepEqual of the original and modified values: Diff(a,a) is non-empty or real changes (e.g. reordered ordered lists) are missed")
		case len(okFalse) > 0:
			added++
			inOrig := false
			for _, m := range okFalse {
				if originParam(f, m, 0) == 0 {
					inOrig = true
				}
			}
			ign := false
			for _, ft := range facts {
				if ft.Kind == "cond" && ft.Pos {
					if be, ok := ast.Unparen(ft.Cond).(*ast.BinaryExpr); ok && be.Op == token.EQL && len(CallsIn(info, be, P("ygot")+".hasIgnoreAdditions")) > 0 {
						ign = true
					}
				}
			}
			r.Check(inOrig && ign, fmt.Sprintf("ygot.diff:update-added#%d", added), c.Pos(call.Pos()),
				"additions only for paths absent from the original and only when IgnoreAdditions is not set",
				fmt.Sprintf("the additions update is not guarded by (absent from original: %v) and (hasIgnoreAdditions(opts)==nil: %v)", inOrig, ign))
		default:
			r.Bad("ygot.diff:update:unguarded", c.Pos(call.Pos()), "an update is emitted without testing presence of the path in the other struct")
		}
		return true
	})
	if common == 0 || added == 0 {
		r.Und("ygot.diff:update-sites", c.Pos(f.Decl.Pos()), fmt.Sprintf("expected update sites for common (%d) and added (%d) paths", common, added))
	}
	// (4) leaf maps keyed by PathToString.
	if g := c.MustFunc(r, "ygot", "toStringPathMap"); g != nil {
		ginfo := g.Info()
		ok := false
		ast.Inspect(g.Decl.Body, func(n ast.Node) bool {
			as, isAs := n.(*ast.AssignStmt)
			if !isAs || len(as.Lhs) != 1 {
				return true
			}
			ix, isIx := as.Lhs[0].(*ast.IndexExpr)
			if !isIx {
				return true
			}
			if id, isID := ast.Unparen(ix.Index).(*ast.Ident); isID {
				obj := ginfo.ObjectOf(id)
				ast.Inspect(g.Decl.Body, func(m ast.Node) bool {
					if a2, ok2 := m.(*ast.AssignStmt); ok2 && len(a2.Rhs) == 1 && ObjOf(ginfo, a2.Lhs[0]) == obj {
						if IsCall(ginfo, a2.Rhs[0], P("ygot")+".PathToString") {
							ok = true
						}
					}
					return true
				})
			}
			return true
		})
		r.Check(ok, "ygot.toStringPathMap:key=PathToString", c.Pos(g.Decl.Pos()), "leaf maps are keyed by PathToString(path)", "toStringPathMap no longer keys the leaf map by PathToString of the leaf's path")
	}
	// (5) joingNMIPaths must clone the parent before appending.
	if g := c.MustFunc(r, "ygot", "joingNMIPaths"); g != nil {
		cl := len(CallsIn(g.Info(), g.Decl.Body, "google.golang.org/protobuf/proto.Clone")) > 0
		r.Check(cl, "ygot.joingNMIPaths:clone-parent", c.Pos(g.Decl.Pos()), "parent path is cloned before the child elements are appended",
			"joingNMIPaths no longer clones the parent path: sibling leaves share one backing array and overwrite each other's path elements")
	}
}

// ruleDiffSkip: R-DIFF-SKIP — which populated fields findSetLeaves leaves out of a diff.
func ruleDiffSkip(c *Ctx, r *Report) {
	r.Rule("R-DIFF-SKIP", "findSetLeaves' iterator silently skips a field only for the documented reasons — zero StructField, annotation field, already-processed path, nil/invalid/default value or map, struct pointer that is not an ordered map treated as a leaf, empty ordered map, leaf-list without entries (Binary excluded), unset enum — so every other populated leaf (including zero-length binaries) reaches the diff", 7)
	f := c.MustFunc(r, "ygot", "findSetLeaves")
	if f == nil {
		return
	}
	info := f.Info()
	iter := firstFuncLit(f.Decl.Body)
	if iter == nil {
		r.Und("ygot.findSetLeaves:iterator", c.Pos(f.Decl.Pos()), "iterator closure not found")
		return
	}
	// the recording store.
	var rec token.Pos
	ast.Inspect(iter.Body, func(n ast.Node) bool {
		if as, ok := n.(*ast.AssignStmt); ok && len(as.Lhs) == 1 {
			if ix, ok := as.Lhs[0].(*ast.IndexExpr); ok && types.ExprString(ix.X) == "outs" {
				rec = as.Pos()
			}
		}
		return true
	})
	if rec == token.NoPos {
		r.Bad("ygot.findSetLeaves:records", c.Pos(iter.Pos()), "findSetLeaves no longer records set leaves into its result map")
		return
	}
	allowedCalls := map[string]bool{
		"reflect.DeepEqual": true, P("util") + ".IsYgotAnnotation": true, P("util") + ".IsNilOrInvalidValue": true, P("util") + ".IsValueNilOrDefault": true,
		P("util") + ".IsValueMap": true, P("util") + ".IsValueStructPtr": true, "reflect.Value.Interface": true, "reflect.Value.Int": true,
		P("ygot") + ".GoOrderedMap.Len": true,
	}
	pm := c.parentMap(f.File)
	n := 0
	for _, rs := range returnsOf(iter) {
		if rs.Pos() > rec {
			continue
		}
		// innermost enclosing guard: an if, or an arm of a tagless switch (the same skip test
		// written as `switch { case cond: return }`).
		var is *ast.IfStmt
		for p := pm[rs]; p != nil && p != ast.Node(iter); p = pm[p] {
			if x, ok := p.(*ast.IfStmt); ok {
				is = x
				break
			}
			if cc, ok := p.(*ast.CaseClause); ok && len(cc.List) >= 1 {
				if blk, ok := pm[cc].(*ast.BlockStmt); ok {
					if sw, ok := pm[blk].(*ast.SwitchStmt); ok && sw.Tag == nil {
						// view the arm as `if c1 || c2 … { body }`.
						cond := cc.List[0]
						for _, e := range cc.List[1:] {
							cond = &ast.BinaryExpr{X: cond, Op: token.LOR, OpPos: e.Pos(), Y: e}
						}
						is = &ast.IfStmt{If: cc.Pos(), Cond: cond, Body: &ast.BlockStmt{Lbrace: cc.Colon, List: cc.Body, Rbrace: cc.End()}}
						break
					}
				}
			}
		}
		if is == nil {
			continue
		}
		// error paths assign errs in the same block: not silent.
		silent := true
		for _, s := range is.Body.List {
			if as, ok := s.(*ast.AssignStmt); ok && len(as.Lhs) == 1 && types.ExprString(as.Lhs[0]) == "errs" {
				silent = false
			}
		}
		if !silent {
			continue
		}
		n++
		key := fmt.Sprintf("ygot.findSetLeaves$iter:skip#%d", n)
		if emptyLeafListCond(info, is.Cond) {
			r.OK(key, c.Pos(rs.Pos()), "leaf-list without entries (Binary excluded), which the gNMI decoder refuses: "+exprKey(is.Cond))
			continue
		}
		bad := ""
		ast.Inspect(is.Cond, func(x ast.Node) bool {
			call, ok := x.(*ast.CallExpr)
			if !ok {
				return true
			}
			if id, ok := call.Fun.(*ast.Ident); ok {
				if _, isB := info.Uses[id].(*types.Builtin); isB {
					if id.Name == "len" {
						return true
					}
				}
			}
			fn := FullName(Callee(info, call))
			if !allowedCalls[fn] {
				bad = short(fn)
			}
			return true
		})
		// the already-processed lookup and the err test use no calls; a Len() must be the ordered map's.
		r.Check(bad == "", key, c.Pos(rs.Pos()), "documented skip reason: "+exprKey(is.Cond), "findSetLeaves skips a populated field when `"+types.ExprString(is.Cond)+"` (uses "+bad+"), which is not one of the documented reasons: such leaves (e.g. a zero-length binary) are reported as deleted or not reported at all")
	}
}
