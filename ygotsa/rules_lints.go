package main

import (
	"encoding/json"
	"fmt"
	"go/ast"
	"go/token"
	"go/types"
	"os"
	"path/filepath"
	"strings"
)

// anchorScope returns a predicate over repo-relative file names built from the
// property's anchors.files in /verif/properties.jsonl plus extra files.
func anchorScope(prop string, extra ...string) func(string) bool {
	files := map[string]bool{}
	for _, e := range extra {
		files[e] = true
	}
	if b, err := os.ReadFile(filepath.Join(verifDir(), "properties.jsonl")); err == nil {
		for _, line := range strings.Split(string(b), "\n") {
			var p struct {
				ID      string `json:"id"`
				Anchors struct {
					Files []string `json:"files"`
				} `json:"anchors"`
			}
			if json.Unmarshal([]byte(line), &p) == nil && p.ID == prop {
				for _, f := range p.Anchors.Files {
					files[f] = true
				}
			}
		}
	}
	return func(name string) bool { return files[name] }
}

func (c *Ctx) relFile(p token.Pos) string {
	return relpos(c.Fset.Position(p).Filename)
}

// funcsInScope lists library functions whose file satisfies scope.
func (c *Ctx) funcsInScope(scope func(string) bool, pkgs []string) []*FuncInfo {
	var out []*FuncInfo
	for _, rel := range pkgs {
		for _, f := range c.AllFuncs(rel) {
			if scope(c.relFile(f.Decl.Pos())) {
				out = append(out, f)
			}
		}
	}
	return out
}

func isIntBasic(t types.Type) (*types.Basic, bool) {
	if t == nil {
		return nil, false
	}
	b, ok := t.Underlying().(*types.Basic)
	if !ok || b.Info()&types.IsInteger == 0 {
		return nil, false
	}
	return b, true
}

func intWidth(b *types.Basic) int {
	switch b.Kind() {
	case types.Int8, types.Uint8:
		return 8
	case types.Int16, types.Uint16:
		return 16
	case types.Int32, types.Uint32:
		return 32
	}
	return 64
}

// nonNegativeByContract: len, cap, copy, X.Len(), utf8.RuneCount*, reflect.Type.Size/NumField…
func nonNegativeByContract(info *types.Info, e ast.Expr) bool {
	call, ok := ast.Unparen(e).(*ast.CallExpr)
	if !ok {
		return false
	}
	if id, ok := call.Fun.(*ast.Ident); ok {
		if _, isB := info.Uses[id].(*types.Builtin); isB && (id.Name == "len" || id.Name == "cap" || id.Name == "copy") {
			return true
		}
	}
	fn := Callee(info, call)
	if fn == nil {
		return false
	}
	switch fn.Name() {
	case "Len", "NumField", "Size", "RuneCountInString", "RuneCount", "NumMethod", "Cap":
		return true
	}
	return false
}

// ruleSignConv: R-SIGN-CONV.
func ruleSignConv(c *Ctx, r *Report, fs []*FuncInfo, floor int) {
	r.Rule("R-SIGN-CONV", "no integer conversion that can change the value's sign/magnitude (signed↔unsigned at 64 bits) is applied to a runtime value without a dominating sign/range test", floor)
	for _, f := range fs {
		info := f.Info()
		n := 0
		ast.Inspect(f.Decl.Body, func(x ast.Node) bool {
			call, ok := x.(*ast.CallExpr)
			if !ok || len(call.Args) != 1 {
				return true
			}
			tv, ok := info.Types[call.Fun]
			if !ok || !tv.IsType() {
				return true
			}
			to, ok1 := isIntBasic(tv.Type)
			atv := info.Types[call.Args[0]]
			from, ok2 := isIntBasic(atv.Type)
			if !ok1 || !ok2 || atv.Value != nil {
				return true
			}
			toU, fromU := to.Info()&types.IsUnsigned != 0, from.Info()&types.IsUnsigned != 0
			if toU == fromU {
				return true
			}
			n++
			key := fmt.Sprintf("%s:conv#%d:%s->%s", f.Name, n, from.Name(), to.Name())
			pos := c.Pos(call.Pos())
			switch {
			case fromU && intWidth(from) < intWidth(to):
				r.OK(key, pos, "widening unsigned→signed is value preserving")
			case nonNegativeByContract(info, call.Args[0]):
				r.OK(key, pos, "operand is a length/count, non-negative by contract")
			case strings.HasSuffix(c.relFile(call.Pos()), "_string.go"):
				r.Exc(key, pos, "stringer-generated String method (index into a constant table)")
			default:
				arg := call.Args[0]
				facts := c.FactsAt(f, call, true)
				guarded := false
				for _, ft := range facts {
					if ft.Kind != "cond" {
						continue
					}
					if be, ok := ast.Unparen(ft.Cond).(*ast.BinaryExpr); ok {
						switch be.Op {
						case token.GEQ, token.LSS, token.LEQ, token.GTR:
							if sameExpr(info, be.X, arg) || sameExpr(info, be.Y, arg) {
								guarded = true
							}
						}
					}
				}
				// condition in the same if-statement header (`if v, ok := …; ok && v.X >= 0 {` handled by FactsAt).
				r.Check(guarded, key, pos, "dominated by a sign/range test of the operand",
					fmt.Sprintf("%s converts %s to %s without a sign/range test: values ≥ 2^63 (or negative values) silently change", types.ExprString(call), from.Name(), to.Name()))
			}
			return true
		})
	}
}

// ruleByteRune: R-BYTE-RUNE — a byte indexed out of a string reinterpreted as a rune.
func ruleByteRune(c *Ctx, r *Report, fs []*FuncInfo) {
	r.Rule("R-BYTE-RUNE", "string-processing code in scope never reinterprets a single byte of a string as a rune (rune(s[i])) and never compares a byte offset with a rune count", 1)
	for _, f := range fs {
		info := f.Info()
		bad := 0
		ast.Inspect(f.Decl.Body, func(x ast.Node) bool {
			call, ok := x.(*ast.CallExpr)
			if !ok || len(call.Args) != 1 {
				return true
			}
			tv, ok := info.Types[call.Fun]
			if !ok || !tv.IsType() {
				return true
			}
			tb, ok := tv.Type.Underlying().(*types.Basic)
			if !ok || (tb.Kind() != types.Int32 && tb.Kind() != types.String) {
				return true
			}
			if ix, ok := ast.Unparen(call.Args[0]).(*ast.IndexExpr); ok {
				if b, ok := info.Types[ix.X].Type.Underlying().(*types.Basic); ok && b.Info()&types.IsString != 0 {
					bad++
					r.Bad(fmt.Sprintf("%s:byte-as-rune#%d", f.Name, bad), c.Pos(call.Pos()),
						fmt.Sprintf("%s reinterprets one byte of a string as a character: every multi-byte (non-ASCII) character is corrupted", types.ExprString(call)))
				}
			}
			return true
		})
		bad += rangeLenInFunc(c, r, f)
		if bad == 0 {
			r.OK(f.Name+":byte-rune", c.Pos(f.Decl.Pos()), "no byte/rune confusion")
		}
	}
}

// unitOf classifies an integer expression as "byte" (byte offsets/lengths), "rune" (character
// counts), "const", or "" (unknown), following local definitions.
func unitOf(f *FuncInfo, e ast.Expr, depth int) string {
	info := f.Info()
	e = ast.Unparen(e)
	if depth > 5 {
		return ""
	}
	if tv, ok := info.Types[e]; ok && tv.Value != nil {
		return "const"
	}
	switch x := e.(type) {
	case *ast.CallExpr:
		if id, ok := x.Fun.(*ast.Ident); ok && id.Name == "len" && len(x.Args) == 1 {
			at := info.Types[x.Args[0]].Type
			if b, ok := at.Underlying().(*types.Basic); ok && b.Info()&types.IsString != 0 {
				return "byte"
			}
			if s, ok := at.Underlying().(*types.Slice); ok {
				if eb, ok := s.Elem().Underlying().(*types.Basic); ok && eb.Kind() == types.Int32 {
					return "rune"
				}
				return "byte"
			}
		}
		switch FullName(Callee(info, x)) {
		case "unicode/utf8.RuneCountInString", "unicode/utf8.RuneCount":
			return "rune"
		case "unicode/utf8.RuneLen", "strings.Index", "strings.LastIndex", "strings.IndexByte", "strings.IndexRune":
			return "byte"
		}
		if tv, ok := info.Types[x.Fun]; ok && tv.IsType() && len(x.Args) == 1 {
			return unitOf(f, x.Args[0], depth+1)
		}
	case *ast.BinaryExpr:
		a, b := unitOf(f, x.X, depth+1), unitOf(f, x.Y, depth+1)
		switch {
		case a == "rune" || b == "rune":
			return "rune"
		case a == "byte" && b == "const":
			if x.Op == token.SUB || x.Op == token.ADD {
				if v, ok := info.Types[x.Y]; ok && v.Value != nil && v.Value.ExactString() != "0" {
					return "byte±const" // assumes the adjacent character is exactly const bytes wide
				}
			}
			return "byte"
		case a == "byte" || b == "byte":
			return "byte"
		}
		return ""
	case *ast.Ident:
		obj := info.ObjectOf(x)
		// Definitions of the variable that textually precede this use, in order; the unit is the
		// join over the definitions from the latest one whose block also contains the use (it
		// dominates the use) onwards — later, conditional redefinitions may or may not have run.
		type def struct {
			pos  token.Pos
			unit string
		}
		var defs []def
		ast.Inspect(f.Decl.Body, func(n ast.Node) bool {
			switch s := n.(type) {
			case *ast.AssignStmt:
				for i, l := range s.Lhs {
					if ObjOf(info, l) != obj {
						continue
					}
					if len(s.Rhs) == len(s.Lhs) {
						defs = append(defs, def{s.Pos(), unitOf(f, s.Rhs[i], depth+1)})
					} else if len(s.Rhs) == 1 {
						// multi-value: utf8.DecodeLastRuneInString → (rune, size)
						if call, ok := s.Rhs[0].(*ast.CallExpr); ok {
							fn := FullName(Callee(info, call))
							if strings.HasPrefix(fn, "unicode/utf8.Decode") && i == 1 {
								defs = append(defs, def{s.Pos(), "byte"})
							}
						}
					}
				}
			case *ast.RangeStmt:
				if s.Key != nil && ObjOf(info, s.Key) == obj {
					if b, ok := info.Types[s.X].Type.Underlying().(*types.Basic); ok && b.Info()&types.IsString != 0 {
						defs = append(defs, def{s.Pos(), "byte"})
					}
				}
			}
			return true
		})
		res := ""
		for i := len(defs) - 1; i >= 0; i-- {
			d := defs[i]
			if d.pos >= x.Pos() {
				continue
			}
			switch {
			case d.unit == "":
			case res == "":
				res = d.unit
			case res != d.unit:
				return "mixed " + d.unit + "/" + res
			}
			if blk := smallestBlock(f.Decl.Body, d.pos); blk != nil && blk.Pos() <= x.Pos() && x.Pos() < blk.End() {
				break
			}
		}
		return res
	}
	return ""
}

// smallestBlock: the innermost block statement or case clause of body that contains pos.
func smallestBlock(body *ast.BlockStmt, pos token.Pos) ast.Node {
	var best ast.Node
	ast.Inspect(body, func(n ast.Node) bool {
		if n == nil || pos < n.Pos() || pos >= n.End() {
			return n != nil && n.Pos() <= pos
		}
		switch n.(type) {
		case *ast.BlockStmt, *ast.CaseClause, *ast.CommClause:
			best = n
		}
		return true
	})
	return best
}

// rangeLenInFunc: R-RANGE-LEN — inside `for i, r := range s` (s string) comparisons of the byte
// offset i with a rune count or with len(s)±const.
func rangeLenInFunc(c *Ctx, r *Report, f *FuncInfo) int {
	info := f.Info()
	bad := 0
	ast.Inspect(f.Decl.Body, func(n ast.Node) bool {
		rs, ok := n.(*ast.RangeStmt)
		if !ok || rs.Key == nil {
			return true
		}
		b, ok := info.Types[rs.X].Type.Underlying().(*types.Basic)
		if !ok || b.Info()&types.IsString == 0 {
			return true
		}
		iobj := ObjOf(info, rs.Key)
		if iobj == nil {
			return true
		}
		ast.Inspect(rs.Body, func(m ast.Node) bool {
			be, ok := m.(*ast.BinaryExpr)
			if !ok {
				return true
			}
			switch be.Op {
			case token.EQL, token.NEQ, token.LSS, token.LEQ, token.GTR, token.GEQ:
			default:
				return true
			}
			var other ast.Expr
			if ObjOf(info, be.X) == iobj {
				other = be.Y
			} else if ObjOf(info, be.Y) == iobj {
				other = be.X
			} else {
				return true
			}
			u := unitOf(f, other, 0)
			if u == "rune" || u == "byte±const" {
				bad++
				r.Bad(fmt.Sprintf("%s:range-index-vs-%s#%d", f.Name, u, bad), c.Pos(be.Pos()),
					fmt.Sprintf("the byte offset of a range over a string is compared with %s (%s): wrong as soon as the string holds a multi-byte character", types.ExprString(other), u))
			}
			return true
		})
		return true
	})
	return bad
}

// ---- R-APPEND-ALIAS ---------------------------------------------------------------

// freshLocal reports whether identifier id is a local slice variable all of whose
// definitions are fresh (nil decl, literal, make, append to itself or to a fresh slice).
func freshLocal(f *FuncInfo, id *ast.Ident, depth int) bool {
	info := f.Info()
	obj := info.ObjectOf(id)
	if obj == nil || depth > 4 {
		return false
	}
	if rootParamOfObj(f, obj) {
		return false
	}
	fresh := true
	seen := false
	ast.Inspect(f.Decl, func(n ast.Node) bool {
		switch s := n.(type) {
		case *ast.ValueSpec:
			for i, nm := range s.Names {
				if info.ObjectOf(nm) == obj {
					seen = true
					if len(s.Values) > i && !freshExpr(f, s.Values[i], obj, depth) {
						fresh = false
					}
				}
			}
		case *ast.AssignStmt:
			for i, l := range s.Lhs {
				if ObjOf(info, l) != obj {
					continue
				}
				if _, isIdent := l.(*ast.Ident); !isIdent {
					continue
				}
				seen = true
				if len(s.Rhs) == len(s.Lhs) {
					if !freshExpr(f, s.Rhs[i], obj, depth) {
						fresh = false
					}
				} else {
					// multi-value call result: unknown provenance, treated as fresh (results of
					// calls are checked at the callee).
				}
			}
		case *ast.RangeStmt:
			if (s.Key != nil && ObjOf(info, s.Key) == obj) || (s.Value != nil && ObjOf(info, s.Value) == obj) {
				seen = true
				fresh = false
			}
		}
		return true
	})
	return seen && fresh
}

func paramIndex(f *FuncInfo, obj types.Object) int {
	i := 0
	for _, fl := range f.Decl.Type.Params.List {
		for _, n := range fl.Names {
			if f.Info().ObjectOf(n) == obj {
				return i
			}
			i++
		}
	}
	return -1
}

func rootParamOfObj(f *FuncInfo, obj types.Object) bool {
	info := f.Info()
	if f.Decl.Recv != nil {
		for _, fl := range f.Decl.Recv.List {
			for _, n := range fl.Names {
				if info.ObjectOf(n) == obj {
					return true
				}
			}
		}
	}
	for _, fl := range f.Decl.Type.Params.List {
		for _, n := range fl.Names {
			if info.ObjectOf(n) == obj {
				return true
			}
		}
	}
	return false
}

func freshExpr(f *FuncInfo, e ast.Expr, self types.Object, depth int) bool {
	info := f.Info()
	e = ast.Unparen(e)
	switch x := e.(type) {
	case *ast.CompositeLit:
		return true
	case *ast.Ident:
		if x.Name == "nil" {
			return true
		}
		if info.ObjectOf(x) == self {
			return true
		}
		return freshLocal(f, x, depth+1)
	case *ast.CallExpr:
		if id, ok := x.Fun.(*ast.Ident); ok {
			if _, isB := info.Uses[id].(*types.Builtin); isB {
				switch id.Name {
				case "make":
					return true
				case "append":
					return len(x.Args) > 0 && freshExpr(f, x.Args[0], self, depth)
				}
			}
		}
		if tv, ok := info.Types[x.Fun]; ok && tv.IsType() && len(x.Args) == 1 {
			// conversion []T(nil) / []T(x)
			return freshExpr(f, x.Args[0], self, depth)
		}
		// result of a function call: provenance is the callee's business; the common helpers
		// (strings.Split, Copy(), proto.Clone …) return fresh slices.
		if sel, ok := x.Fun.(*ast.SelectorExpr); ok {
			if _, isMethod := info.Selections[sel]; isMethod && strings.HasPrefix(sel.Sel.Name, "Get") {
				return false // protobuf getters return the message's own slice
			}
		}
		return true
	case *ast.SliceExpr:
		return freshExpr(f, x.X, self, depth)
	}
	return false
}

// ruleAppendAlias flags append(X, …) where X is not a fresh local and the result is not
// stored back into X itself: the append may write into the backing array that X's owner
// (a caller's message, a tree, another result) still uses.
func ruleAppendAlias(c *Ctx, r *Report, fs []*FuncInfo, floor int) {
	r.Rule("R-APPEND-ALIAS", "append is only applied to a slice the function owns (fresh local) or grows a slice in place (x = append(x, …)); appending to a parameter-/field-derived slice into a different destination can overwrite the owner's spare capacity and shares its backing array", floor)
	for _, f := range fs {
		info := f.Info()
		pm := c.parentMap(f.File)
		n := 0
		ast.Inspect(f.Decl.Body, func(x ast.Node) bool {
			call, ok := x.(*ast.CallExpr)
			if !ok || len(call.Args) == 0 {
				return true
			}
			id, ok := call.Fun.(*ast.Ident)
			if !ok || id.Name != "append" {
				return true
			}
			if _, isB := info.Uses[id].(*types.Builtin); !isB {
				return true
			}
			n++
			base := ast.Unparen(call.Args[0])
			key := fmt.Sprintf("%s:append#%d(%s)", f.Name, n, exprKey(base))
			pos := c.Pos(call.Pos())
			// in-place growth: parent is an assignment whose LHS is the same expression
			// (or the interface variable the base was asserted from).
			if as, ok := pm[call].(*ast.AssignStmt); ok {
				for i, rhs := range as.Rhs {
					if rhs != ast.Expr(call) || i >= len(as.Lhs) {
						continue
					}
					b := base
					if ta, ok := b.(*ast.TypeAssertExpr); ok {
						b = ta.X
					}
					if sameExpr(info, as.Lhs[i], base) || sameExpr(info, as.Lhs[i], b) {
						r.OK(key, pos, "grows the slice in place")
						return true
					}
				}
			}
			// append wrapper: `return append(param, …)` — ownership stays with the caller, whose
			// call sites are checked instead (result must be stored back into the argument).
			if _, ok := pm[call].(*ast.ReturnStmt); ok {
				if id, ok := base.(*ast.Ident); ok && rootParamOfObj(f, info.ObjectOf(id)) {
					idx := paramIndex(f, info.ObjectOf(id))
					bad := 0
					for _, g := range c.funcsInScope(func(string) bool { return true }, append(append([]string{}, libPkgs...), genPkgs...)) {
						ginfo := g.Info()
						gpm := c.parentMap(g.File)
						ast.Inspect(g.Decl.Body, func(y ast.Node) bool {
							cc, ok := y.(*ast.CallExpr)
							if !ok || Callee(ginfo, cc) == nil || Callee(ginfo, cc).Origin() != f.Obj || idx >= len(cc.Args) {
								return true
							}
							arg := ast.Unparen(cc.Args[idx])
							okSite := freshExpr(g, arg, nil, 0)
							switch p := gpm[cc].(type) {
							case *ast.AssignStmt:
								if len(p.Lhs) > 0 && sameExpr(ginfo, p.Lhs[0], arg) {
									okSite = true
								}
							case *ast.ReturnStmt:
								// forwarding wrapper
								if aid, ok := arg.(*ast.Ident); ok && rootParamOfObj(g, ginfo.ObjectOf(aid)) {
									okSite = true
								}
							}
							if !okSite {
								bad++
								r.Bad(fmt.Sprintf("%s:append-wrapper-call:%s", g.Name, ShortName(f.Obj)), c.Pos(cc.Pos()),
									fmt.Sprintf("%s appends to its argument and returns it; this call passes %s (not owned here) and stores the result elsewhere", ShortName(f.Obj), types.ExprString(arg)))
							}
							return true
						})
					}
					if bad == 0 {
						r.OK(key, pos, "append wrapper; every call site stores the result back into the argument")
					}
					return true
				}
			}
			if freshExpr(f, base, nil, 0) {
				r.OK(key, pos, "base slice is fresh/owned by this function")
				return true
			}
			r.Bad(key, pos, fmt.Sprintf("append(%s, …) appends to a slice this function does not own and stores the result elsewhere: the owner's backing array may be overwritten and is shared with the result", types.ExprString(base)))
			return true
		})
	}
}

// exprKey renders an expression without literals' positions (stable construct key).
func exprKey(e ast.Expr) string {
	s := types.ExprString(e)
	if len(s) > 60 {
		s = s[:60]
	}
	return s
}

// ---- R-OPTS-FORWARD -------------------------------------------------------------

// ruleOptsForward: a function that receives variadic options of type T forwards them to every
// callee (in this module) that takes variadic options of the same type T.
func ruleOptsForward(c *Ctx, r *Report, fs []*FuncInfo, floor int) {
	r.Rule("R-OPTS-FORWARD", "a function that receives variadic options forwards them (opts...) to every module callee taking options of the same type; a dropped opts silently resets behaviour below that call", floor)
	for _, f := range fs {
		sig := f.Obj.Type().(*types.Signature)
		if !sig.Variadic() {
			continue
		}
		vp := sig.Params().At(sig.Params().Len() - 1)
		vt := vp.Type().(*types.Slice).Elem()
		info := f.Info()
		n := 0
		ast.Inspect(f.Decl.Body, func(x ast.Node) bool {
			call, ok := x.(*ast.CallExpr)
			if !ok {
				return true
			}
			g := Callee(info, call)
			if g == nil || g.Pkg() == nil || !strings.HasPrefix(g.Pkg().Path(), modPath) {
				return true
			}
			gs := g.Type().(*types.Signature)
			if !gs.Variadic() {
				return true
			}
			gt := gs.Params().At(gs.Params().Len() - 1).Type().(*types.Slice).Elem()
			if !types.Identical(gt, vt) {
				return true
			}
			n++
			key := fmt.Sprintf("%s:call#%d:%s", f.Name, n, ShortName(g))
			forwarded := call.Ellipsis.IsValid() && len(call.Args) == gs.Params().Len()
			if forwarded {
				// the forwarded slice must be the parameter or derived from it.
				last := ast.Unparen(call.Args[len(call.Args)-1])
				if id, ok := last.(*ast.Ident); ok && info.ObjectOf(id) != vp {
					// a local: must be built from the parameter (append(opts, …), filtered copy…)
					mentions := false
					ast.Inspect(f.Decl.Body, func(y ast.Node) bool {
						if as, ok := y.(*ast.AssignStmt); ok {
							for i, l := range as.Lhs {
								if ObjOf(info, l) == info.ObjectOf(id) && i < len(as.Rhs) {
									ast.Inspect(as.Rhs[i], func(z ast.Node) bool {
										if zi, ok := z.(*ast.Ident); ok && info.ObjectOf(zi) == vp {
											mentions = true
										}
										return true
									})
								}
							}
						}
						return true
					})
					forwarded = mentions
				}
			}
			r.Check(forwarded, key, c.Pos(call.Pos()), "options forwarded",
				fmt.Sprintf("%s receives options (%s) but calls %s without forwarding them: the callee runs with default behaviour", f.Name, vp.Name(), ShortName(g)))
			return true
		})
		// helper boundary: a module function without an options parameter of type T that f reaches
		// (through other such helpers) cannot forward f's options; if it calls a callee that takes
		// options of type T, everything below that call runs with default behaviour.
		takesT := func(fn *types.Func) bool {
			s, ok := fn.Type().(*types.Signature)
			if !ok || !s.Variadic() {
				return false
			}
			return types.Identical(s.Params().At(s.Params().Len()-1).Type().(*types.Slice).Elem(), vt)
		}
		seen := map[*FuncInfo]bool{f: true}
		var visit func(h *FuncInfo, via string, depth int)
		visit = func(h *FuncInfo, via string, depth int) {
			if depth > 4 {
				return
			}
			hinfo := h.Info()
			k := 0
			ast.Inspect(h.Decl.Body, func(x ast.Node) bool {
				call, ok := x.(*ast.CallExpr)
				if !ok {
					return true
				}
				g := Callee(hinfo, call)
				if g == nil {
					return true
				}
				if takesT(g) {
					// a helper that passes options of its own choosing has decided the behaviour
					// below it; only a call with no options at all is a silent reset.
					noOpts := len(call.Args) == g.Type().(*types.Signature).Params().Len()-1
					if h != f && noOpts && strings.HasPrefix(g.Pkg().Path(), modPath) {
						k++
						r.Bad(fmt.Sprintf("%s:via:%s:call#%d:%s", f.Name, h.Name, k, ShortName(g)), c.Pos(call.Pos()),
							fmt.Sprintf("%s receives options (%s) and reaches %s (%s), which has no options parameter and calls %s: the callee runs with default behaviour whatever options %s was given", f.Name, vp.Name(), h.Name, via, ShortName(g), f.Name))
					}
					return true
				}
				gh := c.funcOfCallee(g)
				if gh == nil || seen[gh] || gh.Decl.Body == nil || gh.Obj.Pkg() != f.Obj.Pkg() || gh.Obj.Exported() {
					return true
				}
				seen[gh] = true
				visit(gh, via+"→"+gh.Name, depth+1)
				return true
			})
		}
		visit(f, f.Name, 0)
	}
}

// ruleLengthUnits: the length handed to lengthOk is counted in characters for strings and in
// bytes for binary (RFC 7950 §9.4.4 / §9.8.3).
func ruleLengthUnits(c *Ctx, r *Report) {
	r.Rule("R-LENGTH-UNIT", "string length restrictions are checked against a character count (utf8.RuneCountInString), binary length restrictions against a byte count", 2)
	for _, w := range []struct{ fn, unit, what string }{
		{"ValidateStringRestrictions", "rune", "characters"},
		{"ValidateBinaryRestrictions", "byte", "bytes"},
	} {
		f := c.MustFunc(r, "ytypes", w.fn)
		if f == nil {
			continue
		}
		calls := CallsIn(f.Info(), f.Decl.Body, P("ytypes")+".lengthOk")
		if len(calls) == 0 {
			r.Bad("ytypes."+w.fn+":lengthOk", c.Pos(f.Decl.Pos()), w.fn+" no longer checks the length restriction (no call to lengthOk)")
			continue
		}
		for i, call := range calls {
			u := ""
			if len(call.Args) == 2 {
				u = unitOf(f, call.Args[1], 0)
			}
			r.Check(u == w.unit, fmt.Sprintf("ytypes.%s:lengthOk#%d:unit", w.fn, i+1), c.Pos(call.Pos()), "length counted in "+w.what,
				fmt.Sprintf("%s passes a length measured in %q units to lengthOk, RFC 7950 counts %s: values with multi-byte characters are wrongly accepted/rejected", w.fn, u, w.what))
		}
	}
}

// ---- R-PARAM-STORE ---------------------------------------------------------------

// sharedInputType: named types that are inputs shared with the caller (never owned by the
// library): gNMI/protobuf messages, goyang schema nodes, ygot/ytypes option and schema structs.
func sharedInputType(t types.Type) string {
	for {
		switch x := t.(type) {
		case *types.Pointer:
			t = x.Elem()
			continue
		case *types.Slice:
			t = x.Elem()
			continue
		case *types.Map:
			t = x.Elem()
			continue
		}
		break
	}
	n := namedTypeOf(t)
	switch {
	case strings.HasPrefix(n, "github.com/openconfig/gnmi/proto/"):
		return n
	case strings.HasPrefix(n, "github.com/openconfig/goyang/pkg/yang."):
		return n
	case n == P("ygot")+".RFC7951JSONConfig", n == P("ygot")+".EmitJSONConfig", n == P("ygot")+".GNMINotificationsConfig",
		n == P("ytypes")+".Schema", n == P("ytypes")+".LeafrefOptions", n == P("ygot")+".DiffPathOpt":
		return n
	}
	return ""
}

// ruleParamStore: no function in scope assigns through a parameter of shared-input type.
func ruleParamStore(c *Ctx, r *Report, fs []*FuncInfo, floor int) {
	r.Rule("R-PARAM-STORE", "no library function stores into (a field, element or pointee of) a parameter whose type is a shared input — gNMI/protobuf messages, goyang schema nodes, option/config/schema structs; such inputs are shared between calls and goroutines", floor)
	for _, f := range fs {
		info := f.Info()
		// parameters (incl. receiver) of shared-input type
		shared := map[types.Object]string{}
		collect := func(fl *ast.FieldList) {
			if fl == nil {
				return
			}
			for _, fld := range fl.List {
				for _, n := range fld.Names {
					if o := info.ObjectOf(n); o != nil {
						if s := sharedInputType(o.Type()); s != "" {
							shared[o] = s
						}
					}
				}
			}
		}
		collect(f.Decl.Recv)
		collect(f.Decl.Type.Params)
		if len(shared) == 0 && !hasInterfaceParam(f) {
			continue
		}
		bad := 0
		ast.Inspect(f.Decl.Body, func(x ast.Node) bool {
			var lhss []ast.Expr
			switch s := x.(type) {
			case *ast.AssignStmt:
				lhss = s.Lhs
			case *ast.IncDecStmt:
				lhss = []ast.Expr{s.X}
			default:
				return true
			}
			for _, l := range lhss {
				l = ast.Unparen(l)
				switch l.(type) {
				case *ast.SelectorExpr, *ast.IndexExpr, *ast.StarExpr:
				default:
					continue
				}
				rootObj := storeRoot(f, l, 0)
				if rootObj == nil {
					continue
				}
				ty, ok := shared[rootObj]
				if !ok && rootParamOfObj(f, rootObj) {
					// a parameter of interface type (variadic options, `any`): what is stored
					// through is judged by the static type of the value the store goes through.
					var base ast.Expr
					switch b := l.(type) {
					case *ast.SelectorExpr:
						base = b.X
					case *ast.StarExpr:
						base = b.X
					}
					if base != nil {
						if tv, has := info.Types[base]; has && tv.Type != nil {
							if sty := sharedInputType(tv.Type); sty != "" {
								ty, ok = sty, true
							}
						}
					}
				}
				if ok {
					if why := builderParam(c, f, rootObj, 0); why != "" {
						r.OK(fmt.Sprintf("%s:builder-param(%s)", f.Name, rootObj.Name()), c.Pos(l.Pos()), why)
						continue
					}
					bad++
					r.Bad(fmt.Sprintf("%s:store#%d(%s)", f.Name, bad, exprKey(l)), c.Pos(l.Pos()),
						fmt.Sprintf("%s assigns to %s, which is reached from parameter %s of shared-input type %s: the caller's value is modified", f.Name, types.ExprString(l), rootObj.Name(), short(ty)))
				}
			}
			return true
		})
		if bad == 0 {
			r.OK(f.Name+":no-store-through-shared-param", c.Pos(f.Decl.Pos()), fmt.Sprintf("%d shared-input parameter(s), none stored through", len(shared)))
		}
	}
}

// storeRoot finds the parameter object an lvalue is rooted at, following selectors, indexing,
// dereferences, getter calls and local aliases (x := p.F; x.G = …). Fresh locals give nil.
func storeRoot(f *FuncInfo, e ast.Expr, depth int) types.Object {
	info := f.Info()
	e = ast.Unparen(e)
	if depth > 8 {
		return nil
	}
	switch x := e.(type) {
	case *ast.Ident:
		obj := info.ObjectOf(x)
		if obj == nil {
			return nil
		}
		if rootParamOfObj(f, obj) {
			return obj
		}
		// local alias: every definition must be inspected; value copies of structs are not aliases.
		if _, isPtrLike := obj.Type().Underlying().(*types.Struct); isPtrLike {
			return nil
		}
		var res types.Object
		ast.Inspect(f.Decl.Body, func(n ast.Node) bool {
			switch s := n.(type) {
			case *ast.AssignStmt:
				for i, l := range s.Lhs {
					if id, ok := l.(*ast.Ident); ok && info.ObjectOf(id) == obj && len(s.Rhs) == len(s.Lhs) {
						if ro := storeRoot(f, s.Rhs[i], depth+1); ro != nil {
							res = ro
						}
					}
				}
			case *ast.RangeStmt:
				if s.Value != nil && ObjOf(info, s.Value) == obj {
					if ro := storeRoot(f, s.X, depth+1); ro != nil {
						res = ro
					}
				}
			case *ast.TypeSwitchStmt:
				// switch v := o.(type): v in each clause is an implicit object aliasing o.
				as, ok := s.Assign.(*ast.AssignStmt)
				if !ok || len(as.Rhs) != 1 {
					return true
				}
				ta, ok := as.Rhs[0].(*ast.TypeAssertExpr)
				if !ok {
					return true
				}
				for _, cc := range s.Body.List {
					if info.Implicits[cc] == obj {
						if ro := storeRoot(f, ta.X, depth+1); ro != nil {
							res = ro
						}
					}
				}
			}
			return true
		})
		return res
	case *ast.SelectorExpr:
		if _, isPkg := info.Uses[identOf(x.X)].(*types.PkgName); isPkg {
			return nil
		}
		return storeRoot(f, x.X, depth+1)
	case *ast.IndexExpr:
		return storeRoot(f, x.X, depth+1)
	case *ast.StarExpr:
		return storeRoot(f, x.X, depth+1)
	case *ast.SliceExpr:
		return storeRoot(f, x.X, depth+1)
	case *ast.UnaryExpr:
		if x.Op == token.AND {
			return storeRoot(f, x.X, depth+1)
		}
	case *ast.CallExpr:
		// protobuf-style getter on a param: p.GetX() aliases p's field.
		if sel, ok := x.Fun.(*ast.SelectorExpr); ok {
			if _, isMethod := info.Selections[sel]; isMethod && strings.HasPrefix(sel.Sel.Name, "Get") {
				return storeRoot(f, sel.X, depth+1)
			}
		}
	case *ast.TypeAssertExpr:
		return storeRoot(f, x.X, depth+1)
	}
	return nil
}

func identOf(e ast.Expr) *ast.Ident {
	id, _ := ast.Unparen(e).(*ast.Ident)
	return id
}

// builderParam: parameter obj of f is a value under construction — every call site of f in the
// module passes a value that is fresh in the caller (composite literal, &T{}, new, call result,
// proto.Clone) or the caller's own builder parameter. Returns the reason, or "".
func builderParam(c *Ctx, f *FuncInfo, obj types.Object, depth int) string {
	if depth > 3 || f.Obj == nil {
		return ""
	}
	idx := paramIndex(f, obj)
	if idx < 0 {
		return ""
	}
	sites, fresh := 0, 0
	for _, g := range c.funcsInScope(func(string) bool { return true }, append(append([]string{}, libPkgs...), genPkgs...)) {
		ginfo := g.Info()
		ast.Inspect(g.Decl.Body, func(y ast.Node) bool {
			cc, ok := y.(*ast.CallExpr)
			if !ok {
				return true
			}
			cal := Callee(ginfo, cc)
			if cal == nil || cal.Origin() != f.Obj || idx >= len(cc.Args) {
				return true
			}
			sites++
			arg := ast.Unparen(cc.Args[idx])
			switch {
			case storeRoot(g, arg, 0) == nil:
				fresh++ // not rooted at any parameter of the caller: local/fresh value
			default:
				ro := storeRoot(g, arg, 0)
				if g.Obj == f.Obj && ro == obj {
					fresh++ // recursion on the same parameter
				} else if builderParam(c, g, ro, depth+1) != "" {
					fresh++
				}
			}
			return true
		})
	}
	if sites > 0 && sites == fresh {
		return fmt.Sprintf("value under construction: all %d call sites pass a value that is local to the caller", sites)
	}
	return ""
}

// anchored lists library functions declared in the property's anchor files (+ extra files).
func (c *Ctx) anchored(prop string, extra ...string) []*FuncInfo {
	return c.funcsInScope(anchorScope(prop, extra...), libPkgs)
}

// entryReach lists functions reachable through static calls from the named entries
// ("pkgrel.Func"), restricted to library packages.
func (c *Ctx) entryReach(r *Report, entries ...string) []*FuncInfo {
	return c.entryReachCut(r, nil, entries...)
}

func (c *Ctx) entryReachCut(r *Report, cut func(*FuncInfo) bool, entries ...string) []*FuncInfo {
	var roots []*FuncInfo
	for _, e := range entries {
		i := strings.LastIndex(e, ":")
		f := c.MustFunc(r, e[:i], e[i+1:])
		if f != nil {
			roots = append(roots, f)
		}
	}
	lib := map[string]bool{}
	for _, p := range libPkgs {
		lib[P(p)] = true
	}
	var out []*FuncInfo
	for _, f := range c.astReachCut(cut, roots...) {
		if lib[f.Pkg.PkgPath] {
			out = append(out, f)
		}
	}
	return out
}

// ruleReflectSign: R-REFLECT-SIGN — inside an arm of `switch v.Kind()` that covers unsigned kinds,
// reading the value through Int() (directly or after Convert to a signed type) loses values ≥ 2^63
// (and Int() on an unsigned Value panics); symmetrically Uint() in arms covering signed kinds.
func ruleReflectSign(c *Ctx, r *Report, fs []*FuncInfo, floor int) {
	r.Rule("R-REFLECT-SIGN", "in a reflect kind dispatch an arm that covers unsigned kinds never reads the value with Int()/Convert(<signed>) and an arm that covers signed kinds never reads it with Uint()/Convert(<unsigned>), and the text of a number is parsed with the strconv parser of the arm's signedness: uint64 values ≥ 2^63 and negative values must keep their magnitude", floor)
	unsigned := map[string]bool{"reflect.Uint": true, "reflect.Uint8": true, "reflect.Uint16": true, "reflect.Uint32": true, "reflect.Uint64": true, "reflect.Uintptr": true}
	signed := map[string]bool{"reflect.Int": true, "reflect.Int8": true, "reflect.Int16": true, "reflect.Int32": true, "reflect.Int64": true}
	for _, f := range fs {
		info := f.Info()
		for ti, t := range KindSwitches(f, "reflect.Kind") {
			for ai, a := range t.Arms {
				if a.Deflt {
					continue
				}
				hasU, hasS := false, false
				for _, k := range a.Keys {
					if unsigned[k] {
						hasU = true
					}
					if signed[k] {
						hasS = true
					}
				}
				if !hasU && !hasS {
					continue
				}
				key := fmt.Sprintf("%s:kind-switch#%d:arm#%d(%s)", f.Name, ti+1, ai+1, strings.Join(a.Keys, ","))
				bad := ""
				var badPos token.Pos
				var parseInt, parseUint *ast.CallExpr
				ast.Inspect(a.Node, func(n ast.Node) bool {
					call, ok := n.(*ast.CallExpr)
					if !ok {
						return true
					}
					fn := FullName(Callee(info, call))
					switch fn {
					case "strconv.ParseInt":
						parseInt = call
					case "strconv.ParseUint":
						parseUint = call
					case "reflect.Value.Int":
						if hasU {
							bad, badPos = "reads an unsigned value with Int()", call.Pos()
						}
					case "reflect.Value.Uint":
						if hasS {
							bad, badPos = "reads a signed value with Uint()", call.Pos()
						}
					case "reflect.Value.Convert":
						if len(call.Args) == 1 {
							// the target type: reflect.TypeOf(int64(0)) or a variable initialised so.
							tt := convTargetKind(f, call.Args[0])
							if hasU && strings.HasPrefix(tt, "int") {
								bad, badPos = "converts an unsigned value to "+tt, call.Pos()
							}
							if hasS && strings.HasPrefix(tt, "uint") {
								bad, badPos = "converts a signed value to "+tt, call.Pos()
							}
						}
					}
					return true
				})
				// the text of a number is parsed with the parser of the arm's signedness: ParseInt
				// rejects [2^63, 2^64), ParseUint rejects every negative number.
				if bad == "" && hasU && parseInt != nil && parseUint == nil {
					bad, badPos = "parses the text of an unsigned value with strconv.ParseInt (values in [2^63, 2^64) are rejected)", parseInt.Pos()
				}
				if bad == "" && hasS && parseUint != nil && parseInt == nil {
					bad, badPos = "parses the text of a signed value with strconv.ParseUint (negative values are rejected)", parseUint.Pos()
				}
				pos := a.Node.Pos()
				if bad != "" {
					pos = badPos
				}
				r.Check(bad == "", key, c.Pos(pos), "value read with the accessor of its own signedness", f.Name+" "+bad+" in the arm for "+strings.Join(a.Keys, ",")+": uint64 values ≥ 2^63 wrap to negative numbers (or negative values to huge ones)")
			}
		}
	}
}

// convTargetKind: name of the basic type a reflect.Type expression denotes (reflect.TypeOf(int64(0)),
// or a package-level/local variable initialised with such a call).
func convTargetKind(f *FuncInfo, e ast.Expr) string {
	info := f.Info()
	e = ast.Unparen(e)
	if call, ok := e.(*ast.CallExpr); ok && FullName(Callee(info, call)) == "reflect.TypeOf" && len(call.Args) == 1 {
		if tv, ok := info.Types[call.Args[0]]; ok {
			if b, ok := tv.Type.Underlying().(*types.Basic); ok {
				return b.Name()
			}
		}
		return ""
	}
	obj := ObjOf(info, e)
	if obj == nil {
		return ""
	}
	res := ""
	for _, file := range f.Pkg.Syntax {
		ast.Inspect(file, func(n ast.Node) bool {
			switch s := n.(type) {
			case *ast.ValueSpec:
				for i, nm := range s.Names {
					if info.ObjectOf(nm) == obj && i < len(s.Values) {
						if call, ok := s.Values[i].(*ast.CallExpr); ok && FullName(Callee(info, call)) == "reflect.TypeOf" && len(call.Args) == 1 {
							if tv, ok := info.Types[call.Args[0]]; ok {
								if b, ok := tv.Type.Underlying().(*types.Basic); ok {
									res = b.Name()
								}
							}
						}
					}
				}
			case *ast.AssignStmt:
				for i, l := range s.Lhs {
					if ObjOf(info, l) == obj && i < len(s.Rhs) {
						if call, ok := s.Rhs[i].(*ast.CallExpr); ok && FullName(Callee(info, call)) == "reflect.TypeOf" && len(call.Args) == 1 {
							if tv, ok := info.Types[call.Args[0]]; ok {
								if b, ok := tv.Type.Underlying().(*types.Basic); ok {
									res = b.Name()
								}
							}
						}
					}
				}
			}
			return true
		})
	}
	return res
}

// hasInterfaceParam: f has a parameter whose type is an interface or a slice of interfaces.
func hasInterfaceParam(f *FuncInfo) bool {
	sig, ok := f.Obj.Type().(*types.Signature)
	if !ok {
		return false
	}
	for i := 0; i < sig.Params().Len(); i++ {
		t := sig.Params().At(i).Type()
		if sl, ok := t.Underlying().(*types.Slice); ok {
			t = sl.Elem()
		}
		if _, ok := t.Underlying().(*types.Interface); ok {
			return true
		}
	}
	return false
}
