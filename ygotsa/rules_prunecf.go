package main

import (
	"fmt"
	"go/ast"
	"go/token"
	"go/types"
)

// flattenOr returns the disjuncts of e.
func flattenOr(e ast.Expr, out *[]ast.Expr) {
	e = ast.Unparen(e)
	if be, ok := e.(*ast.BinaryExpr); ok && be.Op == token.LOR {
		flattenOr(be.X, out)
		flattenOr(be.Y, out)
		return
	}
	*out = append(*out, e)
}

// firstFuncLit returns the first function literal assigned to a variable or passed as an argument in body.
func firstFuncLit(body ast.Node) *ast.FuncLit {
	var out *ast.FuncLit
	ast.Inspect(body, func(n ast.Node) bool {
		if fl, ok := n.(*ast.FuncLit); ok && out == nil {
			out = fl
		}
		return out == nil
	})
	return out
}

// rulePruneConfigFalse: R-PRUNE-CF (C32).
func rulePruneConfigFalse(c *Ctx, r *Report) {
	r.Rule("R-PRUNE-CF", "PruneConfigFalse walks the whole struct unconditionally with its iterator; the iterator's only write zeroes ni.FieldValue and is reached only when util.IsConfig(ni.Schema) is false; every path that skips a field does so for one of the documented reasons (nil/invalid/zero field, config-true schema, compressed-leaf annotation, unaddressable root); util.IsConfig is the negation of goyang's inherited ReadOnly", 8)
	f := c.MustFunc(r, "ygot", "PruneConfigFalse")
	if f == nil {
		return
	}
	info := f.Info()
	walks := CallsIn(info, f.Decl.Body, P("util")+".ForEachField")
	// the iterator: a closure in PruneConfigFalse, or a package-level function handed to the walk.
	iterF := f
	var iterBody *ast.BlockStmt
	var iterParams *ast.FieldList
	var iterNode ast.Node
	if fl := firstFuncLit(f.Decl.Body); fl != nil {
		iterBody, iterParams, iterNode = fl.Body, fl.Type.Params, fl
	} else if len(walks) == 1 && len(walks[0].Args) == 5 {
		if fn, ok := ObjOf(info, walks[0].Args[4]).(*types.Func); ok {
			if g := c.funcOfCallee(fn); g != nil {
				iterF, iterBody, iterParams, iterNode = g, g.Decl.Body, g.Decl.Type.Params, g.Decl
			}
		}
	}
	if iterBody == nil || len(walks) != 1 {
		r.Und("ygot.PruneConfigFalse:shape", c.Pos(f.Decl.Pos()), "iterator (closure or function) or the single ForEachField call not found")
		return
	}
	walk := walks[0]
	// (1) the walk is unconditional: no return of PruneConfigFalse itself lexically precedes it and no condition encloses it.
	early := 0
	for _, rs := range returnsOf(f.Decl.Body) {
		if rs.Pos() < walk.Pos() {
			early++
		}
	}
	condFree := true
	for _, ft := range c.FactsAt(f, walk, false) {
		if ft.Kind != "" {
			condFree = false
		}
	}
	okArgs := len(walk.Args) == 5 && paramIndex(f, ObjOf(info, walk.Args[0])) == 0 && paramIndex(f, ObjOf(info, walk.Args[1])) == 1
	r.Check(early == 0 && condFree && okArgs, "ygot.PruneConfigFalse:walk-unconditional", c.Pos(walk.Pos()), "ForEachField(schema, s, …) on every call",
		"PruneConfigFalse can return before (or without) walking the struct with the schema and struct it was given: config-false data survives for inputs on that path (e.g. a subtree that is config false only by inheritance)")
	// the walk's errors are returned.
	r.Check(errResultUsed(c, f, walk), "ygot.PruneConfigFalse:walk-errors", c.Pos(walk.Pos()), "errors of the walk are returned", "PruneConfigFalse drops the errors of the walk")

	// (2) the iterator's writes.
	iinfo := iterF.Info()
	var niObj types.Object
	if iterParams != nil && len(iterParams.List) > 0 && len(iterParams.List[0].Names) > 0 {
		niObj = iinfo.ObjectOf(iterParams.List[0].Names[0])
	}
	if niObj == nil {
		r.Und("ygot.PruneConfigFalse$iter:param", c.Pos(iterNode.Pos()), "iterator's NodeInfo parameter not found")
		return
	}
	isNiField := func(e ast.Expr, field string) bool {
		sel, ok := ast.Unparen(e).(*ast.SelectorExpr)
		return ok && sel.Sel.Name == field && ObjOf(iinfo, sel.X) == niObj
	}
	// factsOfWrite: the conditions under which a write runs — read lexically; when the write is a
	// tail several branches fall into, per control-flow path.
	nSet, nSkip := 0, 0
	ast.Inspect(iterBody, func(n ast.Node) bool {
		call, ok := n.(*ast.CallExpr)
		if !ok {
			return true
		}
		fn := FullName(Callee(iinfo, call))
		if !reflectMutators[fn] {
			return true
		}
		nSet++
		key := fmt.Sprintf("ygot.PruneConfigFalse$iter:write#%d", nSet)
		recv := call.Fun.(*ast.SelectorExpr).X
		zero := false
		if fn == "reflect.Value.Set" && len(call.Args) == 1 {
			if z, ok := ast.Unparen(call.Args[0]).(*ast.CallExpr); ok && IsCall(iinfo, z, "reflect.Zero") {
				zero = true
			}
		}
		inIter := func(fs []Fact) []Fact {
			var out []Fact
			for _, ft := range fs {
				if ft.Cond != nil && ft.Cond.Pos() >= iterBody.Pos() && ft.Cond.Pos() <= iterBody.End() {
					out = append(out, ft)
				}
			}
			return out
		}
		isConfigGuard := func(fs []Fact) bool {
			for _, ft := range fs {
				if ft.Kind == "cond" && !ft.Pos {
					if cc, ok := ast.Unparen(ft.Cond).(*ast.CallExpr); ok && IsCall(iinfo, cc, P("util")+".IsConfig") && len(cc.Args) == 1 && isNiField(cc.Args[0], "Schema") {
						return true
					}
				}
			}
			return false
		}
		facts := inIter(c.FactsAt(iterF, call, true))
		guarded := isConfigGuard(facts)
		if !guarded {
			if holds, decided := c.EveryPath(iterF, call, func(fs []Fact) bool { return isConfigGuard(inIter(fs)) }); decided && holds {
				guarded = true
			}
		}
		r.Check(isNiField(recv, "FieldValue") && zero && guarded, key, c.Pos(call.Pos()), "zeroes ni.FieldValue, only when !IsConfig(ni.Schema)",
			"the iterator of PruneConfigFalse writes a field without having established that its schema is config false (or writes something other than the zero value): config-true data can be changed")
		// (3) skip reasons: every condition that keeps a field from being cleared is a documented one.
		// A negative fact at the write is a skip condition; a positive one (`if x != nil { clear }`) is
		// the skip condition `x == nil`.
		for _, ft := range facts {
			if ft.Kind != "cond" {
				nSkip++
				r.Bad(fmt.Sprintf("ygot.PruneConfigFalse$iter:skip#%d", nSkip), c.Pos(call.Pos()), "the iterator of PruneConfigFalse clears a field only inside a switch arm on "+types.ExprString(ft.Cond)+": not one of the documented skip reasons")
				continue
			}
			cond := ft.Cond
			if ft.Pos {
				be, ok := ast.Unparen(cond).(*ast.BinaryExpr)
				switch {
				case ok && be.Op == token.NEQ:
					cond = &ast.BinaryExpr{X: be.X, OpPos: be.OpPos, Op: token.EQL, Y: be.Y}
				case ok && be.Op == token.EQL:
					cond = &ast.BinaryExpr{X: be.X, OpPos: be.OpPos, Op: token.NEQ, Y: be.Y}
				default:
					cond = &ast.UnaryExpr{OpPos: cond.Pos(), Op: token.NOT, X: cond}
				}
			}
			nSkip++
			key := fmt.Sprintf("ygot.PruneConfigFalse$iter:skip#%d", nSkip)
			var dis []ast.Expr
			flattenOr(cond, &dis)
			bad := ""
			for _, d := range dis {
				if !soundSkip(iinfo, d, isNiField) {
					bad = types.ExprString(d)
				}
			}
			r.Check(bad == "", key, c.Pos(ft.Cond.Pos()), "documented skip reason: "+types.ExprString(cond),
				"the iterator of PruneConfigFalse skips a field when `"+bad+"` — not one of the documented reasons (nil/invalid/zero field value, config-true schema, compressed-leaf annotation, root): config-false data satisfying it survives")
		}
		return true
	})
	if nSet == 0 {
		r.Bad("ygot.PruneConfigFalse$iter:write", c.Pos(iterNode.Pos()), "the iterator of PruneConfigFalse no longer clears anything")
		return
	}
	// an unconditional return before the write would skip everything.
	for _, rs := range returnsOf(iterBody) {
		if _, top := c.parentMap(iterF.File)[rs].(*ast.BlockStmt); top && c.parentMap(iterF.File)[rs] == ast.Node(iterBody) {
			last := iterBody.List[len(iterBody.List)-1]
			if ast.Stmt(rs) != last {
				nSkip++
				r.Bad(fmt.Sprintf("ygot.PruneConfigFalse$iter:skip#%d", nSkip), c.Pos(rs.Pos()), "the iterator of PruneConfigFalse returns unconditionally before clearing the field")
			}
		}
	}
	// (4) IsConfig.
	if g := c.MustFunc(r, "util", "IsConfig"); g != nil {
		gi := g.Info()
		ok := false
		if len(g.Decl.Body.List) == 1 {
			if rs, isRet := g.Decl.Body.List[0].(*ast.ReturnStmt); isRet && len(rs.Results) == 1 {
				if u, isNot := ast.Unparen(rs.Results[0]).(*ast.UnaryExpr); isNot && u.Op == token.NOT {
					if call, isCall := ast.Unparen(u.X).(*ast.CallExpr); isCall && IsCall(gi, call, "github.com/openconfig/goyang/pkg/yang.Entry.ReadOnly") {
						if sel, isSel := call.Fun.(*ast.SelectorExpr); isSel && paramIndex(g, ObjOf(gi, sel.X)) == 0 {
							ok = true
						}
					}
				}
			}
		}
		r.Check(ok, "util.IsConfig:definition", c.Pos(g.Decl.Pos()), "!e.ReadOnly() (goyang walks up to the nearest explicit config statement)",
			"util.IsConfig is no longer the negation of goyang's inherited ReadOnly(): inherited config false/true is decided differently")
	}
}

var reflectMutators = map[string]bool{
	"reflect.Value.Set": true, "reflect.Value.SetMapIndex": true, "reflect.Value.SetInt": true, "reflect.Value.SetUint": true,
	"reflect.Value.SetString": true, "reflect.Value.SetBool": true, "reflect.Value.SetFloat": true, "reflect.Value.SetBytes": true,
	"reflect.Value.SetLen": true, "reflect.Value.SetZero": true, "reflect.Value.Call": true,
}

// soundSkip: d is one of the documented reasons for which PruneConfigFalse leaves a field alone.
func soundSkip(info *types.Info, d ast.Expr, isNiField func(ast.Expr, string) bool) bool {
	d = ast.Unparen(d)
	switch x := d.(type) {
	case *ast.BinaryExpr:
		if x.Op == token.EQL {
			if tv, ok := info.Types[x.Y]; ok && tv.IsNil() {
				// ni == nil, ni.Parent == nil
				if id, ok := ast.Unparen(x.X).(*ast.Ident); ok {
					return isNiField(&ast.SelectorExpr{X: id, Sel: ast.NewIdent("")}, "")
				}
				return isNiField(x.X, "Parent")
			}
		}
		if x.Op == token.NEQ {
			if tv, ok := info.Types[x.Y]; ok && tv.IsNil() {
				// ni.Schema.Annotation[GoCompressedLeafAnnotation] != nil
				if ix, ok := ast.Unparen(x.X).(*ast.IndexExpr); ok {
					if sel, ok := ast.Unparen(ix.X).(*ast.SelectorExpr); ok && sel.Sel.Name == "Annotation" && isNiField(sel.X, "Schema") {
						return constName(info, ix.Index) == "ygot.GoCompressedLeafAnnotation"
					}
				}
			}
		}
	case *ast.CallExpr:
		fn := FullName(Callee(info, x))
		switch fn {
		case modPath + "/util.IsNilOrInvalidValue":
			return len(x.Args) == 1 && isNiField(x.Args[0], "FieldValue")
		case modPath + "/util.IsConfig":
			return len(x.Args) == 1 && isNiField(x.Args[0], "Schema")
		case "reflect.Value.IsZero", "reflect.Value.IsNil":
			return isNiField(x.Fun.(*ast.SelectorExpr).X, "FieldValue")
		}
	case *ast.UnaryExpr:
		if x.Op == token.NOT {
			if call, ok := ast.Unparen(x.X).(*ast.CallExpr); ok && FullName(Callee(info, call)) == "reflect.Value.IsValid" {
				return isNiField(call.Fun.(*ast.SelectorExpr).X, "FieldValue")
			}
		}
	}
	return false
}

// errResultUsed: the (single) error-like result of call is bound and returned or tested-and-returned.
func errResultUsed(c *Ctx, f *FuncInfo, call *ast.CallExpr) bool {
	info := f.Info()
	pm := c.parentMap(f.File)
	switch p := pm[call].(type) {
	case *ast.ReturnStmt:
		return true
	case *ast.AssignStmt:
		obj := ObjOf(info, p.Lhs[len(p.Lhs)-1])
		used := false
		ast.Inspect(f.Decl.Body, func(n ast.Node) bool {
			if rs, ok := n.(*ast.ReturnStmt); ok && rs.Pos() > p.Pos() {
				for _, res := range rs.Results {
					if mentionsObj(info, res, obj) {
						used = true
					}
				}
			}
			return true
		})
		return used
	}
	return false
}
