package main

import (
	"fmt"
	"go/ast"
	"go/token"
	"go/types"
	"sort"
	"strings"
)

// caseTypes returns the types listed in the case clauses of the type switches (and comma-ok /
// plain assertions) on the value `on` inside root.
func acceptedTypes(c *Ctx, f *FuncInfo, root ast.Node, on types.Object) []types.Type {
	info := f.Info()
	var out []types.Type
	ast.Inspect(root, func(n ast.Node) bool {
		switch x := n.(type) {
		case *ast.TypeSwitchStmt:
			var tag ast.Expr
			switch a := x.Assign.(type) {
			case *ast.AssignStmt:
				if ta, ok := a.Rhs[0].(*ast.TypeAssertExpr); ok {
					tag = ta.X
				}
			case *ast.ExprStmt:
				if ta, ok := a.X.(*ast.TypeAssertExpr); ok {
					tag = ta.X
				}
			}
			if tag == nil || ObjOf(info, tag) != on {
				return true
			}
			for _, s := range x.Body.List {
				cc := s.(*ast.CaseClause)
				if len(cc.Body) > 0 {
					if rs, ok := cc.Body[0].(*ast.ReturnStmt); ok && len(rs.Results) > 0 && isErrorLike(info.Types[rs.Results[len(rs.Results)-1]].Type) && !isNilConst(info, rs.Results[len(rs.Results)-1]) {
						continue // arm rejects
					}
				}
				for _, e := range cc.List {
					if tv, ok := info.Types[e]; ok && tv.IsType() {
						out = append(out, tv.Type)
					}
				}
			}
		}
		return true
	})
	// comma-ok assertions only: a single-result assertion does not accept, it panics on the rest.
	for _, a := range AssertionsIn(c, f, root) {
		if a.CommaOk && ObjOf(info, a.X) == on {
			if tv, ok := info.Types[a.Node.Type]; ok {
				out = append(out, tv.Type)
			}
		}
	}
	return out
}

func hasType(ts []types.Type, t types.Type) bool {
	for _, x := range ts {
		if types.Identical(x, t) {
			return true
		}
	}
	return false
}

func typeList(ts []types.Type) string {
	var s []string
	for _, t := range ts {
		s = append(s, typeShort(t))
	}
	sort.Strings(s)
	return strings.Join(s, ", ")
}

// wrapperArmValueTypes: for a type switch whose arms are ywrapper message types, the Go type of the
// value the arm extracts with t.GetValue(); arms that return an error are left out.
func wrapperArmValueTypes(f *FuncInfo, t *Table) map[string]types.Type {
	info := f.Info()
	out := map[string]types.Type{}
	for _, a := range t.Arms {
		if a.Deflt {
			continue
		}
		var vt types.Type
		errOnly := false
		if len(a.Body) > 0 {
			if rs, ok := a.Body[0].(*ast.ReturnStmt); ok && len(rs.Results) > 0 && !isNilConst(info, rs.Results[len(rs.Results)-1]) && isErrorLike(info.Types[rs.Results[len(rs.Results)-1]].Type) {
				errOnly = true
			}
		}
		if errOnly {
			continue
		}
		ast.Inspect(a.Node, func(n ast.Node) bool {
			if call, ok := n.(*ast.CallExpr); ok {
				if sel, ok := call.Fun.(*ast.SelectorExpr); ok && sel.Sel.Name == "GetValue" {
					if tv, ok := info.Types[call]; ok {
						vt = tv.Type
					}
				}
			}
			return true
		})
		if vt == nil {
			continue
		}
		for _, k := range a.Keys {
			if strings.Contains(k, "ywrapper.") {
				out[k] = vt
			}
		}
	}
	return out
}

func paramObj(f *FuncInfo, i int) types.Object {
	sig := f.Obj.Type().(*types.Signature)
	if i < sig.Params().Len() {
		return sig.Params().At(i)
	}
	return nil
}

// typeSwitchOnCall: the type switch in f whose tag expression contains a call of method `meth`.
func typeSwitchOn(f *FuncInfo, pred func(tag ast.Expr) bool) *Table {
	for _, t := range TypeSwitches(f) {
		if t.Tag != nil && pred(t.Tag) {
			return t
		}
	}
	return nil
}

// wrapperSwitchOf: the type switch over ywrapper message types that f uses to extract scalar
// values — in f itself (tag …Message().Interface()), or in a module helper f calls (an extracted
// "wrapper value" function whose switch tag is its parameter).
func wrapperSwitchOf(c *Ctx, f *FuncInfo) (*FuncInfo, *Table) {
	if t := typeSwitchOn(f, tagIsMessageInterface); t != nil {
		// the tag may also be a local defined as …Message().Interface(); handled below.
		return f, t
	}
	hasWrapperArm := func(t *Table) bool {
		for _, a := range t.Arms {
			for _, k := range a.Keys {
				if strings.Contains(k, "ywrapper.") {
					return true
				}
			}
		}
		return false
	}
	for _, t := range TypeSwitches(f) {
		if hasWrapperArm(t) {
			return f, t
		}
	}
	info := f.Info()
	var hf *FuncInfo
	var ht *Table
	ast.Inspect(f.Decl.Body, func(n ast.Node) bool {
		call, ok := n.(*ast.CallExpr)
		if !ok || ht != nil {
			return true
		}
		h := c.funcOfCallee(Callee(info, call))
		if h == nil || h == f || h.Pkg != f.Pkg {
			return true
		}
		for _, t := range TypeSwitches(h) {
			if hasWrapperArm(t) {
				hf, ht = h, t
			}
		}
		return true
	})
	return hf, ht
}

func tagIsMessageInterface(tag ast.Expr) bool {
	s := types.ExprString(tag)
	return strings.HasSuffix(s, ".Message().Interface()")
}

// ruleProtomapTables: R-TABLES(g).
func ruleProtomapTables(c *Ctx, r *Report) {
	r.Rule("R-TABLES(g)", "for every value shape PathsFromProto stores in its result map (wrapper scalars, enum names, leaf-list slices, union leaf-list elements, list key strings) ProtoFromPaths' decoder for the same field kind accepts exactly that Go type", 10)
	pf := c.MustFunc(r, "protomap", "parseField")
	mw := c.MustFunc(r, "protomap", "makeWrapper")
	lv := c.MustFunc(r, "protomap", "leaflistVals")
	ml := c.MustFunc(r, "protomap", "makeSimpleLeafList")
	luv := c.MustFunc(r, "protomap", "leaflistUnionVals")
	mul := c.MustFunc(r, "protomap", "makeUnionLeafList")
	ev := c.MustFunc(r, "protomap", "enumValue")
	plf := c.MustFunc(r, "protomap", "parseListField")
	lk := c.MustFunc(r, "protomap", "listKeyAsProtoValue")
	if pf == nil || mw == nil || lv == nil || ml == nil || luv == nil || mul == nil || ev == nil || plf == nil || lk == nil {
		return
	}
	// (1) scalar wrappers.
	wF, wT := wrapperSwitchOf(c, pf)
	rT := typeSwitchOn(mw, tagIsMessageInterface)
	if wT == nil || rT == nil {
		r.Und("protomap:wrapper-tables", c.Pos(pf.Decl.Pos()), "wrapper dispatch of parseField/makeWrapper not recognised")
	} else {
		w := wrapperArmValueTypes(wF, wT)
		valObj := paramObj(mw, 2)
		for _, a := range rT.Arms {
			if a.Deflt {
				continue
			}
			acc := acceptedTypes(c, mw, a.Node, valObj)
			for _, k := range a.Keys {
				wt, ok := w[k]
				if !ok {
					r.Bad("wrapper:"+k+":writer", c.Pos(a.Node.Pos()), "makeWrapper decodes "+k+" but parseField does not produce it")
					continue
				}
				r.Check(hasType(acc, wt), "wrapper:"+k, c.Pos(a.Node.Pos()), fmt.Sprintf("writer stores %s; reader accepts {%s}", typeShort(wt), typeList(acc)),
					fmt.Sprintf("parseField stores a %s for a %s field but makeWrapper accepts only {%s}: ProtoFromPaths(PathsFromProto(m)) fails for every message with such a field", typeShort(wt), k, typeList(acc)))
			}
		}
		var onlyW []string
		for k := range w {
			if !rT.Has(k) {
				onlyW = append(onlyW, k)
			}
		}
		sort.Strings(onlyW)
		for _, k := range onlyW {
			if protomapWriterOnly[k] != "" {
				r.Exc("wrapper:"+k+":reader", c.Pos(rT.Switch.Pos()), protomapWriterOnly[k])
			} else {
				r.Bad("wrapper:"+k+":reader", c.Pos(rT.Switch.Pos()), "parseField produces values for "+k+" fields but makeWrapper has no arm for them")
			}
		}
	}
	// (2) enums.
	{
		info := pf.Info()
		var wt types.Type
		ast.Inspect(pf.Decl.Body, func(n ast.Node) bool {
			is, ok := n.(*ast.IfStmt)
			if !ok || !strings.Contains(types.ExprString(is.Cond), "EnumKind") {
				return true
			}
			valObj := localObj(pf, "val")
			ast.Inspect(is.Body, func(m ast.Node) bool {
				if as, ok := m.(*ast.AssignStmt); ok && len(as.Lhs) == 1 && ObjOf(info, as.Lhs[0]) == valObj && valObj != nil {
					if tv, ok := info.Types[as.Rhs[0]]; ok {
						wt = tv.Type
					}
				}
				return true
			})
			return true
		})
		acc := acceptedTypes(c, ev, ev.Decl.Body, paramObj(ev, 1))
		if wt == nil {
			r.Und("enum", c.Pos(pf.Decl.Pos()), "enum branch of parseField not recognised")
		} else {
			r.Check(hasType(acc, wt), "enum", c.Pos(ev.Decl.Pos()), fmt.Sprintf("writer stores %s; reader accepts {%s}", typeShort(wt), typeList(acc)),
				fmt.Sprintf("parseField stores a %s for enum fields but enumValue accepts only {%s}", typeShort(wt), typeList(acc)))
		}
	}
	// (3) simple leaf-lists.
	{
		sig := lv.Obj.Type().(*types.Signature)
		wt := sig.Results().At(0).Type()
		chv := paramObj(ml, 2)
		// top level acceptance (outside the per-wrapper switch) and conversions.
		elemT := typeSwitchOn(ml, tagIsMessageInterface)
		wElem := map[string]types.Type{}
		if lf, t := wrapperSwitchOf(c, lv); t != nil {
			wElem = wrapperArmValueTypes(lf, t)
		}
		if elemT == nil || len(wElem) == 0 {
			r.Und("leaflist:tables", c.Pos(ml.Decl.Pos()), "leaf-list dispatch not recognised")
		} else {
			// direct acceptance in every arm, or conversion at the top into a typed slice.
			info := ml.Info()
			converted := false
			ast.Inspect(ml.Decl.Body, func(n ast.Node) bool {
				is, ok := n.(*ast.IfStmt)
				if !ok || is.Pos() > elemT.Switch.Pos() {
					return true
				}
				as, ok := is.Init.(*ast.AssignStmt)
				if !ok || len(as.Rhs) != 1 {
					return true
				}
				ta, ok := as.Rhs[0].(*ast.TypeAssertExpr)
				if !ok || ObjOf(info, ta.X) != chv || !types.Identical(info.Types[ta.Type].Type, wt) {
					return true
				}
				// the conversion is governed by the assertion's ok alone.
				if len(as.Lhs) != 2 || ObjOf(info, is.Cond) == nil || ObjOf(info, is.Cond) != ObjOf(info, as.Lhs[1]) {
					return true
				}
				// chv reassigned in the body from a conversion call.
				ast.Inspect(is.Body, func(m ast.Node) bool {
					if a2, ok := m.(*ast.AssignStmt); ok && len(a2.Lhs) == 1 && ObjOf(info, a2.Lhs[0]) == chv && a2.Tok == token.ASSIGN {
						converted = true
					}
					return true
				})
				return true
			})
			for _, a := range elemT.Arms {
				if a.Deflt {
					continue
				}
				acc := acceptedTypes(c, ml, a.Node, chv)
				for _, k := range a.Keys {
					et, ok := wElem[k]
					if !ok {
						continue
					}
					typed := types.NewSlice(et)
					ok2 := hasType(acc, wt) || (converted && hasType(acc, typed))
					r.Check(ok2, "leaflist:"+k, c.Pos(a.Node.Pos()), fmt.Sprintf("writer stores %s of %s; reader accepts {%s}%s", typeShort(wt), typeShort(et), typeList(acc), map[bool]string{true: " after converting []any to a typed slice", false: ""}[converted]),
						fmt.Sprintf("leaflistVals stores %s (elements %s) for repeated %s fields but makeSimpleLeafList accepts only {%s}: ProtoFromPaths(PathsFromProto(m)) fails for every message with a populated leaf-list", typeShort(wt), typeShort(et), k, typeList(acc)))
				}
			}
			for k := range wElem {
				if !elemT.Has(k) {
					r.Bad("leaflist:"+k+":reader", c.Pos(elemT.Switch.Pos()), "leaflistVals produces values for repeated "+k+" but makeSimpleLeafList has no arm for it")
				}
			}
		}
	}
	// (4) union leaf-lists: proto kind → Go kind on the writer side; Go kind → proto kinds on the reader side.
	{
		wk := KindSwitches(luv, "google.golang.org/protobuf/reflect/protoreflect.Kind")
		rk := KindSwitches(mul, "reflect.Kind")
		if len(wk) != 1 || len(rk) == 0 {
			r.Und("union-leaflist:tables", c.Pos(luv.Decl.Pos()), fmt.Sprintf("dispatch not recognised (%d writer, %d reader switches)", len(wk), len(rk)))
		} else {
			info := luv.Info()
			rinfo := mul.Info()
			reader := rk[len(rk)-1]
			for _, a := range wk[0].Arms {
				if a.Deflt {
					continue
				}
				// Go type assigned to the element value.
				var gt types.Type
				ast.Inspect(a.Node, func(n ast.Node) bool {
					if as, ok := n.(*ast.AssignStmt); ok && len(as.Lhs) == 1 && len(as.Rhs) == 1 {
						if id, ok := as.Lhs[0].(*ast.Ident); ok && id.Name != "fErr" && id.Name != "_" {
							if tv, ok := info.Types[as.Rhs[0]]; ok && !isErrorLike(tv.Type) {
								if _, isTuple := tv.Type.(*types.Tuple); !isTuple {
									gt = tv.Type
								}
							}
						}
					}
					return true
				})
				for _, k := range a.Keys {
					key := "union-leaflist:" + k
					if gt == nil {
						r.Und(key, c.Pos(a.Node.Pos()), "element value of writer arm not recognised")
						continue
					}
					rkind := "reflect." + strings.Title(basicToReflectName(gt))
					ra := reader.ByKey[rkind]
					ok := false
					if ra != nil {
						ast.Inspect(ra.Node, func(n ast.Node) bool {
							if be, isBE := n.(*ast.BinaryExpr); isBE && be.Op == token.EQL && (constName(rinfo, be.Y) == k || constName(rinfo, be.X) == k) {
								ok = true
							}
							return true
						})
					}
					if !ok && protomapUnionWriterOnly[k] != "" {
						r.Exc(key, c.Pos(a.Node.Pos()), protomapUnionWriterOnly[k])
						continue
					}
					r.Check(ok, key, c.Pos(a.Node.Pos()), fmt.Sprintf("writer stores %s; reader's %s arm sets %s fields", typeShort(gt), rkind, k),
						fmt.Sprintf("leaflistUnionVals stores a %s for %s members but makeUnionLeafList has no %s arm that sets a %s field", typeShort(gt), k, rkind, k))
				}
			}
		}
	}
	// (5) list keys.
	{
		kk := KindSwitches(lk, "google.golang.org/protobuf/reflect/protoreflect.Kind")
		f8 := c.MustFunc(r, "ygot", "KeyValueAsString")
		uses := len(CallsIn(plf.Info(), plf.Decl.Body, P("ygot")+".KeyValueAsString")) > 0
		r.Check(uses, "list-key:writer", c.Pos(plf.Decl.Pos()), "key strings produced by ygot.KeyValueAsString", "parseListField no longer renders key values with ygot.KeyValueAsString")
		if len(kk) != 1 || f8 == nil {
			r.Und("list-key:tables", c.Pos(lk.Decl.Pos()), "dispatch not recognised")
		} else {
			s8 := KindSwitches(f8, "reflect.Kind")
			for _, a := range kk[0].Arms {
				if a.Deflt {
					continue
				}
				for _, k := range a.Keys {
					want := map[string]string{"protoreflect.Uint64Kind": "reflect.Uint64", "protoreflect.StringKind": "reflect.String", "protoreflect.Int64Kind": "reflect.Int64", "protoreflect.BoolKind": "reflect.Bool"}[k]
					ok := want != "" && len(s8) > 0 && s8[0].Has(want)
					// and the parser of the arm matches the kind.
					parser := ""
					for _, call := range CallsIn(lk.Info(), a.Node, "strconv.ParseUint", "strconv.ParseInt", "strconv.ParseBool", "google.golang.org/protobuf/reflect/protoreflect.ValueOfString") {
						parser = ShortName(Callee(lk.Info(), call))
					}
					wantParser := map[string]string{"protoreflect.Uint64Kind": "strconv.ParseUint", "protoreflect.StringKind": "google.golang.org/protobuf/reflect/protoreflect.ValueOfString", "protoreflect.Int64Kind": "strconv.ParseInt", "protoreflect.BoolKind": "strconv.ParseBool"}[k]
					r.Check(ok && parser == wantParser, "list-key:"+k, c.Pos(a.Node.Pos()), "KeyValueAsString renders "+want+"; reader parses with "+parser,
						fmt.Sprintf("list keys of kind %s: writer side renders with KeyValueAsString(%s), reader parses with %q", k, want, parser))
				}
			}
		}
	}
}

// Frozen exceptions: kinds the writer handles but the reader documents as not yet supported (outside the
// supported set the property states). One line of reason each.
var protomapWriterOnly = map[string]string{
	"*ywrapper.BoolValue": "makeWrapper documents `TODO: Support wpb.IntValue and wpb.BoolValue`; bool/int wrappers are outside the property's supported set (string, uint, bytes)",
	"*ywrapper.IntValue":  "makeWrapper documents `TODO: Support wpb.IntValue and wpb.BoolValue`; bool/int wrappers are outside the property's supported set (string, uint, bytes)",
}
var protomapUnionWriterOnly = map[string]string{
	"protoreflect.BytesKind": "makeUnionLeafList handles string/enum/uint64/bool members only (documented TODO); bytes members are outside the supported set",
	"protoreflect.Int64Kind": "makeUnionLeafList handles string/enum/uint64/bool members only (documented TODO); int64 members are outside the supported set",
}

func basicToReflectName(t types.Type) string {
	if b, ok := t.Underlying().(*types.Basic); ok {
		return b.Name()
	}
	if s, ok := t.Underlying().(*types.Slice); ok {
		_ = s
		return "slice"
	}
	return t.String()
}

// ruleEnumByNumber: R-ENUM-BYNUMBER.
func ruleEnumByNumber(c *Ctx, r *Report) {
	r.Rule("R-ENUM-BYNUMBER", "in protomap a protoreflect.EnumNumber selects an enum value descriptor only through ByNumber (never converted to an index for Get): value numbers are hashes/explicit numbers, not positions", 2)
	n := 0
	for _, f := range c.AllFuncs("protomap") {
		info := f.Info()
		ast.Inspect(f.Decl.Body, func(x ast.Node) bool {
			call, ok := x.(*ast.CallExpr)
			if !ok {
				return true
			}
			fn := FullName(Callee(info, call))
			switch {
			case strings.HasSuffix(fn, "protoreflect.EnumValueDescriptors.ByNumber"):
				n++
				r.OK(fmt.Sprintf("%s:ByNumber#%d", f.Name, n), c.Pos(call.Pos()), "descriptor looked up by number")
			case strings.HasSuffix(fn, "protoreflect.EnumValueDescriptors.Get") && len(call.Args) == 1:
				// the index must not derive from an EnumNumber.
				bad := false
				ast.Inspect(call.Args[0], func(y ast.Node) bool {
					if e, ok := y.(ast.Expr); ok {
						if tv, ok := info.Types[e]; ok && tv.Type != nil && strings.HasSuffix(tv.Type.String(), "protoreflect.EnumNumber") {
							bad = true
						}
					}
					return true
				})
				n++
				r.Check(!bad, fmt.Sprintf("%s:Get#%d", f.Name, n), c.Pos(call.Pos()), "index is a position (loop counter)",
					f.Name+" uses an enum value *number* as an *index* into the enum's value list: for enums whose numbers are not 0..n-1 (identity enums use hashed numbers) the wrong name, or a panic, results")
			}
			return true
		})
	}
}

// ruleKeyPresence: R-KEY-PRESENCE.
func ruleKeyPresence(c *Ctx, r *Report) {
	r.Rule("R-KEY-PRESENCE", "in createListField the presence of a list key in the path is decided by a comma-ok lookup in the path's key map, never by comparing the looked-up value with \"\" (an empty string is a legal key value)", 2)
	f := c.MustFunc(r, "protomap", "createListField")
	if f == nil {
		return
	}
	info := f.Info()
	pm := c.parentMap(f.File)
	n := 0
	ast.Inspect(f.Decl.Body, func(x ast.Node) bool {
		ix, ok := x.(*ast.IndexExpr)
		if !ok {
			return true
		}
		tv, ok := info.Types[ix.X]
		if !ok {
			return true
		}
		mt, ok := tv.Type.Underlying().(*types.Map)
		if !ok || mt.Key().String() != "string" || mt.Elem().String() != "string" {
			return true
		}
		n++
		key := fmt.Sprintf("protomap.createListField:key-lookup#%d", n)
		switch p := pm[ix].(type) {
		case *ast.AssignStmt:
			if len(p.Lhs) == 2 {
				r.OK(key, c.Pos(ix.Pos()), "comma-ok lookup")
				return true
			}
			if len(p.Lhs) == 1 && len(p.Rhs) == 1 {
				if _, isStore := p.Lhs[0].(*ast.IndexExpr); isStore && p.Lhs[0] == ast.Expr(ix) {
					r.OK(key, c.Pos(ix.Pos()), "store")
					return true
				}
				// single-value lookup bound to a variable: must not be compared with "".
				obj := ObjOf(info, p.Lhs[0])
				bad := false
				ast.Inspect(f.Decl.Body, func(y ast.Node) bool {
					if be, ok := y.(*ast.BinaryExpr); ok && (be.Op == token.EQL || be.Op == token.NEQ) {
						for _, pr := range [][2]ast.Expr{{be.X, be.Y}, {be.Y, be.X}} {
							if ObjOf(info, pr[0]) == obj && obj != nil {
								if v, ok := ConstOf(info, pr[1]); ok && v == `""` {
									bad = true
								}
							}
						}
					}
					return true
				})
				r.Check(!bad, key, c.Pos(ix.Pos()), "value use", "createListField decides whether a key is present by comparing its value with \"\": a list entry whose key is the empty string is reported as `missing key`")
				return true
			}
		case *ast.BinaryExpr:
			if p.Op == token.EQL || p.Op == token.NEQ {
				other := p.X
				if other == ast.Expr(ix) {
					other = p.Y
				}
				if v, ok := ConstOf(info, other); ok && v == `""` {
					r.Bad(key, c.Pos(ix.Pos()), "createListField decides whether a key is present by comparing its value with \"\": a list entry whose key is the empty string is reported as `missing key`")
					return true
				}
			}
		}
		r.OK(key, c.Pos(ix.Pos()), "value use")
		return true
	})
}

// ruleResultKeys: R-RESULT-KEYS.
func ruleResultKeys(c *Ctx, r *Report) {
	r.Rule("R-RESULT-KEYS", "every key stored in PathsFromProto's result maps is resolvedPath(base, p) with p taken from the field's schemapath annotation (annotatedSchemaPath), or is copied from another result map", 5)
	for _, name := range []string{"parseField", "parseList", "parseListField", "pathsFromProtoInternal"} {
		f := c.MustFunc(r, "protomap", name)
		if f == nil {
			continue
		}
		info := f.Info()
		n := 0
		ast.Inspect(f.Decl.Body, func(x ast.Node) bool {
			as, ok := x.(*ast.AssignStmt)
			if !ok {
				return true
			}
			for _, l := range as.Lhs {
				ix, ok := l.(*ast.IndexExpr)
				if !ok {
					continue
				}
				tv, ok := info.Types[ix.X]
				if !ok {
					continue
				}
				mt, ok := tv.Type.Underlying().(*types.Map)
				if !ok || !strings.HasSuffix(mt.Key().String(), "gnmi.Path") {
					continue
				}
				n++
				key := fmt.Sprintf("protomap.%s:result-store#%d", name, n)
				why := ""
				if call, ok := ast.Unparen(ix.Index).(*ast.CallExpr); ok && IsCall(info, call, P("protomap")+".resolvedPath") && len(call.Args) == 2 {
					if annotationDerived(c, f, call.Args[1], 0) {
						why = "resolvedPath(base, annotated path)"
					}
				} else if id, ok := ast.Unparen(ix.Index).(*ast.Ident); ok {
					// range key over a map of the same type.
					obj := info.ObjectOf(id)
					ast.Inspect(f.Decl.Body, func(y ast.Node) bool {
						if rs, ok := y.(*ast.RangeStmt); ok && rs.Key != nil && ObjOf(info, rs.Key) == obj {
							if t2, ok := info.Types[rs.X]; ok && types.Identical(t2.Type, tv.Type) {
								why = "copied from another result map"
							}
						}
						return true
					})
				}
				r.Check(why != "", key, c.Pos(as.Pos()), why, name+" stores a value under a path that is not resolvedPath(base, <schemapath annotation of the field>)")
			}
			return true
		})
	}
}

// annotationDerived: e is (an element of) the result of annotatedSchemaPath, a parameter that callers
// fill from it (mapPath / basePath-relative annotated path), or a range variable over such a value.
func annotationDerived(c *Ctx, f *FuncInfo, e ast.Expr, depth int) bool {
	info := f.Info()
	e = ast.Unparen(e)
	if depth > 6 {
		return false
	}
	switch x := e.(type) {
	case *ast.IndexExpr:
		return annotationDerived(c, f, x.X, depth+1)
	case *ast.CallExpr:
		return IsCall(info, x, P("protomap")+".annotatedSchemaPath")
	case *ast.Ident:
		obj := info.ObjectOf(x)
		if i := paramIndex(f, obj); i >= 0 {
			// parameter: every call site in the package passes an annotation-derived value.
			okAll, sites := true, 0
			for _, g := range c.AllFuncs("protomap") {
				for _, call := range CallsIn(g.Info(), g.Decl.Body, FullName(f.Obj)) {
					sites++
					if i >= len(call.Args) || !annotationDerived(c, g, call.Args[i], depth+1) {
						okAll = false
					}
				}
			}
			return okAll && sites > 0
		}
		res := false
		ast.Inspect(f.Decl.Body, func(n ast.Node) bool {
			switch s := n.(type) {
			case *ast.AssignStmt:
				for i, l := range s.Lhs {
					if ObjOf(info, l) == obj {
						if _, isID := l.(*ast.Ident); !isID {
							continue
						}
						j := i
						if len(s.Rhs) == 1 {
							j = 0
						}
						if annotationDerived(c, f, s.Rhs[j], depth+1) {
							res = true
						}
					}
				}
			case *ast.RangeStmt:
				if s.Value != nil && ObjOf(info, s.Value) == obj && annotationDerived(c, f, s.X, depth+1) {
					res = true
				}
				// key of another result map (whose keys are themselves annotation-derived by this rule).
				if s.Key != nil && ObjOf(info, s.Key) == obj {
					if t2, ok := info.Types[s.X]; ok {
						if mt, ok := t2.Type.Underlying().(*types.Map); ok && strings.HasSuffix(mt.Key().String(), "gnmi.Path") {
							res = true
						}
					}
				}
			case *ast.CallExpr:
				// appended into a slice: mappedPaths = append(mappedPaths, p)
			}
			return true
		})
		if !res {
			// slice built by appending annotation-derived elements.
			ast.Inspect(f.Decl.Body, func(n ast.Node) bool {
				if as, ok := n.(*ast.AssignStmt); ok && len(as.Lhs) == 1 && len(as.Rhs) == 1 && ObjOf(info, as.Lhs[0]) == obj {
					if call, ok := as.Rhs[0].(*ast.CallExpr); ok {
						if id, ok := call.Fun.(*ast.Ident); ok && id.Name == "append" && len(call.Args) == 2 && depth < 4 {
							if annotationDerived(c, f, call.Args[1], depth+1) {
								res = true
							}
						}
					}
				}
				return true
			})
		}
		return res
	}
	return false
}

// ruleListMemberSet: R-LIST-MEMBER — writer/reader agreement on list entries whose member is empty.
func ruleListMemberSet(c *Ctx, r *Report) {
	r.Rule("R-LIST-MEMBER", "PathsFromProto refuses a list entry whose member message is nil (parseListField), so ProtoFromPaths must always set the member of every entry it creates: in createListField the member is set unconditionally once its fields were mapped, and every created entry is appended", 3)
	w := c.MustFunc(r, "protomap", "parseListField")
	f := c.MustFunc(r, "protomap", "createListField")
	if w == nil || f == nil {
		return
	}
	wi := w.Info()
	rejects := false
	ast.Inspect(w.Decl.Body, func(n ast.Node) bool {
		if is, ok := n.(*ast.IfStmt); ok {
			if u, ok := ast.Unparen(is.Cond).(*ast.UnaryExpr); ok && u.Op == token.NOT && IsCall(wi, ast.Unparen(u.X), "google.golang.org/protobuf/reflect/protoreflect.Value.IsValid") && terminates(wi, is.Body.List) {
				rejects = true
			}
		}
		return true
	})
	r.Check(rejects, "protomap.parseListField:nil-member-rejected", c.Pos(w.Decl.Pos()), "writer errors on an entry whose member is unset", "parseListField no longer rejects a nil list member (the reader-side obligation below loses its reason)")
	info := f.Info()
	// the Set of a message-kind field on the target entry.
	n := 0
	ast.Inspect(f.Decl.Body, func(x ast.Node) bool {
		call, ok := x.(*ast.CallExpr)
		if !ok || !strings.HasSuffix(FullName(Callee(info, call)), "protoreflect.Message.Set") || len(call.Args) != 2 {
			return true
		}
		if !IsCall(info, ast.Unparen(call.Args[1]), "google.golang.org/protobuf/reflect/protoreflect.ValueOfMessage") {
			return true
		}
		n++
		cond := 0
		for _, ft := range c.FactsAt(f, call, false) {
			if ft.Kind == "cond" && enclosesLexically(c, f, ft.Cond, call) {
				cond++
			}
		}
		r.Check(cond == 0, fmt.Sprintf("protomap.createListField:member-set#%d", n), c.Pos(call.Pos()), "member set unconditionally after its fields were mapped", "createListField sets the list entry's member only under a condition (e.g. only when some field was populated): an entry that has only its keys is rebuilt with a nil member, which differs from the original message and which PathsFromProto then refuses")
		return true
	})
	if n == 0 {
		r.Bad("protomap.createListField:member-set", c.Pos(f.Decl.Pos()), "createListField no longer sets the entry's member message")
	}
	// every entry appended.
	ap := 0
	ast.Inspect(f.Decl.Body, func(x ast.Node) bool {
		if call, ok := x.(*ast.CallExpr); ok && strings.HasSuffix(FullName(Callee(info, call)), "protoreflect.List.Append") {
			cond := 0
			for _, ft := range c.FactsAt(f, call, false) {
				if ft.Kind == "cond" && enclosesLexically(c, f, ft.Cond, call) {
					cond++
				}
			}
			if cond == 0 {
				ap++
			}
		}
		return true
	})
	r.Check(ap == 1, "protomap.createListField:entry-appended", c.Pos(f.Decl.Pos()), "every key set yields one appended entry", "createListField does not append exactly one entry per key set unconditionally")
}
