package main

import (
	"fmt"
	"go/ast"
	"go/token"
	"go/types"
)

// ---- R-DECIMAL-EXACT (C06) ---------------------------------------------------------------------

// ruleDecimalExact: goyang's yang.FromFloat multiplies the float by ten until no fraction is left,
// which accumulates binary rounding error (0.07 becomes 0.07000000000000001), so a Number obtained
// from it is not the decimal64 value that was written and compares wrongly against a range bound.
// In the restriction validators FromFloat is admissible only as the fallback behind an exact
// conversion (yang.ParseDecimal of the value's decimal representation) that returned first on
// success.
func ruleDecimalExact(c *Ctx, r *Report) {
	r.Rule("R-DECIMAL-EXACT", "in the ytypes validators every yang.FromFloat call (repeated multiplication by ten: inexact for most decimal fractions) is the fallback behind an exact conversion: an earlier `if n, err := yang.ParseDecimal(...); err == nil { return n }` in the same function", 1)
	n := 0
	for _, f := range c.AllFuncs("ytypes") {
		if f.Decl.Body == nil {
			continue
		}
		info := f.Info()
		var exact []*ast.IfStmt
		ast.Inspect(f.Decl.Body, func(x ast.Node) bool {
			is, ok := x.(*ast.IfStmt)
			if !ok || is.Init == nil {
				return true
			}
			as, ok := is.Init.(*ast.AssignStmt)
			if !ok || len(as.Rhs) != 1 {
				return true
			}
			cl, ok := ast.Unparen(as.Rhs[0]).(*ast.CallExpr)
			if !ok || FullName(Callee(info, cl)) != "github.com/openconfig/goyang/pkg/yang.ParseDecimal" {
				return true
			}
			be, ok := ast.Unparen(is.Cond).(*ast.BinaryExpr)
			if !ok || be.Op != token.EQL || !(isNilIdent(info, be.X) || isNilIdent(info, be.Y)) {
				return true
			}
			if len(returnsOf(is.Body)) > 0 {
				exact = append(exact, is)
			}
			return true
		})
		ast.Inspect(f.Decl.Body, func(x ast.Node) bool {
			cl, ok := x.(*ast.CallExpr)
			if !ok || FullName(Callee(info, cl)) != "github.com/openconfig/goyang/pkg/yang.FromFloat" {
				return true
			}
			n++
			guarded := false
			for _, is := range exact {
				if is.End() < cl.Pos() {
					guarded = true
				}
			}
			r.Check(guarded, fmt.Sprintf("%s:FromFloat", f.Name), c.Pos(cl.Pos()), "fallback behind an exact yang.ParseDecimal conversion that returns on success",
				f.Name+" takes the yang.Number of a decimal64 value from yang.FromFloat alone: FromFloat(0.07) is 0.07000000000000001, so a value exactly on the upper bound of a range part is rejected (and one just below a lower bound's approximation accepted)")
			return true
		})
	}
	if n == 0 {
		r.OK("ytypes:FromFloat", "ytypes", "yang.FromFloat is not used by the validators")
	}
}

// ---- R-CHOICE-TAG-LOOKUP (C02, C10) -----------------------------------------------------------

// ruleChoiceTagLookup: choice and case nodes are not data nodes and never appear in a path tag —
// at any position of the tag, because path compression puts a container name in front of the
// name of a leaf within a choice (`path:"config/k1-leaf"`). The two functions that relate a tag to
// the schema must therefore look through choice/case at every element, not only for
// single-element tags.
func ruleChoiceTagLookup(c *Ctx, r *Report) {
	r.Rule("R-CHOICE-TAG-LOOKUP", "the functions that resolve a struct field's path tag against the schema look through choice/case nodes at every path element: util.childSchema's descent loop falls back to the choice/case children of the current node on a Dir miss, and ytypes.hasRelativePath's walk towards the root skips choice/case ancestors", 2)
	if f := c.MustFunc(r, "util", "childSchema"); f != nil {
		info := f.Info()
		target := c.Func("util", "FindFirstNonChoiceOrCase")
		ok, found := false, false
		var pos token.Pos = f.Decl.Pos()
		ast.Inspect(f.Decl.Body, func(x ast.Node) bool {
			loop := loopBodyOf(x)
			if loop == nil || found {
				return !found
			}
			// the descent loop is the one that indexes a Dir map.
			var idx *ast.IndexExpr
			ast.Inspect(loop, func(y ast.Node) bool {
				if ie, ok := y.(*ast.IndexExpr); ok && idx == nil {
					if se, ok := ast.Unparen(ie.X).(*ast.SelectorExpr); ok && se.Sel.Name == "Dir" {
						idx = ie
					}
				}
				return true
			})
			if idx == nil {
				return true
			}
			found, pos = true, loop.Pos()
			// the object the loop descends from (childSchema in `childSchema.Dir[p]`).
			cursor := ObjOf(info, idx.X.(*ast.SelectorExpr).X)
			ast.Inspect(loop, func(y ast.Node) bool {
				call, isCall := y.(*ast.CallExpr)
				if !isCall || target == nil {
					return true
				}
				g := c.funcOfCallee(Callee(info, call))
				if g == nil {
					return true
				}
				reaches := false
				for _, h := range c.astReach(g) {
					if h.Obj == target.Obj {
						reaches = true
					}
				}
				// the fallback must look below the current node of the descent, not below the root.
				if reaches && len(call.Args) > 0 && cursor != nil && ObjOf(info, call.Args[0]) == cursor {
					ok = true
				}
				return true
			})
			return false
		})
		switch {
		case !found:
			r.Und("util.childSchema:descent-loop", c.Pos(f.Decl.Pos()), "no loop that indexes a Dir map found")
		default:
			r.Check(ok, "util.childSchema:descent-loop", c.Pos(pos), "a Dir miss falls back to the choice/case children of the current node",
				"util.childSchema's descent loop gives up on a Dir miss without looking through the choice/case children of the node it has reached: a leaf within a choice below a compressed-out container (tag `config/k1-leaf`) has no schema, and SetNode/GetNode/DeleteNode fail with 'could not find schema' for it and for every field after it")
		}
	}
	if f := c.MustFunc(r, "ytypes", "hasRelativePath"); f != nil {
		info := f.Info()
		ok := false
		for _, call := range CallsIn(info, f.Decl.Body, P("util")+".IsChoiceOrCase") {
			// inside the upward loop.
			for n := ast.Node(call); n != nil; n = c.parentMap(f.File)[n] {
				if _, isFor := n.(*ast.ForStmt); isFor {
					ok = true
				}
				if n == f.Decl {
					break
				}
			}
		}
		r.Check(ok, "ytypes.hasRelativePath:skips-choice-case", c.Pos(f.Decl.Pos()), "the walk towards the root tests util.IsChoiceOrCase on the ancestor",
			"ytypes.hasRelativePath compares every ancestor's name with the path, choice and case nodes included: the field for `config/k1-leaf` (leaf within a choice below config) is never found ('struct field k1-leaf not found in parent')")
	}
}

// ruleChoiceFirstChild: the same requirement on util.firstMatching, the descent behind
// util.FirstChild (ForEachField / PruneConfigFalse resolve compressed field paths with it).
func ruleChoiceFirstChild(c *Ctx, r *Report) {
	r.Rule("R-CHOICE-FIRSTCHILD", "util.firstMatching, the descent behind util.FirstChild, falls back to the choice/case children of the node it has reached on a Dir miss at every path element (compressed field paths such as state/foo leave choice and case out)", 1)
	f := c.MustFunc(r, "util", "firstMatching")
	if f == nil {
		return
	}
	info := f.Info()
	target := c.Func("util", "FindFirstNonChoiceOrCase")
	ok, found := false, false
	pos := f.Decl.Pos()
	ast.Inspect(f.Decl.Body, func(x ast.Node) bool {
		loop := loopBodyOf(x)
		if loop == nil || found {
			return !found
		}
		var cursor types.Object
		ast.Inspect(loop, func(y ast.Node) bool {
			if ie, ok := y.(*ast.IndexExpr); ok && cursor == nil {
				if se, ok := ast.Unparen(ie.X).(*ast.SelectorExpr); ok && se.Sel.Name == "Dir" {
					cursor = ObjOf(info, se.X)
				}
			}
			return true
		})
		if cursor == nil {
			return true
		}
		found, pos = true, loop.Pos()
		ast.Inspect(loop, func(y ast.Node) bool {
			call, isCall := y.(*ast.CallExpr)
			if !isCall || target == nil || len(call.Args) == 0 || ObjOf(info, call.Args[0]) != cursor {
				return true
			}
			if g := c.funcOfCallee(Callee(info, call)); g != nil {
				for _, h := range c.astReach(g) {
					if h.Obj == target.Obj {
						ok = true
					}
				}
			}
			return true
		})
		return false
	})
	if !found {
		r.Und("util.firstMatching:descent-loop", c.Pos(f.Decl.Pos()), "no loop that indexes a Dir map found")
		return
	}
	r.Check(ok, "util.firstMatching:descent-loop", c.Pos(pos), "a Dir miss falls back to the choice/case children of the current node",
		"util.firstMatching looks every element after the first up with a plain Dir access: the field `state/foo` of a leaf within a choice below a compressed-out state container is not found, ForEachField skips it, and PruneConfigFalse leaves the config false leaf set")
}

// loopBodyOf: the body of a for or range statement (nil for any other node).
func loopBodyOf(x ast.Node) *ast.BlockStmt {
	switch l := x.(type) {
	case *ast.ForStmt:
		return l.Body
	case *ast.RangeStmt:
		return l.Body
	}
	return nil
}

// ---- R-PATHKEY-CANON (C10, C13) ----------------------------------------------------------------

// rulePathKeyCanon: a key value taken from a gNMI path is a string in whatever lexical form the
// client chose ("1.0", "+1", "01", "mod:IDENTITY"); the keys of existing list entries are compared
// in the form ygot.KeyValueAsString gives them ("1", "IDENTITY"). A raw path key may therefore be
// compared with constants only ("*"), and may reach a comparison with, or a map later compared
// with, entry keys only through a function that parses it to the key's type and renders it again.
func rulePathKeyCanon(c *Ctx, r *Report) {
	r.Rule("R-PATHKEY-CANON", "in ytypes' list lookups (retrieveNodeList, retrieveNodeOrderedList) a key string read from the gNMI path (`….GetKey()[k]`) is compared with non-constant strings, or stored for a later comparison, only after passing through a canonicaliser — a function from which both ytypes.StringToType and ygot.KeyValueAsString are reachable", 3)
	isCanon := c.isKeyCanonicaliser
	for _, name := range []string{"retrieveNodeList", "retrieveNodeOrderedList"} {
		f := c.MustFunc(r, "ytypes", name)
		if f == nil {
			continue
		}
		info := f.Info()
		pm := c.parentMap(f.File)
		isRawExpr := func(e ast.Expr) bool {
			ie, ok := ast.Unparen(e).(*ast.IndexExpr)
			if !ok {
				return false
			}
			x := ast.Unparen(ie.X)
			// a local that stands for the key map (`pathKeys := head.GetKey()`).
			if id, ok := x.(*ast.Ident); ok {
				if o := info.ObjectOf(id); o != nil {
					if defs := allDefs(f, o); len(defs) == 1 {
						x = ast.Unparen(defs[0])
					}
				}
			}
			call, ok := x.(*ast.CallExpr)
			if !ok {
				return false
			}
			se, ok := call.Fun.(*ast.SelectorExpr)
			return ok && se.Sel.Name == "GetKey"
		}
		// raw key variables.
		raw := map[types.Object]token.Pos{}
		ast.Inspect(f.Decl.Body, func(x ast.Node) bool {
			as, ok := x.(*ast.AssignStmt)
			if !ok || len(as.Rhs) != 1 || !isRawExpr(as.Rhs[0]) {
				return true
			}
			if id, ok := as.Lhs[0].(*ast.Ident); ok && id.Name != "_" {
				if o := info.ObjectOf(id); o != nil {
					raw[o] = as.Pos()
				}
			}
			return true
		})
		n := 0
		for o, dpos := range raw {
			n++
			bad := ""
			ast.Inspect(f.Decl.Body, func(x ast.Node) bool {
				id, ok := x.(*ast.Ident)
				if !ok || info.Uses[id] != o || bad != "" {
					return true
				}
				switch p := pm[id].(type) {
				case *ast.BinaryExpr:
					if p.Op != token.EQL && p.Op != token.NEQ {
						return true
					}
					other := p.X
					if ast.Unparen(p.X) == ast.Expr(id) {
						other = p.Y
					}
					if tv, ok := info.Types[other]; !ok || tv.Value == nil {
						bad = "compared with " + types.ExprString(other) + " at " + c.Pos(p.Pos())
					}
				case *ast.AssignStmt:
					for i, rhs := range p.Rhs {
						if ast.Unparen(rhs) == ast.Expr(id) && i < len(p.Lhs) {
							if _, isIdx := p.Lhs[i].(*ast.IndexExpr); isIdx {
								bad = "stored as it is in " + types.ExprString(p.Lhs[i]) + " at " + c.Pos(p.Pos())
							}
						}
					}
				case *ast.CallExpr:
					// an argument: fine when the call's value is not itself compared or stored, or when the
					// callee is a canonicaliser.
					switch gp := pm[p].(type) {
					case *ast.BinaryExpr:
						if (gp.Op == token.EQL || gp.Op == token.NEQ) && !isCanon(c.funcOfCallee(Callee(info, p))) {
							bad = "compared through " + types.ExprString(p.Fun) + ", which does not parse and re-render the key, at " + c.Pos(gp.Pos())
						}
					case *ast.AssignStmt:
						for i, rhs := range gp.Rhs {
							if ast.Unparen(rhs) == ast.Expr(p) && i < len(gp.Lhs) {
								if _, isIdx := gp.Lhs[i].(*ast.IndexExpr); isIdx && !isCanon(c.funcOfCallee(Callee(info, p))) {
									bad = "stored through " + types.ExprString(p.Fun) + ", which does not parse and re-render the key, at " + c.Pos(gp.Pos())
								}
							}
						}
					}
				}
				return true
			})
			r.Check(bad == "", fmt.Sprintf("%s:path-key(%s)#%d", f.Name, o.Name(), rawOrdinal(raw, o)), c.Pos(dpos), "the raw path key is compared with constants only and reaches entry keys through a canonicaliser",
				f.Name+": the key string "+o.Name()+" read from the gNMI path is "+bad+": a key spelled other than KeyValueAsString spells it (`[k=1.0]`, the canonical decimal64 form; `[k=+1]`, `[id=mod:NAME]`) does not find the existing entry — GetNode returns nothing for a path SetNode just accepted, and the next SetNode replaces the entry by a keys-only one")
		}
		// the wildcard test on the raw expression itself is a comparison with a constant; nothing to do.
		_ = n
	}
}

// rawOrdinal: position of o among the raw key variables of the function, in source order.
func rawOrdinal(raw map[types.Object]token.Pos, o types.Object) int {
	k := 1
	for p, pos := range raw {
		if p != o && pos < raw[o] {
			k++
		}
	}
	return k
}

// isKeyCanonicaliser: g parses a key string to the key's Go type and renders the value again — both
// ytypes.StringToType and ygot.KeyValueAsString are reachable from it — and does nothing at the level
// of strings itself (no call into package strings, no util.StripModulePrefix in its own body). Such a
// function maps two strings to the same result only when they denote the same key value.
func (c *Ctx) isKeyCanonicaliser(g *FuncInfo) bool {
	strToType := c.Func("ytypes", "StringToType")
	kvas := c.Func("ygot", "KeyValueAsString")
	if g == nil || strToType == nil || kvas == nil || g.Obj == strToType.Obj {
		return false
	}
	a, b := false, false
	for _, h := range c.astReach(g) {
		if h.Obj == strToType.Obj {
			a = true
		}
		if h.Obj == kvas.Obj {
			b = true
		}
	}
	if !a || !b {
		return false
	}
	stringLevel := false
	ast.Inspect(g.Decl.Body, func(x ast.Node) bool {
		if call, ok := x.(*ast.CallExpr); ok {
			if fn := Callee(g.Info(), call); fn != nil {
				full := FullName(fn)
				if (fn.Pkg() != nil && fn.Pkg().Path() == "strings") || full == P("util")+".StripModulePrefix" || lossyFuncs[full] {
					stringLevel = true
				}
			}
		}
		return true
	})
	return !stringLevel
}
