package main

import (
	"fmt"
	"go/ast"
	"go/token"
)

// ---- R-DECIMAL-EXACT (C06) ---------------------------------------------------------------------

// ruleDecimalExact: goyang's yang.FromFloat multiplies the float by ten until no fraction is left,
// which accumulates binary rounding error (0.07 becomes 0.07000000000000001), so a Number obtained
// from it is not the decimal64 value that was written and compares wrongly against a range bound.
// In the restriction validators FromFloat is admissible only as the fallback behind an exact
// conversion (yang.ParseDecimal of the value's decimal representation) that returned first on
// success.
func ruleDecimalExact(c *Ctx, r *Report) {
	r.Rule("R-DECIMAL-EXACT", "in the ytypes validators every yang.FromFloat call (repeated multiplication by ten: inexact for most decimal fractions) is the fallback behind an exact conversion: an earlier `if n, err := yang.ParseDecimal(...); err == nil { return n }` in the same function", 1)
	n := 0
	for _, f := range c.AllFuncs("ytypes") {
		if f.Decl.Body == nil {
			continue
		}
		info := f.Info()
		var exact []*ast.IfStmt
		ast.Inspect(f.Decl.Body, func(x ast.Node) bool {
			is, ok := x.(*ast.IfStmt)
			if !ok || is.Init == nil {
				return true
			}
			as, ok := is.Init.(*ast.AssignStmt)
			if !ok || len(as.Rhs) != 1 {
				return true
			}
			cl, ok := ast.Unparen(as.Rhs[0]).(*ast.CallExpr)
			if !ok || FullName(Callee(info, cl)) != "github.com/openconfig/goyang/pkg/yang.ParseDecimal" {
				return true
			}
			be, ok := ast.Unparen(is.Cond).(*ast.BinaryExpr)
			if !ok || be.Op != token.EQL || !(isNilIdent(info, be.X) || isNilIdent(info, be.Y)) {
				return true
			}
			if len(returnsOf(is.Body)) > 0 {
				exact = append(exact, is)
			}
			return true
		})
		ast.Inspect(f.Decl.Body, func(x ast.Node) bool {
			cl, ok := x.(*ast.CallExpr)
			if !ok || FullName(Callee(info, cl)) != "github.com/openconfig/goyang/pkg/yang.FromFloat" {
				return true
			}
			n++
			guarded := false
			for _, is := range exact {
				if is.End() < cl.Pos() {
					guarded = true
				}
			}
			r.Check(guarded, fmt.Sprintf("%s:FromFloat", f.Name), c.Pos(cl.Pos()), "fallback behind an exact yang.ParseDecimal conversion that returns on success",
				f.Name+" takes the yang.Number of a decimal64 value from yang.FromFloat alone: FromFloat(0.07) is 0.07000000000000001, so a value exactly on the upper bound of a range part is rejected (and one just below a lower bound's approximation accepted)")
			return true
		})
	}
	if n == 0 {
		r.OK("ytypes:FromFloat", "ytypes", "yang.FromFloat is not used by the validators")
	}
}
