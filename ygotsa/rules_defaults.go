package main

import (
	"fmt"
	"go/ast"
	"go/token"
	"go/types"
	"strings"
)

// checkPopulateDefaults applies the per-method discipline of a generated PopulateDefaults:
// every store to a field of the receiver is governed by the unset test (== nil / == zero) of that
// same field, stores the address of a fresh local initialised by a constant/literal expression (or
// that expression itself for non-pointer leaves), and every struct-pointer / list / ordered-list
// field of the receiver's type is descended into. Returns the set of fields stored.
func checkPopulateDefaults(c *Ctx, r *Report, g *gm, pfx, pos string) map[string]bool {
	stored := map[string]bool{}
	ms := g.semantic(g.recv)
	bad := ""
	for _, m := range ms {
		sel, ok := ast.Unparen(m.LHS).(*ast.SelectorExpr)
		if !ok || ObjOf(g.info, sel.X) != g.recv {
			bad = "writes " + types.ExprString(m.LHS)
			continue
		}
		stored[sel.Sel.Name] = true
		guard := false
		for _, ft := range g.c.FactsAt(g.f, m.Node, false) {
			if ft.Kind != "cond" || !ft.Pos {
				continue
			}
			if be, ok := ast.Unparen(ft.Cond).(*ast.BinaryExpr); ok && be.Op == token.EQL && sameExpr(g.info, be.X, sel) {
				tv := g.info.Types[be.Y]
				if tv.IsNil() || tv.Value != nil {
					guard = true
				}
			}
		}
		if !guard {
			bad = "sets " + sel.Sel.Name + " without testing that it is unset"
			continue
		}
		// value.
		rhs := ast.Unparen(m.RHS)
		if u, ok := rhs.(*ast.UnaryExpr); ok && u.Op == token.AND {
			vobj := ObjOf(g.info, u.X)
			fresh := false
			ast.Inspect(g.f.Decl.Body, func(n ast.Node) bool {
				if vs, ok := n.(*ast.ValueSpec); ok && len(vs.Names) == 1 && g.info.ObjectOf(vs.Names[0]) == vobj && len(vs.Values) == 1 {
					// same block as the store.
					if enclosingBlock(g.c, g.f, vs) == enclosingBlock(g.c, g.f, m.Node) {
						fresh = constantLike(g.info, vs.Values[0])
					}
				}
				return true
			})
			if !fresh {
				bad = "stores into " + sel.Sel.Name + " the address of something other than a fresh local initialised with the default literal"
			}
		} else if !constantLike(g.info, rhs) {
			bad = "stores a non-constant into " + sel.Sel.Name
		}
	}
	r.Check(bad == "", pfx+":stores", pos, fmt.Sprintf("%d leaf stores, each under the unset test of its own field, each a fresh default literal", len(ms)),
		"generated PopulateDefaults "+bad+": a leaf the user has set is overwritten, or the value written is not the schema default")
	r.Check(g.recvNilSafe(), pfx+":nil-receiver", pos, "nil receiver handled", "generated PopulateDefaults dereferences a nil receiver")
	// recursion into children.
	rt := g.recv.Type()
	if p, ok := rt.(*types.Pointer); ok {
		rt = p.Elem()
	}
	st, ok := rt.Underlying().(*types.Struct)
	if !ok {
		return stored
	}
	hasPD := func(t types.Type) bool {
		ms := types.NewMethodSet(t)
		for i := 0; i < ms.Len(); i++ {
			if ms.At(i).Obj().Name() == "PopulateDefaults" {
				return true
			}
		}
		return false
	}
	missing := ""
	for i := 0; i < st.NumFields(); i++ {
		fld := st.Field(i)
		var want string
		switch ft := fld.Type().Underlying().(type) {
		case *types.Pointer:
			if hasPD(fld.Type()) {
				// container or ordered map.
				want = "direct"
				if strings.HasSuffix(types.TypeString(fld.Type(), nil), "_OrderedMap") {
					want = "values"
				}
			}
		case *types.Map:
			if hasPD(ft.Elem()) {
				want = "range"
			}
		}
		if want == "" {
			continue
		}
		found := false
		ast.Inspect(g.f.Decl.Body, func(n ast.Node) bool {
			call, ok := n.(*ast.CallExpr)
			if !ok {
				return true
			}
			sel, ok := call.Fun.(*ast.SelectorExpr)
			if !ok || sel.Sel.Name != "PopulateDefaults" {
				return true
			}
			switch want {
			case "direct":
				if s2, ok := ast.Unparen(sel.X).(*ast.SelectorExpr); ok && s2.Sel.Name == fld.Name() && ObjOf(g.info, s2.X) == g.recv {
					found = true
				}
			default:
				// e.PopulateDefaults() inside `for _, e := range t.F` / `range t.F.Values()`
				if lp, ok := g.c.EnclosingLoop(g.f, call).(*ast.RangeStmt); ok && lp.Value != nil && ObjOf(g.info, lp.Value) == ObjOf(g.info, sel.X) {
					x := types.ExprString(lp.X)
					rn := g.recv.Name()
					if (want == "range" && x == rn+"."+fld.Name()) || (want == "values" && x == rn+"."+fld.Name()+".Values()") {
						found = true
					}
				}
			}
			return true
		})
		if !found {
			missing = fld.Name()
		}
	}
	r.Check(missing == "", pfx+":descends", pos, "every container / list / ordered-list field is populated recursively", "generated PopulateDefaults does not descend into field "+missing+": defaults below it are never set")
	return stored
}

// constantLike: a literal, constant, or a conversion/constructor call of constants (T("x"), Binary("…"), UnionString("…")).
func constantLike(info *types.Info, e ast.Expr) bool {
	e = ast.Unparen(e)
	if tv, ok := info.Types[e]; ok && tv.Value != nil {
		return true
	}
	switch x := e.(type) {
	case *ast.BasicLit:
		return true
	case *ast.Ident, *ast.SelectorExpr:
		if o := ObjOf(info, e); o != nil {
			_, isConst := o.(*types.Const)
			return isConst
		}
	case *ast.CallExpr:
		if tv, ok := info.Types[x.Fun]; ok && tv.IsType() && len(x.Args) == 1 {
			return constantLike(info, x.Args[0])
		}
	case *ast.CompositeLit:
		for _, el := range x.Elts {
			v := el
			if kv, ok := el.(*ast.KeyValueExpr); ok {
				v = kv.Value
			}
			if !constantLike(info, v) {
				return false
			}
		}
		return true
	case *ast.UnaryExpr:
		return x.Op == token.SUB && constantLike(info, x.X)
	}
	return false
}

// ruleDefaultsTemplate: expansion of populateDefaults / getLeaf.
func ruleDefaultsTemplate(c *Ctx, r *Report) {
	r.Rule("R-DEFAULTS", "PopulateDefaults as expanded from gogen's template and as present in the compiled generated packages: a leaf is written only under the unset test of that same leaf, with a fresh default literal; exactly the leaves that carry a default are written; every container, list and ordered-list child is descended into; the getter returns the same default literal", 40)
	ts := c.templatesOf("gogen")
	if ts["populateDefaults"] == nil || ts["getLeaf"] == nil {
		r.Und("template:populateDefaults", "-", "template not found in gogen")
		return
	}
	s := func(v string) any { return v }
	leaves := []map[string]any{
		{"Name": "Str", "Type": "string", "Zero": `""`, "IsPtr": true, "Receiver": "T", "Default": s(`"a\\b"`)},
		{"Name": "Num", "Type": "uint32", "Zero": "0", "IsPtr": true, "Receiver": "T", "Default": s("42")},
		{"Name": "Color", "Type": "E_Color", "Zero": "0", "IsPtr": false, "Receiver": "T", "Default": s("E_Color_RED")},
		{"Name": "Plain", "Type": "string", "Zero": `""`, "IsPtr": true, "Receiver": "T", "Default": nil},
		{"Name": "Kind", "Type": "E_Color", "Zero": "0", "IsPtr": false, "Receiver": "T", "Default": nil},
	}
	prelude := `package pd

import (
	"fmt"
	"github.com/openconfig/ygot/ygot"
)

var _ = fmt.Sprint

type E_Color int64

const E_Color_RED E_Color = 1

type Child struct{ X *string }

func (*Child) IsYANGGoStruct()     {}
func (t *Child) PopulateDefaults() {}

type Child_OrderedMap struct{ keys []string }

func (o *Child_OrderedMap) Values() []*Child { return nil }
func (o *Child_OrderedMap) PopulateDefaults() {}

type T struct {
	Str   *string
	Num   *uint32
	Color E_Color
	Plain *string
	Kind  E_Color
	Cont  *Child
	L     map[string]*Child
	OL    *Child_OrderedMap
}

func (*T) IsYANGGoStruct() {}
`
	// Child_OrderedMap.PopulateDefaults exists only so that the field counts as an ordered list for the descent rule.
	src := prelude
	out, err := instantiate(ts["populateDefaults"], map[string]any{"Receiver": "T", "ChildContainerNames": []string{"Cont"}, "ChildUnorderedListNames": []string{"L"}, "ChildOrderedListNames": []string{"OL"}, "Leaves": leaves})
	if err != nil {
		r.Und("populateDefaults:expand", c.Pos(ts["populateDefaults"].Pos), "template expansion failed: "+err.Error())
		return
	}
	src += out
	for _, l := range leaves {
		g, err := instantiate(ts["getLeaf"], l)
		if err != nil {
			r.Und("getLeaf:expand", c.Pos(ts["getLeaf"].Pos), "template expansion failed: "+err.Error())
			return
		}
		src += g
	}
	pos := c.Pos(ts["populateDefaults"].Pos)
	sp, err := c.buildSynth("pd", src)
	if err != nil {
		r.Bad("populateDefaults[template]:compiles", pos, "the PopulateDefaults/Get code generated for the analyser's leaf shapes does not compile: "+err.Error())
		return
	}
	r.OK("populateDefaults[template]:compiles", pos, "type-checks")
	f := sp.Funcs["T.PopulateDefaults"]
	if f == nil {
		r.Bad("populateDefaults[template]:method", pos, "no PopulateDefaults method generated")
		return
	}
	g := newGM(c, f)
	stored := checkPopulateDefaults(c, r, g, "populateDefaults[template]", pos)
	want := map[string]bool{"Str": true, "Num": true, "Color": true}
	okSet := len(stored) == len(want)
	for k := range want {
		if !stored[k] {
			okSet = false
		}
	}
	r.Check(okSet, "populateDefaults[template]:exactly-defaulted-leaves", pos, "writes exactly the leaves with a default", fmt.Sprintf("generated PopulateDefaults writes %v; the leaves with a default are Str, Num, Color", keysOf(stored)))
	// the stored literal is the Default text.
	litOK := strings.Contains(out, `var v string = "a\\b"`) && strings.Contains(out, "var v uint32 = 42") && strings.Contains(out, "t.Color = E_Color_RED")
	r.Check(litOK, "populateDefaults[template]:literal-verbatim", pos, "the Default text is emitted verbatim as the initialiser", "the template alters the default literal before emitting it")
	// getters return the same default.
	for _, l := range leaves {
		name := l["Name"].(string)
		gf := sp.Funcs["T.Get"+name]
		if gf == nil {
			r.Bad("getLeaf[template]:"+name, c.Pos(ts["getLeaf"].Pos), "no getter generated for "+name)
			continue
		}
		gg := newGM(c, gf)
		wantRet := l["Zero"].(string)
		if l["Default"] != nil {
			wantRet = l["Default"].(string)
		}
		ok := false
		for _, rs := range returnsOf(gf.Decl.Body) {
			if len(rs.Results) == 1 && types.ExprString(rs.Results[0]) == wantRet {
				// on the unset path.
				for _, ft := range c.FactsAt(gf, rs, false) {
					if ft.Kind == "cond" && ft.Pos {
						ok = true
					}
				}
			}
		}
		r.Check(ok && len(gg.mutations(gg.recv)) == 0, "getLeaf[template]:"+name, c.Pos(ts["getLeaf"].Pos), "unset → "+wantRet+"; writes nothing", "generated getter for "+name+" does not return "+wantRet+" for an unset leaf (or writes the struct)")
	}
}

// ruleDefaultsCorpus: the compiled generated packages.
func ruleDefaultsCorpus(c *Ctx, r *Report) {
	n := 0
	for _, rel := range corpusPkgs {
		for _, f := range c.AllFuncs(rel) {
			if !strings.HasSuffix(f.Name, ".PopulateDefaults") {
				continue
			}
			n++
			g := newGM(c, f)
			checkPopulateDefaults(c, r, g, "corpus:"+f.Name, c.Pos(f.Decl.Pos()))
		}
	}
	c.stats["corpus_populate_defaults_methods"] = n
}

// ruleGoLiteral: R-GO-LITERAL (yangDefaultValueToGo).
func ruleGoLiteral(c *Ctx, r *Report) {
	r.Rule("R-GO-LITERAL", "in gogen.yangDefaultValueToGo schema text becomes Go source only as (a) the %q-quoted value, (b) the raw value after it was parsed successfully as a number / matched against true|false, (c) an enum constant name built by enumDefaultValue after IsDefined, or (d) the result of the recursive conversion; and every arm with restrictions validates the value against them first", 10)
	f := c.MustFunc(r, "gogen", "GoLangMapper.yangDefaultValueToGo")
	if f == nil {
		return
	}
	info := f.Info()
	sws := KindSwitches(f, yangKind)
	var sw *Table
	for _, t := range sws {
		if t.Has("yang.Ystring") {
			sw = t
		}
	}
	if sw == nil {
		r.Und("gogen.yangDefaultValueToGo:switch", c.Pos(f.Decl.Pos()), "kind dispatch not recognised")
		return
	}
	valueParam := paramObj(f, 0)
	validators := map[string]string{"yang.Ystring": "ValidateStringRestrictions", "yang.Ybinary": "ValidateBinaryRestrictions", "yang.Ydecimal64": "ValidateDecimalRestrictions",
		"yang.Yint8": "ValidateIntRestrictions", "yang.Yuint8": "ValidateUintRestrictions"}
	for _, a := range sw.Arms {
		if a.Deflt {
			continue
		}
		key := "gogen.yangDefaultValueToGo:" + strings.Join(a.Keys, ",")
		n := 0
		bad := ""
		for _, rs := range returnsOf(a.Node) {
			if len(rs.Results) != 3 || !isNilConst(info, rs.Results[2]) {
				continue
			}
			n++
			if w := literalProvenance(c, f, a, rs.Results[0], valueParam, 0); w != "" {
				bad = w
			}
		}
		if n == 0 {
			// arms that only fall through / recurse / error.
			direct := false
			for _, rs := range returnsOf(a.Node) {
				if len(rs.Results) == 1 {
					if call, ok := rs.Results[0].(*ast.CallExpr); ok && IsCall(info, call, P("gogen")+".GoLangMapper.yangDefaultValueToGo") {
						direct = true
					}
				}
			}
			if direct {
				r.OK(key, c.Pos(a.Node.Pos()), "delegates to the recursive conversion")
			} else if armErrorsOnly(info, a) || len(a.Body) <= 2 {
				r.OK(key, c.Pos(a.Node.Pos()), "no literal produced (error or fallthrough)")
			} else {
				r.Und(key, c.Pos(a.Node.Pos()), "arm shape not recognised")
			}
			continue
		}
		r.Check(bad == "", key+":literal", c.Pos(a.Node.Pos()), "literal is quoted, validated-raw, an enum constant or recursive", "yangDefaultValueToGo "+bad+": a default containing a backslash, quote or newline changes meaning (or breaks compilation) in the generated PopulateDefaults/Get code")
	}
	// validators.
	for k, v := range validators {
		a := sw.ByKey[k]
		if a == nil {
			r.Bad("gogen.yangDefaultValueToGo:"+k+":validated", c.Pos(sw.Switch.Pos()), "no arm for "+k)
			continue
		}
		// integer arms share code through fallthrough: search the whole switch for int kinds.
		scope := ast.Node(a.Node)
		if strings.Contains(k, "int") {
			scope = sw.Switch
		}
		calls := CallsIn(info, scope, P("ytypes")+"."+v)
		ok := len(calls) >= 1
		for _, call := range calls {
			if !isIfInit(c, f, call) && !errTestedAfter(c, f, scope, call) {
				ok = false
			}
		}
		r.Check(ok, "gogen.yangDefaultValueToGo:"+k+":validated", c.Pos(a.Node.Pos()), "default checked with ytypes."+v+", error returned", "the "+k+" default is not validated against the type's restrictions at generation time: PopulateDefaults can make a valid tree invalid")
	}
}

// literalProvenance classifies the expression returned as Go source text.
func literalProvenance(c *Ctx, f *FuncInfo, a *Arm, e ast.Expr, valueParam types.Object, depth int) string {
	info := f.Info()
	e = ast.Unparen(e)
	if depth > 4 {
		return "builds the literal through too many steps to follow"
	}
	switch x := e.(type) {
	case *ast.CallExpr:
		fn := FullName(Callee(info, x))
		switch {
		case fn == "fmt.Sprintf":
			format, ok := ConstOf(info, x.Args[0])
			if !ok {
				return "formats the literal with a non-constant format"
			}
			// every argument that is schema text must be consumed by %q.
			verbs := formatVerbs(strings.Trim(format, `"`))
			for i, arg := range x.Args[1:] {
				if i >= len(verbs) {
					break
				}
				if tv, ok := info.Types[arg]; ok && tv.Value != nil {
					continue
				}
				if verbs[i] != 'q' {
					if !schemaTainted(f, a, arg, valueParam, 0) {
						continue // not schema text (type names, constant tables)
					}
					if w := literalProvenance(c, f, a, arg, valueParam, depth+1); w != "" {
						return fmt.Sprintf("splices %s into the literal with %%%c instead of %%q", types.ExprString(arg), verbs[i])
					}
				}
			}
			return ""
		case fn == "strconv.Quote":
			return ""
		case strings.HasSuffix(fn, "gogen.enumDefaultValue"):
			return ""
		case strings.HasSuffix(fn, "yangDefaultValueToGo"):
			return ""
		}
		return "returns the result of " + short(fn) + " as Go source"
	case *ast.Ident:
		obj := info.ObjectOf(x)
		if obj == valueParam {
			// raw value: only after a successful parse or an exact match in this arm.
			ok := false
			for _, call := range CallsIn(info, a.Node, "strconv.ParseInt", "strconv.ParseUint", "strconv.ParseFloat") {
				if len(call.Args) > 0 && ObjOf(info, call.Args[0]) == valueParam && (errTestedAfter(c, f, a.Node, call) || isIfInit(c, f, call)) {
					ok = true
				}
			}
			for _, ft := range c.FactsAt(f, x, false) {
				if ft.Kind == "switch" && ObjOf(info, ft.Cond) == valueParam && len(ft.Vals) > 0 {
					ok = true
				}
				// the same exact match written with comparisons (if value != "true" && value != "false"
				// { error }): for a value that equals none of the constants some fact here is false.
				if ft.Kind == "cond" {
					other := func(e ast.Expr) (bool, bool) {
						be, isB := ast.Unparen(e).(*ast.BinaryExpr)
						if !isB || (be.Op != token.EQL && be.Op != token.NEQ) {
							return false, false
						}
						var cst ast.Expr
						switch {
						case ObjOf(info, be.X) == valueParam:
							cst = be.Y
						case ObjOf(info, be.Y) == valueParam:
							cst = be.X
						default:
							return false, false
						}
						if tv, isC := info.Types[cst]; !isC || tv.Value == nil {
							return false, false
						}
						return be.Op == token.NEQ, true // value equals none of the constants
					}
					if v, known := evalBool3(ft.Cond, other); known && v != ft.Pos {
						ok = true
					}
				}
			}
			if ok {
				return ""
			}
			return "returns the raw schema text as Go source without parsing or quoting it"
		}
		// a local: follow its definitions inside the arm.
		res := "uses an unrecognised value as Go source"
		ast.Inspect(a.Node, func(n ast.Node) bool {
			if as, ok := n.(*ast.AssignStmt); ok && len(as.Lhs) >= 1 && len(as.Rhs) >= 1 && ObjOf(info, as.Lhs[0]) == obj {
				res = literalProvenance(c, f, a, as.Rhs[0], valueParam, depth+1)
			}
			return true
		})
		return res
	case *ast.BinaryExpr:
		if x.Op == token.ADD {
			for _, side := range []ast.Expr{x.X, x.Y} {
				if tv, ok := info.Types[side]; ok && tv.Value != nil {
					continue
				}
				if mentionsObj(info, side, valueParam) {
					return "concatenates the raw schema text into the Go literal instead of quoting it with %q"
				}
				if w := literalProvenance(c, f, a, side, valueParam, depth+1); w != "" {
					return w
				}
			}
			return ""
		}
	case *ast.BasicLit:
		return ""
	}
	if tv, ok := info.Types[e]; ok && tv.Value != nil {
		return ""
	}
	return "builds the literal with an unrecognised expression"
}

func formatVerbs(format string) []byte {
	var out []byte
	for i := 0; i < len(format); i++ {
		if format[i] != '%' {
			continue
		}
		i++
		for i < len(format) && strings.ContainsRune("+-# 0123456789.", rune(format[i])) {
			i++
		}
		if i < len(format) && format[i] != '%' {
			out = append(out, format[i])
		}
	}
	return out
}

// ruleKeyMember: R-KEY-MEMBER.
func ruleKeyMember(c *Ctx, r *Report) {
	r.Rule("R-KEY-MEMBER", "a YANG `key` statement (yang.Entry.Key, a space-separated list of leaf names) is never searched by substring: membership is decided on strings.Fields/Split elements or by whole-string comparison", 15)
	banned := map[string]bool{"strings.Contains": true, "strings.ContainsAny": true, "strings.HasPrefix": true, "strings.HasSuffix": true, "strings.Index": true, "strings.LastIndex": true, "strings.Count": true, "strings.EqualFold": true}
	n := 0
	for _, rel := range append(append([]string{}, libPkgs...), genPkgs...) {
		for _, f := range c.AllFuncs(rel) {
			info := f.Info()
			pm := c.parentMap(f.File)
			ast.Inspect(f.Decl.Body, func(x ast.Node) bool {
				sel, ok := x.(*ast.SelectorExpr)
				if !ok || sel.Sel.Name != "Key" {
					return true
				}
				tv, ok := info.Types[sel.X]
				if !ok || namedTypeOf(tv.Type) != "github.com/openconfig/goyang/pkg/yang.Entry" {
					return true
				}
				n++
				key := fmt.Sprintf("%s:Entry.Key#%d", f.Name, n)
				if call, ok := pm[sel].(*ast.CallExpr); ok {
					if fn := FullName(Callee(info, call)); banned[fn] {
						r.Bad(key, c.Pos(sel.Pos()), fmt.Sprintf("%s tests the `key` statement with %s: a leaf whose name is a substring of the key list (leaf `name` in a list with key `hostname`) is treated as a key", f.Name, fn))
						return true
					}
				}
				r.OK(key, c.Pos(sel.Pos()), "not a substring test")
				return true
			})
		}
	}
}

func enclosingBlock(c *Ctx, f *FuncInfo, n ast.Node) ast.Node {
	pm := c.parentMap(f.File)
	for p := pm[n]; p != nil; p = pm[p] {
		if _, ok := p.(*ast.BlockStmt); ok {
			return p
		}
	}
	return nil
}

// schemaTainted: e mentions the raw schema value, or a local of the arm computed from it.
func schemaTainted(f *FuncInfo, a *Arm, e ast.Expr, valueParam types.Object, depth int) bool {
	info := f.Info()
	// results of the recursive conversion are already Go source / a kind, not raw schema text.
	if call, ok := ast.Unparen(e).(*ast.CallExpr); ok && strings.HasSuffix(FullName(Callee(info, call)), "yangDefaultValueToGo") {
		return false
	}
	if mentionsObj(info, e, valueParam) {
		return true
	}
	if depth > 3 {
		return false
	}
	tainted := false
	ast.Inspect(e, func(n ast.Node) bool {
		id, ok := n.(*ast.Ident)
		if !ok {
			return true
		}
		obj := info.ObjectOf(id)
		if obj == nil {
			return true
		}
		ast.Inspect(a.Node, func(m ast.Node) bool {
			if as, ok := m.(*ast.AssignStmt); ok {
				for i, l := range as.Lhs {
					if ObjOf(info, l) == obj {
						j := i
						if len(as.Rhs) == 1 {
							j = 0
						}
						if j < len(as.Rhs) && as.Rhs[j] != e && schemaTainted(f, a, as.Rhs[j], valueParam, depth+1) {
							tainted = true
						}
					}
				}
			}
			return true
		})
		return true
	})
	return tainted
}

// ruleEnumGen: R-ENUM-GEN (C17, generator side).
func ruleEnumGen(c *Ctx, r *Report) {
	r.Rule("R-ENUM-GEN", "gogen.genGoEnumeratedTypes records the Go constant name and the YANG name of each enum value under the same Go value, that value is never 0 (reserved for UNSET), UNSET is the only name at 0 and has no YANG name; the enum templates expand to one constant per code value and one ΛEnum entry per YANG value with matching numbers", 5)
	f := c.MustFunc(r, "gogen", "genGoEnumeratedTypes")
	if f != nil {
		info := f.Info()
		var codeStore, yangStore *ast.AssignStmt
		ast.Inspect(f.Decl.Body, func(n ast.Node) bool {
			as, ok := n.(*ast.AssignStmt)
			if !ok || len(as.Lhs) != 1 {
				return true
			}
			ix, ok := as.Lhs[0].(*ast.IndexExpr)
			if !ok {
				return true
			}
			mt, ok := info.Types[ix.X].Type.Underlying().(*types.Map)
			if !ok || mt.Key().String() != "int64" {
				return true
			}
			if mt.Elem().String() == "string" {
				codeStore = as
			} else {
				yangStore = as
			}
			return true
		})
		if codeStore == nil || yangStore == nil {
			r.Und("gogen.genGoEnumeratedTypes:stores", c.Pos(f.Decl.Pos()), "stores of code names / YANG names not found")
		} else {
			k1, k2 := codeStore.Lhs[0].(*ast.IndexExpr).Index, yangStore.Lhs[0].(*ast.IndexExpr).Index
			same := sameExpr(info, k1, k2) && enclosingBlock(c, f, codeStore) == enclosingBlock(c, f, yangStore)
			r.Check(same, "gogen.genGoEnumeratedTypes:same-value", c.Pos(codeStore.Pos()), "code name and YANG name stored under the same Go value "+types.ExprString(k1), "the Go constant and the ΛEnum entry of a YANG enum value are recorded under different numbers: rendering a value gives another value's name")
			// never zero: a dominating guard excluding 0 (key != 0, or value != -1 for value+1).
			guarded := false
			for _, ft := range c.FactsAt(f, codeStore, false) {
				if ft.Kind != "cond" {
					continue
				}
				s := strings.ReplaceAll(types.ExprString(ft.Cond), " ", "")
				if (strings.Contains(s, "!=0") && ft.Pos) || (strings.Contains(s, "==0") && !ft.Pos) || (strings.Contains(s, "!=-1") && ft.Pos) || (strings.Contains(s, "==-1") && !ft.Pos) || (strings.Contains(s, "<0") && !ft.Pos) {
					guarded = true
				}
			}
			r.Check(guarded, "gogen.genGoEnumeratedTypes:value-never-zero", c.Pos(codeStore.Pos()), "the Go value of a defined enum value is proved non-zero", "genGoEnumeratedTypes stores a defined YANG enum value under "+types.ExprString(k1)+" without excluding 0: a YANG enum with `value -1` gets the Go value 0, replaces UNSET, and is then treated as unset (never rendered, Validate cannot see it)")
		}
		// literals.
		unsetOnly, origEmpty := false, false
		ast.Inspect(f.Decl.Body, func(n ast.Node) bool {
			cl, ok := n.(*ast.CompositeLit)
			if !ok {
				return true
			}
			mt, ok := info.Types[cl].Type.Underlying().(*types.Map)
			if !ok || mt.Key().String() != "int64" {
				return true
			}
			if mt.Elem().String() == "string" {
				if len(cl.Elts) == 1 {
					if kv, ok := cl.Elts[0].(*ast.KeyValueExpr); ok {
						k, _ := ConstOf(info, kv.Key)
						v, _ := ConstOf(info, kv.Value)
						unsetOnly = k == "0" && v == `"UNSET"`
					}
				}
			} else if len(cl.Elts) == 0 {
				origEmpty = true
			}
			return true
		})
		r.Check(unsetOnly && origEmpty, "gogen.genGoEnumeratedTypes:unset", c.Pos(f.Decl.Pos()), "code values start as {0: UNSET}; YANG values start empty (0 has no YANG name)", "the initial value tables of genGoEnumeratedTypes no longer reserve 0 for UNSET only")
	}
	// template expansion.
	ts := c.templatesOf("gogen")
	if ts["enumDefinition"] == nil || ts["enumMap"] == nil {
		r.Und("template:enumDefinition", "-", "enum templates not found")
		return
	}
	src := "package en\n\nimport \"github.com/openconfig/ygot/ygot\"\n\n"
	s1, err1 := instantiate(ts["enumDefinition"], map[string]any{"EnumerationPrefix": "Color", "Values": map[int64]string{0: "UNSET", 1: "RED", 2: "BLUE", 7: "GREEN"}})
	s2, err2 := instantiate(ts["enumMap"], map[string]map[int64]map[string]any{"Color": {1: {"Name": "RED", "DefiningModule": ""}, 2: {"Name": "BLUE", "DefiningModule": "m"}, 7: {"Name": "GREEN", "DefiningModule": ""}}})
	if err1 != nil || err2 != nil {
		r.Und("enum[template]:expand", c.Pos(ts["enumDefinition"].Pos), fmt.Sprintf("template expansion failed: %v %v", err1, err2))
		return
	}
	sp, err := c.buildSynth("en", src+s1+s2)
	pos := c.Pos(ts["enumDefinition"].Pos)
	if err != nil {
		r.Bad("enum[template]:compiles", pos, "the enum code generated for the analyser's shape does not compile: "+err.Error())
		return
	}
	want := map[string]string{"Color_UNSET": "0", "Color_RED": "1", "Color_BLUE": "2", "Color_GREEN": "7"}
	okc := true
	for name, v := range want {
		cn, _ := sp.Pkg.Types.Scope().Lookup(name).(*types.Const)
		if cn == nil || cn.Val().ExactString() != v || typeShort(cn.Type()) != "en.E_Color" {
			okc = false
		}
	}
	r.Check(okc, "enum[template]:constants", pos, "one typed constant per code value, numbered by the value table's key", "the enum template does not declare one E_<name> constant per code value with the table's number")
	// ΛEnum literal.
	entries := map[string]string{}
	ast.Inspect(sp.File, func(n ast.Node) bool {
		kv, ok := n.(*ast.KeyValueExpr)
		if !ok {
			return true
		}
		if inner, ok := kv.Value.(*ast.CompositeLit); ok {
			for _, el := range inner.Elts {
				if kv2, ok := el.(*ast.KeyValueExpr); ok {
					if id, ok := kv2.Key.(*ast.Ident); ok && id.Name == "Name" {
						k, _ := ConstOf(sp.Pkg.TypesInfo, kv.Key)
						v, _ := ConstOf(sp.Pkg.TypesInfo, kv2.Value)
						entries[k] = v
					}
				}
			}
		}
		return true
	})
	okm := len(entries) == 3 && entries["1"] == `"RED"` && entries["2"] == `"BLUE"` && entries["7"] == `"GREEN"`
	r.Check(okm, "enum[template]:name-map", c.Pos(ts["enumMap"].Pos), "ΛEnum has one entry per YANG value under the same number as its constant, none for 0", "the enum map template does not give each YANG value one entry under its constant's number")
}

// ruleDefaultSource: R-DEFAULT-SOURCE (C33).
func ruleDefaultSource(c *Ctx, r *Report) {
	r.Rule("R-DEFAULT-SOURCE", "the generator reads a leaf's default through goyang's Entry.DefaultValues()/SingleDefaultValue() (the leaf's own default, else its typedef chain's), never from the raw Entry.Default field; the names handed to PopulateDefaults for child containers and lists are the struct's own (uniquified) field names", 5)
	n := 0
	for _, rel := range genPkgs {
		for _, f := range c.AllFuncs(rel) {
			info := f.Info()
			ast.Inspect(f.Decl.Body, func(x ast.Node) bool {
				switch e := x.(type) {
				case *ast.SelectorExpr:
					if e.Sel.Name != "Default" {
						return true
					}
					tv, ok := info.Types[e.X]
					if !ok || namedTypeOf(tv.Type) != yangEntry {
						return true
					}
					if _, isField := info.ObjectOf(e.Sel).(*types.Var); !isField {
						return true
					}
					n++
					r.Bad(fmt.Sprintf("%s:Entry.Default#%d", f.Name, n), c.Pos(e.Pos()), f.Name+" reads the raw Default field of a schema entry: the default a leaf inherits from its typedef (which Entry.DefaultValues() returns) is lost, so PopulateDefaults never sets it")
				case *ast.CallExpr:
					fn := FullName(Callee(info, e))
					if fn == yangEntry+".DefaultValues" || fn == yangEntry+".SingleDefaultValue" {
						n++
						r.OK(fmt.Sprintf("%s:%s#%d", f.Name, strings.TrimPrefix(fn, yangEntry+"."), n), c.Pos(e.Pos()), "default read through goyang's accessor")
					}
				}
				return true
			})
		}
	}
	if g := c.MustFunc(r, "gogen", "generateGoDefaultValue"); g != nil {
		gi := g.Info()
		ok := false
		for _, call := range CallsIn(gi, g.Decl.Body, yangEntry+".DefaultValues") {
			if sel, isSel := call.Fun.(*ast.SelectorExpr); isSel && paramIndex(g, ObjOf(gi, sel.X)) == 0 {
				ok = true
			}
		}
		r.Check(ok, "gogen.generateGoDefaultValue:uses-DefaultValues", c.Pos(g.Decl.Pos()), "field.DefaultValues()", "generateGoDefaultValue no longer takes the leaf's defaults from field.DefaultValues()")
	}
	// names handed to the PopulateDefaults template are the field's own Go name.
	if g := c.MustFunc(r, "gogen", "writeGoStruct"); g != nil {
		gi := g.Info()
		k := 0
		ast.Inspect(g.Decl.Body, func(x ast.Node) bool {
			as, ok := x.(*ast.AssignStmt)
			if !ok || len(as.Lhs) != 1 || len(as.Rhs) != 1 {
				return true
			}
			l := types.ExprString(as.Lhs[0])
			if !strings.HasPrefix(l, "associatedDefaultMethod.Child") {
				return true
			}
			call, ok := as.Rhs[0].(*ast.CallExpr)
			if !ok || len(call.Args) != 2 {
				return true
			}
			k++
			arg := ObjOf(gi, call.Args[1])
			// the Go field name variable: the one used as Name: in the goStructField literal of this arm.
			arm := c.enclosingCase(g, as)
			var nameObj types.Object
			if arm != nil {
				ast.Inspect(arm, func(m ast.Node) bool {
					if cl, ok := m.(*ast.CompositeLit); ok && namedTypeOf(gi.Types[cl].Type) == P("gogen")+".goStructField" {
						for _, el := range cl.Elts {
							if kv, ok := el.(*ast.KeyValueExpr); ok && types.ExprString(kv.Key) == "Name" && nameObj == nil {
								nameObj = ObjOf(gi, kv.Value)
							}
						}
					}
					return true
				})
			}
			r.Check(arg != nil && arg == nameObj, fmt.Sprintf("gogen.writeGoStruct:%s#%d", strings.TrimPrefix(l, "associatedDefaultMethod."), k), c.Pos(as.Pos()), "the struct field's own Go name",
				"writeGoStruct hands PopulateDefaults a child name that is not the struct field's (uniquified) Go name: when two children camel-case alike, one is populated twice and the other never")
			return true
		})
	}
}
