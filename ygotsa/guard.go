package main

import (
	"go/ast"
	"go/token"
	"go/types"
)

// Fact is a condition known to hold (Pos) or not hold (!Pos) at a program point,
// derived from lexical structure: enclosing if/else bodies, switch arms, and
// preceding sibling `if c { <terminating> }` statements (early exits).
type Fact struct {
	Cond ast.Expr // boolean condition, or the switch tag for Kind=="switch"/"typeswitch"
	Pos  bool
	Kind string     // "cond", "switch", "typeswitch"
	Vals []ast.Expr // case values (switch) or case types (typeswitch); nil for default
	Deflt bool
}

// terminates reports whether a statement list always leaves the enclosing
// statement list (return / continue / break / goto / panic / log.Fatal…).
func terminates(info *types.Info, list []ast.Stmt) bool {
	if len(list) == 0 {
		return false
	}
	switch s := list[len(list)-1].(type) {
	case *ast.ReturnStmt:
		return true
	case *ast.BranchStmt:
		return s.Tok == token.CONTINUE || s.Tok == token.BREAK || s.Tok == token.GOTO
	case *ast.ExprStmt:
		if call, ok := s.X.(*ast.CallExpr); ok {
			if id, ok := call.Fun.(*ast.Ident); ok && id.Name == "panic" {
				return true
			}
			fn := FullName(Callee(info, call))
			switch fn {
			case "os.Exit", "log.Fatal", "log.Fatalf", "github.com/golang/glog.Fatalf", "github.com/golang/glog.Fatal", "github.com/golang/glog.Exitf", "github.com/golang/glog.Exit":
				return true
			}
		}
	case *ast.BlockStmt:
		return terminates(info, s.List)
	case *ast.IfStmt:
		if s.Else == nil {
			return false
		}
		var el []ast.Stmt
		switch e := s.Else.(type) {
		case *ast.BlockStmt:
			el = e.List
		case *ast.IfStmt:
			el = []ast.Stmt{e}
		}
		return terminates(info, s.Body.List) && terminates(info, el)
	}
	return false
}

func splitFact(e ast.Expr, pos bool, out *[]Fact) {
	e = ast.Unparen(e)
	switch x := e.(type) {
	case *ast.UnaryExpr:
		if x.Op == token.NOT {
			splitFact(x.X, !pos, out)
			return
		}
	case *ast.BinaryExpr:
		if (x.Op == token.LAND && pos) || (x.Op == token.LOR && !pos) {
			splitFact(x.X, pos, out)
			splitFact(x.Y, pos, out)
			return
		}
	}
	*out = append(*out, Fact{Cond: e, Pos: pos, Kind: "cond"})
}

// FactsAt returns the facts holding at node n inside function f. With
// throughClosures, facts of the enclosing function at a FuncLit's definition
// are included (sound only for conditions over values the closure cannot change).
func (c *Ctx) FactsAt(f *FuncInfo, n ast.Node, throughClosures bool) []Fact {
	pm := c.parentMap(f.File)
	info := f.Info()
	var facts []Fact
	child := n
	for {
		parent := pm[child]
		if parent == nil || parent == ast.Node(f.Decl) {
			break
		}
		if _, ok := parent.(*ast.FuncLit); ok && !throughClosures {
			break
		}
		var list []ast.Stmt
		switch p := parent.(type) {
		case *ast.IfStmt:
			if child == ast.Node(p.Body) {
				splitFact(p.Cond, true, &facts)
			} else if p.Else != nil && child == ast.Node(p.Else) {
				splitFact(p.Cond, false, &facts)
			}
		case *ast.BinaryExpr:
			// short-circuit evaluation: the right operand runs only after the left one had the
			// outcome that does not decide the expression.
			if child == ast.Node(p.Y) {
				switch p.Op {
				case token.LAND:
					splitFact(p.X, true, &facts)
				case token.LOR:
					splitFact(p.X, false, &facts)
				}
			}
		case *ast.ForStmt:
			if child == ast.Node(p.Body) && p.Cond != nil {
				// holds at loop entry of each iteration only; recorded as cond.
				splitFact(p.Cond, true, &facts)
			}
		case *ast.BlockStmt:
			list = p.List
		case *ast.CaseClause:
			list = p.Body
			// the switch statement is parent of the body block which is parent of the clause
			if blk, ok := pm[p].(*ast.BlockStmt); ok {
				switch sw := pm[blk].(type) {
				case *ast.SwitchStmt:
					if sw.Tag != nil {
						if p.List == nil {
							facts = append(facts, Fact{Cond: sw.Tag, Pos: true, Kind: "switch", Deflt: true})
						} else {
							facts = append(facts, Fact{Cond: sw.Tag, Pos: true, Kind: "switch", Vals: p.List})
						}
					} else {
						// tagless: this case's condition holds (if single), all earlier cases' fail.
						if len(p.List) == 1 {
							splitFact(p.List[0], true, &facts)
						}
						for _, cc := range blk.List {
							if cc == ast.Stmt(p) {
								break
							}
							for _, e := range cc.(*ast.CaseClause).List {
								splitFact(e, false, &facts)
							}
						}
					}
				case *ast.TypeSwitchStmt:
					var tag ast.Expr
					switch a := sw.Assign.(type) {
					case *ast.AssignStmt:
						if ta, ok := a.Rhs[0].(*ast.TypeAssertExpr); ok {
							tag = ta.X
						}
					case *ast.ExprStmt:
						if ta, ok := a.X.(*ast.TypeAssertExpr); ok {
							tag = ta.X
						}
					}
					facts = append(facts, Fact{Cond: tag, Pos: true, Kind: "typeswitch", Vals: p.List, Deflt: p.List == nil})
				}
			}
		case *ast.CommClause:
			list = p.Body
		}
		if list != nil {
			for _, s := range list {
				if ast.Node(s) == child {
					break
				}
				if is, ok := s.(*ast.IfStmt); ok {
					bodyT := terminates(info, is.Body.List)
					if is.Else == nil {
						if bodyT {
							splitFact(is.Cond, false, &facts)
						}
					} else {
						var el []ast.Stmt
						switch e := is.Else.(type) {
						case *ast.BlockStmt:
							el = e.List
						case *ast.IfStmt:
							el = []ast.Stmt{e}
						}
						elT := terminates(info, el)
						if bodyT && !elT {
							splitFact(is.Cond, false, &facts)
						} else if elT && !bodyT {
							splitFact(is.Cond, true, &facts)
						}
					}
				}
			}
		}
		child = parent
	}
	return expandNamedBooleans(f, facts)
}

// expandNamedBooleans adds, for every fact that is a local boolean variable with exactly one
// (1:1) definition, the facts of that definition — `wildcardKey := a && b; if wildcardKey {…}` is
// read like `if a && b {…}`. The original fact is kept. (Lexical approximation, like the rest of
// FactsAt: the operands are assumed unchanged between the definition and the test.)
func expandNamedBooleans(f *FuncInfo, facts []Fact) []Fact {
	info := f.Info()
	out := facts
	seen := map[types.Object]bool{}
	for i := 0; i < len(out) && i < 256; i++ {
		ft := out[i]
		if ft.Kind != "cond" {
			continue
		}
		id, ok := ast.Unparen(ft.Cond).(*ast.Ident)
		if !ok {
			// named booleans below the top of the condition (a || b, !(a && b), …).
			if !substituted[ft.Cond] {
				if e, changed := substNamedBools(f, ft.Cond, 0); changed {
					substituted[e] = true
					var extra []Fact
					splitFact(e, ft.Pos, &extra)
					for _, x := range extra {
						substituted[x.Cond] = true
					}
					out = append(out, extra...)
				}
			}
			continue
		}
		obj, ok := info.ObjectOf(id).(*types.Var)
		if !ok || seen[obj] {
			continue
		}
		if b, ok := obj.Type().Underlying().(*types.Basic); !ok || b.Kind() != types.Bool {
			continue
		}
		seen[obj] = true
		if d := oneToOneDef(f, obj); d != nil {
			splitFact(d, ft.Pos, &out)
		}
	}
	return out
}

var substituted = map[ast.Expr]bool{}

// substNamedBools rebuilds the boolean skeleton (&&, ||, !, parentheses) of e with every local
// boolean variable that has a single one-to-one definition replaced by (definition). Leaves are
// the original nodes, so type information stays available for them.
func substNamedBools(f *FuncInfo, e ast.Expr, depth int) (ast.Expr, bool) {
	info := f.Info()
	if depth > 4 {
		return e, false
	}
	switch x := e.(type) {
	case *ast.ParenExpr:
		if y, ch := substNamedBools(f, x.X, depth); ch {
			return &ast.ParenExpr{Lparen: x.Lparen, X: y, Rparen: x.Rparen}, true
		}
	case *ast.UnaryExpr:
		if x.Op == token.NOT {
			if y, ch := substNamedBools(f, x.X, depth); ch {
				return &ast.UnaryExpr{OpPos: x.OpPos, Op: x.Op, X: y}, true
			}
		}
	case *ast.BinaryExpr:
		if x.Op == token.LAND || x.Op == token.LOR {
			a, ca := substNamedBools(f, x.X, depth)
			b, cb := substNamedBools(f, x.Y, depth)
			if ca || cb {
				return &ast.BinaryExpr{X: a, OpPos: x.OpPos, Op: x.Op, Y: b}, true
			}
		}
	case *ast.Ident:
		obj, ok := info.ObjectOf(x).(*types.Var)
		if !ok {
			return e, false
		}
		if b, ok := obj.Type().Underlying().(*types.Basic); !ok || b.Kind() != types.Bool {
			return e, false
		}
		if d := oneToOneDef(f, obj); d != nil {
			if _, isLit := ast.Unparen(d).(*ast.Ident); isLit && (types.ExprString(d) == "true" || types.ExprString(d) == "false") {
				return e, false // a flag initialised to a constant and (not) reassigned: keep the name
			}
			y, _ := substNamedBools(f, d, depth+1)
			return &ast.ParenExpr{Lparen: x.Pos(), X: y, Rparen: x.End()}, true
		}
	}
	return e, false
}

// oneToOneDef: the right-hand side of the only assignment to obj in f, provided that assignment
// pairs left and right sides one to one (no comma-ok, no multi-value call) and obj is not a parameter.
func oneToOneDef(f *FuncInfo, obj types.Object) ast.Expr {
	info := f.Info()
	var def ast.Expr
	n := 0
	ast.Inspect(f.Decl.Body, func(x ast.Node) bool {
		switch s := x.(type) {
		case *ast.AssignStmt:
			for i, l := range s.Lhs {
				if lid, ok := l.(*ast.Ident); ok && info.ObjectOf(lid) == obj {
					n++
					if len(s.Lhs) == len(s.Rhs) {
						def = s.Rhs[i]
					} else {
						n++ // not one to one
					}
				}
			}
		case *ast.ValueSpec:
			for i, nm := range s.Names {
				if info.ObjectOf(nm) == obj {
					n++
					if i < len(s.Values) && len(s.Values) == len(s.Names) {
						def = s.Values[i]
					} else {
						n++
					}
				}
			}
		case *ast.IncDecStmt:
		case *ast.UnaryExpr:
			if s.Op == token.AND {
				if lid, ok := ast.Unparen(s.X).(*ast.Ident); ok && info.ObjectOf(lid) == obj {
					n += 2 // address taken
				}
			}
		}
		return true
	})
	if n == 1 {
		return def
	}
	return nil
}

// HasFact reports whether some "cond" fact with the given polarity satisfies pred.
func HasFact(facts []Fact, pos bool, pred func(e ast.Expr) bool) bool {
	for _, f := range facts {
		if f.Kind == "cond" && f.Pos == pos && pred(f.Cond) {
			return true
		}
	}
	return false
}

// EnclosingFunc returns the innermost FuncLit or FuncDecl containing n.
func (c *Ctx) EnclosingLoop(f *FuncInfo, n ast.Node) ast.Node {
	pm := c.parentMap(f.File)
	for p := pm[n]; p != nil; p = pm[p] {
		switch p.(type) {
		case *ast.ForStmt, *ast.RangeStmt:
			return p
		case *ast.FuncLit, *ast.FuncDecl:
			return nil
		}
	}
	return nil
}

// Ancestors returns parents from nearest to the function declaration.
func (c *Ctx) Ancestors(f *FuncInfo, n ast.Node) []ast.Node {
	pm := c.parentMap(f.File)
	var out []ast.Node
	for p := pm[n]; p != nil; p = pm[p] {
		out = append(out, p)
		if p == ast.Node(f.Decl) {
			break
		}
	}
	return out
}

// sameExpr compares two expressions structurally, resolving identifiers to objects.
func sameExpr(info *types.Info, a, b ast.Expr) bool {
	a, b = ast.Unparen(a), ast.Unparen(b)
	switch x := a.(type) {
	case *ast.Ident:
		y, ok := b.(*ast.Ident)
		if !ok {
			return false
		}
		ox, oy := info.ObjectOf(x), info.ObjectOf(y)
		if ox == nil || oy == nil {
			return x.Name == y.Name
		}
		return ox == oy
	case *ast.SelectorExpr:
		y, ok := b.(*ast.SelectorExpr)
		return ok && x.Sel.Name == y.Sel.Name && sameExpr(info, x.X, y.X)
	case *ast.CallExpr:
		y, ok := b.(*ast.CallExpr)
		if !ok || len(x.Args) != len(y.Args) || !sameExpr(info, x.Fun, y.Fun) {
			return false
		}
		for i := range x.Args {
			if !sameExpr(info, x.Args[i], y.Args[i]) {
				return false
			}
		}
		return true
	case *ast.BasicLit:
		y, ok := b.(*ast.BasicLit)
		return ok && x.Value == y.Value
	case *ast.StarExpr:
		y, ok := b.(*ast.StarExpr)
		return ok && sameExpr(info, x.X, y.X)
	case *ast.UnaryExpr:
		y, ok := b.(*ast.UnaryExpr)
		return ok && x.Op == y.Op && sameExpr(info, x.X, y.X)
	case *ast.BinaryExpr:
		y, ok := b.(*ast.BinaryExpr)
		return ok && x.Op == y.Op && sameExpr(info, x.X, y.X) && sameExpr(info, x.Y, y.Y)
	case *ast.IndexExpr:
		y, ok := b.(*ast.IndexExpr)
		return ok && sameExpr(info, x.X, y.X) && sameExpr(info, x.Index, y.Index)
	case *ast.TypeAssertExpr:
		y, ok := b.(*ast.TypeAssertExpr)
		return ok && sameExpr(info, x.X, y.X)
	}
	return false
}
