package main

import (
	"go/ast"
	"go/token"
	"go/types"
)

// Fact is a condition known to hold (Pos) or not hold (!Pos) at a program point,
// derived from lexical structure: enclosing if/else bodies, switch arms, and
// preceding sibling `if c { <terminating> }` statements (early exits).
type Fact struct {
	Cond ast.Expr // boolean condition, or the switch tag for Kind=="switch"/"typeswitch"
	Pos  bool
	Kind string     // "cond", "switch", "typeswitch"
	Vals []ast.Expr // case values (switch) or case types (typeswitch); nil for default
	Deflt bool
}

// terminates reports whether a statement list always leaves the enclosing
// statement list (return / continue / break / goto / panic / log.Fatal…).
func terminates(info *types.Info, list []ast.Stmt) bool {
	if len(list) == 0 {
		return false
	}
	switch s := list[len(list)-1].(type) {
	case *ast.ReturnStmt:
		return true
	case *ast.BranchStmt:
		return s.Tok == token.CONTINUE || s.Tok == token.BREAK || s.Tok == token.GOTO
	case *ast.ExprStmt:
		if call, ok := s.X.(*ast.CallExpr); ok {
			if id, ok := call.Fun.(*ast.Ident); ok && id.Name == "panic" {
				return true
			}
			fn := FullName(Callee(info, call))
			switch fn {
			case "os.Exit", "log.Fatal", "log.Fatalf", "github.com/golang/glog.Fatalf", "github.com/golang/glog.Fatal", "github.com/golang/glog.Exitf", "github.com/golang/glog.Exit":
				return true
			}
		}
	case *ast.BlockStmt:
		return terminates(info, s.List)
	case *ast.IfStmt:
		if s.Else == nil {
			return false
		}
		var el []ast.Stmt
		switch e := s.Else.(type) {
		case *ast.BlockStmt:
			el = e.List
		case *ast.IfStmt:
			el = []ast.Stmt{e}
		}
		return terminates(info, s.Body.List) && terminates(info, el)
	}
	return false
}

func splitFact(e ast.Expr, pos bool, out *[]Fact) {
	e = ast.Unparen(e)
	switch x := e.(type) {
	case *ast.UnaryExpr:
		if x.Op == token.NOT {
			splitFact(x.X, !pos, out)
			return
		}
	case *ast.BinaryExpr:
		if (x.Op == token.LAND && pos) || (x.Op == token.LOR && !pos) {
			splitFact(x.X, pos, out)
			splitFact(x.Y, pos, out)
			return
		}
	}
	*out = append(*out, Fact{Cond: e, Pos: pos, Kind: "cond"})
}

// FactsAt returns the facts holding at node n inside function f. With
// throughClosures, facts of the enclosing function at a FuncLit's definition
// are included (sound only for conditions over values the closure cannot change).
func (c *Ctx) FactsAt(f *FuncInfo, n ast.Node, throughClosures bool) []Fact {
	pm := c.parentMap(f.File)
	info := f.Info()
	var facts []Fact
	child := n
	for {
		parent := pm[child]
		if parent == nil || parent == ast.Node(f.Decl) {
			break
		}
		if _, ok := parent.(*ast.FuncLit); ok && !throughClosures {
			break
		}
		var list []ast.Stmt
		switch p := parent.(type) {
		case *ast.IfStmt:
			if child == ast.Node(p.Body) {
				splitFact(p.Cond, true, &facts)
			} else if p.Else != nil && child == ast.Node(p.Else) {
				splitFact(p.Cond, false, &facts)
			}
		case *ast.ForStmt:
			if child == ast.Node(p.Body) && p.Cond != nil {
				// holds at loop entry of each iteration only; recorded as cond.
				splitFact(p.Cond, true, &facts)
			}
		case *ast.BlockStmt:
			list = p.List
		case *ast.CaseClause:
			list = p.Body
			// the switch statement is parent of the body block which is parent of the clause
			if blk, ok := pm[p].(*ast.BlockStmt); ok {
				switch sw := pm[blk].(type) {
				case *ast.SwitchStmt:
					if sw.Tag != nil {
						if p.List == nil {
							facts = append(facts, Fact{Cond: sw.Tag, Pos: true, Kind: "switch", Deflt: true})
						} else {
							facts = append(facts, Fact{Cond: sw.Tag, Pos: true, Kind: "switch", Vals: p.List})
						}
					} else {
						// tagless: this case's condition holds (if single), all earlier cases' fail.
						if len(p.List) == 1 {
							splitFact(p.List[0], true, &facts)
						}
						for _, cc := range blk.List {
							if cc == ast.Stmt(p) {
								break
							}
							for _, e := range cc.(*ast.CaseClause).List {
								splitFact(e, false, &facts)
							}
						}
					}
				case *ast.TypeSwitchStmt:
					var tag ast.Expr
					switch a := sw.Assign.(type) {
					case *ast.AssignStmt:
						if ta, ok := a.Rhs[0].(*ast.TypeAssertExpr); ok {
							tag = ta.X
						}
					case *ast.ExprStmt:
						if ta, ok := a.X.(*ast.TypeAssertExpr); ok {
							tag = ta.X
						}
					}
					facts = append(facts, Fact{Cond: tag, Pos: true, Kind: "typeswitch", Vals: p.List, Deflt: p.List == nil})
				}
			}
		case *ast.CommClause:
			list = p.Body
		}
		if list != nil {
			for _, s := range list {
				if ast.Node(s) == child {
					break
				}
				if is, ok := s.(*ast.IfStmt); ok {
					bodyT := terminates(info, is.Body.List)
					if is.Else == nil {
						if bodyT {
							splitFact(is.Cond, false, &facts)
						}
					} else {
						var el []ast.Stmt
						switch e := is.Else.(type) {
						case *ast.BlockStmt:
							el = e.List
						case *ast.IfStmt:
							el = []ast.Stmt{e}
						}
						elT := terminates(info, el)
						if bodyT && !elT {
							splitFact(is.Cond, false, &facts)
						} else if elT && !bodyT {
							splitFact(is.Cond, true, &facts)
						}
					}
				}
			}
		}
		child = parent
	}
	return facts
}

// HasFact reports whether some "cond" fact with the given polarity satisfies pred.
func HasFact(facts []Fact, pos bool, pred func(e ast.Expr) bool) bool {
	for _, f := range facts {
		if f.Kind == "cond" && f.Pos == pos && pred(f.Cond) {
			return true
		}
	}
	return false
}

// EnclosingFunc returns the innermost FuncLit or FuncDecl containing n.
func (c *Ctx) EnclosingLoop(f *FuncInfo, n ast.Node) ast.Node {
	pm := c.parentMap(f.File)
	for p := pm[n]; p != nil; p = pm[p] {
		switch p.(type) {
		case *ast.ForStmt, *ast.RangeStmt:
			return p
		case *ast.FuncLit, *ast.FuncDecl:
			return nil
		}
	}
	return nil
}

// Ancestors returns parents from nearest to the function declaration.
func (c *Ctx) Ancestors(f *FuncInfo, n ast.Node) []ast.Node {
	pm := c.parentMap(f.File)
	var out []ast.Node
	for p := pm[n]; p != nil; p = pm[p] {
		out = append(out, p)
		if p == ast.Node(f.Decl) {
			break
		}
	}
	return out
}

// sameExpr compares two expressions structurally, resolving identifiers to objects.
func sameExpr(info *types.Info, a, b ast.Expr) bool {
	a, b = ast.Unparen(a), ast.Unparen(b)
	switch x := a.(type) {
	case *ast.Ident:
		y, ok := b.(*ast.Ident)
		if !ok {
			return false
		}
		ox, oy := info.ObjectOf(x), info.ObjectOf(y)
		if ox == nil || oy == nil {
			return x.Name == y.Name
		}
		return ox == oy
	case *ast.SelectorExpr:
		y, ok := b.(*ast.SelectorExpr)
		return ok && x.Sel.Name == y.Sel.Name && sameExpr(info, x.X, y.X)
	case *ast.CallExpr:
		y, ok := b.(*ast.CallExpr)
		if !ok || len(x.Args) != len(y.Args) || !sameExpr(info, x.Fun, y.Fun) {
			return false
		}
		for i := range x.Args {
			if !sameExpr(info, x.Args[i], y.Args[i]) {
				return false
			}
		}
		return true
	case *ast.BasicLit:
		y, ok := b.(*ast.BasicLit)
		return ok && x.Value == y.Value
	case *ast.StarExpr:
		y, ok := b.(*ast.StarExpr)
		return ok && sameExpr(info, x.X, y.X)
	case *ast.UnaryExpr:
		y, ok := b.(*ast.UnaryExpr)
		return ok && x.Op == y.Op && sameExpr(info, x.X, y.X)
	case *ast.BinaryExpr:
		y, ok := b.(*ast.BinaryExpr)
		return ok && x.Op == y.Op && sameExpr(info, x.X, y.X) && sameExpr(info, x.Y, y.Y)
	case *ast.IndexExpr:
		y, ok := b.(*ast.IndexExpr)
		return ok && sameExpr(info, x.X, y.X) && sameExpr(info, x.Index, y.Index)
	case *ast.TypeAssertExpr:
		y, ok := b.(*ast.TypeAssertExpr)
		return ok && sameExpr(info, x.X, y.X)
	}
	return false
}
