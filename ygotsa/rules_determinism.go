package main

import (
	"fmt"
	"os"
	"go/ast"
	"go/token"
	"go/types"
	"sort"
	"strings"
)

// ---- effect (mod) summaries ---------------------------------------------------------------

// funcIndex maps every function object with source (module and dependencies) to its declaration.
func (c *Ctx) funcIndex() map[*types.Func]*FuncInfo {
	if c.fnIndex != nil {
		return c.fnIndex
	}
	c.fnIndex = map[*types.Func]*FuncInfo{}
	for path, p := range c.All {
		if len(p.Syntax) == 0 || p.TypesInfo == nil {
			continue
		}
		for _, f := range p.Syntax {
			for _, d := range f.Decls {
				fd, ok := d.(*ast.FuncDecl)
				if !ok || fd.Body == nil {
					continue
				}
				if obj, ok := p.TypesInfo.Defs[fd.Name].(*types.Func); ok {
					c.fnIndex[obj] = &FuncInfo{Pkg: p, Decl: fd, Obj: obj, File: f, Name: strings.TrimPrefix(path, modPath+"/") + "." + fd.Name.Name}
				}
			}
		}
	}
	return c.fnIndex
}

// modEffect summarises what a function may write besides its own locals: the indices of the
// parameters it may store through (-1 = receiver) and, if non-empty, the reason it may touch state
// that is not reachable from its arguments at all (package variables, dynamic calls, I/O).
type modEffect struct {
	Params map[int]bool
	Global string
}

// Frozen tables for callees without analysable source. One line of reason each.
var pureCalleePrefixes = []string{
	"strings.", "strconv.", "unicode.", "unicode/utf8.", "path.", "errors.", "math.", "bytes.Equal", "bytes.Compare", "bytes.Contains", "bytes.HasPrefix",
	"reflect.", "regexp.Regexp.", "fmt.Sprint", "fmt.Errorf", "sort.Search", "path/filepath.Base", "path/filepath.Join", "path/filepath.Dir", "path/filepath.Ext",
	"github.com/golang/glog.", // logging: does not feed generated output
	"runtime.Caller", "runtime.FuncForPC", "runtime.Func.", // stack inspection: reads only
	"github.com/kylelemons/godebug/pretty.Sprint", "github.com/openconfig/gnmi/errlist.",
}
var receiverOnlyPrefixes = []string{ // methods whose effects are confined to their receiver
	"strings.Builder.", "bytes.Buffer.", "hash.Hash", "hash/fnv.", "io.Writer.Write", "sync.Mutex.", "sync.RWMutex.", "sync.Once.",
	"github.com/derekparker/trie.Trie.",
}
var firstArgOnly = map[string]bool{ // functions whose effects are confined to their first argument
	"sort.Strings": true, "sort.Slice": true, "sort.SliceStable": true, "sort.Ints": true, "sort.Sort": true, "sort.Stable": true, "slices.Sort": true, "slices.SortFunc": true,
	"text/template.Template.Execute": true, "text/template.Template.ExecuteTemplate": true, "fmt.Fprintf": true, "fmt.Fprint": true, "fmt.Fprintln": true, "io.WriteString": true,
	"encoding/json.Unmarshal": false,
}

// pureIfaceMethods: interface methods that are accessors by contract (goyang AST nodes, error, Stringer).
var pureIfaceMethods = map[string]bool{
	"github.com/openconfig/goyang/pkg/yang.Node.NName": true, "github.com/openconfig/goyang/pkg/yang.Node.Kind": true, "github.com/openconfig/goyang/pkg/yang.Node.ParentNode": true,
	"github.com/openconfig/goyang/pkg/yang.Node.Statement": true, "github.com/openconfig/goyang/pkg/yang.Node.Exts": true,
	"error.Error": true, "fmt.Stringer.String": true,
}

func (c *Ctx) effectsOf(fn *types.Func, depth int) modEffect {
	if fn == nil {
		return modEffect{Global: "dynamic call"}
	}
	fn = fn.Origin()
	if c.effMemo == nil {
		c.effMemo = map[*types.Func]*modEffect{}
	}
	if e, ok := c.effMemo[fn]; ok {
		return *e
	}
	full := FullName(fn)
	for _, p := range pureCalleePrefixes {
		if strings.HasPrefix(full, p) {
			e := modEffect{}
			c.effMemo[fn] = &e
			return e
		}
	}
	for _, p := range receiverOnlyPrefixes {
		if strings.HasPrefix(full, p) {
			e := modEffect{Params: map[int]bool{-1: true}}
			c.effMemo[fn] = &e
			return e
		}
	}
	if firstArgOnly[full] {
		idx := 0
		if strings.HasPrefix(full, "text/template.Template.") {
			idx = 0 // the writer is the first argument; the receiver (template) is only read
		}
		e := modEffect{Params: map[int]bool{idx: true}}
		c.effMemo[fn] = &e
		return e
	}
	if pureIfaceMethods[full] {
		e := modEffect{}
		c.effMemo[fn] = &e
		return e
	}
	f := c.funcIndex()[fn]
	if f == nil {
		why := "no source for " + short(full)
		if sig, ok := fn.Type().(*types.Signature); ok && sig.Recv() != nil {
			if _, isIface := sig.Recv().Type().Underlying().(*types.Interface); isIface {
				why = "interface method " + short(full) + " (implementation may keep state)"
			}
		}
		e := modEffect{Global: why}
		c.effMemo[fn] = &e
		return e
	}
	if depth > 14 {
		return modEffect{Global: "call chain too deep at " + short(full)}
	}
	// standard-library and other non-module code with source: analysed like module code, but a
	// failure deep inside it is reported at the boundary.
	opt := &modEffect{Params: map[int]bool{}}
	c.effMemo[fn] = opt // optimistic for recursion
	e := c.bodyEffects(f, depth)
	c.effMemo[fn] = &e
	return e
}

func isReceiver(f *FuncInfo, obj types.Object) bool {
	sig, ok := f.Obj.Type().(*types.Signature)
	return ok && sig.Recv() != nil && sig.Recv() == obj
}

func isRefType(t types.Type) bool {
	if t == nil {
		return false
	}
	switch t.Underlying().(type) {
	case *types.Pointer, *types.Map, *types.Slice, *types.Interface, *types.Chan, *types.Signature:
		return true
	}
	return false
}

// bodyEffects computes the mod effect of one function body.
func (c *Ctx) bodyEffects(f *FuncInfo, depth int) modEffect {
	info := f.Info()
	eff := modEffect{Params: map[int]bool{}}
	sig := f.Obj.Type().(*types.Signature)
	// origin: for each object, the set of parameter indices it may alias (-1 receiver, -2 = package state).
	origin := map[types.Object]map[int]bool{}
	addOrigin := func(o types.Object, idx int) bool {
		if o == nil {
			return false
		}
		if origin[o] == nil {
			origin[o] = map[int]bool{}
		}
		if origin[o][idx] {
			return false
		}
		origin[o][idx] = true
		return true
	}
	for i := 0; i < sig.Params().Len(); i++ {
		// parameters of basic type (strings, numbers, booleans) are values: nothing can be written through them.
		if _, isBasic := sig.Params().At(i).Type().Underlying().(*types.Basic); !isBasic {
			addOrigin(sig.Params().At(i), i)
		}
	}
	if sig.Recv() != nil {
		addOrigin(sig.Recv(), -1)
	}
	var rootOf func(e ast.Expr) types.Object
	rootOf = func(e ast.Expr) types.Object {
		switch x := ast.Unparen(e).(type) {
		case *ast.Ident:
			return info.ObjectOf(x)
		case *ast.SelectorExpr:
			if id := identOf(x.X); id != nil {
				if _, isPkg := info.ObjectOf(id).(*types.PkgName); isPkg {
					return info.ObjectOf(x.Sel)
				}
			}
			return rootOf(x.X)
		case *ast.IndexExpr:
			return rootOf(x.X)
		case *ast.StarExpr:
			return rootOf(x.X)
		case *ast.SliceExpr:
			return rootOf(x.X)
		case *ast.UnaryExpr:
			if x.Op == token.AND {
				return rootOf(x.X)
			}
		case *ast.TypeAssertExpr:
			return rootOf(x.X)
		}
		return nil
	}
	originsOf := func(e ast.Expr) map[int]bool {
		ro := rootOf(e)
		if ro == nil {
			return nil
		}
		if v, ok := ro.(*types.Var); ok && !v.IsField() && v.Pkg() != nil && v.Parent() == v.Pkg().Scope() {
			return map[int]bool{-2: true}
		}
		return origin[ro]
	}
	// propagate aliases to a fixpoint (bounded).
	for iter := 0; iter < 4; iter++ {
		changed := false
		ast.Inspect(f.Decl.Body, func(n ast.Node) bool {
			switch s := n.(type) {
			case *ast.AssignStmt:
				for i, l := range s.Lhs {
					id, ok := ast.Unparen(l).(*ast.Ident)
					if !ok {
						continue
					}
					var rhs ast.Expr
					if len(s.Rhs) == len(s.Lhs) {
						rhs = s.Rhs[i]
					} else if len(s.Rhs) == 1 {
						rhs = s.Rhs[0]
					}
					if rhs == nil {
						continue
					}
					lo := info.ObjectOf(id)
					if lo == nil || !isRefType(lo.Type()) {
						continue
					}
					// calls: the result may alias any reference argument (conservative).
					if call, ok := ast.Unparen(rhs).(*ast.CallExpr); ok {
						if tv, isT := info.Types[call.Fun]; !(isT && tv.IsType()) {
							for _, a := range call.Args {
								for idx := range originsOf(a) {
									if addOrigin(lo, idx) {
										changed = true
									}
								}
							}
							if sel, ok := call.Fun.(*ast.SelectorExpr); ok {
								for idx := range originsOf(sel.X) {
									if addOrigin(lo, idx) {
										changed = true
									}
								}
							}
							continue
						}
					}
					for idx := range originsOf(rhs) {
						if addOrigin(lo, idx) {
							changed = true
						}
					}
				}
			case *ast.RangeStmt:
				for _, kv := range []ast.Expr{s.Key, s.Value} {
					if kv == nil {
						continue
					}
					if id, ok := kv.(*ast.Ident); ok {
						if lo := info.ObjectOf(id); lo != nil && isRefType(lo.Type()) {
							for idx := range originsOf(s.X) {
								if addOrigin(lo, idx) {
									changed = true
								}
							}
						}
					}
				}
			}
			return true
		})
		if !changed {
			break
		}
	}
	write := func(target ast.Expr, what string) {
		target = ast.Unparen(target)
		if id, ok := target.(*ast.Ident); ok {
			// rebinding a name: only package variables matter.
			if o := info.ObjectOf(id); o != nil {
				if v, ok := o.(*types.Var); ok && v.Pkg() != nil && v.Parent() == v.Pkg().Scope() {
					eff.Global = what + " package variable " + id.Name
				}
			}
			return
		}
		for idx := range originsOf(target) {
			if idx == -2 {
				eff.Global = what + " through package variable " + rootOf(target).Name()
			} else {
				eff.Params[idx] = true
			}
		}
	}
	ast.Inspect(f.Decl.Body, func(n ast.Node) bool {
		switch s := n.(type) {
		case *ast.AssignStmt:
			for _, l := range s.Lhs {
				write(l, "assigns")
			}
		case *ast.IncDecStmt:
			write(s.X, "assigns")
		case *ast.SendStmt:
			eff.Global = "channel send"
		case *ast.GoStmt:
			eff.Global = "starts a goroutine"
		case *ast.CallExpr:
			if tv, ok := info.Types[s.Fun]; ok && tv.IsType() {
				return true
			}
			if id, ok := s.Fun.(*ast.Ident); ok {
				if _, isB := info.Uses[id].(*types.Builtin); isB {
					switch id.Name {
					case "delete", "copy", "clear", "append":
						if len(s.Args) > 0 {
							for idx := range originsOf(s.Args[0]) {
								if idx == -2 {
									eff.Global = id.Name + " on package variable"
								} else {
									eff.Params[idx] = true
								}
							}
						}
					}
					return true
				}
			}
			callee := Callee(info, s)
			if callee == nil {
				if id, ok := s.Fun.(*ast.Ident); ok {
					if o := info.ObjectOf(id); o != nil && origin[o] == nil {
						return true // local closure: its body is inspected as part of this one
					}
				}
				if _, ok := s.Fun.(*ast.FuncLit); ok {
					return true
				}
				eff.Global = "dynamic call " + types.ExprString(s.Fun)
				return true
			}
			ce := c.effectsOf(callee, depth+1)
			if ce.Global != "" && eff.Global == "" {
				eff.Global = "calls " + short(FullName(callee)) + " (" + ce.Global + ")"
			}
			csig, _ := callee.Type().(*types.Signature)
			for idx := range ce.Params {
				var arg ast.Expr
				if idx == -1 {
					if sel, ok := s.Fun.(*ast.SelectorExpr); ok {
						arg = sel.X
					}
				} else if idx < len(s.Args) {
					arg = s.Args[idx]
				} else if csig != nil && csig.Variadic() && len(s.Args) > 0 {
					arg = s.Args[len(s.Args)-1]
				}
				if arg == nil {
					continue
				}
				for o := range originsOf(arg) {
					if o == -2 {
						eff.Global = "passes package state to " + short(FullName(callee))
					} else {
						eff.Params[o] = true
					}
				}
			}
		}
		return true
	})
	return eff
}

// ---- loop classification -----------------------------------------------------------------

type mapLoop struct {
	F     *FuncInfo
	Range *ast.RangeStmt
	Key   string // stable key: function + range expression + ordinal
}

// orderReason is one order-sensitive effect of a loop body. Cat is a coarse, refactoring-stable
// category (kind + the outer object or callee involved); Text is for the report.
type orderReason struct{ Cat, Text string }

// classifyMapLoop lists the order-sensitive effects of a range-over-map body (empty = the effects
// of the iterations commute) and names the commuting classes it saw.
func (c *Ctx) classifyMapLoop(f *FuncInfo, rs *ast.RangeStmt) (class string, reasons []orderReason) {
	info := f.Info()
	add := func(cat, text string) {
		for _, r := range reasons {
			if r.Cat == cat {
				return
			}
		}
		reasons = append(reasons, orderReason{cat, text})
	}
	// single-iteration loops: enclosed by len(m) == 1 / switch len(m) { case 1: }.
	for _, ft := range c.FactsAt(f, rs, false) {
		isLenOfX := func(e ast.Expr) bool {
			call, ok := ast.Unparen(e).(*ast.CallExpr)
			if !ok || len(call.Args) != 1 {
				return false
			}
			id, ok := call.Fun.(*ast.Ident)
			return ok && id.Name == "len" && sameExpr(info, call.Args[0], rs.X)
		}
		switch ft.Kind {
		case "cond":
			if be, ok := ast.Unparen(ft.Cond).(*ast.BinaryExpr); ok && ft.Pos && be.Op == token.EQL && isLenOfX(be.X) {
				if v, ok := ConstOf(info, be.Y); ok && v == "1" {
					return "single iteration (len == 1)", nil
				}
			}
		case "switch":
			if isLenOfX(ft.Cond) && len(ft.Vals) == 1 {
				if v, ok := ConstOf(info, ft.Vals[0]); ok && v == "1" {
					return "single iteration (len == 1)", nil
				}
			}
		}
	}
	inLoop := map[types.Object]bool{}
	ast.Inspect(rs, func(n ast.Node) bool {
		if id, ok := n.(*ast.Ident); ok {
			if o := info.Defs[id]; o != nil {
				inLoop[o] = true
			}
		}
		return true
	})
	var rootOf func(e ast.Expr) types.Object
	rootOf = func(e ast.Expr) types.Object {
		switch x := ast.Unparen(e).(type) {
		case *ast.Ident:
			return info.ObjectOf(x)
		case *ast.SelectorExpr:
			return rootOf(x.X)
		case *ast.IndexExpr:
			return rootOf(x.X)
		case *ast.StarExpr:
			return rootOf(x.X)
		case *ast.SliceExpr:
			return rootOf(x.X)
		case *ast.UnaryExpr:
			if x.Op == token.AND {
				return rootOf(x.X)
			}
		}
		return nil
	}
	outer := func(e ast.Expr) types.Object {
		ro := rootOf(e)
		if ro == nil || inLoop[ro] {
			return nil
		}
		if _, isVar := ro.(*types.Var); !isVar {
			return nil
		}
		return ro
	}
	// loop-local values that alias outer state (x := outer[k]; p := &outer.f): stores through them are outer writes.
	aliasOuter := map[types.Object]types.Object{}
	ast.Inspect(rs.Body, func(n ast.Node) bool {
		if as, ok := n.(*ast.AssignStmt); ok {
			for i, l := range as.Lhs {
				id, ok := l.(*ast.Ident)
				if !ok || id.Name == "_" || i >= len(as.Rhs) && len(as.Rhs) != 1 {
					continue
				}
				rhs := as.Rhs[0]
				if len(as.Rhs) == len(as.Lhs) {
					rhs = as.Rhs[i]
				}
				if o := info.ObjectOf(id); o != nil && inLoop[o] && isRefType(o.Type()) {
					if _, isCall := ast.Unparen(rhs).(*ast.CallExpr); !isCall {
						if oo := outer(rhs); oo != nil {
							aliasOuter[o] = oo
						}
					}
				}
			}
		}
		return true
	})
	outerOrAlias := func(e ast.Expr) types.Object {
		if o := outer(e); o != nil {
			return o
		}
		if ro := rootOf(e); ro != nil {
			return aliasOuter[ro]
		}
		return nil
	}
	// W: outer objects written in the body (directly).
	written := map[types.Object]bool{}
	ast.Inspect(rs.Body, func(n ast.Node) bool {
		switch s := n.(type) {
		case *ast.AssignStmt:
			for _, l := range s.Lhs {
				if o := outerOrAlias(l); o != nil {
					written[o] = true
				}
			}
		case *ast.IncDecStmt:
			if o := outerOrAlias(s.X); o != nil {
				written[o] = true
			}
		case *ast.CallExpr:
			if id, ok := s.Fun.(*ast.Ident); ok && id.Name == "delete" && len(s.Args) > 0 {
				if o := outerOrAlias(s.Args[0]); o != nil {
					written[o] = true
				}
			}
		}
		return true
	})
	if os.Getenv("YGOTSA_DEBUG") != "" {
		for o := range written {
			fmt.Printf("DEBUG %s written: %s\n", f.Name, o.Name())
		}
		for a, o := range aliasOuter {
			fmt.Printf("DEBUG %s alias: %s -> %s\n", f.Name, a.Name(), o.Name())
		}
	}
	readsWritten := func(e ast.Node) string {
		res := ""
		if e == nil {
			return ""
		}
		ast.Inspect(e, func(n ast.Node) bool {
			if id, ok := n.(*ast.Ident); ok {
				if o := info.ObjectOf(id); o != nil && written[o] && !isErrorLike(o.Type()) {
					res = id.Name
				}
			}
			return res == ""
		})
		return res
	}
	mentionsLoopVar := func(e ast.Node) bool { return e != nil && mentionsAny(info, e, inLoop) }
	classes := map[string]bool{}
	// localClosures: function literals bound to locals of f (analysed inline).
	closureOf := func(id *ast.Ident) *ast.FuncLit {
		obj := info.ObjectOf(id)
		var fl *ast.FuncLit
		ast.Inspect(f.Decl.Body, func(n ast.Node) bool {
			if as, ok := n.(*ast.AssignStmt); ok && len(as.Lhs) == 1 && len(as.Rhs) == 1 && ObjOf(info, as.Lhs[0]) == obj {
				if l, ok := as.Rhs[0].(*ast.FuncLit); ok {
					fl = l
				}
			}
			return true
		})
		return fl
	}
	var exprEffects func(e ast.Node)
	exprEffects = func(e ast.Node) {
		if e == nil {
			return
		}
		ast.Inspect(e, func(n ast.Node) bool {
			switch x := n.(type) {
			case *ast.FuncLit:
				return false
			case *ast.CallExpr:
				if tv, ok := info.Types[x.Fun]; ok && tv.IsType() {
					return true
				}
				if id, ok := x.Fun.(*ast.Ident); ok {
					if _, isB := info.Uses[id].(*types.Builtin); isB {
						return true
					}
				}
				callee := Callee(info, x)
				if callee == nil {
					if id, ok := x.Fun.(*ast.Ident); ok {
						if fl := closureOf(id); fl != nil {
							// a local closure: it must not write anything declared outside itself.
							bad := ""
							own := map[types.Object]bool{}
							ast.Inspect(fl, func(m ast.Node) bool {
								if id2, ok := m.(*ast.Ident); ok {
									if o := info.Defs[id2]; o != nil {
										own[o] = true
									}
								}
								return true
							})
							ast.Inspect(fl.Body, func(m ast.Node) bool {
								switch s := m.(type) {
								case *ast.AssignStmt:
									for _, l := range s.Lhs {
										if ro := rootOf(l); ro != nil && !own[ro] {
											if isErrorLike(ro.Type()) {
												classes["error-accumulation"] = true
												continue
											}
											bad = ro.Name()
										}
									}
								case *ast.IncDecStmt:
									if ro := rootOf(s.X); ro != nil && !own[ro] {
										bad = ro.Name()
									}
								}
								return true
							})
							if bad != "" {
								add("closure-writes:"+bad, "calls local closure "+id.Name+" which writes "+bad)
							}
							// the closure's parameters and locals are fresh on every call; a
							// parameter stands for the argument it is called with.
							for o := range own {
								inLoop[o] = true
							}
							if fl.Type.Params != nil {
								i := 0
								for _, fld := range fl.Type.Params.List {
									for _, nm := range fld.Names {
										if i < len(x.Args) {
											if oo := outerOrAlias(x.Args[i]); oo != nil && isRefType(oo.Type()) {
												if po := info.Defs[nm]; po != nil {
													aliasOuter[po] = oo
												}
											}
										}
										i++
									}
								}
							}
							exprEffects(fl.Body)
							return true
						}
					}
					add("dynamic-call:"+types.ExprString(x.Fun), "calls "+types.ExprString(x.Fun)+" through a function value")
					return true
				}
				ce := c.effectsOf(callee, 0)
				nm := short(FullName(callee))
				if ce.Global != "" {
					if strings.HasPrefix(nm, "os.") || nm == "genutil.OpenFile" || nm == "genutil.SyncFile" {
						add("file-io", "performs file I/O ("+nm+")")
					} else {
						add("callee-state:"+nm, "calls "+nm+": "+ce.Global)
					}
				}
				csig, _ := callee.Type().(*types.Signature)
				for idx := range ce.Params {
					var arg ast.Expr
					if idx == -1 {
						if sel, ok := x.Fun.(*ast.SelectorExpr); ok {
							arg = sel.X
						}
					} else if idx < len(x.Args) {
						arg = x.Args[idx]
					} else if csig != nil && csig.Variadic() && len(x.Args) > 0 {
						arg = x.Args[len(x.Args)-1]
					}
					if arg == nil {
						continue
					}
					if o := outerOrAlias(arg); o != nil {
						if isErrorLike(o.Type()) {
							classes["error-accumulation"] = true
							continue
						}
						written[o] = true
						add("callee-mutates:"+nm+":"+o.Name(), "calls "+nm+", which writes through its argument "+o.Name()+" (state shared between iterations)")
					}
				}
			}
			return true
		})
	}
	sortedLater := func(target ast.Expr) bool {
		found := false
		ast.Inspect(f.Decl.Body, func(n ast.Node) bool {
			call, ok := n.(*ast.CallExpr)
			if !ok || call.Pos() < rs.Pos() {
				return true
			}
			fn := FullName(Callee(info, call))
			if (strings.HasPrefix(fn, "sort.") || strings.HasPrefix(fn, "slices.Sort")) && len(call.Args) > 0 {
				if sameExpr(info, call.Args[0], target) || canonExprString(f, call.Args[0]) == canonExprString(f, target) || (rootOf(call.Args[0]) != nil && rootOf(call.Args[0]) == rootOf(target) && call.Pos() > rs.End()) {
					found = true
				}
			}
			return true
		})
		return found
	}
	var stmts func(list []ast.Stmt)
	var stmt func(s ast.Stmt)
	stmts = func(list []ast.Stmt) {
		for _, s := range list {
			stmt(s)
		}
	}
	condEffects := func(e ast.Expr) {
		if e == nil {
			return
		}
		exprEffects(e)
		if w := readsWritten(e); w != "" {
			add("branch-on-state:"+w, "branches on "+w+", which the loop itself writes: which iteration sees what depends on map order")
		}
	}
	stmt = func(s ast.Stmt) {
		switch x := s.(type) {
		case nil, *ast.EmptyStmt:
		case *ast.BlockStmt:
			stmts(x.List)
		case *ast.DeclStmt:
			exprEffects(x)
		case *ast.ExprStmt:
			if call, ok := x.X.(*ast.CallExpr); ok {
				if id, ok := call.Fun.(*ast.Ident); ok {
					if _, isB := info.Uses[id].(*types.Builtin); isB && id.Name == "delete" {
						classes["map-delete"] = true
						return
					}
				}
			}
			exprEffects(x.X)
		case *ast.IncDecStmt:
			classes["counter"] = true
		case *ast.DeferStmt:
			exprEffects(x.Call)
		case *ast.AssignStmt:
			for _, rh := range x.Rhs {
				exprEffects(rh)
			}
			for i, l := range x.Lhs {
				l = ast.Unparen(l)
				if id, ok := l.(*ast.Ident); ok && (id.Name == "_" || inLoop[info.ObjectOf(id)]) {
					continue
				}
				o := outerOrAlias(l)
				if o == nil {
					continue // store into a value created in this iteration
				}
				var rhs ast.Expr
				if len(x.Rhs) == len(x.Lhs) {
					rhs = x.Rhs[i]
				} else if len(x.Rhs) == 1 {
					rhs = x.Rhs[0]
				}
				lt := info.Types[l].Type
				// x = append(x, …) on any lvalue.
				if call, ok := ast.Unparen(rhs).(*ast.CallExpr); ok {
					if id, ok := call.Fun.(*ast.Ident); ok && id.Name == "append" && len(call.Args) > 0 && sameExpr(info, call.Args[0], l) {
						if sl, ok := lt.Underlying().(*types.Slice); ok && isErrorLike(sl.Elem()) || isErrorLike(lt) {
							classes["error-accumulation"] = true
							continue
						}
						if sortedLater(l) {
							classes["collect-then-sort"] = true
							continue
						}
						add("append-unsorted:"+o.Name(), "appends to "+types.ExprString(l)+" in map order and does not sort it afterwards in this function")
						continue
					}
					fn := FullName(Callee(info, call))
					if strings.HasSuffix(fn, "util.AppendErr") || strings.HasSuffix(fn, "util.AppendErrs") {
						classes["error-accumulation"] = true
						continue
					}
				}
				if isErrorLike(lt) {
					classes["error-accumulation"] = true
					continue
				}
				switch lx := l.(type) {
				case *ast.IndexExpr:
					if _, isMap := info.Types[lx.X].Type.Underlying().(*types.Map); isMap {
						if !mentionsLoopVar(lx.Index) {
							if tv, ok := info.Types[rhs]; ok && tv.Value != nil {
								classes["set-insert"] = true
								continue
							}
							add("fixed-key-write:"+o.Name(), "writes map entry "+types.ExprString(lx)+" whose key does not depend on the iteration (last iteration wins)")
							continue
						}
						if w := readsWritten(rhs); w != "" && w != o.Name() {
							add("value-from-state:"+o.Name(), "stores into "+o.Name()+" a value that depends on loop-carried state ("+w+")")
							continue
						}
						classes["keyed-map-write"] = true
						continue
					}
					add("slice-element-write:"+o.Name(), "writes slice element "+types.ExprString(lx))
				default:
					if x.Tok == token.ADD_ASSIGN || x.Tok == token.SUB_ASSIGN || x.Tok == token.OR_ASSIGN || x.Tok == token.AND_ASSIGN {
						if b, ok := lt.Underlying().(*types.Basic); ok && b.Info()&(types.IsNumeric|types.IsBoolean) != 0 {
							classes["counter"] = true
							continue
						}
						add("concat:"+o.Name(), "concatenates onto "+types.ExprString(l)+" in map order")
						continue
					}
					if tv, ok := info.Types[rhs]; ok && tv.Value != nil {
						classes["flag"] = true
						continue
					}
					if _, isSel := l.(*ast.SelectorExpr); isSel && aliasOuter[rootOf(l)] == nil && mentionsLoopVar(l) {
						classes["keyed-field-write"] = true
						continue
					}
					add("last-wins:"+o.Name(), "assigns "+types.ExprString(l)+" from the iteration (the last matching iteration wins)")
				}
			}
		case *ast.IfStmt:
			stmt(x.Init)
			// `if v, ok := m[k]; ok` — the lookup is part of the condition.
			if as, ok := x.Init.(*ast.AssignStmt); ok {
				for _, rh := range as.Rhs {
					if w := readsWritten(rh); w != "" {
						add("branch-on-state:"+w, "branches on "+w+", which the loop itself writes: which iteration sees what depends on map order")
					}
				}
			}
			condEffects(x.Cond)
			stmts(x.Body.List)
			if x.Else != nil {
				stmt(x.Else)
			}
		case *ast.SwitchStmt:
			stmt(x.Init)
			condEffects(x.Tag)
			for _, cc := range x.Body.List {
				cl := cc.(*ast.CaseClause)
				for _, e := range cl.List {
					condEffects(e)
				}
				stmts(cl.Body)
			}
		case *ast.TypeSwitchStmt:
			for _, cc := range x.Body.List {
				stmts(cc.(*ast.CaseClause).Body)
			}
		case *ast.BranchStmt:
			if x.Tok != token.CONTINUE {
				add("early-exit:"+x.Tok.String(), x.Tok.String()+" ends the loop at an iteration chosen by map order")
			}
		case *ast.ReturnStmt:
			for _, res := range x.Results {
				exprEffects(res)
				tv := info.Types[res]
				if tv.IsNil() || tv.Value != nil || isErrorLike(tv.Type) {
					continue
				}
				if mentionsLoopVar(res) {
					add("return-from-iteration", "returns a value taken from the iteration that happens to come first")
				}
			}
			classes["error-or-constant-return"] = true
		case *ast.RangeStmt:
			exprEffects(x.X)
			stmts(x.Body.List)
		case *ast.ForStmt:
			stmt(x.Init)
			stmt(x.Post)
			if x.Cond != nil {
				exprEffects(x.Cond)
			}
			stmts(x.Body.List)
		case *ast.LabeledStmt:
			stmt(x.Stmt)
		default:
			add(fmt.Sprintf("unclassified:%T", s), fmt.Sprintf("statement %T not classified", s))
		}
	}
	stmts(rs.Body.List)
	var cl []string
	for k := range classes {
		cl = append(cl, k)
	}
	sort.Strings(cl)
	if len(cl) == 0 {
		cl = []string{"no outer effect"}
	}
	sort.Slice(reasons, func(i, j int) bool { return reasons[i].Cat < reasons[j].Cat })
	return strings.Join(cl, "+"), reasons
}

func mentionsAny(info *types.Info, e ast.Node, objs map[types.Object]bool) bool {
	found := false
	ast.Inspect(e, func(n ast.Node) bool {
		if id, ok := n.(*ast.Ident); ok && objs[info.ObjectOf(id)] {
			found = true
		}
		return !found
	})
	return found
}

// mapLoops enumerates range-over-map loops of the given packages with stable keys.
func (c *Ctx) mapLoops(pkgs []string) []*mapLoop {
	var out []*mapLoop
	for _, rel := range pkgs {
		for _, f := range c.AllFuncs(rel) {
			info := f.Info()
			counts := map[string]int{}
			ast.Inspect(f.Decl.Body, func(n ast.Node) bool {
				rs, ok := n.(*ast.RangeStmt)
				if !ok {
					return true
				}
				tv, ok := info.Types[rs.X]
				if !ok {
					return true
				}
				if _, isMap := tv.Type.Underlying().(*types.Map); !isMap {
					return true
				}
				x := canonExprString(f, rs.X)
				counts[x]++
				key := fmt.Sprintf("%s:range(%s)", f.Name, x)
				if counts[x] > 1 {
					key += fmt.Sprintf("#%d", counts[x])
				}
				out = append(out, &mapLoop{F: f, Range: rs, Key: key})
				return true
			})
		}
	}
	return out
}

// reviewedLoop: a loop whose body the classifier cannot prove order-insensitive, read by hand.
// Cats freezes the order-sensitive effect categories that were reviewed: a loop that gains a
// category outside this set is reported again.
type reviewedLoop struct {
	Cats   []string
	Reason string
}

// ruleDeterminism: R-DETERMINISM.
func ruleDeterminism(c *Ctx, r *Report) {
	r.Rule("R-DETERMINISM", "every range over a map in the generator packages has a body whose effects commute across iterations (keyed map writes, set/flag/counter updates, error accumulation, collect-then-sort, callees that write nothing shared) or is a hand-reviewed loop in the frozen table, with exactly the reviewed order-sensitive effects; nothing else may depend on Go's randomised map order", 55)
	loops := c.mapLoops(genPkgs)
	for _, l := range loops {
		class, reasons := c.classifyMapLoop(l.F, l.Range)
		pos := c.Pos(l.Range.Pos())
		if len(reasons) == 0 {
			r.OK(l.Key, pos, class)
			continue
		}
		var cats, texts []string
		for _, rr := range reasons {
			cats = append(cats, rr.Cat)
			texts = append(texts, rr.Text)
		}
		if rv, ok := reviewedMapLoops[l.Key]; ok {
			allowed := map[string]bool{}
			for _, k := range rv.Cats {
				allowed[k] = true
			}
			var extra []string
			for i, k := range cats {
				if !allowed[k] {
					extra = append(extra, k+" ("+texts[i]+")")
				}
			}
			if len(extra) == 0 {
				r.Exc(l.Key, pos, rv.Reason+" [reviewed effects: "+strings.Join(cats, ", ")+"]")
				continue
			}
			r.Bad(l.Key, pos, fmt.Sprintf("%s: reviewed map loop gained order-sensitive effects that were not reviewed: %s", l.F.Name, strings.Join(extra, "; ")))
			continue
		}
		r.Bad(l.Key, pos, fmt.Sprintf("%s ranges over a map (%s) with an order-sensitive body [%s]: %s — output can differ between runs", l.F.Name, exprKey(l.Range.X), strings.Join(cats, ", "), strings.Join(texts, "; ")))
	}
	c.stats["map_range_loops"] = len(loops)
	ruleSortedSinks(c, r)
	// who-may-call ban.
	r.Rule("R-NO-AMBIENT", "nothing reachable from the generators' entry points reads ambient state that differs between runs (time, random numbers, environment, process id, hostname)", 4)
	ban := map[string]bool{"time.Now": true, "time.Since": true, "os.Getenv": true, "os.LookupEnv": true, "os.Environ": true, "os.Getpid": true, "os.Hostname": true, "os.Getwd": true}
	entries := [][2]string{{"ygen", "GenerateIR"}, {"gogen", "CodeGenerator.Generate"}, {"protogen", "CodeGenerator.Generate"}, {"ypathgen", "GenConfig.GeneratePathCode"}}
	for _, e := range entries {
		root := c.Func(e[0], e[1])
		if root == nil {
			r.Und("entry:"+e[0]+"."+e[1], "-", "generator entry point not found")
			continue
		}
		fs := c.astReach(root)
		bad := ""
		badPos := token.NoPos
		for _, f := range fs {
			info := f.Info()
			ast.Inspect(f.Decl.Body, func(n ast.Node) bool {
				if call, ok := n.(*ast.CallExpr); ok {
					fn := FullName(Callee(info, call))
					if ban[fn] || strings.HasPrefix(fn, "math/rand.") || strings.HasPrefix(fn, "math/rand/v2.") || strings.HasPrefix(fn, "crypto/rand.") {
						bad = fn + " in " + f.Name
						badPos = call.Pos()
					}
				}
				return true
			})
		}
		r.Check(bad == "", "entry:"+e[0]+"."+e[1]+":no-ambient-state", c.Pos(badPos), fmt.Sprintf("%d reachable functions call none of time/rand/env/pid", len(fs)),
			"generation reaches "+bad+": the output depends on when/where the generator runs")
	}
}

// reviewedMapLoops is filled in rules_determinism_table.go.
var reviewedMapLoops = map[string]reviewedLoop{}
