package main

func init() {
	register("C01", func(c *Ctx, r *Report) {
		r.Decides("writer/reader type tables of the RFC7951 JSON codec agree for every YANG kind the generator emits (generator type map, decode type map, per-kind assertions, wide-numeric stringification, leaf-list element kinds).",
			"byte identity of re-rendered JSON, value-level fidelity, union member selection, list ordering.")
		ruleTablesJSON(c, r)
		ruleTablesLeafList(c, r)
	})
	register("C02", func(c *Ctx, r *Report) {
		r.Decides("gNMI scalar wrapper produced per YANG kind is accepted by the decoder; every key kind has a string form and both parsers; every leaf-list element kind is encodable.",
			"empty leaf-list acceptance, prefixes, ordering of ordered lists, value-level fidelity.")
		ruleTablesGNMI(c, r)
		ruleTablesKeys(c, r)
		ruleTablesLeafList(c, r)
	})
	register("C16", func(c *Ctx, r *Report) {
		r.Decides("every supported key kind has a string form in KeyValueAsString and a parser in stringToKeyType and StringToType; binary keys are rejected by the generator.",
			"value-level round-trip of each key string (formatting precision, escaping is C08).")
		ruleTablesKeys(c, r)
	})
}
