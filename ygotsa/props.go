package main

import "strings"

func init() {
	register("C01", func(c *Ctx, r *Report) {
		r.Decides("writer/reader type tables of the RFC7951 JSON codec agree for every YANG kind the generator emits (generator type map, decode type map, per-kind assertions, wide-numeric stringification, leaf-list element kinds).",
			"byte identity of re-rendered JSON, value-level fidelity, union member selection, list ordering.")
		ruleTablesJSON(c, r)
		ruleUnionConv(c, r)
		ruleTablesLeafList(c, r)
		ruleFloatFmt(c, r, c.funcsInScope(func(s string) bool { return s == "ygot/render.go" }, libPkgs))
		ruleEnumLib(c, r)
		ruleReflectSign(c, r, c.funcsInScope(func(s string) bool { return s == "ygot/render.go" || s == "ytypes/util_types.go" }, libPkgs), 4)
		ruleBase64Std(c, r)
		ruleUnionNameClash(c, r)
		ruleSortTotal(c, r)
		ruleNilForEmpty(c, r)
		ruleJSONPathPrefix(c, r)
	})
	register("C02", func(c *Ctx, r *Report) {
		r.Decides("gNMI scalar wrapper produced per YANG kind is accepted by the decoder; every key kind has a string form and both parsers; every leaf-list element kind is encodable.",
			"empty leaf-list acceptance, prefixes, ordering of ordered lists, value-level fidelity.")
		ruleChoiceTagLookup(c, r)
		ruleTablesGNMI(c, r)
		ruleUnionConv(c, r)
		ruleTablesKeys(c, r)
		ruleTablesLeafList(c, r)
		ruleSignConv(c, r, c.anchored("C02"), 1)
		ruleReflectSign(c, r, c.funcsInScope(func(s string) bool { return s == "ygot/render.go" || s == "ytypes/util_types.go" }, libPkgs), 4)
		ruleWildcardOpt(c, r)
		ruleReflectString(c, r, c.anchored("C02"))
		ruleRenderSkip(c, r)
		ruleSliceEmptiness(c, r, 3)
		rulePrefixPair(c, r)
		ruleSetOrder(c, r)
		ruleEmptyLeafList(c, r)
		ruleIntBase(c, r)
		ruleLossyNum(c, r, c.funcsInScope(func(s string) bool { return s == "ytypes/leaf.go" || s == "ytypes/leaf_list.go" || s == "ytypes/util_types.go" || s == "ygot/render.go" }, libPkgs), 2)
		ruleFmtConst(c, r, c.funcsInScope(func(s string) bool { return s == "ygot/render.go" }, libPkgs), 10)
		ruleKeyMapLookupN(c, r, 4, "ytypes", "node.go", "gnmi.go", "list.go")
	})
	register("C16", func(c *Ctx, r *Report) {
		r.Decides("every supported key kind has a string form in KeyValueAsString and a parser in stringToKeyType and StringToType; binary keys are rejected by the generator.",
			"value-level round-trip of each key string (formatting precision, escaping is C08).")
		ruleTablesKeys(c, r)
		ruleSignConv(c, r, c.anchored("C16"), 0)
		ruleFloatFmt(c, r, c.funcsInScope(func(s string) bool { return s == "ygot/render.go" }, libPkgs))
		ruleReflectSign(c, r, c.funcsInScope(func(s string) bool { return s == "ygot/render.go" || s == "ytypes/util_types.go" }, libPkgs), 4)
		ruleWildcardOpt(c, r)
		ruleReflectString(c, r, c.anchored("C16"))
		ruleIntBase(c, r)
		ruleKeyExact(c, r)
		ruleFmtConst(c, r, c.funcsInScope(func(s string) bool { return s == "ygot/render.go" }, libPkgs), 10)
		ruleBase64Std(c, r)
		ruleKeyMapLookupN(c, r, 4, "ytypes", "node.go", "gnmi.go", "list.go")
	})
}

func init() {
	register("C08", func(c *Ctx, r *Report) {
		r.Decides("the encoder escapes every rune the decoders interpret inside a key value, the splitter tracks escapes inside keys, no non-injective normaliser is applied on the way to the string, keys are formatted in sorted order, and both parsers share one splitter and one key/value parser.",
			"the full inverse law StringToStructuredPath∘PathToString = id for all paths (value-level).")
		ruleEscape(c, r)
		ruleLossy(c, r)
		ruleElemKeysSorted(c, r)
		r.Rule("R-MAPRANGE-RETURN", "a range over a map returns at most one distinct result from inside the loop (otherwise the result depends on iteration order)", 0)
		ruleMapRangeReturnFile(c, r, "ygot", "pathstrings.go")
		ruleFmtConst(c, r, c.anchored("C08"), 5)
	})
	register("C09", func(c *Ctx, r *Report) {
		r.Decides("ComparePaths/comparePathElem return only the absorbing relation (Disjoint) from inside their loops; no helper in util/gnmi.go returns two different results from inside a range over a map; wildcard \"*\" is honoured on the sides that may carry it.",
			"agreement of every helper with the set denotation for all path pairs (value-level); swap symmetry beyond the structural clauses.")
		ruleAbsorb(c, r)
		r.Rule("R-MAPRANGE-RETURN", "a range over a map returns at most one distinct result from inside the loop (otherwise the result depends on iteration order)", 3)
		ruleMapRangeReturnFile(c, r, "util", "gnmi.go")
		ruleWildcards(c, r)
		ruleKeyMapLookup(c, r, "util", "gnmi.go")
		ruleElemAll(c, r)
	})
}

func init() {
	register("C04", func(c *Ctx, r *Report) {
		r.Decides("every value written into the destination by the copy family is fresh, the destination's own, or a source value proved non-reference by a dominating guard; deepCopy copies into a fresh root; MergeStructs merges into the deep copy; no append onto a slice the function does not own.",
			"equality of the copy with the original; sharing through leaf-list elements that are wrapper-union pointers (element kind is not decided statically).")
		ruleCopyAlias(c, r)
		ruleAppendAlias(c, r, c.anchored("C04"), 3)
		ruleUnionCopy(c, r)
	})
	register("C05", func(c *Ctx, r *Report) {
		r.Decides("MergeStructs deep-copies a and merges b into the copy (inputs never destinations); merge options are forwarded to every recursive copy call; every sink in the copy family writes fresh or guarded values.",
			"the exact success boundary (which pairs conflict), union-of-leaves and commutativity at value level.")
		ruleCopyAlias(c, r)
		ruleOptsForward(c, r, c.anchored("C05"), 8)
		ruleIfaceIdentity(c, r)
		ruleMergeUnset(c, r)
		ruleBinaryLeaf(c, r)
		ruleUnionCopy(c, r)
		ruleOMDisjoint(c, r)
	})
}

func init() {
	register("C03", func(c *Ctx, r *Report) {
		r.Decides("the guards of ygot.diff (delete ⇔ absent from modified; update of a common path ⇔ !reflect.DeepEqual; additions ⇔ absent from original ∧ no IgnoreAdditions), PathToString-keyed leaf maps, cloned parent paths, and no append onto slices the diff code does not own (paths of one leaf never share a backing array with another).",
			"apply-back equality Diff(a,b) applied to a gives b; atomic ordering; C08's injectivity of PathToString is imported, not re-decided here.")
		ruleDiffGuards(c, r)
		ruleDiffSkip(c, r)
		ruleEmptyLeafList(c, r)
		ruleAppendAlias(c, r, c.anchored("C03"), 40)
		ruleWildcardOpt(c, r)
		ruleOptsScan(c, r)
		ruleOMEmptiness(c, r)
	})
}

func init() {
	register("C12", func(c *Ctx, r *Report) {
		r.Decides("every descent that can run under delete is followed by an emptiness test and removal of the emptied child; every removal and every other tree write in the retrieveNode family is gated by a write flag; \"*\" is a wildcard only under GetNode's option; reflect.Value.String() is not used to stringify non-string keys.",
			"frame preservation (leaves outside the path keep their values), idempotence, the exact subtree removed.")
		ruleDeletePrune(c, r)
		ruleUnsetKey(c, r)
		ruleDeleteSites(c, r)
		ruleWriteGated(c, r)
		ruleWildcardOpt(c, r)
		ruleReflectString(c, r, c.anchored("C12"))
		ruleKeyExact(c, r)
		ruleKeyMapLookupN(c, r, 4, "ytypes", "node.go", "gnmi.go", "list.go")
		ruleOMEmptiness(c, r)
	})
}

func init() {
	register("C06", func(c *Ctx, r *Report) {
		r.Decides("isInRange is the closed interval under all 13 orderings and isInRanges is ∃ with empty⇒true; string lengths are counted in characters and binary lengths in bytes; every pattern is checked with no early success; no sign-changing integer conversion and no byte/rune confusion in the validators and the pattern sanitizer; the decimal64 number compared against the range is converted exactly (yang.FromFloat only as a fallback).",
			"XSD-vs-RE2 semantic equivalence of patterns; anchoring of patterns that start with '^' and contain alternation; decimal64 fraction-digits; exactness of the float64 a caller passes in.")
		ruleOrderEnum(c, r)
		ruleLengthUnits(c, r)
		rulePatternForall(c, r)
		ruleSignConv(c, r, c.anchored("C06"), 2)
		ruleByteRune(c, r, c.anchored("C06"))
		ruleCacheKey(c, r)
		ruleAnchorGroup(c, r)
		ruleRegexpEscapeState(c, r)
		ruleDecimalExact(c, r)
	})
	register("C07", func(c *Ctx, r *Report) {
		r.Decides("every checker the property names is reachable from Validate through static calls; no validator loop silently skips an iteration; string lengths in characters; no sign-changing conversions in the validators.",
			"that each reached checker is semantically right for all values; completeness (no error) for valid trees.")
		ruleValidateReach(c, r)
		ruleValidatorSkip(c, r)
		ruleKeyCheckSkip(c, r)
		ruleUnionMember(c, r)
		ruleLengthUnits(c, r)
		ruleSignConv(c, r, c.anchored("C07", "ytypes/int_type.go", "ytypes/string_type.go", "ytypes/decimal_type.go", "ytypes/binary_type.go"), 2)
	})
}

func init() {
	register("C11", func(c *Ctx, r *Report) {
		r.Decides("absence of writes to inputs in the library's own code: retrieveNode's writes are gated by write flags GetNode never sets; read-only APIs reach only reflect mutators on fresh values and read-only reflective calls; no function reachable from any listed API stores through a parameter of shared-input type (protobuf messages, schema nodes, option/config structs) or appends onto a slice it does not own; gnmidiff mutates only fresh roots.",
			"writes performed inside dependencies (protobuf, goyang, encoding/json) and through user-supplied callbacks; aliasing through interface values the AST-level provenance cannot follow.")
		ruleWriteGated(c, r)
		ruleROReflect(c, r)
		fs := c.entryReach(r, allInputEntries...)
		ruleParamStore(c, r, fs, 150)
		ruleAppendAlias(c, r, fs, 100)
		ruleGnmidiffRoot(c, r)
		ruleCopyAlias(c, r)
	})
}

func init() {
	register("C21", func(c *Ctx, r *Report) {
		r.Decides("absence of unsynchronised shared writes in the library's own code: package-level variables are written only under the debug flags or a held mutex; the regexp cache maps are accessed under their paired mutex; shared inputs (schema nodes, messages, configs) are never stored through and slices the library does not own are never appended to, in any function reachable from the listed APIs; retrieveNode writes are gated.",
			"schedule independence of results beyond absence of shared writes; synchronisation inside glog, protobuf, regexp (assumed).")
		ruleGlobals(c, r)
		ruleLockset(c, r)
		fs := c.entryReach(r, allInputEntries...)
		ruleParamStore(c, r, fs, 150)
		ruleAppendAlias(c, r, fs, 100)
		ruleWriteGated(c, r)
	})
}

func init() {
	register("C13", func(c *Ctx, r *Report) {
		r.Decides("phase order delete ≺ replace ≺ update with the prefix and the matching request field; per-replace delete-then-write in one iteration; slices iterated in message order with the prefix joined; no notification or path skipped outside the best-effort error branch; the atomic prefix-delete exactly under n.Atomic.",
			"equivalence with a path→value reference model for all request sequences.")
		rulePathKeyCanon(c, r)
		ruleSetOrder(c, r)
		ruleWildcardOpt(c, r)
		ruleKeyMapLookupN(c, r, 4, "ytypes", "node.go", "gnmi.go", "list.go")
		ruleLeafListReplace(c, r)
		ruleDispatchTotal(c, r)
		ruleCreateOnMiss(c, r)
	})
	register("C14", func(c *Ctx, r *Report) {
		r.Decides("pruneBranchesInternal's result flag is monotone; every Set writes a zero value into an empty struct-pointer/ordered-map field; ordered maps are recognised before struct pointers are dereferenced (no reflection into unexported fields); non-pointer leaves are compared with their type's zero value.",
			"idempotence; BuildEmptyTree∘Prune identity at value level.")
		rulePrune(c, r)
		rulePruneDescend(c, r)
		ruleOrderedMapTraversal(c, r)
		ruleOMVisitAll(c, r)
		ruleSliceEmptiness(c, r, 3)
	})
	register("C18", func(c *Ctx, r *Report) {
		r.Decides("float→integer conversions are preceded by a sound integrality+range test on the float; integer TypedValues only reach leaves through the range-checking parser; every parse error is tested and returned; kind tests precede the per-kind dispatch in both decoders; no sign-changing conversions.",
			"range correctness for every width at value level; re-render fidelity.")
		ruleFloat2Int(c, r)
		ruleDecimalLexical(c, r)
		ruleNilForEmpty(c, r)
		ruleStripExact(c, r)
		ruleDecodeDiscipline(c, r)
		ruleEmptyExact(c, r)
		ruleEnumLib(c, r)
		ruleTablesJSON(c, r)
		ruleSignConv(c, r, c.anchored("C18"), 1)
	})
	register("C19", func(c *Ctx, r *Report) {
		r.Decides("float formatting uses 'f', -1, 64; wide integers/decimals are stringified exactly for the kinds the decoder expects; Binary→base64, empty→[null], enums→names under RFC7951; module prefix cleared exactly on module equality starting from the parent's module and recursive calls forward the module they were given; no sign-changing conversion in the renderer.",
			"the actual bytes emitted for every value.")
		ruleFloatFmt(c, r, c.anchored("C19"))
		ruleRFC7951Encodings(c, r)
		ruleTablesJSON(c, r)
		ruleSignConv(c, r, c.anchored("C19"), 0)
		ruleReflectSign(c, r, c.funcsInScope(func(s string) bool { return s == "ygot/render.go" }, libPkgs), 3)
		ruleWideKinds(c, r)
		ruleUnionEmpty(c, r)
	})
}

func init() {
	register("C17", func(c *Ctx, r *Report) {
		r.Decides("enumFieldToString treats exactly 0 as UNSET, returns names only after successful ΛMap lookups and errors on unknown values; castToEnumValue uses the type's own ΛMap per call, no package-level state, and compares names modulo module prefix on both sides; castToEnumValue's map loop returns a single result shape.",
			"name uniqueness within each generated enum type for schemas outside the repository's golden corpus; int64-exhaustive behaviour.")
		ruleEnumLib(c, r)
		r.Rule("R-MAPRANGE-RETURN", "a range over a map returns at most one distinct constant result from inside the loop", 0)
		ruleMapRangeReturnFile(c, r, "ytypes", "util_types.go")
		ruleEnumGen(c, r)
		ruleEnumGoNameUniq(c, r)
		ruleEnumKeyRender(c, r)
		ruleDedupScope(c, r)
		ruleStripExact(c, r)
		ruleEnumUnsetRender(c, r)
	})
	register("C20", func(c *Ctx, r *Report) {
		r.Decides("three panic classes over everything statically reachable from the nine entry points: unchecked single-result type assertions, comparisons of possibly-uncomparable interface values, reflective calls with unchecked arity; plus no explicit panic().",
			"index/slice bounds, nil dereferences, panics inside reflect for invalid Values (e.g. Interface() on a zero Value), panics inside dependencies.")
		fs := c.entryReach(r, c20Entries...)
		c.stats["functions_analysed"] = len(fs)
		encPair = ruleEncPair(c, r)
		ruleUnsetKey(c, r)
		ruleAssert(c, r, fs)
		ruleIfaceEq(c, r, fs)
		ruleCallArity(c, r, fs)
		ruleNoPanicCalls(c, r, fs)
		ruleTableIndex(c, r, fs)
		ruleNilEntry(c, r)
		ruleFloatLexical(c, r)
		rulePrecisionBound(c, r)
		ruleUnionEmpty(c, r)
	})
}

func init() {
	register("C30", func(c *Ctx, r *Report) {
		r.Decides("leafref errors are dropped only under IgnoreMissingData (which also skips the walk); every resolution/lookup/match error in the per-node iterator is returned; matchesNodes reports a match only for an empty source or after a successful equality test and reports none for an empty node set; dataNodesAtPath moves its data and memo cursors in lock step and caches under the string of the path it resolves; a missing list key is tolerated only when absent (not when empty) and only under partialKeyMatch.",
			"XPath node-set semantics of the leafref path for all trees; predicate evaluation against current data at value level.")
		ruleLeafrefErr(c, r)
		ruleLeafrefMatch(c, r)
		ruleLockstep(c, r)
		rulePartialKey(c, r)
		ruleWildcardOpt(c, r)
		rulePredicateKey(c, r)
		ruleVisitorCopy(c, r)
		ruleLeafrefNoWildcard(c, r)
		ruleDeepEqType(c, r)
	})
}

func init() {
	register("C32", func(c *Ctx, r *Report) {
		r.Decides("PruneConfigFalse always walks the struct it is given with the schema it is given; the iterator's only write zeroes the visited field and is reached only for a schema that util.IsConfig reports false; fields are skipped only for the documented reasons; IsConfig is goyang's inherited config decision.",
			"that util.Walk visits every populated field of every tree (traversal completeness); value-level equality of the config-true remainder.")
		ruleChoiceFirstChild(c, r)
		rulePruneConfigFalse(c, r)
		ruleSchemaRebuild(c, r)
	})
}

func init() {
	register("C31", func(c *Ctx, r *Report) {
		r.Decides("unmarshalStruct creates only nil fields and descends only into mentioned fields; a mentioned leaf-list is cleared before it is filled on every successful path; a keyed-list element is merged into the existing entry when the key is present; the unknown-member check runs exactly when IgnoreExtraFields is absent and its error is returned; options are forwarded to every nested unmarshal call.",
			"the leaf-level merge result for all (tree, JSON) pairs; behaviour of ordered-map insertion (generated Append semantics, C15).")
		ruleStructMerge(c, r)
		ruleLeafListReplace(c, r)
		ruleListMerge(c, r)
		ruleOptsForward(c, r, c.anchored("C31", "ytypes/leaf.go", "ytypes/choice.go"), 9)
		ruleDispatchTotal(c, r)
		ruleCreateOnMiss(c, r)
	})
}

func init() {
	register("C28", func(c *Ctx, r *Report) {
		r.Decides("fieldTag returns only values in [1,2^29-1]\\[19000,19999] and never 1..1000; every hashed string is built from schema strings only; every message is checked for repeated field numbers before rendering (single render site) and identity values before being stored, a collision being an error; explicit key tags increase once per key; the key/list-member name clash guard compares the names that are emitted; the golden .proto corpus is well-formed.",
			"absence of hash collisions for a given schema (a collision is now a generation error, not an invalid file); uniqueness of field names for schemas outside the corpus beyond the MakeNameUnique/clash-guard structure; validity under protoc.")
		ruleTagInterval(c, r)
		ruleTagPure(c, r)
		ruleTagUniq(c, r)
		ruleEnumLabelUniq(c, r)
		ruleProtoScopeNames(c, r)
		ruleProtoCorpus(c, r)
	})
}

func init() {
	register("C24", func(c *Ctx, r *Report) {
		r.Decides("for every value shape PathsFromProto stores (wrapper scalars, enum names, leaf-list slices, union leaf-list members, key strings) the ProtoFromPaths decoder of the same field kind accepts that Go type; enum descriptors are selected by number; key presence is decided by comma-ok lookup; every stored path is resolvedPath(base, schemapath annotation).",
			"proto.Equal of the reconstructed message for all messages (value-level); kinds the reader documents as unsupported (bool/int wrappers, bytes/int64 union members).")
		ruleProtomapTables(c, r)
		ruleEnumByNumber(c, r)
		ruleKeyPresence(c, r)
		ruleResultKeys(c, r)
		ruleListMemberSet(c, r)
		ruleReflectSign(c, r, c.funcsInScope(func(s string) bool { return s == "ygot/render.go" }, libPkgs), 3)
		ruleSignConv(c, r, c.funcsInScope(func(s string) bool { return s == "ygot/render.go" }, libPkgs), 0)
		ruleLeafListTyped(c, r)
	})
}

func init() {
	register("C22", func(c *Ctx, r *Report) {
		r.Decides("A's and B's roles in DiffSetRequest follow argument order only (intents, leftovers, mismatch sides), common entries leave both sides, values are compared by reflect.DeepEqual; every intent key is fullPathStr(one prefix string, element path) through ygot.PathToString and no other code formats key predicates; replace = delete + leaves, update = leaves, a leaf replace drops its delete with and without schema; duplicate writes conflict only on !DeepEqual; proto leaf values take exactly the forms encoding/json yields; gnmidiff mutates only fresh roots.",
			"reflexivity and swap symmetry at value level for all requests; equivalence of schema-aware and schema-less flattening for every schema.")
		ruleDiffSymmetry(c, r)
		ruleIntentNormal(c, r)
		rulePathFmtOwner(c, r, libPkgs, 20)
		ruleIfaceEq(c, r, c.funcsInScope(func(s string) bool { return strings.HasPrefix(s, "gnmidiff/") }, []string{"gnmidiff"}))
		ruleFloatFmt(c, r, c.funcsInScope(func(s string) bool { return s == "ygot/render.go" || strings.HasPrefix(s, "gnmidiff/") }, libPkgs))
		ruleGnmidiffRoot(c, r)
		rulePathPrefixBoundary(c, r)
	})
}

func init() {
	register("C25", func(c *Ctx, r *Report) {
		r.Decides("absence of map-iteration-order dependence in the generators' own code: every range over a map in ygen/gogen/protogen/ypathgen/genutil/generator has a commutative body or is a reviewed exception; no ambient state (time, randomness, environment) is reachable from generation.",
			"ordering inside goyang and text/template (assumed deterministic: goyang sorts, text/template ranges maps in key order); byte identity across processes for every schema.")
		r.Assume("text/template iterates maps in sorted key order; goyang's Entry.Dir/Identity ordering is not relied upon except through sorted accessors")
		ruleDeterminism(c, r)
	})
}

func init() {
	register("C15", func(c *Ctx, r *Report) {
		r.Decides("the ordered-map and parent-helper code that gogen's templates expand to, for every key shape in the analyser's table (1–3 keys, pointer and non-pointer key leaves), obeys the insertion/deletion/read-only discipline of an insertion-ordered unique-key map (the inductive step of the model: each method's effect on keys/valueMap), and every library traversal of an ordered map goes through yreflect's ordered accessors.",
			"equivalence with the reference model over all call histories; order preservation through JSON/gNMI/DeepCopy at value level; key shapes outside the table (the templates only distinguish single/multi and pointer/non-pointer).")
		r.Assume("text/template of the standard library expands the templates as the generator's own engine does; the analyser's data shapes carry the fields the templates read (an unknown field is reported as undecided)")
		ruleOrderedMapTemplates(c, r)
		ruleOrderedMapTraversal(c, r)
		ruleDiffGuards(c, r)
		ruleSetOrder(c, r)
		ruleWildcardOpt(c, r)
		ruleOMVisitAll(c, r)
	})
	register("C34", func(c *Ctx, r *Report) {
		r.Decides("the keyed-list helper code that gogen's templates expand to, for every key shape in the analyser's table, obeys the keyed-map discipline method by method (New/Append reject duplicates and nil keys before writing, Get never writes, GetOrCreate creates only on a miss, Delete removes only the key, Rename validates first, updates every key leaf from newK and moves the entry).",
			"equivalence with the reference model over all helper-call histories; key types beyond pointer/non-pointer (the templates do not distinguish them).")
		r.Assume("text/template of the standard library expands the templates as the generator's own engine does; the analyser's data shapes carry the fields the templates read (an unknown field is reported as undecided)")
		ruleKeyedListTemplates(c, r)
		ruleOrderedMapTemplates(c, r)
		ruleKeyFieldName(c, r)
	})
}

func init() {
	register("C33", func(c *Ctx, r *Report) {
		r.Decides("PopulateDefaults (template expansion and the 30 compiled methods) writes a leaf only under the unset test of that leaf with a fresh default literal, writes exactly the leaves carrying a default, and descends into every container/list/ordered-list child; the Go literal of a default is %q-quoted or parsed-then-raw text, validated against the type's restrictions at generation time; key-statement membership is never a substring test (defaults are dropped or kept per leaf, not per name fragment).",
			"that the default literal denotes the YANG default for every type at value level; validity of arbitrary trees after population (only the generation-time validation of the default itself is decided).")
		ruleDefaultsTemplate(c, r)
		ruleDefaultsCorpus(c, r)
		ruleGoLiteral(c, r)
		ruleKeyMember(c, r)
		ruleDefaultSource(c, r)
		ruleDefaultValueSemantics(c, r)
		ruleDefaultVerbatim(c, r)
		ruleEmptyTreeAll(c, r)
	})
}

func init() {
	register("C29", func(c *Ctx, r *Report) {
		r.Decides("resolution is a pure function of the path structs (nothing cached, ModifyKey always observed), emits the relative schema path names in order with every key stringified through KeyValueAsString on the last element, ancestors first; the generated constructor passes its receiver as parent and the generator's relative-path list and key map; every list constructor's key map has one entry per key (value or \"*\"), empty only for the all-wildcard non-builder case under SimplifyWildcardPaths; path lists and GoStruct path tags come from the same IR field data.",
			"that every node of every generated API resolves to its schema's data-tree path (value level, per schema); agreement of generated Go key names with the user's expectations on camel-case collisions.")
		rulePathResolve(c, r)
		rulePathTemplates(c, r)
		rulePathKeyEntries(c, r)
		ruleTablesKeys(c, r)
		ruleReflectSign(c, r, c.funcsInScope(func(s string) bool { return s == "ygot/render.go" }, libPkgs), 3)
		ruleRelPathPositional(c, r)
		ruleBase64Std(c, r)
	})
}

func init() {
	register("C27", func(c *Ctx, r *Report) {
		r.Decides("the embedding path serialises goyang's own entries: names are recorded under the lookup key, no module child or entry is filtered, only Description/Annotation are written, the whole root is marshalled and gzipped completely, decoding restores Parent and indexes every annotated entry; run-time code reads only entry fields that survive serialisation.",
			"equality of the decoded tree with a goyang compilation of the source YANG (needs running goyang); faithfulness of goyang's own JSON marshalling of YangType/ListAttr.")
		ruleSchemaEmbed(c, r)
		ruleSchemaReadSet(c, r)
	})
}

func init() {
	register("C26", func(c *Ctx, r *Report) {
		r.Decides("the complete package gogen's templates expand to (both union styles) type-checks against the real ygot/ytypes/goyang and its types implement the ygot interfaces; the golden generated files and the compiled generated packages type-check; writeGoStruct emits one field per IR field with the Go type of its node kind, names come from the uniquifiers, the ordered/unordered decisions agree, and the fake root receives every root directory, leaf and leaf-list.",
			"random schemas and flag combinations (only the template/IR structure is decided, plus the fixed golden corpus); go vet beyond type-checking; that field tags resolve in the embedded schema for every schema.")
		ruleCompileTemplates(c, r)
		ruleCompileCorpus(c, r)
		ruleFieldKinds(c, r)
		ruleChoiceTransparent(c, r)
		ruleSchemaEmbed(c, r)
		ruleSchemaTreeKey(c, r)
		ruleLoopNameUnique(c, r)
		ruleKeyFieldName(c, r)
		ruleRelPathPositional(c, r)
		ruleFieldMethodClash(c, r)
		ruleTypeNameGuard(c, r)
		ruleUnionNameClash(c, r)
		ruleEnumGoNameUniq(c, r)
	})
}

func init() {
	register("C10", func(c *Ctx, r *Report) {
		r.Decides("the structural half of set-then-get: the SetNode value is written only where the path is exhausted, with the addressed field's schema and parent; all other writes of the retrieveNode family are creation/deletion gated by flags; list entries created along the path get their key leaves from the path's key strings through the per-kind parsers, which agree with the key renderer for every key kind; payloads are decoded per kind with every parse error returned and no lossy float→integer conversion; '*' and missing keys select several entries only under GetNode's explicit options.",
			"that GetNode returns exactly the stored value for every payload (value level); the frame condition for all trees beyond the write-site rule; sequences of sets.")
		rulePathKeyCanon(c, r)
		ruleChoiceTagLookup(c, r)
		ruleSetAtTarget(c, r)
		ruleWriteGated(c, r)
		ruleWriteThrough(c, r)
		ruleTablesKeys(c, r)
		ruleDecodeDiscipline(c, r)
		ruleFloat2Int(c, r)
		ruleWildcardOpt(c, r)
		rulePartialKey(c, r)
		ruleKeyExact(c, r)
		ruleKeyMapLookupN(c, r, 4, "ytypes", "node.go", "gnmi.go", "list.go")
		ruleIntBase(c, r)
		ruleLossyNum(c, r, c.funcsInScope(func(s string) bool { return s == "ytypes/leaf.go" || s == "ytypes/leaf_list.go" || s == "ytypes/util_types.go" || s == "ygot/render.go" }, libPkgs), 2)
		ruleCreateOnMiss(c, r)
	})
	register("C23", func(c *Ctx, r *Report) {
		r.Decides("DiffSetRequestToNotifications expands notification leaves exactly like intent leaves and classifies every intent leaf by the (present, reflect.DeepEqual) table with the intent on side A, removes handled paths from the leftovers, and reports as extra only leftovers strictly below deleted/replaced paths; the intent side is the rule set of C22 (normal form, path formatting).",
			"exactness of the classification for all request/notification pairs at value level; wildcard deletes; notifications carrying deletes (refused).")
		ruleSetToNotifs(c, r)
		ruleIntentNormal(c, r)
		rulePathFmtOwner(c, r, libPkgs, 20)
		rulePathPrefixBoundary(c, r)
	})
}
