package main

func init() {
	register("C01", func(c *Ctx, r *Report) {
		r.Decides("writer/reader type tables of the RFC7951 JSON codec agree for every YANG kind the generator emits (generator type map, decode type map, per-kind assertions, wide-numeric stringification, leaf-list element kinds).",
			"byte identity of re-rendered JSON, value-level fidelity, union member selection, list ordering.")
		ruleTablesJSON(c, r)
		ruleTablesLeafList(c, r)
	})
	register("C02", func(c *Ctx, r *Report) {
		r.Decides("gNMI scalar wrapper produced per YANG kind is accepted by the decoder; every key kind has a string form and both parsers; every leaf-list element kind is encodable.",
			"empty leaf-list acceptance, prefixes, ordering of ordered lists, value-level fidelity.")
		ruleTablesGNMI(c, r)
		ruleTablesKeys(c, r)
		ruleTablesLeafList(c, r)
	})
	register("C16", func(c *Ctx, r *Report) {
		r.Decides("every supported key kind has a string form in KeyValueAsString and a parser in stringToKeyType and StringToType; binary keys are rejected by the generator.",
			"value-level round-trip of each key string (formatting precision, escaping is C08).")
		ruleTablesKeys(c, r)
	})
}

func init() {
	register("C08", func(c *Ctx, r *Report) {
		r.Decides("the encoder escapes every rune the decoders interpret inside a key value, the splitter tracks escapes inside keys, no non-injective normaliser is applied on the way to the string, keys are formatted in sorted order, and both parsers share one splitter and one key/value parser.",
			"the full inverse law StringToStructuredPath∘PathToString = id for all paths (value-level).")
		ruleEscape(c, r)
		ruleLossy(c, r)
		ruleElemKeysSorted(c, r)
		r.Rule("R-MAPRANGE-RETURN", "a range over a map returns at most one distinct result from inside the loop (otherwise the result depends on iteration order)", 0)
		ruleMapRangeReturnFile(c, r, "ygot", "pathstrings.go")
	})
	register("C09", func(c *Ctx, r *Report) {
		r.Decides("ComparePaths/comparePathElem return only the absorbing relation (Disjoint) from inside their loops; no helper in util/gnmi.go returns two different results from inside a range over a map; wildcard \"*\" is honoured on the sides that may carry it.",
			"agreement of every helper with the set denotation for all path pairs (value-level); swap symmetry beyond the structural clauses.")
		ruleAbsorb(c, r)
		r.Rule("R-MAPRANGE-RETURN", "a range over a map returns at most one distinct result from inside the loop (otherwise the result depends on iteration order)", 3)
		ruleMapRangeReturnFile(c, r, "util", "gnmi.go")
		ruleWildcards(c, r)
	})
}
