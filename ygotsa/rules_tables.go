package main

import (
	"fmt"
	"go/ast"
	"go/types"
	"sort"
	"strings"
)

const yangKind = "github.com/openconfig/goyang/pkg/yang.TypeKind"
const reflectKind = "reflect.Kind"

// leafKinds: YANG kinds the Go generator maps to a concrete scalar Go type
// (dom(T1) minus union/leafref which resolve to these).
var numericWide = map[string]bool{"yang.Yint64": true, "yang.Yuint64": true, "yang.Ydecimal64": true}

// keyKinds is the key-kind set the properties name (C02/C16).
var keyKinds = []string{"yang.Yint8", "yang.Yint16", "yang.Yint32", "yang.Yint64", "yang.Yuint8", "yang.Yuint16", "yang.Yuint32", "yang.Yuint64",
	"yang.Ystring", "yang.Ybool", "yang.Ydecimal64", "yang.Yenum", "yang.Yidentityref"}

// nativeToReflect maps generator native type names to reflect kinds.
func nativeToReflect(c *Ctx, native string) string {
	switch native {
	case "int8", "int16", "int32", "int64", "uint8", "uint16", "uint32", "uint64", "bool", "string", "float64", "float32":
		return "reflect." + strings.ToUpper(native[:1]) + native[1:]
	case "enum":
		return "reflect.Int64"
	}
	// a named type declared by the generated code (Binary, YANGEmpty): resolve the
	// declaration in the compiled corpus packages.
	for _, rel := range corpusPkgs {
		p := c.Pkg(rel)
		if p == nil {
			continue
		}
		if o := p.Types.Scope().Lookup(native); o != nil {
			switch u := o.Type().Underlying().(type) {
			case *types.Basic:
				n := u.Name()
				return "reflect." + strings.ToUpper(n[:1]) + n[1:]
			case *types.Slice:
				return "reflect.Slice"
			}
		}
	}
	return ""
}

func basicToReflect(t types.Type) string {
	switch u := t.Underlying().(type) {
	case *types.Basic:
		n := u.Name()
		if n == "untyped nil" {
			return "nil"
		}
		n = strings.TrimPrefix(n, "untyped ")
		return "reflect." + strings.ToUpper(n[:1]) + n[1:]
	case *types.Slice:
		return "reflect.Slice"
	case *types.Interface:
		return "reflect.Interface"
	case *types.Pointer:
		return "reflect.Ptr"
	case *types.Map:
		return "reflect.Map"
	case *types.Struct:
		return "reflect.Struct"
	}
	return ""
}

// T1: yang kind → native Go type emitted by the generator.
type genTable struct {
	native map[string]string // yang.K → native ("int8", "Binary", "enum", …)
	pos    map[string]string
	tbl    *Table
}

func extractT1(c *Ctx, r *Report) *genTable {
	f := c.MustFunc(r, "gogen", "GoLangMapper.yangTypeToGoType")
	if f == nil {
		return nil
	}
	sws := KindSwitches(f, yangKind)
	if len(sws) != 1 {
		r.Und("table:T1:"+f.Name, c.Pos(f.Decl.Pos()), fmt.Sprintf("expected exactly one switch on yang.TypeKind, found %d: dispatch shape not recognised", len(sws)))
		return nil
	}
	t := sws[0]
	g := &genTable{native: map[string]string{}, pos: map[string]string{}, tbl: t}
	info := f.Info()
	for k, a := range t.ByKey {
		nat := ""
		ast.Inspect(a.Node, func(n ast.Node) bool {
			cl, ok := n.(*ast.CompositeLit)
			if !ok || namedTypeOf(info.Types[cl].Type) != P("ygen")+".MappedType" {
				return true
			}
			for _, el := range cl.Elts {
				kv, ok := el.(*ast.KeyValueExpr)
				if !ok {
					continue
				}
				switch kv.Key.(*ast.Ident).Name {
				case "NativeType":
					if v, ok := info.Types[kv.Value]; ok && v.Value != nil {
						nat = strings.Trim(v.Value.ExactString(), `"`)
					}
				case "IsEnumeratedValue":
					if v, ok := info.Types[kv.Value]; ok && v.Value != nil && v.Value.ExactString() == "true" {
						nat = "enum"
					}
				}
			}
			return true
		})
		g.native[k] = nat
		g.pos[k] = c.Pos(a.Node.Pos())
	}
	return g
}

func (g *genTable) leafKinds() []string {
	var ks []string
	for k, n := range g.native {
		if k == "yang.Yunion" || k == "yang.Yleafref" {
			continue
		}
		if n == "" {
			continue
		}
		ks = append(ks, k)
	}
	sort.Strings(ks)
	return ks
}

// retTypeOfArm returns the reflect kind of the single returned expression in an arm
// (for tables whose arms are `return T(0)` or `return reflect.TypeOf(T(0))`).
func retKindOfArm(info *types.Info, a *Arm, unwrapTypeOf bool) string {
	for _, s := range a.Body {
		rs, ok := s.(*ast.ReturnStmt)
		if !ok || len(rs.Results) == 0 {
			continue
		}
		e := rs.Results[0]
		if unwrapTypeOf {
			call, ok := e.(*ast.CallExpr)
			if !ok || FullName(Callee(info, call)) != "reflect.TypeOf" || len(call.Args) != 1 {
				return ""
			}
			e = call.Args[0]
		}
		if tv, ok := info.Types[e]; ok && tv.Type != nil {
			// conversions of constants: int8(0) has type int8.
			return basicToReflect(tv.Type)
		}
	}
	return ""
}

// ruleTablesJSON: R-TABLES (a)(b)(c) for the JSON codec.
func ruleTablesJSON(c *Ctx, r *Report) {
	g := extractT1(c, r)
	if g == nil {
		return
	}
	leaf := g.leafKinds()
	// (a) T2
	r.Rule("R-TABLES(a)", "every YANG kind the generator maps to a Go type has an arm in ytypes.yangBuiltinTypeToGoType returning a value of the same reflect kind", 13)
	if f := c.MustFunc(r, "ytypes", "yangBuiltinTypeToGoType"); f != nil {
		sws := KindSwitches(f, yangKind)
		if len(sws) != 1 {
			r.Und("table:T2:"+f.Name, c.Pos(f.Decl.Pos()), "dispatch shape not recognised")
		} else {
			t2 := sws[0]
			for _, k := range leaf {
				want := nativeToReflect(c, g.native[k])
				a, ok := t2.ByKey[k]
				if !ok {
					r.Bad("T2:"+k, c.Pos(t2.Switch.Pos()), fmt.Sprintf("generator emits %s (%s) for %s but yangBuiltinTypeToGoType has no arm for it: every value of that kind fails to decode", g.native[k], want, k))
					continue
				}
				got := retKindOfArm(f.Info(), a, false)
				r.Check(got == want, "T2:"+k, c.Pos(a.Node.Pos()), fmt.Sprintf("%s → %s on both sides", k, want),
					fmt.Sprintf("generator emits %s for %s but yangBuiltinTypeToGoType returns %s", want, k, got))
			}
		}
	}
	// (b) T3/T4
	r.Rule("R-TABLES(b)", "ytypes.sanitizeJSON asserts, per YANG kind, exactly the Go type ytypes.yangToJSONType declares for it, and the type test precedes the dispatch", 14)
	f3 := c.MustFunc(r, "ytypes", "yangToJSONType")
	f4 := c.MustFunc(r, "ytypes", "sanitizeJSON")
	var t3, t4 *Table
	if f3 != nil && f4 != nil {
		s3, s4 := KindSwitches(f3, yangKind), KindSwitches(f4, yangKind)
		if len(s3) != 1 || len(s4) != 1 {
			r.Und("table:T3/T4", c.Pos(f4.Decl.Pos()), "dispatch shape not recognised")
		} else {
			t3, t4 = s3[0], s4[0]
			// type test dominates the switch
			facts := c.FactsAt(f4, t4.Switch, false)
			guarded := HasFact(facts, false, func(e ast.Expr) bool {
				return len(CallsIn(f4.Info(), e, P("ytypes")+".yangToJSONType")) > 0
			})
			r.Check(guarded, "T4:type-test-precedes-dispatch", c.Pos(t4.Switch.Pos()), "a failed comparison with yangToJSONType(kind) returns before the per-kind assertions",
				"the per-kind switch in sanitizeJSON is no longer preceded by an early return on reflect type != yangToJSONType(kind): the single-result assertions below panic on JSON of the wrong kind")
			for _, k := range leaf {
				a3, ok3 := t3.ByKey[k]
				a4, ok4 := t4.ByKey[k]
				if !ok3 || !ok4 || armErrorsOnly(f4.Info(), a4) {
					r.Bad("T3T4:"+k, c.Pos(t4.Switch.Pos()), fmt.Sprintf("kind %s emitted by the generator has no arm in yangToJSONType (%v) / sanitizeJSON (%v): its JSON cannot be decoded", k, ok3, ok4))
					continue
				}
				want := retKindOfArm(f3.Info(), a3, true)
				okAll := true
				var seen []string
				for _, as := range AssertionsIn(c, f4, a4.Node) {
					if !sameExpr(f4.Info(), as.X, valueParam(f4, "value")) {
						continue
					}
					got := basicToReflect(f4.Info().Types[as.Node.Type].Type)
					seen = append(seen, got)
					if got != want {
						okAll = false
					}
				}
				r.Check(okAll, "T3T4:"+k, c.Pos(a4.Node.Pos()), fmt.Sprintf("%s: JSON type %s; asserted %v", k, want, seen),
					fmt.Sprintf("%s: yangToJSONType says %s but sanitizeJSON asserts %v: the assertion panics or the value is rejected", k, want, seen))
			}
		}
	}
	// (c) wide numerics as strings
	r.Rule("R-TABLES(c)", "the encoder (ygot.writeIETFScalarJSON) stringifies exactly the Go kinds of the numeric YANG kinds the decoder expects as JSON strings", 3)
	if f11 := c.MustFunc(r, "ygot", "writeIETFScalarJSON"); f11 != nil && t3 != nil {
		s11 := KindSwitches(f11, reflectKind)
		if len(s11) != 1 {
			r.Und("table:T11", c.Pos(f11.Decl.Pos()), "dispatch shape not recognised")
		} else {
			t11 := s11[0]
			enc := map[string]bool{}
			for k, a := range t11.ByKey {
				// arm returns a string
				for _, s := range a.Body {
					if rs, ok := s.(*ast.ReturnStmt); ok && len(rs.Results) == 1 {
						if tv := f11.Info().Types[rs.Results[0]]; tv.Type != nil && basicToReflect(tv.Type) == "reflect.String" {
							enc[k] = true
						}
					}
				}
			}
			dec := map[string]string{}
			for _, k := range leaf {
				if a3, ok := t3.ByKey[k]; ok && numericKind(k) {
					if retKindOfArm(f3.Info(), a3, true) == "reflect.String" {
						dec[nativeToReflect(c, g.native[k])] = k
					}
				}
			}
			all := map[string]bool{}
			for k := range enc {
				all[k] = true
			}
			for k := range dec {
				all[k] = true
			}
			var ks []string
			for k := range all {
				ks = append(ks, k)
			}
			sort.Strings(ks)
			for _, k := range ks {
				_, d := dec[k]
				r.Check(enc[k] == d, "T11:"+k, c.Pos(t11.Switch.Pos()), "stringified by encoder and expected as string by decoder",
					fmt.Sprintf("Go kind %s: encoder stringifies=%v, decoder expects string=%v (yang %s): every such value fails the JSON round trip", k, enc[k], d, dec[k]))
			}
			// every other numeric kind must NOT be stringified and decoder expects float64.
			for _, k := range leaf {
				if !numericKind(k) || numericWide[k] {
					continue
				}
				a3 := t3.ByKey[k]
				rk := nativeToReflect(c, g.native[k])
				ok := a3 != nil && retKindOfArm(f3.Info(), a3, true) == "reflect.Float64" && !enc[rk]
				r.Check(ok, "T11:narrow:"+k, c.Pos(t11.Switch.Pos()), "emitted as JSON number, decoded from float64", fmt.Sprintf("%s (%s) must travel as a JSON number on both sides", k, rk))
			}
		}
	}
}

func numericKind(k string) bool {
	switch k {
	case "yang.Yint8", "yang.Yint16", "yang.Yint32", "yang.Yint64", "yang.Yuint8", "yang.Yuint16", "yang.Yuint32", "yang.Yuint64", "yang.Ydecimal64":
		return true
	}
	return false
}

// valueParam returns an identifier expression referring to parameter name of f.
func valueParam(f *FuncInfo, name string) ast.Expr {
	for _, fl := range f.Decl.Type.Params.List {
		for _, n := range fl.Names {
			if n.Name == name {
				return n
			}
		}
	}
	return nil
}

// ---- gNMI scalar codec: (d) ----------------------------------------------------

// wrappersOfFromScalar: Go type → TypedValue_* wrapper produced by gnmi/value.FromScalar.
func extractT6(c *Ctx, r *Report) map[string]string {
	f := c.MustFunc(r, "github.com/openconfig/gnmi/value", "FromScalar")
	if f == nil {
		return nil
	}
	ts := TypeSwitches(f)
	if len(ts) != 1 {
		r.Und("table:T6", c.Pos(f.Decl.Pos()), "dispatch shape not recognised")
		return nil
	}
	out := map[string]string{}
	for k, a := range ts[0].ByKey {
		w := ""
		ast.Inspect(a.Node, func(n ast.Node) bool {
			if cl, ok := n.(*ast.CompositeLit); ok && w == "" {
				if nt := namedTypeOf(f.Info().Types[cl].Type); strings.Contains(nt, "TypedValue_") {
					w = nt[strings.LastIndex(nt, ".")+1:]
				}
			}
			return true
		})
		out[k] = w
	}
	return out
}

// acceptedWrappers: yang kind → set of TypedValue_* the decoder accepts (gNMIToYANGTypeMatches).
func extractT5(c *Ctx, r *Report) (map[string]map[string]bool, *Table) {
	f := c.MustFunc(r, "ytypes", "gNMIToYANGTypeMatches")
	if f == nil {
		return nil, nil
	}
	sws := KindSwitches(f, yangKind)
	if len(sws) != 1 {
		r.Und("table:T5", c.Pos(f.Decl.Pos()), "dispatch shape not recognised")
		return nil, nil
	}
	out := map[string]map[string]bool{}
	for k, a := range sws[0].ByKey {
		out[k] = map[string]bool{}
		for _, as := range AssertionsIn(c, f, a.Node) {
			if i := strings.Index(as.Type, "TypedValue_"); i >= 0 {
				out[k][as.Type[i:]] = true
			}
		}
	}
	return out, sws[0]
}

func goTypeNameOfNative(native string) string {
	switch native {
	case "enum":
		return "string" // enums are encoded by name (EncodeTypedValue GoEnum arm)
	}
	return native
}

func ruleTablesGNMI(c *Ctx, r *Report) {
	g := extractT1(c, r)
	if g == nil {
		return
	}
	r.Rule("R-TABLES(d)", "for each YANG kind, the TypedValue wrapper the encoder produces for the generator's Go type is one the decoder (gNMIToYANGTypeMatches + sanitizeGNMI) accepts", 14)
	t6 := extractT6(c, r)
	t5, t5tbl := extractT5(c, r)
	fs := c.MustFunc(r, "ytypes", "sanitizeGNMI")
	fe := c.MustFunc(r, "ygot", "EncodeTypedValue")
	if t6 == nil || t5 == nil || fs == nil || fe == nil {
		return
	}
	ss := KindSwitches(fs, yangKind)
	if len(ss) != 1 {
		r.Und("table:sanitizeGNMI", c.Pos(fs.Decl.Pos()), "dispatch shape not recognised")
		return
	}
	// T7: special-cased named types in EncodeTypedValue: `vv.Type().Name() == XTypeName` arms → wrapper literal.
	special := map[string]string{}
	ast.Inspect(fe.Decl.Body, func(n ast.Node) bool {
		cc, ok := n.(*ast.CaseClause)
		if !ok || len(cc.List) != 1 {
			return true
		}
		be, ok := ast.Unparen(cc.List[0]).(*ast.BinaryExpr)
		if !ok {
			return true
		}
		if v, ok := fe.Info().Types[be.Y]; ok && v.Value != nil {
			name := strings.Trim(v.Value.ExactString(), `"`)
			ast.Inspect(cc, func(m ast.Node) bool {
				if cl, ok := m.(*ast.CompositeLit); ok {
					if nt := namedTypeOf(fe.Info().Types[cl].Type); strings.Contains(nt, "TypedValue_") && special[name] == "" {
						special[name] = nt[strings.LastIndex(nt, ".")+1:]
					}
				}
				return true
			})
		}
		return true
	})
	// GoEnum arm in the type switch → StringVal
	for _, ts := range TypeSwitches(fe) {
		if a, ok := ts.ByKey["ygot.GoEnum"]; ok {
			ast.Inspect(a.Node, func(m ast.Node) bool {
				if cl, ok := m.(*ast.CompositeLit); ok {
					if nt := namedTypeOf(fe.Info().Types[cl].Type); strings.Contains(nt, "TypedValue_") {
						special["enum"] = nt[strings.LastIndex(nt, ".")+1:]
					}
				}
				return true
			})
		}
	}
	for _, k := range g.leafKinds() {
		nat := g.native[k]
		w := special[nat]
		if w == "" {
			w = t6[nat]
		}
		if w == "" {
			r.Bad("T6T7:"+k, g.pos[k], fmt.Sprintf("no TypedValue wrapper is produced for Go type %s (yang %s): neither EncodeTypedValue special case nor value.FromScalar arm", nat, k))
			continue
		}
		acc := t5[k]
		_, hasS := ss[0].ByKey[k]
		ok := acc[w] && hasS
		r.Check(ok, "T5:"+k, c.Pos(t5tbl.Switch.Pos()), fmt.Sprintf("%s: encoder %s → %s ∈ accepted %v", k, nat, w, keysOf(acc)),
			fmt.Sprintf("%s: encoder produces %s for Go type %s but gNMIToYANGTypeMatches accepts %v (sanitizeGNMI arm present: %v): every such leaf is rejected by UnmarshalNotifications", k, w, nat, keysOf(acc), hasS))
	}
}

func keysOf(m map[string]bool) []string {
	var ks []string
	for k := range m {
		ks = append(ks, k)
	}
	sort.Strings(ks)
	return ks
}

// ---- keys: (e) -------------------------------------------------------------

func ruleTablesKeys(c *Ctx, r *Report) {
	g := extractT1(c, r)
	if g == nil {
		return
	}
	r.Rule("R-TABLES(e)", "every list-key kind has a string form (ygot.KeyValueAsString), a schema-driven parser (ytypes.stringToKeyType) and a type-driven parser (ytypes.StringToType)", 36)
	f8 := c.MustFunc(r, "ygot", "KeyValueAsString")
	f9 := c.MustFunc(r, "ytypes", "stringToKeyType")
	f10 := c.MustFunc(r, "ytypes", "StringToType")
	if f8 == nil || f9 == nil || f10 == nil {
		return
	}
	s8, s9, s10 := KindSwitches(f8, reflectKind), KindSwitches(f9, yangKind), KindSwitches(f10, reflectKind)
	if len(s8) != 1 || len(s9) != 1 || len(s10) != 1 {
		r.Und("table:T8/T9/T10", c.Pos(f8.Decl.Pos()), fmt.Sprintf("dispatch shape not recognised (%d,%d,%d switches)", len(s8), len(s9), len(s10)))
		return
	}
	// enums are handled before the kind switch in T8 (GoEnum assertion) and T10 (Implements GoEnum).
	enumPre8 := false
	for _, as := range AssertionsIn(c, f8, f8.Decl.Body) {
		if as.Type == "ygot.GoEnum" && as.Node.Pos() < s8[0].Switch.Pos() {
			enumPre8 = len(CallsIn(f8.Info(), f8.Decl.Body, P("ygot")+".enumFieldToString")) > 0
		}
	}
	enumPre10 := len(CallsIn(f10.Info(), f10.Decl.Body, P("ytypes")+".castToEnumValue")) > 0
	for _, k := range keyKinds {
		nat, ok := g.native[k]
		if !ok || nat == "" {
			r.Bad("T1:"+k, c.Pos(g.tbl.Switch.Pos()), "generator has no Go type for key kind "+k)
			continue
		}
		rk := nativeToReflect(c, nat)
		isEnum := nat == "enum"
		// T8
		a8 := s8[0].ByKey[rk]
		ok8 := (a8 != nil && !armErrorsOnly(f8.Info(), a8)) || (isEnum && enumPre8)
		r.Check(ok8, "T8:"+k, c.Pos(s8[0].Switch.Pos()), fmt.Sprintf("%s (%s) has a string form", k, rk),
			fmt.Sprintf("KeyValueAsString has no arm for %s, the Go kind of %s keys: TogNMINotifications/Diff/path structs fail for every list keyed by it", rk, k))
		// T9
		a9 := s9[0].ByKey[k]
		r.Check(a9 != nil && !armErrorsOnly(f9.Info(), a9), "T9:"+k, c.Pos(s9[0].Switch.Pos()), k+" parsed by stringToKeyType",
			"stringToKeyType has no arm for "+k+": SetNode cannot create entries keyed by it")
		// T10
		a10 := s10[0].ByKey[rk]
		ok10 := (a10 != nil && !armErrorsOnly(f10.Info(), a10)) || (isEnum && enumPre10)
		r.Check(ok10, "T10:"+k, c.Pos(s10[0].Switch.Pos()), fmt.Sprintf("%s (%s) parsed by StringToType", k, rk),
			fmt.Sprintf("StringToType has no arm for %s (key kind %s): ordered-list and multi-key struct paths cannot address such entries", rk, k))
	}
	// union / leafref delegate
	for _, k := range []string{"yang.Yunion", "yang.Yleafref"} {
		a9 := s9[0].ByKey[k]
		r.Check(a9 != nil && !armErrorsOnly(f9.Info(), a9), "T9:"+k, c.Pos(s9[0].Switch.Pos()), k+" delegates", "stringToKeyType lost its "+k+" arm")
	}
	// unions as keys: pointer arm of T8 resolves union wrappers.
	a8p := s8[0].ByKey["reflect.Ptr"]
	r.Check(a8p != nil && len(CallsIn(f8.Info(), a8p.Node, P("ygot")+".unionPtrValue")) > 0, "T8:union-ptr", c.Pos(s8[0].Switch.Pos()), "wrapper-union keys unwrap through unionPtrValue", "KeyValueAsString no longer unwraps wrapper-union pointers")

	// binary keys are rejected at generation time.
	r.Rule("R-BINARY-KEYS", "gogen rejects binary list keys for every directory it generates (so Binary never needs a key string form)", 1)
	if fg := c.MustFunc(r, "gogen", "CodeGenerator.Generate"); fg != nil {
		calls := CallsIn(fg.Info(), fg.Decl.Body, P("gogen")+".checkForBinaryKeys")
		ok := false
		for _, call := range calls {
			if c.EnclosingLoop(fg, call) != nil {
				ok = true
			}
		}
		r.Check(ok, "gogen.CodeGenerator.Generate:checkForBinaryKeys", c.Pos(fg.Decl.Pos()), "called inside the per-directory loop", "checkForBinaryKeys is no longer called for every directory in Generate")
	}
}

// ---- leaf-lists: (f) ---------------------------------------------------------

func ruleTablesLeafList(c *Ctx, r *Report) {
	g := extractT1(c, r)
	if g == nil {
		return
	}
	r.Rule("R-TABLES(f)", "every Go kind the generator emits for a leaf-list element has an arm in ygot.leaflistToSlice and ygot.appendTypedValue, and each appendTypedValue assertion matches its arm's kind", 24)
	f12 := c.MustFunc(r, "ygot", "leaflistToSlice")
	f12b := c.MustFunc(r, "ygot", "appendTypedValue")
	if f12 == nil || f12b == nil {
		return
	}
	s12, s12b := KindSwitches(f12, reflectKind), KindSwitches(f12b, reflectKind)
	if len(s12) < 1 || len(s12b) != 1 {
		r.Und("table:T12", c.Pos(f12.Decl.Pos()), "dispatch shape not recognised")
		return
	}
	for _, k := range g.leafKinds() {
		if k == "yang.Yempty" {
			continue // empty leaf-lists do not exist in YANG
		}
		rk := nativeToReflect(c, g.native[k])
		for i, t := range []*Table{s12[0], s12b[0]} {
			name := []string{"leaflistToSlice", "appendTypedValue"}[i]
			f := []*FuncInfo{f12, f12b}[i]
			a := t.ByKey[rk]
			r.Check(a != nil && !armErrorsOnly(f.Info(), a), "T12:"+name+":"+k, c.Pos(t.Switch.Pos()), fmt.Sprintf("%s (%s) handled", k, rk),
				fmt.Sprintf("%s has no arm for %s (leaf-list of %s): such leaf-lists cannot be encoded", name, rk, k))
		}
	}
	// assertion ↔ arm agreement in appendTypedValue (single-kind arms only): a mismatch panics.
	for _, a := range s12b[0].Arms {
		if a.Deflt || len(a.Keys) != 1 {
			continue
		}
		for _, as := range AssertionsIn(c, f12b, a.Node) {
			if as.CommaOk {
				continue
			}
			got := basicToReflect(f12b.Info().Types[as.Node.Type].Type)
			r.Check(got == a.Keys[0], "T12:appendTypedValue:assert:"+a.Keys[0], c.Pos(as.Node.Pos()), "assertion type equals arm kind",
				fmt.Sprintf("arm %s asserts %s: panics for every value of that kind", a.Keys[0], got))
		}
	}
}
