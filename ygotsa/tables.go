package main

import (
	"go/ast"
	"go/token"
	"go/types"
	"sort"
	"strings"
)

// E2 — table extractor: turns a dispatch on a finite key into key → arm.

type Arm struct {
	Keys   []string // resolved constant / type names, e.g. "yang.Yint8", "reflect.Int64", "*gnmi.TypedValue_IntVal"
	Body   []ast.Stmt
	Node   ast.Node
	Deflt  bool
}

type Table struct {
	Func   *FuncInfo
	Switch ast.Node
	Tag    ast.Expr
	Arms   []*Arm
	ByKey  map[string]*Arm
	Default *Arm
}

func (t *Table) Keys() []string {
	var ks []string
	for k := range t.ByKey {
		ks = append(ks, k)
	}
	sort.Strings(ks)
	return ks
}

func (t *Table) Has(k string) bool { _, ok := t.ByKey[k]; return ok }

// constName renders a constant-valued expression of a named type as "pkg.Name".
func constName(info *types.Info, e ast.Expr) string {
	e = ast.Unparen(e)
	if o := ObjOf(info, e); o != nil {
		if _, ok := o.(*types.Const); ok && o.Pkg() != nil {
			return o.Pkg().Name() + "." + o.Name()
		}
	}
	if v, ok := ConstOf(info, e); ok {
		return v
	}
	return types.ExprString(e)
}

func typeName(info *types.Info, e ast.Expr) string {
	if tv, ok := info.Types[e]; ok && tv.Type != nil {
		return typeShort(tv.Type)
	}
	return types.ExprString(e)
}

func typeShort(t types.Type) string {
	return types.TypeString(t, func(p *types.Package) string { return p.Name() })
}

// namedTypeOf returns "pkgpath.Name" of a (possibly pointer-to) named type.
func namedTypeOf(t types.Type) string {
	if t == nil {
		return ""
	}
	if p, ok := t.(*types.Pointer); ok {
		t = p.Elem()
	}
	if n, ok := t.(*types.Named); ok {
		if n.Obj().Pkg() == nil {
			return n.Obj().Name()
		}
		return n.Obj().Pkg().Path() + "." + n.Obj().Name()
	}
	if a, ok := t.(*types.Alias); ok {
		return namedTypeOf(types.Unalias(a))
	}
	return ""
}

// KindSwitches finds all value switches in f whose tag has named type tagType
// (e.g. "github.com/openconfig/goyang/pkg/yang.TypeKind", "reflect.Kind").
func KindSwitches(f *FuncInfo, tagType string) []*Table {
	var out []*Table
	info := f.Info()
	ast.Inspect(f.Decl.Body, func(n ast.Node) bool {
		sw, ok := n.(*ast.SwitchStmt)
		if !ok {
			return true
		}
		if sw.Tag != nil {
			tv, ok := info.Types[sw.Tag]
			if !ok || namedTypeOf(tv.Type) != tagType {
				return true
			}
			t := &Table{Func: f, Switch: sw, Tag: sw.Tag, ByKey: map[string]*Arm{}}
			for _, s := range sw.Body.List {
				cc := s.(*ast.CaseClause)
				a := &Arm{Body: cc.Body, Node: cc, Deflt: cc.List == nil}
				for _, e := range cc.List {
					k := constName(info, e)
					a.Keys = append(a.Keys, k)
					t.ByKey[k] = a
				}
				if a.Deflt {
					t.Default = a
				}
				t.Arms = append(t.Arms, a)
			}
			out = append(out, t)
			return true
		}
		// tagless: case x == K [|| x == K2]
		t := &Table{Func: f, Switch: sw, ByKey: map[string]*Arm{}}
		matched := false
		for _, s := range sw.Body.List {
			cc := s.(*ast.CaseClause)
			a := &Arm{Body: cc.Body, Node: cc, Deflt: cc.List == nil}
			for _, e := range cc.List {
				for _, eq := range orOperands(e) {
					be, ok := ast.Unparen(eq).(*ast.BinaryExpr)
					if !ok || be.Op != token.EQL {
						continue
					}
					for _, pair := range [][2]ast.Expr{{be.X, be.Y}, {be.Y, be.X}} {
						tv, ok := info.Types[pair[0]]
						if ok && namedTypeOf(tv.Type) == tagType && info.Types[pair[1]].Value != nil {
							k := constName(info, pair[1])
							a.Keys = append(a.Keys, k)
							t.ByKey[k] = a
							matched = true
							t.Tag = pair[0]
							break
						}
					}
				}
			}
			if a.Deflt {
				t.Default = a
			}
			t.Arms = append(t.Arms, a)
		}
		if matched {
			out = append(out, t)
		}
		return true
	})
	return out
}

func orOperands(e ast.Expr) []ast.Expr {
	e = ast.Unparen(e)
	if be, ok := e.(*ast.BinaryExpr); ok && be.Op == token.LOR {
		return append(orOperands(be.X), orOperands(be.Y)...)
	}
	return []ast.Expr{e}
}

// TypeSwitches finds all type switches in f; keys are short type strings.
func TypeSwitches(f *FuncInfo) []*Table {
	var out []*Table
	info := f.Info()
	ast.Inspect(f.Decl.Body, func(n ast.Node) bool {
		sw, ok := n.(*ast.TypeSwitchStmt)
		if !ok {
			return true
		}
		t := &Table{Func: f, Switch: sw, ByKey: map[string]*Arm{}}
		switch a := sw.Assign.(type) {
		case *ast.AssignStmt:
			if ta, ok := a.Rhs[0].(*ast.TypeAssertExpr); ok {
				t.Tag = ta.X
			}
		case *ast.ExprStmt:
			if ta, ok := a.X.(*ast.TypeAssertExpr); ok {
				t.Tag = ta.X
			}
		}
		for _, s := range sw.Body.List {
			cc := s.(*ast.CaseClause)
			a := &Arm{Body: cc.Body, Node: cc, Deflt: cc.List == nil}
			for _, e := range cc.List {
				k := typeName(info, e)
				if id, ok := e.(*ast.Ident); ok && id.Name == "nil" {
					k = "nil"
				}
				a.Keys = append(a.Keys, k)
				t.ByKey[k] = a
			}
			if a.Deflt {
				t.Default = a
			}
			t.Arms = append(t.Arms, a)
		}
		out = append(out, t)
		return true
	})
	return out
}

// armErrorsOnly: the arm's body unconditionally returns a non-nil error
// (first statement is a return whose last result is not the nil identifier
// and has type error), so the key counts as "not handled".
func armErrorsOnly(info *types.Info, a *Arm) bool {
	if a == nil || len(a.Body) == 0 {
		return false
	}
	rs, ok := a.Body[0].(*ast.ReturnStmt)
	if !ok || len(rs.Results) == 0 {
		return false
	}
	last := rs.Results[len(rs.Results)-1]
	if id, ok := last.(*ast.Ident); ok && id.Name == "nil" {
		return false
	}
	tv, ok := info.Types[last]
	if !ok {
		return false
	}
	return isErrorLike(tv.Type)
}

func isErrorLike(t types.Type) bool {
	if t == nil {
		return false
	}
	s := t.String()
	return s == "error" || strings.HasSuffix(s, "util.Errors")
}

// AssertedTypes lists types asserted (x.(T)) inside nodes, with comma-ok flag.
type Assertion struct {
	X     ast.Expr
	Type  string
	CommaOk bool
	Node  *ast.TypeAssertExpr
}

func AssertionsIn(c *Ctx, f *FuncInfo, root ast.Node) []Assertion {
	info := f.Info()
	pm := c.parentMap(f.File)
	var out []Assertion
	ast.Inspect(root, func(n ast.Node) bool {
		ta, ok := n.(*ast.TypeAssertExpr)
		if !ok || ta.Type == nil {
			return true
		}
		commaOk := false
		switch p := pm[ta].(type) {
		case *ast.AssignStmt:
			if len(p.Lhs) == 2 && len(p.Rhs) == 1 && p.Rhs[0] == ast.Expr(ta) {
				commaOk = true
			}
		case *ast.ValueSpec:
			if len(p.Names) == 2 && len(p.Values) == 1 {
				commaOk = true
			}
		}
		out = append(out, Assertion{X: ta.X, Type: typeName(info, ta.Type), CommaOk: commaOk, Node: ta})
		return true
	})
	return out
}
