package main

import (
	"fmt"
	"go/ast"
	"go/token"
	"go/types"
	"sort"
	"strconv"
	"strings"
)

// ---- rune state machines (extractKV, SplitPath) ------------------------------

type runeArm struct {
	Rune   rune
	Flags  []flagCond // conjunction
	Clause *ast.CaseClause
	Sets   map[string]bool // state var := const bool
	Continues bool
	Returns   bool
}

type flagCond struct {
	Name string
	Want bool
}

type runeMachine struct {
	F     *FuncInfo
	Loop  *ast.RangeStmt
	Arms  []*runeArm
	Other int // case clauses not understood
}

// extractRuneMachine finds `for _, ch := range <string> { switch { case ch == 'x' && flags… } }`.
func extractRuneMachine(f *FuncInfo) *runeMachine {
	info := f.Info()
	var m *runeMachine
	ast.Inspect(f.Decl.Body, func(n ast.Node) bool {
		rs, ok := n.(*ast.RangeStmt)
		if !ok || m != nil {
			return true
		}
		tv, ok := info.Types[rs.X]
		if !ok {
			return true
		}
		if b, ok := tv.Type.Underlying().(*types.Basic); !ok || b.Kind() != types.String {
			return true
		}
		chObj := ObjOf(info, rs.Value)
		if chObj == nil {
			return true
		}
		for _, s := range rs.Body.List {
			sw, ok := s.(*ast.SwitchStmt)
			if !ok || sw.Tag != nil {
				continue
			}
			mm := &runeMachine{F: f, Loop: rs}
			for _, cs := range sw.Body.List {
				cc := cs.(*ast.CaseClause)
				if cc.List == nil {
					continue
				}
				for _, e := range cc.List {
					arm := parseRuneGuard(f, rs, e, chObj)
					if arm == nil {
						mm.Other++
						continue
					}
					arm.Clause = cc
					arm.Sets = map[string]bool{}
					for _, st := range cc.Body {
						switch x := st.(type) {
						case *ast.AssignStmt:
							for i, l := range x.Lhs {
								if id, ok := l.(*ast.Ident); ok && i < len(x.Rhs) {
									if v, ok := info.Types[x.Rhs[i]]; ok && v.Value != nil && (v.Value.ExactString() == "true" || v.Value.ExactString() == "false") {
										arm.Sets[id.Name] = v.Value.ExactString() == "true"
									}
								}
							}
						case *ast.BranchStmt:
							if x.Tok == token.CONTINUE {
								arm.Continues = true
							}
						case *ast.ReturnStmt:
							arm.Returns = true
						}
					}
					mm.Arms = append(mm.Arms, arm)
				}
			}
			if len(mm.Arms) > 0 {
				m = mm
			}
		}
		return true
	})
	return m
}

func parseRuneGuard(f *FuncInfo, loop *ast.RangeStmt, e ast.Expr, ch types.Object) *runeArm {
	info := f.Info()
	arm := &runeArm{}
	found := false
	// localDef: the single one-to-one definition of a boolean declared inside the loop body
	// (a named sub-condition computed per rune, e.g. unescaped := !inEscape).
	localDef := func(id *ast.Ident) ast.Expr {
		obj := info.ObjectOf(id)
		if obj == nil || obj.Pos() < loop.Body.Pos() || obj.Pos() > loop.Body.End() {
			return nil
		}
		return oneToOneDef(f, obj)
	}
	var walk func(e ast.Expr, pos bool, depth int) bool
	walk = func(e ast.Expr, pos bool, depth int) bool {
		e = ast.Unparen(e)
		if depth > 6 {
			return false
		}
		switch x := e.(type) {
		case *ast.BinaryExpr:
			if x.Op == token.LAND && pos {
				return walk(x.X, pos, depth) && walk(x.Y, pos, depth)
			}
			if x.Op == token.EQL && pos {
				if ObjOf(info, x.X) == ch {
					if v, ok := info.Types[x.Y]; ok && v.Value != nil {
						n, err := strconv.ParseInt(v.Value.ExactString(), 10, 32)
						if err == nil {
							arm.Rune = rune(n)
							found = true
							return true
						}
					}
				}
			}
			return false
		case *ast.UnaryExpr:
			if x.Op == token.NOT {
				return walk(x.X, !pos, depth)
			}
			return false
		case *ast.Ident:
			if d := localDef(x); d != nil {
				return walk(d, pos, depth+1)
			}
			arm.Flags = append(arm.Flags, flagCond{x.Name, pos})
			return true
		}
		return false
	}
	if !walk(e, true, 0) || !found {
		return nil
	}
	return arm
}

// taken returns the first arm taken for rune r in state env (nil = falls through to the default write).
func (m *runeMachine) taken(r rune, env map[string]bool) *runeArm {
	for _, a := range m.Arms {
		if a.Rune != r {
			continue
		}
		ok := true
		for _, fc := range a.Flags {
			v, known := env[fc.Name]
			if !known || v != fc.Want {
				ok = false
			}
		}
		if ok {
			return a
		}
	}
	return nil
}

func (m *runeMachine) runes() []rune {
	seen := map[rune]bool{}
	var rs []rune
	for _, a := range m.Arms {
		if !seen[a.Rune] {
			seen[a.Rune] = true
			rs = append(rs, a.Rune)
		}
	}
	sort.Slice(rs, func(i, j int) bool { return rs[i] < rs[j] })
	return rs
}

// escapedByEncoder: set of strings c for which elemToString applies strings.Replace(v, c, "\\"+c, …).
func escapedByEncoder(f *FuncInfo) map[string]bool {
	out := map[string]bool{}
	info := f.Info()
	for _, call := range CallsIn(info, f.Decl.Body, "strings.Replace", "strings.ReplaceAll") {
		if len(call.Args) < 3 {
			continue
		}
		o, ok1 := info.Types[call.Args[1]]
		n, ok2 := info.Types[call.Args[2]]
		if !ok1 || !ok2 || o.Value == nil || n.Value == nil {
			continue
		}
		os, _ := strconv.Unquote(o.Value.ExactString())
		ns, _ := strconv.Unquote(n.Value.ExactString())
		if ns == `\`+os {
			out[os] = true
		}
	}
	return out
}

func ruleEscape(c *Ctx, r *Report) {
	r.Rule("R-ESCAPE", "every rune the path decoders (ygot.extractKV, util.SplitPath) interpret inside a key value is escaped by the encoder (ygot.elemToString), and the splitter tracks escapes wherever it tracks ']'", 5)
	fe := c.MustFunc(r, "ygot", "elemToString")
	fd := c.MustFunc(r, "ygot", "extractKV")
	fs := c.MustFunc(r, "util", "SplitPath")
	if fe == nil || fd == nil || fs == nil {
		return
	}
	E := escapedByEncoder(fe)
	md, ms := extractRuneMachine(fd), extractRuneMachine(fs)
	if md == nil || md.Other > 0 {
		r.Und("machine:ygot.extractKV", c.Pos(fd.Decl.Pos()), "the key/value parser is no longer a rune-switch state machine the rule understands")
		return
	}
	if ms == nil || ms.Other > 0 {
		r.Und("machine:util.SplitPath", c.Pos(fs.Decl.Pos()), "the splitter is no longer a rune-switch state machine the rule understands")
		return
	}
	// state variables are identified by role, not by name: the flag set by the '\\' arm is the
	// escape flag, by the '[' arm the in-key flag, by the '=' arm the in-value flag.
	role := func(m *runeMachine, ru rune) string {
		for _, a := range m.Arms {
			if a.Rune == ru {
				for k, v := range a.Sets {
					if v {
						return k
					}
				}
			}
		}
		return ""
	}
	dEsc, dKey, dVal := role(md, '\\'), role(md, '['), role(md, '=')
	sEsc, sKey := role(ms, '\\'), role(ms, '[')
	if dEsc == "" || dKey == "" || dVal == "" || sEsc == "" || sKey == "" {
		r.Und("machine:state-roles", c.Pos(md.Loop.Pos()), "could not identify the escape / in-key / in-value flags of the state machines")
		return
	}
	// decoder: state inside a key value, not escaped.
	env := map[string]bool{dKey: true, dVal: true, dEsc: false}
	for _, ru := range md.runes() {
		a := md.taken(ru, env)
		if a == nil {
			r.OK(fmt.Sprintf("extractKV:value:%q:literal", ru), c.Pos(md.Loop.Pos()), "not interpreted inside a value")
			continue
		}
		r.Check(E[string(ru)], fmt.Sprintf("extractKV:value:%q:escaped-by-encoder", ru), c.Pos(a.Clause.Pos()),
			"interpreted by the decoder inside a value and escaped by elemToString",
			fmt.Sprintf("extractKV interprets %q inside a key value but elemToString does not escape it: StringToStructuredPath(PathToString(p)) != p for key values containing it", ru))
	}
	// every rune the encoder escapes must be un-escapable: decoder has an escape arm.
	hasEsc := false
	for _, a := range md.Arms {
		if a.Sets[dEsc] {
			hasEsc = true
		}
	}
	r.Check(hasEsc, "extractKV:escape-arm", c.Pos(md.Loop.Pos()), "decoder has an escape state", "decoder lost its escape arm while the encoder still escapes")
	// splitter: inside a key.
	envS := map[string]bool{sKey: true, sEsc: false}
	for _, ru := range ms.runes() {
		a := ms.taken(ru, envS)
		if a == nil {
			continue
		}
		changes := false
		for k, v := range a.Sets {
			if cur, ok := envS[k]; ok && cur != v {
				changes = true
			}
		}
		if !changes {
			r.OK(fmt.Sprintf("SplitPath:inKey:%q:no-state-change", ru), c.Pos(a.Clause.Pos()), "arm leaves the state unchanged")
			continue
		}
		if a.Sets[sEsc] {
			r.OK(fmt.Sprintf("SplitPath:inKey:%q:escape", ru), c.Pos(a.Clause.Pos()), "escape rune tracked inside keys")
			continue
		}
		// a state-changing rune inside a key: must be escaped by the encoder and the splitter must honour the escape.
		esc := ms.taken('\\', envS)
		honours := esc != nil && esc.Sets[sEsc] && ms.taken(ru, map[string]bool{sKey: true, sEsc: true}) == nil
		r.Check(E[string(ru)] && honours, fmt.Sprintf("SplitPath:inKey:%q:escapable", ru), c.Pos(a.Clause.Pos()),
			"state-changing rune is escaped by the encoder and the splitter tracks the escape inside keys",
			fmt.Sprintf("SplitPath changes state on %q inside a key (encoder escapes it: %v) but does not track escapes there (%v): an escaped %q in a key value ends the key and a following '/' splits the element", ru, E[string(ru)], honours, ru))
	}
	// the escape flag must be reset after one rune in both machines: default path assigns inEscape=false.
	for i, m := range []*runeMachine{md, ms} {
		escName := []string{dEsc, sEsc}[i]
		reset := false
		for _, s := range m.Loop.Body.List {
			if as, ok := s.(*ast.AssignStmt); ok && len(as.Lhs) == 1 {
				if id, ok := as.Lhs[0].(*ast.Ident); ok && id.Name == escName {
					if v, ok := m.F.Info().Types[as.Rhs[0]]; ok && v.Value != nil && v.Value.ExactString() == "false" {
						reset = true
					}
				}
			}
		}
		r.Check(reset, m.F.Name+":escape-reset", c.Pos(m.Loop.Pos()), "escape state lasts one rune", "the escape flag is never cleared after the escaped rune")
	}
}

// ---- R-LOSSY -----------------------------------------------------------------

var lossyFuncs = map[string]bool{
	"path.Join": true, "path.Clean": true, "path/filepath.Join": true, "path/filepath.Clean": true,
	"strings.TrimSpace": true, "strings.ToLower": true, "strings.ToUpper": true, "strings.Fields": true, "strings.Title": true,
	"strings.Trim": true, "strings.TrimLeft": true, "strings.TrimRight": true, "strings.TrimPrefix": true, "strings.TrimSuffix": true,
}

// astReach: functions of module packages reachable from roots through static calls (AST level).
func (c *Ctx) astReach(roots ...*FuncInfo) []*FuncInfo { return c.astReachCut(nil, roots...) }

// astReachCut is astReach that does not descend into functions for which cut returns true.
func (c *Ctx) astReachCut(cut func(*FuncInfo) bool, roots ...*FuncInfo) []*FuncInfo {
	byObj := map[types.Object]*FuncInfo{}
	for _, rel := range append(append([]string{}, libPkgs...), genPkgs...) {
		for _, f := range c.AllFuncs(rel) {
			if f.Obj != nil {
				byObj[f.Obj] = f
			}
		}
	}
	seen := map[*FuncInfo]bool{}
	var out []*FuncInfo
	var visit func(f *FuncInfo)
	visit = func(f *FuncInfo) {
		if f == nil || seen[f] {
			return
		}
		if cut != nil && cut(f) {
			return
		}
		seen[f] = true
		out = append(out, f)
		ast.Inspect(f.Decl.Body, func(n ast.Node) bool {
			if call, ok := n.(*ast.CallExpr); ok {
				if cal := Callee(f.Info(), call); cal != nil {
					visit(byObj[cal.Origin()])
				}
			}
			return true
		})
	}
	for _, f := range roots {
		visit(f)
	}
	return out
}

func ruleLossy(c *Ctx, r *Report) {
	r.Rule("R-LOSSY", "no non-injective string normaliser (path.Join/Clean, strings.Trim*/ToLower/…) is applied on the way from a gNMI path to its string form", 3)
	r1 := c.MustFunc(r, "ygot", "PathToString")
	r2 := c.MustFunc(r, "ygot", "PathToStrings")
	if r1 == nil || r2 == nil {
		return
	}
	for _, f := range c.astReach(r1, r2) {
		bad := 0
		ast.Inspect(f.Decl.Body, func(n ast.Node) bool {
			if call, ok := n.(*ast.CallExpr); ok {
				fn := FullName(Callee(f.Info(), call))
				if lossyFuncs[fn] {
					bad++
					r.Bad("lossy:"+f.Name+":"+fn, c.Pos(call.Pos()), fmt.Sprintf("%s is reachable from PathToString/PathToStrings and calls %s, which maps distinct inputs to the same output: distinct paths get the same string", f.Name, fn))
				}
			}
			return true
		})
		if bad == 0 {
			r.OK("lossy:"+f.Name, c.Pos(f.Decl.Pos()), "no normaliser called")
		}
	}
}

// ---- R-KEYS-SORTED -----------------------------------------------------------

func ruleElemKeysSorted(c *Ctx, r *Report) {
	r.Rule("R-KEYS-SORTED", "elemToString formats keys from a sorted slice: every range over the key map only collects keys (or fails), and the collected slice is sorted before use; PathToStrings passes each element's Name and Key", 3)
	f := c.MustFunc(r, "ygot", "elemToString")
	if f == nil {
		return
	}
	info := f.Info()
	n := 0
	ast.Inspect(f.Decl.Body, func(x ast.Node) bool {
		rs, ok := x.(*ast.RangeStmt)
		if !ok {
			return true
		}
		tv := info.Types[rs.X]
		if _, isMap := tv.Type.Underlying().(*types.Map); !isMap {
			return true
		}
		n++
		// body may only: append to a slice, return, if-statements of those.
		var collected types.Object
		pure := true
		ast.Inspect(rs.Body, func(y ast.Node) bool {
			switch s := y.(type) {
			case *ast.AssignStmt:
				okAppend := false
				if len(s.Rhs) == 1 {
					if call, ok := s.Rhs[0].(*ast.CallExpr); ok {
						if id, ok := call.Fun.(*ast.Ident); ok && id.Name == "append" {
							okAppend = true
							collected = ObjOf(info, s.Lhs[0])
						}
					}
				}
				if !okAppend {
					pure = false
				}
			case *ast.CallExpr:
				fn := FullName(Callee(info, s))
				if strings.HasPrefix(fn, "fmt.Sprint") || strings.HasPrefix(fn, "strings.") {
					pure = false
				}
			}
			return true
		})
		sorted := false
		if collected != nil {
			for _, call := range CallsIn(info, f.Decl.Body, "sort.Strings", "sort.Sort", "sort.Slice", "slices.Sort", "golang.org/x/exp/slices.Sort") {
				if len(call.Args) > 0 && ObjOf(info, call.Args[0]) == collected && call.Pos() > rs.End() {
					sorted = true
				}
			}
		}
		r.Check(pure && sorted, "elemToString:map-range:collect-then-sort", c.Pos(rs.Pos()), "keys collected and sorted before formatting",
			"the range over the key map formats output directly or the collected keys are not sorted: the string form of a multi-key element depends on map iteration order")
		return true
	})
	if n == 0 {
		r.Und("elemToString:map-range", c.Pos(f.Decl.Pos()), "no range over the key map found")
	}
	// PathToStrings passes e.Name and e.Key of the same element.
	if p := c.MustFunc(r, "ygot", "PathToStrings"); p != nil {
		ok := false
		for _, call := range CallsIn(p.Info(), p.Decl.Body, P("ygot")+".elemToString") {
			if len(call.Args) == 2 {
				// e.Name / e.Key, or the nil-safe getters e.GetName() / e.GetKey().
				sel := func(e ast.Expr) *ast.SelectorExpr {
					if cl, isCall := ast.Unparen(e).(*ast.CallExpr); isCall && len(cl.Args) == 0 {
						e = cl.Fun
					}
					s, _ := ast.Unparen(e).(*ast.SelectorExpr)
					return s
				}
				a, b := sel(call.Args[0]), sel(call.Args[1])
				if a != nil && b != nil && strings.TrimPrefix(a.Sel.Name, "Get") == "Name" && strings.TrimPrefix(b.Sel.Name, "Get") == "Key" && sameExpr(p.Info(), a.X, b.X) {
					ok = true
				}
			}
		}
		r.Check(ok, "PathToStrings:elemToString(e.Name,e.Key)", c.Pos(p.Decl.Pos()), "name and keys of the same element are formatted", "PathToStrings no longer formats each element's Name together with its Key map")
	}
	// both parsers go through the splitter and the key/value parser.
	for _, name := range []string{"StringToStructuredPath", "StringToStringSlicePath"} {
		if p := c.MustFunc(r, "ygot", name); p != nil {
			a := len(CallsIn(p.Info(), p.Decl.Body, P("util")+".PathStringToElements", P("util")+".SplitPath")) > 0
			b := len(CallsIn(p.Info(), p.Decl.Body, P("ygot")+".extractKV")) > 0
			r.Check(a && b, name+":split-then-extractKV", c.Pos(p.Decl.Pos()), "uses the shared splitter and key/value parser", name+" no longer uses the shared splitter / key-value parser")
		}
	}
}

// ---- map-range return discipline (C09, C17…) ------------------------------------

// mapRangeReturns: for every range-over-map loop in f, the set of distinct constant
// result tuples returned from inside the loop.
func mapRangeReturns(c *Ctx, f *FuncInfo) map[*ast.RangeStmt][]string {
	info := f.Info()
	out := map[*ast.RangeStmt][]string{}
	ast.Inspect(f.Decl.Body, func(n ast.Node) bool {
		rs, ok := n.(*ast.RangeStmt)
		if !ok {
			return true
		}
		tv, ok := info.Types[rs.X]
		if !ok {
			return true
		}
		if _, isMap := tv.Type.Underlying().(*types.Map); !isMap {
			return true
		}
		seen := map[string]bool{}
		var walk func(n ast.Node) bool
		walk = func(n ast.Node) bool {
			switch x := n.(type) {
			case *ast.FuncLit:
				return false
			case *ast.ReturnStmt:
				var parts []string
				for _, e := range x.Results {
					parts = append(parts, constName(info, e))
				}
				seen[strings.Join(parts, ", ")] = true
			}
			return true
		}
		ast.Inspect(rs.Body, walk)
		var ks []string
		for k := range seen {
			ks = append(ks, k)
		}
		sort.Strings(ks)
		out[rs] = ks
		return true
	})
	return out
}

func ruleAbsorb(c *Ctx, r *Report) {
	r.Rule("R-ABSORB", "in util.ComparePaths/comparePathElem the only relation returned from inside the element/key loops is the absorbing one (Disjoint); any other early return makes the result depend on map iteration order or ignores later elements", 3)
	for _, name := range []string{"comparePathElem", "ComparePaths"} {
		f := c.MustFunc(r, "util", name)
		if f == nil {
			continue
		}
		info := f.Info()
		loops := 0
		ast.Inspect(f.Decl.Body, func(n ast.Node) bool {
			var body *ast.BlockStmt
			switch l := n.(type) {
			case *ast.RangeStmt:
				body = l.Body
			case *ast.ForStmt:
				body = l.Body
			default:
				return true
			}
			loops++
			idx := loops
			bad := 0
			ast.Inspect(body, func(m ast.Node) bool {
				if _, ok := m.(*ast.FuncLit); ok {
					return false
				}
				rs, ok := m.(*ast.ReturnStmt)
				if !ok || len(rs.Results) != 1 {
					return true
				}
				k := constName(info, rs.Results[0])
				if k != "util.Disjoint" {
					bad++
					r.Bad(fmt.Sprintf("util.%s:loop#%d:return:%s", name, idx, k), c.Pos(rs.Pos()),
						fmt.Sprintf("%s returns %s from inside a loop: a later key/element may still prove the paths disjoint (and for key maps the answer depends on iteration order)", name, k))
				}
				return true
			})
			if bad == 0 {
				r.OK(fmt.Sprintf("util.%s:loop#%d", name, idx), c.Pos(n.Pos()), "only Disjoint is returned early")
			}
			return false
		})
		if loops == 0 {
			r.Und("util."+name+":loops", c.Pos(f.Decl.Pos()), "no loop found")
		}
	}
}

func ruleMapRangeReturnFile(c *Ctx, r *Report, rel string, files ...string) {
	want := map[string]bool{}
	for _, f := range files {
		want[f] = true
	}
	for _, f := range c.AllFuncs(rel) {
		fn := c.Fset.Position(f.Decl.Pos()).Filename
		if !want[fn[strings.LastIndex(fn, "/")+1:]] {
			continue
		}
		idx := 0
		for rs, rets := range mapRangeReturns(c, f) {
			idx++
			key := fmt.Sprintf("%s:map-range(%s)", f.Name, types.ExprString(rs.X))
			r.Check(len(rets) <= 1, key, c.Pos(rs.Pos()), fmt.Sprintf("returns inside loop: %v", rets),
				fmt.Sprintf("a range over a map returns different results from inside the loop (%v): which one is returned depends on iteration order", rets))
		}
	}
}

func ruleWildcards(c *Ctx, r *Report) {
	r.Rule("R-WILDCARD", "the path comparison helpers compare names/key values with the wildcard \"*\" on the side(s) that may carry it", 3)
	check := func(fname string, needs ...string) {
		f := c.MustFunc(r, "util", fname)
		if f == nil {
			return
		}
		got := wildcardCompares(c, f, 0)
		for _, n := range needs {
			r.Check(got[n], "util."+fname+":wildcard:"+n, c.Pos(f.Decl.Pos()), n+" compared with \"*\"", fname+" no longer treats "+n+" == \"*\" as a wildcard")
		}
	}
	check("comparePathElem", "keyvalue-of-param#0", "keyvalue-of-param#1")
	check("PathMatchesQuery", "name-of-param#1", "keyvalue-of-param#1")
}

// wildcardCompares: the set of "<kind>-of-param#<i>" operands f compares with "*", including those
// compared in the module helpers f calls (the helper's parameter index is mapped to the parameter
// of f its argument derives from).
func wildcardCompares(c *Ctx, f *FuncInfo, depth int) map[string]bool {
	got := map[string]bool{}
	info := f.Info()
	ast.Inspect(f.Decl.Body, func(n ast.Node) bool {
		switch x := n.(type) {
		case *ast.BinaryExpr:
			if x.Op != token.EQL && x.Op != token.NEQ {
				return true
			}
			for _, pr := range [][2]ast.Expr{{x.X, x.Y}, {x.Y, x.X}} {
				if v, ok := info.Types[pr[1]]; ok && v.Value != nil && v.Value.ExactString() == `"*"` {
					kind, idx := wildcardOperand(f, pr[0], 0)
					if kind != "" {
						got[fmt.Sprintf("%s-of-param#%d", kind, idx)] = true
					}
				}
			}
		case *ast.CallExpr:
			if depth >= 2 {
				return true
			}
			g := c.funcOfCallee(Callee(info, x))
			if g == nil || g == f || g.Decl.Body == nil || g.Obj.Pkg() != f.Obj.Pkg() {
				return true
			}
			for k := range wildcardCompares(c, g, depth+1) {
				var kind string
				var j int
				if i := strings.LastIndex(k, "-of-param#"); i >= 0 {
					kind = k[:i]
					fmt.Sscanf(k[i+len("-of-param#"):], "%d", &j)
				}
				if j < len(x.Args) {
					if rp := rootParam(f, x.Args[j], 0); rp >= 0 {
						got[fmt.Sprintf("%s-of-param#%d", kind, rp)] = true
					}
				}
			}
		}
		return true
	})
	return got
}

// wildcardOperand classifies an expression compared with "*": ("name"|"keyvalue", index of the
// parameter it derives from). Locals are traced through their defining range/assign statements.
func wildcardOperand(f *FuncInfo, e ast.Expr, depth int) (string, int) {
	info := f.Info()
	e = ast.Unparen(e)
	if depth > 6 {
		return "", -1
	}
	switch x := e.(type) {
	case *ast.SelectorExpr:
		if x.Sel.Name == "Name" {
			return "name", rootParam(f, x.X, 0)
		}
	case *ast.IndexExpr:
		if sel, ok := ast.Unparen(x.X).(*ast.SelectorExpr); ok && sel.Sel.Name == "Key" {
			return "keyvalue", rootParam(f, sel.X, 0)
		}
	case *ast.Ident:
		obj := info.ObjectOf(x)
		kind, idx := "", -1
		ast.Inspect(f.Decl.Body, func(n ast.Node) bool {
			switch s := n.(type) {
			case *ast.RangeStmt:
				if s.Value != nil && ObjOf(info, s.Value) == obj {
					if sel, ok := ast.Unparen(s.X).(*ast.SelectorExpr); ok && sel.Sel.Name == "Key" {
						kind, idx = "keyvalue", rootParam(f, sel.X, 0)
					}
				}
			case *ast.AssignStmt:
				if len(s.Lhs) >= 1 && len(s.Rhs) == 1 && ObjOf(info, s.Lhs[0]) == obj {
					if k, i := wildcardOperand(f, s.Rhs[0], depth+1); k != "" {
						kind, idx = k, i
					}
				}
			}
			return true
		})
		return kind, idx
	}
	return "", -1
}

// rootParam returns the index of the parameter expression e derives from (through selectors,
// indexing, getter calls, and local definitions by := / range), or -1.
func rootParam(f *FuncInfo, e ast.Expr, depth int) int {
	info := f.Info()
	e = ast.Unparen(e)
	if depth > 8 {
		return -1
	}
	switch x := e.(type) {
	case *ast.Ident:
		obj := info.ObjectOf(x)
		i := 0
		for _, fl := range f.Decl.Type.Params.List {
			for _, n := range fl.Names {
				if info.ObjectOf(n) == obj {
					return i
				}
				i++
			}
		}
		res := -1
		ast.Inspect(f.Decl.Body, func(n ast.Node) bool {
			switch s := n.(type) {
			case *ast.RangeStmt:
				if (s.Value != nil && ObjOf(info, s.Value) == obj) || (s.Key != nil && ObjOf(info, s.Key) == obj) {
					res = rootParam(f, s.X, depth+1)
				}
			case *ast.AssignStmt:
				for i, l := range s.Lhs {
					if ObjOf(info, l) == obj && len(s.Rhs) > 0 {
						j := i
						if len(s.Rhs) == 1 {
							j = 0
						}
						if rp := rootParam(f, s.Rhs[j], depth+1); rp >= 0 {
							res = rp
						}
					}
				}
			}
			return true
		})
		return res
	case *ast.SelectorExpr:
		return rootParam(f, x.X, depth+1)
	case *ast.IndexExpr:
		return rootParam(f, x.X, depth+1)
	case *ast.SliceExpr:
		return rootParam(f, x.X, depth+1)
	case *ast.StarExpr:
		return rootParam(f, x.X, depth+1)
	case *ast.CallExpr:
		if sel, ok := x.Fun.(*ast.SelectorExpr); ok {
			if _, isMethod := info.Selections[sel]; isMethod {
				return rootParam(f, sel.X, depth+1)
			}
		}
	}
	return -1
}

// ruleKeyMapLookup: R-KEYMAP-LOOKUP — gNMI key maps (map[string]string) are total only on the keys
// present: a single-value lookup yields "" for a missing key, so comparing it with a value that can
// itself be "" (another key's value, a variable) conflates "missing" with "empty".
func ruleKeyMapLookup(c *Ctx, r *Report, rel string, files ...string) {
	ruleKeyMapLookupN(c, r, 3, rel, files...)
}

func ruleKeyMapLookupN(c *Ctx, r *Report, floor int, rel string, files ...string) {
	r.Rule("R-KEYMAP-LOOKUP", "a lookup in a gNMI key map (map[string]string) whose result is compared with a non-constant or empty value — directly or through the local it is kept in — uses the comma-ok form (or indexes with the range key of the same map): a missing key is not an empty key value", floor)
	want := map[string]bool{}
	for _, f := range files {
		want[rel+"/"+f] = true
	}
	for _, f := range c.AllFuncs(rel) {
		if !want[c.relFile(f.Decl.Pos())] {
			continue
		}
		info := f.Info()
		pm := c.parentMap(f.File)
		n := 0
		ast.Inspect(f.Decl.Body, func(x ast.Node) bool {
			ix, ok := x.(*ast.IndexExpr)
			if !ok {
				return true
			}
			tv, ok := info.Types[ix.X]
			if !ok {
				return true
			}
			mt, ok := tv.Type.Underlying().(*types.Map)
			if !ok || mt.Key().String() != "string" || mt.Elem().String() != "string" {
				return true
			}
			// stores are not lookups.
			if as, ok := pm[ix].(*ast.AssignStmt); ok {
				for _, l := range as.Lhs {
					if l == ast.Expr(ix) {
						return true
					}
				}
			}
			n++
			key := fmt.Sprintf("%s:key-lookup#%d", f.Name, n)
			if as, ok := pm[ix].(*ast.AssignStmt); ok && len(as.Lhs) == 2 && len(as.Rhs) == 1 {
				// the looked-up value may be compared with a non-constant (or empty) value only
				// where `ok` is known to be true: a missing key yields "" as well.
				vObj, okObj := ObjOf(info, as.Lhs[0]), ObjOf(info, as.Lhs[1])
				var early ast.Expr
				if vObj != nil && okObj != nil {
					ast.Inspect(f.Decl.Body, func(y ast.Node) bool {
						be, isBin := y.(*ast.BinaryExpr)
						if !isBin || (be.Op != token.EQL && be.Op != token.NEQ) || early != nil {
							return early == nil
						}
						var other ast.Expr
						switch {
						case ObjOf(info, be.X) == vObj:
							other = be.Y
						case ObjOf(info, be.Y) == vObj:
							other = be.X
						default:
							return true
						}
						if v, isC := ConstOf(info, other); isC && v != `""` {
							return true
						}
						guarded := false
						for _, ft := range c.FactsAt(f, be, false) {
							if ft.Kind == "cond" && ObjOf(info, ft.Cond) == okObj {
								guarded = true // either outcome of ok is known here
							}
						}
						if !guarded {
							guarded = consultedBefore(c, f, be, okObj)
						}
						if !guarded {
							early = be
						}
						return early == nil
					})
				}
				if early != nil {
					r.Bad(key, c.Pos(early.Pos()), fmt.Sprintf("%s compares the looked-up value in %s although the presence flag %s has not been consulted on that path: a key that is missing from the map yields \"\" and compares equal to a key whose value is the empty string", f.Name, types.ExprString(early), okObj.Name()))
					return true
				}
				r.OK(key, c.Pos(ix.Pos()), "comma-ok lookup")
				return true
			}
			// indexing with the range key of the same map: total.
			total := false
			for p := pm[ix]; p != nil; p = pm[p] {
				if rs, ok := p.(*ast.RangeStmt); ok && rs.Key != nil && sameExpr(info, rs.X, ix.X) && ObjOf(info, rs.Key) == ObjOf(info, ix.Index) {
					total = true
				}
			}
			if total {
				r.OK(key, c.Pos(ix.Pos()), "indexed with the range key of the same map")
				return true
			}
			if be, ok := pm[ix].(*ast.BinaryExpr); ok && (be.Op == token.EQL || be.Op == token.NEQ) {
				other := be.X
				if other == ast.Expr(ix) {
					other = be.Y
				}
				if v, isC := ConstOf(info, other); isC && v != `""` {
					r.OK(key, c.Pos(ix.Pos()), "compared with the non-empty constant "+v)
					return true
				}
				r.Bad(key, c.Pos(ix.Pos()), fmt.Sprintf("%s compares the single-value lookup %s with %s: a key that is missing from the map yields \"\" and is treated like a key whose value is the empty string (e.g. list[name=] vs list[id=1] compare equal)", f.Name, types.ExprString(ix), types.ExprString(other)))
				return true
			}
			// single-value lookup kept in a local: the local must not be tested for emptiness
			// (that is the same conflation one statement later).
			if as, ok := pm[ix].(*ast.AssignStmt); ok && len(as.Lhs) == 1 && len(as.Rhs) == 1 {
				if obj := ObjOf(info, as.Lhs[0]); obj != nil {
					var bad ast.Expr
					ast.Inspect(f.Decl.Body, func(y ast.Node) bool {
						be, ok := y.(*ast.BinaryExpr)
						if !ok || (be.Op != token.EQL && be.Op != token.NEQ) || bad != nil {
							return bad == nil
						}
						for _, pair := range [][2]ast.Expr{{be.X, be.Y}, {be.Y, be.X}} {
							a, b := ast.Unparen(pair[0]), pair[1]
							if ObjOf(info, a) == obj {
								if v, isC := ConstOf(info, b); isC && v == `""` {
									bad = be
								}
							}
							if call, ok := a.(*ast.CallExpr); ok && len(call.Args) == 1 && ObjOf(info, call.Args[0]) == obj {
								if id, ok := call.Fun.(*ast.Ident); ok && id.Name == "len" {
									if v, isC := ConstOf(info, b); isC && v == "0" {
										bad = be
									}
								}
							}
						}
						return bad == nil
					})
					if bad != nil {
						r.Bad(key, c.Pos(ix.Pos()), fmt.Sprintf("%s keeps the single-value lookup %s in %s and tests %s: a key that the path gives with the empty string as its value is treated as a key the path leaves out (an entry whose key is \"\" can no longer be addressed)", f.Name, types.ExprString(ix), obj.Name(), types.ExprString(bad)))
						return true
					}
				}
			}
			r.OK(key, c.Pos(ix.Pos()), "value use (no comparison)")
			return true
		})
	}
}

// consultedBefore: on the way to n, an earlier statement of an enclosing statement list tested obj
// (an if or a tagless switch whose condition mentions obj) and left the list in the arm that
// mentions it — the guard-clause form of consulting a presence flag.
func consultedBefore(c *Ctx, f *FuncInfo, n ast.Node, obj types.Object) bool {
	info := f.Info()
	pm := c.parentMap(f.File)
	mentions := func(e ast.Node) bool { return e != nil && mentionsObj(info, e, obj) }
	child := n
	for p := pm[child]; p != nil; child, p = p, pm[p] {
		var list []ast.Stmt
		switch b := p.(type) {
		case *ast.BlockStmt:
			list = b.List
		case *ast.CaseClause:
			list = b.Body
		case *ast.FuncDecl, *ast.FuncLit:
			return false
		}
		for _, st := range list {
			if ast.Node(st) == child {
				break
			}
			switch x := st.(type) {
			case *ast.IfStmt:
				if mentions(x.Cond) && terminates(info, x.Body.List) {
					return true
				}
			case *ast.SwitchStmt:
				if x.Tag != nil {
					continue
				}
				for _, cc := range x.Body.List {
					cl := cc.(*ast.CaseClause)
					for _, e := range cl.List {
						if mentions(e) && terminates(info, cl.Body) {
							return true
						}
					}
				}
			}
		}
	}
	return false
}
