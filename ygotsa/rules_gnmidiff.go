package main

import (
	"fmt"
	"go/ast"
	"go/constant"
	"go/token"
	"go/types"
	"regexp"
	"strings"
)

var keyPredicateFmt = regexp.MustCompile(`\[[^\]]*%[^\]]*=[^\]]*%[^\]]*\]|\[%[a-z]=|=%[a-z]\]`)

// rulePathFmtOwner: R-PATHFMT-OWNER.
func rulePathFmtOwner(c *Ctx, r *Report, pkgs []string, floor int) {
	r.Rule("R-PATHFMT-OWNER", "gNMI key predicates `[k=v]` are formatted only by ygot/pathstrings.go (which escapes ']' and '='): no other library code builds one with fmt.Sprintf or string concatenation around non-constant operands — a second, unescaped writer makes equal paths render differently", floor)
	for _, rel := range pkgs {
		for _, f := range c.AllFuncs(rel) {
			if c.relFile(f.Decl.Pos()) == "ygot/pathstrings.go" {
				continue
			}
			info := f.Info()
			n := 0
			ast.Inspect(f.Decl.Body, func(x ast.Node) bool {
				switch e := x.(type) {
				case *ast.CallExpr:
					fn := FullName(Callee(info, e))
					if fn != "fmt.Sprintf" && fn != "fmt.Fprintf" && fn != "fmt.Appendf" {
						return true
					}
					fi := 0
					if fn == "fmt.Fprintf" || fn == "fmt.Appendf" {
						fi = 1
					}
					if len(e.Args) <= fi {
						return true
					}
					tv, ok := info.Types[e.Args[fi]]
					if !ok || tv.Value == nil || tv.Value.Kind() != constant.String {
						return true
					}
					format := constant.StringVal(tv.Value)
					n++
					key := fmt.Sprintf("%s:format#%d", f.Name, n)
					if !strings.Contains(format, "[") || !strings.Contains(format, "=") {
						r.OK(key, c.Pos(e.Pos()), "no key predicate in "+strconvQuote(format))
						return true
					}
					// only value-producing uses count (errors / logs may print anything).
					if usedOnlyInErrorOrLog(c, f, e) {
						r.OK(key, c.Pos(e.Pos()), "diagnostic text, not a path: "+format)
						return true
					}
					r.Check(!keyPredicateFmt.MatchString(format), key, c.Pos(e.Pos()), "not a key predicate: "+format,
						fmt.Sprintf("%s formats a gNMI key predicate itself (%q) instead of going through ygot.PathToString: key values containing ']' or '=' are not escaped, so the same path renders differently here and in ygot", f.Name, format))
				case *ast.BinaryExpr:
					if e.Op != token.ADD {
						return true
					}
					// top of a concatenation chain only.
					if p, ok := c.parentMap(f.File)[e].(*ast.BinaryExpr); ok && p.Op == token.ADD {
						return true
					}
					if tv, ok := info.Types[e]; !ok || tv.Type == nil || tv.Type.String() != "string" && tv.Type.Underlying().String() != "string" {
						return true
					}
					var parts []ast.Expr
					flattenAdd(e, &parts)
					consts := ""
					nonConst := 0
					for _, p := range parts {
						if tv, ok := info.Types[p]; ok && tv.Value != nil && tv.Value.Kind() == constant.String {
							consts += constant.StringVal(tv.Value)
						} else {
							consts += "\x00"
							nonConst++
						}
					}
					if nonConst == 0 || !strings.Contains(consts, "[") {
						return true
					}
					n++
					key := fmt.Sprintf("%s:concat#%d", f.Name, n)
					bad := regexp.MustCompile(`\[\x00?[^\]]*=\x00\]|\[\x00=`).MatchString(consts)
					if usedOnlyInErrorOrLog(c, f, e) {
						bad = false
					}
					r.Check(!bad, key, c.Pos(e.Pos()), "not a key predicate", f.Name+" concatenates a gNMI key predicate `[k=v]` around non-constant operands without escaping")
				}
				return true
			})
		}
	}
}

func flattenAdd(e ast.Expr, out *[]ast.Expr) {
	e = ast.Unparen(e)
	if be, ok := e.(*ast.BinaryExpr); ok && be.Op == token.ADD {
		flattenAdd(be.X, out)
		flattenAdd(be.Y, out)
		return
	}
	*out = append(*out, e)
}

// usedOnlyInErrorOrLog: the expression is an argument of an error constructor or a log/debug call.
func usedOnlyInErrorOrLog(c *Ctx, f *FuncInfo, e ast.Expr) bool {
	pm := c.parentMap(f.File)
	info := f.Info()
	for p := pm[e]; p != nil; p = pm[p] {
		if call, ok := p.(*ast.CallExpr); ok && ast.Node(call) != ast.Node(e) {
			fn := FullName(Callee(info, call))
			if fn == "fmt.Errorf" || fn == "errors.New" || strings.Contains(fn, "glog.") || strings.HasSuffix(fn, "util.DbgPrint") || strings.HasSuffix(fn, "util.DbgErr") || strings.Contains(fn, "status.Errorf") || strings.HasSuffix(fn, ".NewErrs") {
				return true
			}
		}
		if _, ok := p.(ast.Stmt); ok {
			break
		}
	}
	return false
}

// ruleDiffSymmetry: R-DIFF-SYMMETRY.
func ruleDiffSymmetry(c *Ctx, r *Report) {
	r.Rule("R-DIFF-SYMMETRY", "DiffSetRequest computes A's intent from its first argument and B's from its second with the same schema; Missing*/Extra* are A's/B's leftovers; common paths are removed from both sides; a mismatch records A's value under A and B's under B; values are compared with reflect.DeepEqual", 9)
	f := c.MustFunc(r, "gnmidiff", "DiffSetRequest")
	if f == nil {
		return
	}
	info := f.Info()
	// intents.
	side := map[types.Object]int{} // local intent var -> param index
	for _, call := range CallsIn(info, f.Decl.Body, P("gnmidiff")+".minimalSetRequestIntent") {
		if as, ok := c.parentMap(f.File)[call].(*ast.AssignStmt); ok && len(call.Args) == 2 {
			pi := paramIndex(f, ObjOf(info, call.Args[0]))
			schemaOK := paramIndex(f, ObjOf(info, call.Args[1])) == 2
			if pi >= 0 {
				side[ObjOf(info, as.Lhs[0])] = pi
			}
			r.Check(pi >= 0 && schemaOK && errTestedAfter(c, f, f.Decl.Body, call), fmt.Sprintf("gnmidiff.DiffSetRequest:intent-of-param#%d", pi), c.Pos(call.Pos()), "minimal intent of the parameter with the caller's schema; error returned",
				"DiffSetRequest does not compute a side's intent from its own parameter with the given schema (or drops the error)")
		}
	}
	var aObj, bObj types.Object
	for o, i := range side {
		if i == 0 {
			aObj = o
		}
		if i == 1 {
			bObj = o
		}
	}
	if aObj == nil || bObj == nil {
		r.Und("gnmidiff.DiffSetRequest:intents", c.Pos(f.Decl.Pos()), "the two intent variables were not recognised")
		return
	}
	sideOf := func(e ast.Expr) (string, string) { // ("A"/"B", field)
		sel, ok := ast.Unparen(e).(*ast.SelectorExpr)
		if !ok {
			return "", ""
		}
		switch ObjOf(info, sel.X) {
		case aObj:
			return "A", sel.Sel.Name
		case bObj:
			return "B", sel.Sel.Name
		}
		return "", ""
	}
	// leftovers.
	want := map[string][2]string{"MissingDeletes": {"A", "Deletes"}, "ExtraDeletes": {"B", "Deletes"}, "MissingUpdates": {"A", "Updates"}, "ExtraUpdates": {"B", "Updates"}}
	seen := map[string]bool{}
	ast.Inspect(f.Decl.Body, func(n ast.Node) bool {
		as, ok := n.(*ast.AssignStmt)
		if !ok || len(as.Lhs) != 1 || len(as.Rhs) != 1 {
			return true
		}
		sel, ok := as.Lhs[0].(*ast.SelectorExpr)
		if !ok {
			return true
		}
		w, ok := want[sel.Sel.Name]
		if !ok {
			return true
		}
		s, fld := sideOf(as.Rhs[0])
		seen[sel.Sel.Name] = true
		r.Check(s == w[0] && fld == w[1], "gnmidiff.DiffSetRequest:"+sel.Sel.Name, c.Pos(as.Pos()), fmt.Sprintf("= intent%s.%s", w[0], w[1]),
			fmt.Sprintf("DiffSetRequest sets %s from intent%s.%s instead of intent%s.%s: missing and extra are confused", sel.Sel.Name, s, fld, w[0], w[1]))
		return true
	})
	for k := range want {
		if !seen[k] {
			r.Bad("gnmidiff.DiffSetRequest:"+k, c.Pos(f.Decl.Pos()), "DiffSetRequest no longer assigns "+k+" from an intent's leftovers")
		}
	}
	// the two comparison loops.
	nLoop := 0
	ast.Inspect(f.Decl.Body, func(n ast.Node) bool {
		rs, ok := n.(*ast.RangeStmt)
		if !ok {
			return true
		}
		s, fld := sideOf(rs.X)
		nLoop++
		key := fmt.Sprintf("gnmidiff.DiffSetRequest:loop#%d", nLoop)
		if s != "A" {
			r.Bad(key+":ranges-A", c.Pos(rs.Pos()), "a comparison loop of DiffSetRequest does not range over intent A's "+fld+" (the roles of A and B depend on something other than argument order)")
			return true
		}
		r.OK(key+":ranges-A", c.Pos(rs.Pos()), "ranges over intentA."+fld)
		// lookup in B with the range key; deletes on both sides.
		lookupB, delA, delB := false, false, false
		ast.Inspect(rs.Body, func(m ast.Node) bool {
			switch x := m.(type) {
			case *ast.IndexExpr:
				if s2, f2 := sideOf(x.X); s2 == "B" && f2 == fld && rs.Key != nil && ObjOf(info, x.Index) == ObjOf(info, rs.Key) {
					lookupB = true
				}
			case *ast.CallExpr:
				if id, ok := x.Fun.(*ast.Ident); ok && id.Name == "delete" && len(x.Args) == 2 {
					if s2, f2 := sideOf(x.Args[0]); f2 == fld {
						if s2 == "A" {
							delA = true
						}
						if s2 == "B" {
							delB = true
						}
					}
				}
			}
			return true
		})
		r.Check(lookupB && delA && delB, key+":common-removed", c.Pos(rs.Pos()), "looked up in intentB by the same path; removed from both sides when common",
			"a comparison loop of DiffSetRequest does not look the path up in B's "+fld+" and remove common entries from both sides")
		if fld != "Updates" {
			return true
		}
		// mismatch literal and equality.
		var vA types.Object
		if rs.Value != nil {
			vA = ObjOf(info, rs.Value)
		}
		var vB types.Object
		ast.Inspect(rs.Body, func(m ast.Node) bool {
			if as, ok := m.(*ast.AssignStmt); ok && len(as.Rhs) == 1 {
				if ix, ok := ast.Unparen(as.Rhs[0]).(*ast.IndexExpr); ok {
					if s2, _ := sideOf(ix.X); s2 == "B" {
						vB = ObjOf(info, as.Lhs[0])
					}
				}
			}
			return true
		})
		lit := 0
		ast.Inspect(rs.Body, func(m ast.Node) bool {
			cl, ok := m.(*ast.CompositeLit)
			if !ok || namedTypeOf(info.Types[cl].Type) != P("gnmidiff")+".MismatchedUpdate" {
				return true
			}
			lit++
			okA, okB := false, false
			for i, el := range cl.Elts {
				if kv, ok := el.(*ast.KeyValueExpr); ok {
					switch kv.Key.(*ast.Ident).Name {
					case "A":
						okA = ObjOf(info, kv.Value) == vA && vA != nil
					case "B":
						okB = ObjOf(info, kv.Value) == vB && vB != nil
					}
				} else {
					if i == 0 {
						okA = ObjOf(info, el) == vA && vA != nil
					}
					if i == 1 {
						okB = ObjOf(info, el) == vB && vB != nil
					}
				}
			}
			r.Check(okA && okB, "gnmidiff.DiffSetRequest:mismatch-sides", c.Pos(cl.Pos()), "A: value from intentA, B: value from intentB",
				"DiffSetRequest records a mismatch with the values of A and B not taken from A's and B's intents respectively: swapping the arguments does not swap A and B")
			// guarded by !reflect.DeepEqual(vA, vB)
			g := false
			for _, ft := range c.FactsAt(f, cl, false) {
				if ft.Kind == "cond" && !ft.Pos {
					if call, ok := ast.Unparen(ft.Cond).(*ast.CallExpr); ok && IsCall(info, call, "reflect.DeepEqual") && len(call.Args) == 2 {
						o1, o2 := ObjOf(info, call.Args[0]), ObjOf(info, call.Args[1])
						if (o1 == vA && o2 == vB) || (o1 == vB && o2 == vA) {
							g = true
						}
					}
				}
			}
			r.Check(g, "gnmidiff.DiffSetRequest:mismatch-guard", c.Pos(cl.Pos()), "exactly when !reflect.DeepEqual(vA, vB)", "a mismatch is recorded under a condition other than !reflect.DeepEqual of the two sides' values")
			return true
		})
		if lit == 0 {
			r.Bad("gnmidiff.DiffSetRequest:mismatch-sides", c.Pos(rs.Pos()), "DiffSetRequest no longer records mismatched updates")
		}
		// common updates under DeepEqual.
		ast.Inspect(rs.Body, func(m ast.Node) bool {
			as, ok := m.(*ast.AssignStmt)
			if !ok || len(as.Lhs) != 1 {
				return true
			}
			ix, ok := as.Lhs[0].(*ast.IndexExpr)
			if !ok {
				return true
			}
			if sel, ok := ast.Unparen(ix.X).(*ast.SelectorExpr); ok && sel.Sel.Name == "CommonUpdates" {
				g := false
				for _, ft := range c.FactsAt(f, as, false) {
					if ft.Kind == "cond" && ft.Pos && len(CallsIn(info, ft.Cond, "reflect.DeepEqual")) > 0 {
						g = true
					}
				}
				r.Check(g, "gnmidiff.DiffSetRequest:common-guard", c.Pos(as.Pos()), "common exactly when the values are deeply equal", "a common update is recorded without the two values having compared equal")
			}
			return true
		})
		return true
	})
	if nLoop < 2 {
		r.Und("gnmidiff.DiffSetRequest:loops", c.Pos(f.Decl.Pos()), "expected a delete loop and an update loop")
	}
}

// ruleIntentNormal: R-INTENT.
func ruleIntentNormal(c *Ctx, r *Report) {
	r.Rule("R-INTENT", "minimalSetRequestIntent keys every delete/replace/update by fullPathStr(prefix, path) with one prefix string from prefixStr(req.Prefix) (both through ygot.PathToString); a replace is a delete plus its leaves, an update only its leaves; a leaf replace drops its delete in both the schema and the schema-less code path; repeated writes conflict only if reflect.DeepEqual fails; the leaf value forms of protoLeafToJSON are the forms encoding/json produces (and a leaf-list value is never a nil slice)", 12)
	f := c.MustFunc(r, "gnmidiff", "minimalSetRequestIntent")
	if f != nil {
		info := f.Info()
		var prefixObj types.Object
		for _, call := range CallsIn(info, f.Decl.Body, P("gnmidiff")+".prefixStr") {
			if as, ok := c.parentMap(f.File)[call].(*ast.AssignStmt); ok {
				prefixObj = ObjOf(info, as.Lhs[0])
				sel, isSel := ast.Unparen(call.Args[0]).(*ast.SelectorExpr)
				r.Check(isSel && sel.Sel.Name == "Prefix" && paramIndex(f, ObjOf(info, sel.X)) == 0 && errTestedAfter(c, f, f.Decl.Body, call), "gnmidiff.minimalSetRequestIntent:prefix", c.Pos(call.Pos()), "prefixStr(req.Prefix), error returned", "the prefix string is not computed from req.Prefix")
			}
		}
		fields := map[string]int{}
		ast.Inspect(f.Decl.Body, func(n ast.Node) bool {
			rs, ok := n.(*ast.RangeStmt)
			if !ok {
				return true
			}
			sel, ok := ast.Unparen(rs.X).(*ast.SelectorExpr)
			if !ok || paramIndex(f, ObjOf(info, sel.X)) != 0 {
				return true
			}
			fld := sel.Sel.Name // Delete, Replace, Update
			fields[fld]++
			key := "gnmidiff.minimalSetRequestIntent:" + fld
			fps := CallsIn(info, rs.Body, P("gnmidiff")+".fullPathStr")
			okPath := len(fps) == 1 && len(fps[0].Args) == 2 && ObjOf(info, fps[0].Args[0]) == prefixObj && prefixObj != nil && errTestedAfter(c, f, rs.Body, fps[0])
			var pathObj types.Object
			helperRecordsDelete := false
			var elemArg ast.Expr
			if okPath {
				if as, ok := c.parentMap(f.File)[fps[0]].(*ast.AssignStmt); ok {
					pathObj = ObjOf(info, as.Lhs[0])
				}
				elemArg = fps[0].Args[1]
			} else if len(fps) == 0 {
				// an extracted helper that resolves the path (and possibly records the delete):
				// summarised from its own body, relative to its parameters.
				ast.Inspect(rs.Body, func(m ast.Node) bool {
					call, ok := m.(*ast.CallExpr)
					if !ok || okPath {
						return true
					}
					h := c.funcOfCallee(Callee(info, call))
					if h == nil {
						return true
					}
					sum := intentPathHelper(c, h)
					if sum == nil || sum.prefix >= len(call.Args) || sum.elem >= len(call.Args) {
						return true
					}
					if ObjOf(info, call.Args[sum.prefix]) != prefixObj || prefixObj == nil || !(isIfInit(c, f, call) || errTestedAfter(c, f, rs.Body, call)) {
						return true
					}
					okPath = true
					elemArg = call.Args[sum.elem]
					helperRecordsDelete = sum.recordsDelete
					if as, ok := c.parentMap(f.File)[call].(*ast.AssignStmt); ok && sum.result < len(as.Lhs) {
						pathObj = ObjOf(info, as.Lhs[sum.result])
					}
					return true
				})
			}
			if okPath {
				// the path argument is the element's own path.
				arg := ast.Unparen(elemArg)
				if fld == "Delete" {
					okPath = rs.Value != nil && ObjOf(info, arg) == ObjOf(info, rs.Value)
				} else if s2, ok := arg.(*ast.SelectorExpr); ok {
					okPath = s2.Sel.Name == "Path" && rs.Value != nil && ObjOf(info, s2.X) == ObjOf(info, rs.Value)
				} else if cc, ok := arg.(*ast.CallExpr); ok {
					okPath = strings.HasSuffix(FullName(Callee(info, cc)), "Update.GetPath")
				} else {
					okPath = false
				}
			}
			r.Check(okPath, key+":path", c.Pos(rs.Pos()), "keyed by fullPathStr(prefix, element path)", "the "+fld+" loop of minimalSetRequestIntent does not key its entries by fullPathStr(prefix, path of the element): different prefix splits of one request give different intents")
			// effects.
			setsDelete, populates := false, false
			ast.Inspect(rs.Body, func(m ast.Node) bool {
				if as, ok := m.(*ast.AssignStmt); ok && len(as.Lhs) == 1 {
					if ix, ok := as.Lhs[0].(*ast.IndexExpr); ok {
						if s2, ok := ast.Unparen(ix.X).(*ast.SelectorExpr); ok && s2.Sel.Name == "Deletes" && ObjOf(info, ix.Index) == pathObj {
							setsDelete = true
						}
					}
				}
				return true
			})
			if helperRecordsDelete {
				setsDelete = true
			}
			for _, pu := range CallsIn(info, rs.Body, P("gnmidiff")+".setRequestIntent.populateUpdate") {
				if len(pu.Args) == 4 && ObjOf(info, pu.Args[0]) == pathObj && paramIndex(f, ObjOf(info, pu.Args[2])) == 1 && (isIfInit(c, f, pu) || errTestedAfter(c, f, rs.Body, pu)) {
					populates = true
				}
			}
			wantDel := fld == "Delete" || fld == "Replace"
			wantPop := fld == "Replace" || fld == "Update"
			r.Check(setsDelete == wantDel && populates == wantPop, key+":effects", c.Pos(rs.Pos()), fmt.Sprintf("delete=%v leaves=%v", wantDel, wantPop),
				fmt.Sprintf("the %s loop of minimalSetRequestIntent records delete=%v, leaves=%v; a %s must record delete=%v, leaves=%v (with the caller's schema, error returned)", fld, setsDelete, populates, strings.ToLower(fld), wantDel, wantPop))
			return true
		})
		for _, fld := range []string{"Delete", "Replace", "Update"} {
			if fields[fld] != 1 {
				r.Bad("gnmidiff.minimalSetRequestIntent:"+fld+":loop", c.Pos(f.Decl.Pos()), fmt.Sprintf("expected exactly one loop over req.%s, found %d", fld, fields[fld]))
			}
		}
	}
	// prefixStr / fullPathStr through PathToString.
	for _, nm := range []string{"prefixStr", "fullPathStr"} {
		if g := c.MustFunc(r, "gnmidiff", nm); g != nil {
			calls := CallsIn(g.Info(), g.Decl.Body, P("ygot")+".PathToString")
			r.Check(len(calls) == 1 && errTestedAfter(c, g, g.Decl.Body, calls[0]), "gnmidiff."+nm+":PathToString", c.Pos(g.Decl.Pos()), "path string from ygot.PathToString", nm+" no longer renders the path with ygot.PathToString")
		}
	}
	// writeUpdate conflict test.
	if g := c.MustFunc(r, "gnmidiff", "setRequestIntent.writeUpdate"); g != nil {
		gi := g.Info()
		n := 0
		for _, rs := range returnsOf(g.Decl.Body) {
			if len(rs.Results) == 1 && !isNilConst(gi, rs.Results[0]) {
				n++
				okc := false
				for _, ft := range c.FactsAt(g, rs, false) {
					if ft.Kind == "cond" && !ft.Pos && IsCall(gi, ast.Unparen(ft.Cond), "reflect.DeepEqual") {
						okc = true
					}
				}
				r.Check(okc, fmt.Sprintf("gnmidiff.setRequestIntent.writeUpdate:conflict#%d", n), c.Pos(rs.Pos()), "conflict only when !reflect.DeepEqual(new, previous)", "writeUpdate reports a conflict without having compared the two values with reflect.DeepEqual: duplicated identical updates are rejected (or the comparison can panic on slices)")
			}
		}
		stores := 0
		ast.Inspect(g.Decl.Body, func(m ast.Node) bool {
			if as, ok := m.(*ast.AssignStmt); ok && len(as.Lhs) == 1 {
				if ix, ok := as.Lhs[0].(*ast.IndexExpr); ok && paramIndex(g, ObjOf(gi, ix.Index)) == 0 && paramIndex(g, ObjOf(gi, as.Rhs[0])) == 1 {
					stores++
				}
			}
			return true
		})
		r.Check(stores == 1, "gnmidiff.setRequestIntent.writeUpdate:store", c.Pos(g.Decl.Pos()), "Updates[path] = val", "writeUpdate does not store the value under the given path")
	}
	// leaf replace == leaf update in both paths.
	if g := c.MustFunc(r, "gnmidiff", "setRequestIntent.populateUpdate"); g != nil {
		gi := g.Info()
		ok := false
		ast.Inspect(g.Decl.Body, func(m ast.Node) bool {
			if call, isCall := m.(*ast.CallExpr); isCall {
				if id, isID := call.Fun.(*ast.Ident); isID && id.Name == "delete" && len(call.Args) == 2 && paramIndex(g, ObjOf(gi, call.Args[1])) == 0 {
					for _, ft := range c.FactsAt(g, call, false) {
						if ft.Kind == "cond" && ft.Pos && (strings.Contains(types.ExprString(ft.Cond), "IsLeaf()") && strings.Contains(types.ExprString(ft.Cond), "IsLeafList()")) {
							ok = true
						}
					}
				}
			}
			return true
		})
		r.Check(ok, "gnmidiff.setRequestIntent.populateUpdate:leaf-replace", c.Pos(g.Decl.Pos()), "delete(intent.Deletes, path) when the target is a leaf or leaf-list", "with a schema, a leaf replace no longer drops its delete: it differs from the equivalent leaf update")
		// forwards errorOnOverwrite.
		fw := true
		for _, wu := range CallsIn(gi, g.Decl.Body, P("gnmidiff")+".setRequestIntent.writeUpdate", P("gnmidiff")+".populateUpdateNoSchema") {
			last := wu.Args[len(wu.Args)-1]
			if paramIndex(g, ObjOf(gi, last)) != 3 {
				fw = false
			}
		}
		r.Check(fw, "gnmidiff.setRequestIntent.populateUpdate:overwrite-flag", c.Pos(g.Decl.Pos()), "errorOnOverwrite forwarded", "populateUpdate does not forward errorOnOverwrite")
	}
	if g := c.MustFunc(r, "gnmidiff", "populateUpdateNoSchema"); g != nil {
		gi := g.Info()
		pm := c.parentMap(g.File)
		listOf := func(n ast.Node) (ast.Stmt, []ast.Stmt) {
			for cur := n; cur != nil; cur = pm[cur] {
				if st, isStmt := cur.(ast.Stmt); isStmt {
					switch p := pm[cur].(type) {
					case *ast.BlockStmt:
						return st, p.List
					case *ast.CaseClause:
						return st, p.Body
					}
				}
			}
			return nil, nil
		}
		// D: delete(intent.Deletes, path); W: the write of the leaf at path itself;
		// L: writes below path (path+subpath) for a non-leaf value.
		var D, W, L *ast.CallExpr
		ast.Inspect(g.Decl.Body, func(m ast.Node) bool {
			call, isCall := m.(*ast.CallExpr)
			if !isCall {
				return true
			}
			if id, isID := call.Fun.(*ast.Ident); isID && id.Name == "delete" && len(call.Args) == 2 && paramIndex(g, ObjOf(gi, call.Args[1])) == 1 {
				D = call
			}
			if IsCall(gi, call, P("gnmidiff")+".setRequestIntent.writeUpdate") && len(call.Args) == 3 {
				if paramIndex(g, ObjOf(gi, call.Args[0])) == 1 {
					W = call
				} else {
					L = call
				}
			}
			return true
		})
		ok := false
		if D != nil && W != nil {
			ds, dl := listOf(D)
			ws, wl := listOf(W)
			sameList := len(dl) > 0 && len(wl) > 0 && dl[0] == wl[0] && len(dl) == len(wl) && ds.Pos() < ws.Pos()
			exclusive := L == nil
			if L != nil {
				_, ll := listOf(L)
				// the non-leaf writes sit in a loop; take the list that contains that loop.
				if lp, isLoop := c.EnclosingLoop(g, L).(*ast.RangeStmt); isLoop {
					_, ll = listOf(lp)
				}
				if terminates(gi, ll) {
					exclusive = true // the non-leaf branch leaves the function before the delete
				}
				for _, ft := range c.FactsAt(g, D, false) {
					if ft.Kind != "cond" || !ft.Pos {
						continue
					}
					if id2, isID2 := ast.Unparen(ft.Cond).(*ast.Ident); isID2 {
						for _, st := range ll {
							if as, isAs := st.(*ast.AssignStmt); isAs && len(as.Lhs) == 1 && len(as.Rhs) == 1 && ObjOf(gi, as.Lhs[0]) == gi.ObjectOf(id2) {
								if v, isConst := ConstOf(gi, as.Rhs[0]); isConst && v == "false" {
									exclusive = true // the non-leaf branch clears the flag the delete is conditional on
								}
							}
						}
					}
				}
			}
			ok = sameList && exclusive
		}
		r.Check(ok, "gnmidiff.populateUpdateNoSchema:leaf-replace", c.Pos(g.Decl.Pos()), "delete(intent.Deletes, path) runs exactly when the leaf at path itself is written (never on the non-leaf branch)", "without a schema, a leaf replace no longer drops its delete exactly when the value is a leaf (the delete and the write of the leaf at path are not paired, or the non-leaf branch also reaches the delete)")
	}
	// leaf value forms.
	if g := c.MustFunc(r, "gnmidiff", "protoLeafToJSON"); g != nil {
		gi := g.Info()
		jsonForms := map[string]bool{"string": true, "bool": true, "float64": true, "[]interface{}": true, "[]any": true}
		ts := TypeSwitches(g)
		if len(ts) != 1 {
			r.Und("gnmidiff.protoLeafToJSON:switch", c.Pos(g.Decl.Pos()), "dispatch not recognised")
		} else {
			for _, a := range ts[0].Arms {
				if a.Deflt {
					continue
				}
				for _, rs := range returnsOf(a.Node) {
					if len(rs.Results) != 2 || isNilConst(gi, rs.Results[0]) {
						continue
					}
					tv := gi.Types[rs.Results[0]]
					tname := typeShort(tv.Type)
					key := "gnmidiff.protoLeafToJSON:" + strings.Join(a.Keys, ",")
					if !jsonForms[tname] {
						r.Bad(key, c.Pos(rs.Pos()), "protoLeafToJSON returns a "+tname+", which encoding/json never produces: a JSON update and the equivalent leaf update never compare equal")
						continue
					}
					if strings.HasPrefix(tname, "[]") {
						// never nil: every definition of the returned variable allocates.
						obj := ObjOf(gi, rs.Results[0])
						alloc := obj != nil
						declared := false
						ast.Inspect(g.Decl.Body, func(m ast.Node) bool {
							switch s := m.(type) {
							case *ast.AssignStmt:
								for i, l := range s.Lhs {
									if ObjOf(gi, l) == obj {
										if _, isID := l.(*ast.Ident); !isID {
											continue
										}
										declared = true
										j := i
										if len(s.Rhs) == 1 {
											j = 0
										}
										rhs := ast.Unparen(s.Rhs[j])
										isAlloc := false
										if cc, ok := rhs.(*ast.CallExpr); ok {
											if id, ok := cc.Fun.(*ast.Ident); ok && id.Name == "make" {
												isAlloc = true
											}
										}
										if _, ok := rhs.(*ast.CompositeLit); ok {
											isAlloc = true
										}
										if !isAlloc {
											alloc = false
										}
									}
								}
							case *ast.ValueSpec:
								for i, nm := range s.Names {
									if gi.ObjectOf(nm) == obj {
										declared = true
										if i >= len(s.Values) {
											alloc = false
										}
									}
								}
							}
							return true
						})
						r.Check(alloc && declared, key, c.Pos(rs.Pos()), "slice always allocated (never nil), as encoding/json does for []",
							"protoLeafToJSON can return a nil slice for a leaf-list (e.g. an empty one): JSON `[]` decodes to an empty non-nil slice and reflect.DeepEqual(nil slice, empty slice) is false, so equal intents mismatch")
						continue
					}
					r.OK(key, c.Pos(rs.Pos()), "returns "+tname)
				}
			}
		}
	}
}

func strconvQuote(s string) string {
	if len(s) > 40 {
		s = s[:40] + "…"
	}
	return fmt.Sprintf("%q", s)
}

// ruleSetToNotifs: R-SET2NOTIF (C23).
func ruleSetToNotifs(c *Ctx, r *Report) {
	r.Rule("R-SET2NOTIF", "DiffSetRequestToNotifications keys notification leaves like intent leaves (fullPathStr(prefix of the notification, update path), populateUpdate with the caller's schema, overwrites allowed); classifies each intent leaf as mismatched exactly when present with !reflect.DeepEqual (A = intent, B = notification), common when present and equal, missing otherwise, and removes it from the leftovers unconditionally; reports as extra only leftovers strictly below a deleted/replaced path (prefix + \"/\")", 8)
	f := c.MustFunc(r, "gnmidiff", "DiffSetRequestToNotifications")
	if f == nil {
		return
	}
	info := f.Info()
	// intent of the set request.
	ic := CallsIn(info, f.Decl.Body, P("gnmidiff")+".minimalSetRequestIntent")
	okI := len(ic) == 1 && paramIndex(f, ObjOf(info, ic[0].Args[0])) == 0 && paramIndex(f, ObjOf(info, ic[0].Args[1])) == 2 && errTestedAfter(c, f, f.Decl.Body, ic[0])
	r.Check(okI, "gnmidiff.DiffSetRequestToNotifications:intent", c.Pos(f.Decl.Pos()), "minimal intent of the SetRequest with the caller's schema", "the SetRequest side is not its minimal intent under the caller's schema")
	var intentObj types.Object
	if okI {
		if as, ok := c.parentMap(f.File)[ic[0]].(*ast.AssignStmt); ok {
			intentObj = ObjOf(info, as.Lhs[0])
		}
	}
	// notification leaves.
	fp := CallsIn(info, f.Decl.Body, P("gnmidiff")+".fullPathStr")
	ps := CallsIn(info, f.Decl.Body, P("gnmidiff")+".prefixStr")
	pu := CallsIn(info, f.Decl.Body, P("gnmidiff")+".setRequestIntent.populateUpdate")
	okN := len(fp) == 1 && len(ps) == 1 && len(pu) == 1
	if okN {
		var prefObj, pathObj types.Object
		if as, ok := c.parentMap(f.File)[ps[0]].(*ast.AssignStmt); ok {
			prefObj = ObjOf(info, as.Lhs[0])
		}
		if as, ok := c.parentMap(f.File)[fp[0]].(*ast.AssignStmt); ok {
			pathObj = ObjOf(info, as.Lhs[0])
		}
		// the field or its nil-safe getter: notif.Prefix / notif.GetPrefix(), upd.Path / upd.GetPath().
		fieldOf := func(e ast.Expr) string {
			if cl, isCall := ast.Unparen(e).(*ast.CallExpr); isCall && len(cl.Args) == 0 {
				e = cl.Fun
			}
			if s, ok := ast.Unparen(e).(*ast.SelectorExpr); ok {
				return strings.TrimPrefix(s.Sel.Name, "Get")
			}
			return ""
		}
		okN = fieldOf(ps[0].Args[0]) == "Prefix" && ObjOf(info, fp[0].Args[0]) == prefObj && prefObj != nil && fieldOf(fp[0].Args[1]) == "Path" &&
			len(pu[0].Args) == 4 && ObjOf(info, pu[0].Args[0]) == pathObj && paramIndex(f, ObjOf(info, pu[0].Args[2])) == 2 &&
			errTestedAfter(c, f, f.Decl.Body, ps[0]) && errTestedAfter(c, f, f.Decl.Body, fp[0]) && (isIfInit(c, f, pu[0]) || errTestedAfter(c, f, f.Decl.Body, pu[0]))
		if v, ok := ConstOf(info, pu[0].Args[3]); !ok || v != "false" {
			okN = false
		}
	}
	r.Check(okN, "gnmidiff.DiffSetRequestToNotifications:notification-leaves", c.Pos(f.Decl.Pos()), "fullPathStr(prefixStr(notif.Prefix), upd.Path) → populateUpdate(path, val, schema, false); all errors returned", "notification leaves are not keyed/expanded like intent leaves (prefix, path, schema) or errors are dropped")
	// classification loop.
	var loop *ast.RangeStmt
	ast.Inspect(f.Decl.Body, func(n ast.Node) bool {
		if rs, ok := n.(*ast.RangeStmt); ok {
			if sel, ok := ast.Unparen(rs.X).(*ast.SelectorExpr); ok && sel.Sel.Name == "Updates" && ObjOf(info, sel.X) == intentObj && intentObj != nil {
				loop = rs
			}
		}
		return true
	})
	if loop == nil {
		r.Und("gnmidiff.DiffSetRequestToNotifications:classification-loop", c.Pos(f.Decl.Pos()), "loop over the intent's updates not found")
		return
	}
	vA := ObjOf(info, loop.Value)
	var vB, okObj types.Object
	ast.Inspect(loop.Body, func(n ast.Node) bool {
		if as, ok := n.(*ast.AssignStmt); ok && len(as.Lhs) == 2 && len(as.Rhs) == 1 {
			if ix, ok := ast.Unparen(as.Rhs[0]).(*ast.IndexExpr); ok && loop.Key != nil && ObjOf(info, ix.Index) == ObjOf(info, loop.Key) {
				vB, okObj = ObjOf(info, as.Lhs[0]), ObjOf(info, as.Lhs[1])
			}
		}
		return true
	})
	classOK := map[string]bool{}
	ast.Inspect(loop.Body, func(n ast.Node) bool {
		as, ok := n.(*ast.AssignStmt)
		if !ok || len(as.Lhs) != 1 {
			return true
		}
		ix, ok := as.Lhs[0].(*ast.IndexExpr)
		if !ok {
			return true
		}
		sel, ok := ast.Unparen(ix.X).(*ast.SelectorExpr)
		if !ok {
			return true
		}
		facts := c.FactsAt(f, as, false)
		// Truth-table reading of the guard: atoms P (the leaf is present in the notifications)
		// and E (reflect.DeepEqual of the two values). The store must be reached for exactly
		// the assignments its class stands for, whatever mix of if/else, switch and early
		// exits expresses it; any other atom in the guard narrows the class and fails.
		var eval func(e ast.Expr, P, E bool) (bool, bool)
		eval = func(e ast.Expr, P, E bool) (bool, bool) {
			switch x := ast.Unparen(e).(type) {
			case *ast.Ident:
				if okObj != nil && info.ObjectOf(x) == okObj {
					return P, true
				}
			case *ast.UnaryExpr:
				if x.Op == token.NOT {
					v, k := eval(x.X, P, E)
					return !v, k
				}
			case *ast.BinaryExpr:
				if x.Op == token.LAND || x.Op == token.LOR {
					a, ka := eval(x.X, P, E)
					b, kb := eval(x.Y, P, E)
					if x.Op == token.LAND {
						return a && b, ka && kb
					}
					return a || b, ka && kb
				}
			case *ast.CallExpr:
				if IsCall(info, x, "reflect.DeepEqual") && len(x.Args) == 2 && vA != nil && vB != nil {
					o1, o2 := ObjOf(info, x.Args[0]), ObjOf(info, x.Args[1])
					if (o1 == vA && o2 == vB) || (o1 == vB && o2 == vA) {
						return E, true
					}
				}
			}
			return false, false
		}
		reached := func(P, E bool) (bool, bool) {
			for _, ft := range facts {
				if ft.Kind != "cond" || ft.Cond.Pos() < loop.Body.Pos() || ft.Cond.Pos() > loop.Body.End() {
					if ft.Kind != "cond" && ft.Cond != nil && ft.Cond.Pos() >= loop.Body.Pos() && ft.Cond.Pos() <= loop.Body.End() {
						return false, false // a tagged switch inside the loop: not understood
					}
					continue
				}
				v, known := eval(ft.Cond, P, E)
				if !known {
					return false, false
				}
				if v != ft.Pos {
					return false, true
				}
			}
			return true, true
		}
		exactly := func(spec func(P, E bool) bool) bool {
			for _, P := range []bool{true, false} {
				for _, E := range []bool{true, false} {
					got, known := reached(P, E)
					if !known || got != spec(P, E) {
						return false
					}
				}
			}
			return true
		}
		switch sel.Sel.Name {
		case "MismatchedUpdates":
			sides := false
			if cl, ok := ast.Unparen(as.Rhs[0]).(*ast.CompositeLit); ok {
				a, b := false, false
				for _, el := range cl.Elts {
					if kv, ok := el.(*ast.KeyValueExpr); ok {
						switch kv.Key.(*ast.Ident).Name {
						case "A":
							a = ObjOf(info, kv.Value) == vA
						case "B":
							b = ObjOf(info, kv.Value) == vB
						}
					}
				}
				sides = a && b
			}
			classOK["mismatched"] = sides && exactly(func(P, E bool) bool { return P && !E })
		case "CommonUpdates":
			classOK["common"] = ObjOf(info, as.Rhs[0]) == vA && exactly(func(P, E bool) bool { return P && E })
		case "MissingUpdates":
			classOK["missing"] = ObjOf(info, as.Rhs[0]) == vA && exactly(func(P, E bool) bool { return !P })
		}
		return true
	})
	for _, k := range []string{"mismatched", "common", "missing"} {
		r.Check(classOK[k], "gnmidiff.DiffSetRequestToNotifications:class:"+k, c.Pos(loop.Pos()), k+" classified by (present, DeepEqual) with the intent's value on side A", "an intent leaf is classified as "+k+" under a condition other than the (present in notifications, reflect.DeepEqual) table, or with the sides exchanged")
	}
	// removal from leftovers: a top-level statement of the loop body.
	rem := false
	for _, s := range loop.Body.List {
		if es, ok := s.(*ast.ExprStmt); ok {
			if call, ok := es.X.(*ast.CallExpr); ok {
				if id, ok := call.Fun.(*ast.Ident); ok && id.Name == "delete" && len(call.Args) == 2 && loop.Key != nil && ObjOf(info, call.Args[1]) == ObjOf(info, loop.Key) {
					rem = true
				}
			}
		}
	}
	r.Check(rem, "gnmidiff.DiffSetRequestToNotifications:handled-removed", c.Pos(loop.Pos()), "every intent path is removed from the leftover notification leaves", "an intent leaf is not removed from the leftovers on every path: it can be reported as extra as well")
	// extras.
	extraOK := false
	ast.Inspect(f.Decl.Body, func(n ast.Node) bool {
		call, ok := n.(*ast.CallExpr)
		if !ok || !strings.HasSuffix(FullName(Callee(info, call)), "trie.Trie.PrefixSearch") || len(call.Args) != 1 {
			return true
		}
		be, ok := ast.Unparen(call.Args[0]).(*ast.BinaryExpr)
		if !ok || be.Op != token.ADD {
			return true
		}
		if v, ok := ConstOf(info, be.Y); ok && v == `"/"` {
			// delPath ranges over the intent's Deletes.
			if lp, ok := c.EnclosingLoop(f, call).(*ast.RangeStmt); ok {
				if outer, ok := c.EnclosingLoop(f, lp).(*ast.RangeStmt); ok {
					if sel, ok := ast.Unparen(outer.X).(*ast.SelectorExpr); ok && sel.Sel.Name == "Deletes" && ObjOf(info, sel.X) == intentObj && ObjOf(info, be.X) == ObjOf(info, outer.Key) {
						extraOK = true
					}
				}
			}
		}
		return true
	})
	r.Check(extraOK, "gnmidiff.DiffSetRequestToNotifications:extras-under-deletes", c.Pos(f.Decl.Pos()), "extras = leftovers with prefix <deleted path>/", "extra updates are not the leftovers strictly below a deleted/replaced path (missing the \"/\" boundary matches sibling names that merely share a prefix)")
	// notifications with deletes are refused (documented TODO), not silently ignored.
	del := false
	ast.Inspect(f.Decl.Body, func(n ast.Node) bool {
		if is, ok := n.(*ast.IfStmt); ok && (strings.Contains(types.ExprString(is.Cond), ".Delete") || strings.Contains(types.ExprString(is.Cond), ".GetDelete()")) && terminates(info, is.Body.List) {
			del = true
		}
		return true
	})
	r.Check(del, "gnmidiff.DiffSetRequestToNotifications:notif-deletes-refused", c.Pos(f.Decl.Pos()), "notifications carrying deletes are an error (unsupported), never ignored", "deletes in notifications are silently ignored")
}

// intentPathSummary describes a helper of minimalSetRequestIntent relative to its parameters: it
// computes fullPathStr(params[prefix], params[elem]) (error returned), returns that string as
// result number `result`, and — recordsDelete — stores it as a key of a Deletes map.
type intentPathSummary struct {
	prefix, elem, result int
	recordsDelete        bool
}

func intentPathHelper(c *Ctx, h *FuncInfo) *intentPathSummary {
	info := h.Info()
	if h.Pkg.PkgPath != P("gnmidiff") {
		return nil
	}
	fps := CallsIn(info, h.Decl.Body, P("gnmidiff")+".fullPathStr")
	if len(fps) != 1 || len(fps[0].Args) != 2 || !errTestedAfter(c, h, h.Decl.Body, fps[0]) {
		return nil
	}
	sum := &intentPathSummary{prefix: paramIndex(h, ObjOf(info, fps[0].Args[0])), elem: paramIndex(h, ObjOf(info, fps[0].Args[1])), result: -1}
	if sum.prefix < 0 || sum.elem < 0 {
		return nil
	}
	var pathObj types.Object
	if as, ok := c.parentMap(h.File)[fps[0]].(*ast.AssignStmt); ok {
		pathObj = ObjOf(info, as.Lhs[0])
	}
	if pathObj == nil {
		return nil
	}
	// every non-error return hands the path back at the same position.
	for _, rs := range returnsOf(h.Decl.Body) {
		for i, e := range rs.Results {
			if ObjOf(info, e) == pathObj {
				if sum.result >= 0 && sum.result != i {
					return nil
				}
				sum.result = i
			}
		}
	}
	if sum.result < 0 {
		return nil
	}
	ast.Inspect(h.Decl.Body, func(m ast.Node) bool {
		if as, ok := m.(*ast.AssignStmt); ok && len(as.Lhs) == 1 {
			if ix, ok := as.Lhs[0].(*ast.IndexExpr); ok {
				if s2, ok := ast.Unparen(ix.X).(*ast.SelectorExpr); ok && s2.Sel.Name == "Deletes" && ObjOf(info, ix.Index) == pathObj {
					// unconditional apart from the duplicate test and the error exit.
					sum.recordsDelete = true
				}
			}
		}
		return true
	})
	return sum
}
