package main

import (
	"fmt"
	"go/ast"
	"go/constant"
	"go/token"
	"go/types"
	"regexp"
	"strings"
)

var keyPredicateFmt = regexp.MustCompile(`\[[^\]]*%[^\]]*=[^\]]*%[^\]]*\]|\[%[a-z]=|=%[a-z]\]`)

// rulePathFmtOwner: R-PATHFMT-OWNER.
func rulePathFmtOwner(c *Ctx, r *Report, pkgs []string, floor int) {
	r.Rule("R-PATHFMT-OWNER", "gNMI key predicates `[k=v]` are formatted only by ygot/pathstrings.go (which escapes ']' and '='): no other library code builds one with fmt.Sprintf or string concatenation around non-constant operands — a second, unescaped writer makes equal paths render differently", floor)
	for _, rel := range pkgs {
		for _, f := range c.AllFuncs(rel) {
			if c.relFile(f.Decl.Pos()) == "ygot/pathstrings.go" {
				continue
			}
			info := f.Info()
			n := 0
			ast.Inspect(f.Decl.Body, func(x ast.Node) bool {
				switch e := x.(type) {
				case *ast.CallExpr:
					fn := FullName(Callee(info, e))
					if fn != "fmt.Sprintf" && fn != "fmt.Fprintf" && fn != "fmt.Appendf" {
						return true
					}
					fi := 0
					if fn == "fmt.Fprintf" || fn == "fmt.Appendf" {
						fi = 1
					}
					if len(e.Args) <= fi {
						return true
					}
					tv, ok := info.Types[e.Args[fi]]
					if !ok || tv.Value == nil || tv.Value.Kind() != constant.String {
						return true
					}
					format := constant.StringVal(tv.Value)
					n++
					key := fmt.Sprintf("%s:format#%d", f.Name, n)
					if !strings.Contains(format, "[") || !strings.Contains(format, "=") {
						r.OK(key, c.Pos(e.Pos()), "no key predicate in "+strconvQuote(format))
						return true
					}
					// only value-producing uses count (errors / logs may print anything).
					if usedOnlyInErrorOrLog(c, f, e) {
						r.OK(key, c.Pos(e.Pos()), "diagnostic text, not a path: "+format)
						return true
					}
					r.Check(!keyPredicateFmt.MatchString(format), key, c.Pos(e.Pos()), "not a key predicate: "+format,
						fmt.Sprintf("%s formats a gNMI key predicate itself (%q) instead of going through ygot.PathToString: key values containing ']' or '=' are not escaped, so the same path renders differently here and in ygot", f.Name, format))
				case *ast.BinaryExpr:
					if e.Op != token.ADD {
						return true
					}
					// top of a concatenation chain only.
					if p, ok := c.parentMap(f.File)[e].(*ast.BinaryExpr); ok && p.Op == token.ADD {
						return true
					}
					if tv, ok := info.Types[e]; !ok || tv.Type == nil || tv.Type.String() != "string" && tv.Type.Underlying().String() != "string" {
						return true
					}
					var parts []ast.Expr
					flattenAdd(e, &parts)
					consts := ""
					nonConst := 0
					for _, p := range parts {
						if tv, ok := info.Types[p]; ok && tv.Value != nil && tv.Value.Kind() == constant.String {
							consts += constant.StringVal(tv.Value)
						} else {
							consts += "\x00"
							nonConst++
						}
					}
					if nonConst == 0 || !strings.Contains(consts, "[") {
						return true
					}
					n++
					key := fmt.Sprintf("%s:concat#%d", f.Name, n)
					bad := regexp.MustCompile(`\[\x00?[^\]]*=\x00\]|\[\x00=`).MatchString(consts)
					if usedOnlyInErrorOrLog(c, f, e) {
						bad = false
					}
					r.Check(!bad, key, c.Pos(e.Pos()), "not a key predicate", f.Name+" concatenates a gNMI key predicate `[k=v]` around non-constant operands without escaping")
				}
				return true
			})
		}
	}
}

func flattenAdd(e ast.Expr, out *[]ast.Expr) {
	e = ast.Unparen(e)
	if be, ok := e.(*ast.BinaryExpr); ok && be.Op == token.ADD {
		flattenAdd(be.X, out)
		flattenAdd(be.Y, out)
		return
	}
	*out = append(*out, e)
}

// usedOnlyInErrorOrLog: the expression is an argument of an error constructor or a log/debug call.
func usedOnlyInErrorOrLog(c *Ctx, f *FuncInfo, e ast.Expr) bool {
	pm := c.parentMap(f.File)
	info := f.Info()
	for p := pm[e]; p != nil; p = pm[p] {
		if call, ok := p.(*ast.CallExpr); ok && ast.Node(call) != ast.Node(e) {
			fn := FullName(Callee(info, call))
			if fn == "fmt.Errorf" || fn == "errors.New" || strings.Contains(fn, "glog.") || strings.HasSuffix(fn, "util.DbgPrint") || strings.HasSuffix(fn, "util.DbgErr") || strings.Contains(fn, "status.Errorf") || strings.HasSuffix(fn, ".NewErrs") {
				return true
			}
		}
		if _, ok := p.(ast.Stmt); ok {
			break
		}
	}
	return false
}

// ruleDiffSymmetry: R-DIFF-SYMMETRY.
func ruleDiffSymmetry(c *Ctx, r *Report) {
	r.Rule("R-DIFF-SYMMETRY", "DiffSetRequest computes A's intent from its first argument and B's from its second with the same schema; Missing*/Extra* are A's/B's leftovers; common paths are removed from both sides; a mismatch records A's value under A and B's under B; values are compared with reflect.DeepEqual", 9)
	f := c.MustFunc(r, "gnmidiff", "DiffSetRequest")
	if f == nil {
		return
	}
	info := f.Info()
	// intents.
	side := map[types.Object]int{} // local intent var -> param index
	for _, call := range CallsIn(info, f.Decl.Body, P("gnmidiff")+".minimalSetRequestIntent") {
		if as, ok := c.parentMap(f.File)[call].(*ast.AssignStmt); ok && len(call.Args) == 2 {
			pi := paramIndex(f, ObjOf(info, call.Args[0]))
			schemaOK := paramIndex(f, ObjOf(info, call.Args[1])) == 2
			if pi >= 0 {
				side[ObjOf(info, as.Lhs[0])] = pi
			}
			r.Check(pi >= 0 && schemaOK && errTestedAfter(c, f, f.Decl.Body, call), fmt.Sprintf("gnmidiff.DiffSetRequest:intent-of-param#%d", pi), c.Pos(call.Pos()), "minimal intent of the parameter with the caller's schema; error returned",
				"DiffSetRequest does not compute a side's intent from its own parameter with the given schema (or drops the error)")
		}
	}
	var aObj, bObj types.Object
	for o, i := range side {
		if i == 0 {
			aObj = o
		}
		if i == 1 {
			bObj = o
		}
	}
	if aObj == nil || bObj == nil {
		r.Und("gnmidiff.DiffSetRequest:intents", c.Pos(f.Decl.Pos()), "the two intent variables were not recognised")
		return
	}
	sideOf := func(e ast.Expr) (string, string) { // ("A"/"B", field)
		sel, ok := ast.Unparen(e).(*ast.SelectorExpr)
		if !ok {
			return "", ""
		}
		switch ObjOf(info, sel.X) {
		case aObj:
			return "A", sel.Sel.Name
		case bObj:
			return "B", sel.Sel.Name
		}
		return "", ""
	}
	// leftovers.
	want := map[string][2]string{"MissingDeletes": {"A", "Deletes"}, "ExtraDeletes": {"B", "Deletes"}, "MissingUpdates": {"A", "Updates"}, "ExtraUpdates": {"B", "Updates"}}
	seen := map[string]bool{}
	ast.Inspect(f.Decl.Body, func(n ast.Node) bool {
		as, ok := n.(*ast.AssignStmt)
		if !ok || len(as.Lhs) != 1 || len(as.Rhs) != 1 {
			return true
		}
		sel, ok := as.Lhs[0].(*ast.SelectorExpr)
		if !ok {
			return true
		}
		w, ok := want[sel.Sel.Name]
		if !ok {
			return true
		}
		s, fld := sideOf(as.Rhs[0])
		seen[sel.Sel.Name] = true
		r.Check(s == w[0] && fld == w[1], "gnmidiff.DiffSetRequest:"+sel.Sel.Name, c.Pos(as.Pos()), fmt.Sprintf("= intent%s.%s", w[0], w[1]),
			fmt.Sprintf("DiffSetRequest sets %s from intent%s.%s instead of intent%s.%s: missing and extra are confused", sel.Sel.Name, s, fld, w[0], w[1]))
		return true
	})
	for k := range want {
		if !seen[k] {
			r.Bad("gnmidiff.DiffSetRequest:"+k, c.Pos(f.Decl.Pos()), "DiffSetRequest no longer assigns "+k+" from an intent's leftovers")
		}
	}
	// the two comparison loops.
	nLoop := 0
	ast.Inspect(f.Decl.Body, func(n ast.Node) bool {
		rs, ok := n.(*ast.RangeStmt)
		if !ok {
			return true
		}
		s, fld := sideOf(rs.X)
		nLoop++
		key := fmt.Sprintf("gnmidiff.DiffSetRequest:loop#%d", nLoop)
		if s != "A" {
			r.Bad(key+":ranges-A", c.Pos(rs.Pos()), "a comparison loop of DiffSetRequest does not range over intent A's "+fld+" (the roles of A and B depend on something other than argument order)")
			return true
		}
		r.OK(key+":ranges-A", c.Pos(rs.Pos()), "ranges over intentA."+fld)
		// lookup in B with the range key; deletes on both sides.
		lookupB, delA, delB := false, false, false
		ast.Inspect(rs.Body, func(m ast.Node) bool {
			switch x := m.(type) {
			case *ast.IndexExpr:
				if s2, f2 := sideOf(x.X); s2 == "B" && f2 == fld && rs.Key != nil && ObjOf(info, x.Index) == ObjOf(info, rs.Key) {
					lookupB = true
				}
			case *ast.CallExpr:
				if id, ok := x.Fun.(*ast.Ident); ok && id.Name == "delete" && len(x.Args) == 2 {
					if s2, f2 := sideOf(x.Args[0]); f2 == fld {
						if s2 == "A" {
							delA = true
						}
						if s2 == "B" {
							delB = true
						}
					}
				}
			}
			return true
		})
		r.Check(lookupB && delA && delB, key+":common-removed", c.Pos(rs.Pos()), "looked up in intentB by the same path; removed from both sides when common",
			"a comparison loop of DiffSetRequest does not look the path up in B's "+fld+" and remove common entries from both sides")
		if fld != "Updates" {
			return true
		}
		// mismatch literal and equality.
		var vA types.Object
		if rs.Value != nil {
			vA = ObjOf(info, rs.Value)
		}
		var vB types.Object
		ast.Inspect(rs.Body, func(m ast.Node) bool {
			if as, ok := m.(*ast.AssignStmt); ok && len(as.Rhs) == 1 {
				if ix, ok := ast.Unparen(as.Rhs[0]).(*ast.IndexExpr); ok {
					if s2, _ := sideOf(ix.X); s2 == "B" {
						vB = ObjOf(info, as.Lhs[0])
					}
				}
			}
			return true
		})
		lit := 0
		ast.Inspect(rs.Body, func(m ast.Node) bool {
			cl, ok := m.(*ast.CompositeLit)
			if !ok || namedTypeOf(info.Types[cl].Type) != P("gnmidiff")+".MismatchedUpdate" {
				return true
			}
			lit++
			okA, okB := false, false
			for i, el := range cl.Elts {
				if kv, ok := el.(*ast.KeyValueExpr); ok {
					switch kv.Key.(*ast.Ident).Name {
					case "A":
						okA = ObjOf(info, kv.Value) == vA && vA != nil
					case "B":
						okB = ObjOf(info, kv.Value) == vB && vB != nil
					}
				} else {
					if i == 0 {
						okA = ObjOf(info, el) == vA && vA != nil
					}
					if i == 1 {
						okB = ObjOf(info, el) == vB && vB != nil
					}
				}
			}
			r.Check(okA && okB, "gnmidiff.DiffSetRequest:mismatch-sides", c.Pos(cl.Pos()), "A: value from intentA, B: value from intentB",
				"DiffSetRequest records a mismatch with the values of A and B not taken from A's and B's intents respectively: swapping the arguments does not swap A and B")
			// guarded by !reflect.DeepEqual(vA, vB)
			g := false
			for _, ft := range c.FactsAt(f, cl, false) {
				if ft.Kind == "cond" && !ft.Pos {
					if call, ok := ast.Unparen(ft.Cond).(*ast.CallExpr); ok && IsCall(info, call, "reflect.DeepEqual") && len(call.Args) == 2 {
						o1, o2 := ObjOf(info, call.Args[0]), ObjOf(info, call.Args[1])
						if (o1 == vA && o2 == vB) || (o1 == vB && o2 == vA) {
							g = true
						}
					}
				}
			}
			r.Check(g, "gnmidiff.DiffSetRequest:mismatch-guard", c.Pos(cl.Pos()), "exactly when !reflect.DeepEqual(vA, vB)", "a mismatch is recorded under a condition other than !reflect.DeepEqual of the two sides' values")
			return true
		})
		if lit == 0 {
			r.Bad("gnmidiff.DiffSetRequest:mismatch-sides", c.Pos(rs.Pos()), "DiffSetRequest no longer records mismatched updates")
		}
		// common updates under DeepEqual.
		ast.Inspect(rs.Body, func(m ast.Node) bool {
			as, ok := m.(*ast.AssignStmt)
			if !ok || len(as.Lhs) != 1 {
				return true
			}
			ix, ok := as.Lhs[0].(*ast.IndexExpr)
			if !ok {
				return true
			}
			if sel, ok := ast.Unparen(ix.X).(*ast.SelectorExpr); ok && sel.Sel.Name == "CommonUpdates" {
				g := false
				for _, ft := range c.FactsAt(f, as, false) {
					if ft.Kind == "cond" && ft.Pos && len(CallsIn(info, ft.Cond, "reflect.DeepEqual")) > 0 {
						g = true
					}
				}
				r.Check(g, "gnmidiff.DiffSetRequest:common-guard", c.Pos(as.Pos()), "common exactly when the values are deeply equal", "a common update is recorded without the two values having compared equal")
			}
			return true
		})
		return true
	})
	if nLoop < 2 {
		r.Und("gnmidiff.DiffSetRequest:loops", c.Pos(f.Decl.Pos()), "expected a delete loop and an update loop")
	}
}

// ruleIntentNormal: R-INTENT.
func ruleIntentNormal(c *Ctx, r *Report) {
	r.Rule("R-INTENT", "minimalSetRequestIntent keys every delete/replace/update by fullPathStr(prefix, path) with one prefix string from prefixStr(req.Prefix) (both through ygot.PathToString); a replace is a delete plus its leaves, an update only its leaves; a leaf replace drops its delete in both the schema and the schema-less code path; repeated writes conflict only if reflect.DeepEqual fails; the leaf value forms of protoLeafToJSON are the forms encoding/json produces (and a leaf-list value is never a nil slice)", 12)
	f := c.MustFunc(r, "gnmidiff", "minimalSetRequestIntent")
	if f != nil {
		info := f.Info()
		var prefixObj types.Object
		for _, call := range CallsIn(info, f.Decl.Body, P("gnmidiff")+".prefixStr") {
			if as, ok := c.parentMap(f.File)[call].(*ast.AssignStmt); ok {
				prefixObj = ObjOf(info, as.Lhs[0])
				sel, isSel := ast.Unparen(call.Args[0]).(*ast.SelectorExpr)
				r.Check(isSel && sel.Sel.Name == "Prefix" && paramIndex(f, ObjOf(info, sel.X)) == 0 && errTestedAfter(c, f, f.Decl.Body, call), "gnmidiff.minimalSetRequestIntent:prefix", c.Pos(call.Pos()), "prefixStr(req.Prefix), error returned", "the prefix string is not computed from req.Prefix")
			}
		}
		fields := map[string]int{}
		ast.Inspect(f.Decl.Body, func(n ast.Node) bool {
			rs, ok := n.(*ast.RangeStmt)
			if !ok {
				return true
			}
			sel, ok := ast.Unparen(rs.X).(*ast.SelectorExpr)
			if !ok || paramIndex(f, ObjOf(info, sel.X)) != 0 {
				return true
			}
			fld := sel.Sel.Name // Delete, Replace, Update
			fields[fld]++
			key := "gnmidiff.minimalSetRequestIntent:" + fld
			fps := CallsIn(info, rs.Body, P("gnmidiff")+".fullPathStr")
			okPath := len(fps) == 1 && len(fps[0].Args) == 2 && ObjOf(info, fps[0].Args[0]) == prefixObj && prefixObj != nil && errTestedAfter(c, f, rs.Body, fps[0])
			var pathObj types.Object
			if okPath {
				if as, ok := c.parentMap(f.File)[fps[0]].(*ast.AssignStmt); ok {
					pathObj = ObjOf(info, as.Lhs[0])
				}
				// the path argument is the element's own path.
				arg := ast.Unparen(fps[0].Args[1])
				if fld == "Delete" {
					okPath = rs.Value != nil && ObjOf(info, arg) == ObjOf(info, rs.Value)
				} else if s2, ok := arg.(*ast.SelectorExpr); ok {
					okPath = s2.Sel.Name == "Path" && rs.Value != nil && ObjOf(info, s2.X) == ObjOf(info, rs.Value)
				} else if cc, ok := arg.(*ast.CallExpr); ok {
					okPath = strings.HasSuffix(FullName(Callee(info, cc)), "Update.GetPath")
				} else {
					okPath = false
				}
			}
			r.Check(okPath, key+":path", c.Pos(rs.Pos()), "keyed by fullPathStr(prefix, element path)", "the "+fld+" loop of minimalSetRequestIntent does not key its entries by fullPathStr(prefix, path of the element): different prefix splits of one request give different intents")
			// effects.
			setsDelete, populates := false, false
			ast.Inspect(rs.Body, func(m ast.Node) bool {
				if as, ok := m.(*ast.AssignStmt); ok && len(as.Lhs) == 1 {
					if ix, ok := as.Lhs[0].(*ast.IndexExpr); ok {
						if s2, ok := ast.Unparen(ix.X).(*ast.SelectorExpr); ok && s2.Sel.Name == "Deletes" && ObjOf(info, ix.Index) == pathObj {
							setsDelete = true
						}
					}
				}
				return true
			})
			for _, pu := range CallsIn(info, rs.Body, P("gnmidiff")+".setRequestIntent.populateUpdate") {
				if len(pu.Args) == 4 && ObjOf(info, pu.Args[0]) == pathObj && paramIndex(f, ObjOf(info, pu.Args[2])) == 1 && (isIfInit(c, f, pu) || errTestedAfter(c, f, rs.Body, pu)) {
					populates = true
				}
			}
			wantDel := fld == "Delete" || fld == "Replace"
			wantPop := fld == "Replace" || fld == "Update"
			r.Check(setsDelete == wantDel && populates == wantPop, key+":effects", c.Pos(rs.Pos()), fmt.Sprintf("delete=%v leaves=%v", wantDel, wantPop),
				fmt.Sprintf("the %s loop of minimalSetRequestIntent records delete=%v, leaves=%v; a %s must record delete=%v, leaves=%v (with the caller's schema, error returned)", fld, setsDelete, populates, strings.ToLower(fld), wantDel, wantPop))
			return true
		})
		for _, fld := range []string{"Delete", "Replace", "Update"} {
			if fields[fld] != 1 {
				r.Bad("gnmidiff.minimalSetRequestIntent:"+fld+":loop", c.Pos(f.Decl.Pos()), fmt.Sprintf("expected exactly one loop over req.%s, found %d", fld, fields[fld]))
			}
		}
	}
	// prefixStr / fullPathStr through PathToString.
	for _, nm := range []string{"prefixStr", "fullPathStr"} {
		if g := c.MustFunc(r, "gnmidiff", nm); g != nil {
			calls := CallsIn(g.Info(), g.Decl.Body, P("ygot")+".PathToString")
			r.Check(len(calls) == 1 && errTestedAfter(c, g, g.Decl.Body, calls[0]), "gnmidiff."+nm+":PathToString", c.Pos(g.Decl.Pos()), "path string from ygot.PathToString", nm+" no longer renders the path with ygot.PathToString")
		}
	}
	// writeUpdate conflict test.
	if g := c.MustFunc(r, "gnmidiff", "setRequestIntent.writeUpdate"); g != nil {
		gi := g.Info()
		n := 0
		for _, rs := range returnsOf(g.Decl.Body) {
			if len(rs.Results) == 1 && !isNilConst(gi, rs.Results[0]) {
				n++
				okc := false
				for _, ft := range c.FactsAt(g, rs, false) {
					if ft.Kind == "cond" && !ft.Pos && IsCall(gi, ast.Unparen(ft.Cond), "reflect.DeepEqual") {
						okc = true
					}
				}
				r.Check(okc, fmt.Sprintf("gnmidiff.setRequestIntent.writeUpdate:conflict#%d", n), c.Pos(rs.Pos()), "conflict only when !reflect.DeepEqual(new, previous)", "writeUpdate reports a conflict without having compared the two values with reflect.DeepEqual: duplicated identical updates are rejected (or the comparison can panic on slices)")
			}
		}
		stores := 0
		ast.Inspect(g.Decl.Body, func(m ast.Node) bool {
			if as, ok := m.(*ast.AssignStmt); ok && len(as.Lhs) == 1 {
				if ix, ok := as.Lhs[0].(*ast.IndexExpr); ok && paramIndex(g, ObjOf(gi, ix.Index)) == 0 && paramIndex(g, ObjOf(gi, as.Rhs[0])) == 1 {
					stores++
				}
			}
			return true
		})
		r.Check(stores == 1, "gnmidiff.setRequestIntent.writeUpdate:store", c.Pos(g.Decl.Pos()), "Updates[path] = val", "writeUpdate does not store the value under the given path")
	}
	// leaf replace == leaf update in both paths.
	if g := c.MustFunc(r, "gnmidiff", "setRequestIntent.populateUpdate"); g != nil {
		gi := g.Info()
		ok := false
		ast.Inspect(g.Decl.Body, func(m ast.Node) bool {
			if call, isCall := m.(*ast.CallExpr); isCall {
				if id, isID := call.Fun.(*ast.Ident); isID && id.Name == "delete" && len(call.Args) == 2 && paramIndex(g, ObjOf(gi, call.Args[1])) == 0 {
					for _, ft := range c.FactsAt(g, call, false) {
						if ft.Kind == "cond" && ft.Pos && (strings.Contains(types.ExprString(ft.Cond), "IsLeaf()") && strings.Contains(types.ExprString(ft.Cond), "IsLeafList()")) {
							ok = true
						}
					}
				}
			}
			return true
		})
		r.Check(ok, "gnmidiff.setRequestIntent.populateUpdate:leaf-replace", c.Pos(g.Decl.Pos()), "delete(intent.Deletes, path) when the target is a leaf or leaf-list", "with a schema, a leaf replace no longer drops its delete: it differs from the equivalent leaf update")
		// forwards errorOnOverwrite.
		fw := true
		for _, wu := range CallsIn(gi, g.Decl.Body, P("gnmidiff")+".setRequestIntent.writeUpdate", P("gnmidiff")+".populateUpdateNoSchema") {
			last := wu.Args[len(wu.Args)-1]
			if paramIndex(g, ObjOf(gi, last)) != 3 {
				fw = false
			}
		}
		r.Check(fw, "gnmidiff.setRequestIntent.populateUpdate:overwrite-flag", c.Pos(g.Decl.Pos()), "errorOnOverwrite forwarded", "populateUpdate does not forward errorOnOverwrite")
	}
	if g := c.MustFunc(r, "gnmidiff", "populateUpdateNoSchema"); g != nil {
		gi := g.Info()
		ok := false
		ast.Inspect(g.Decl.Body, func(m ast.Node) bool {
			if call, isCall := m.(*ast.CallExpr); isCall {
				if id, isID := call.Fun.(*ast.Ident); isID && id.Name == "delete" && len(call.Args) == 2 && paramIndex(g, ObjOf(gi, call.Args[1])) == 1 {
					for _, ft := range c.FactsAt(g, call, false) {
						if ft.Kind == "cond" && ft.Pos {
							if id2, isID2 := ast.Unparen(ft.Cond).(*ast.Ident); isID2 && id2.Name != "" {
								ok = true
							}
						}
					}
				}
			}
			return true
		})
		r.Check(ok, "gnmidiff.populateUpdateNoSchema:leaf-replace", c.Pos(g.Decl.Pos()), "delete(intent.Deletes, path) when the value is a leaf", "without a schema, a leaf replace no longer drops its delete")
	}
	// leaf value forms.
	if g := c.MustFunc(r, "gnmidiff", "protoLeafToJSON"); g != nil {
		gi := g.Info()
		jsonForms := map[string]bool{"string": true, "bool": true, "float64": true, "[]interface{}": true, "[]any": true}
		ts := TypeSwitches(g)
		if len(ts) != 1 {
			r.Und("gnmidiff.protoLeafToJSON:switch", c.Pos(g.Decl.Pos()), "dispatch not recognised")
		} else {
			for _, a := range ts[0].Arms {
				if a.Deflt {
					continue
				}
				for _, rs := range returnsOf(a.Node) {
					if len(rs.Results) != 2 || isNilConst(gi, rs.Results[0]) {
						continue
					}
					tv := gi.Types[rs.Results[0]]
					tname := typeShort(tv.Type)
					key := "gnmidiff.protoLeafToJSON:" + strings.Join(a.Keys, ",")
					if !jsonForms[tname] {
						r.Bad(key, c.Pos(rs.Pos()), "protoLeafToJSON returns a "+tname+", which encoding/json never produces: a JSON update and the equivalent leaf update never compare equal")
						continue
					}
					if strings.HasPrefix(tname, "[]") {
						// never nil: every definition of the returned variable allocates.
						obj := ObjOf(gi, rs.Results[0])
						alloc := obj != nil
						declared := false
						ast.Inspect(g.Decl.Body, func(m ast.Node) bool {
							switch s := m.(type) {
							case *ast.AssignStmt:
								for i, l := range s.Lhs {
									if ObjOf(gi, l) == obj {
										if _, isID := l.(*ast.Ident); !isID {
											continue
										}
										declared = true
										j := i
										if len(s.Rhs) == 1 {
											j = 0
										}
										rhs := ast.Unparen(s.Rhs[j])
										isAlloc := false
										if cc, ok := rhs.(*ast.CallExpr); ok {
											if id, ok := cc.Fun.(*ast.Ident); ok && id.Name == "make" {
												isAlloc = true
											}
										}
										if _, ok := rhs.(*ast.CompositeLit); ok {
											isAlloc = true
										}
										if !isAlloc {
											alloc = false
										}
									}
								}
							case *ast.ValueSpec:
								for i, nm := range s.Names {
									if gi.ObjectOf(nm) == obj {
										declared = true
										if i >= len(s.Values) {
											alloc = false
										}
									}
								}
							}
							return true
						})
						r.Check(alloc && declared, key, c.Pos(rs.Pos()), "slice always allocated (never nil), as encoding/json does for []",
							"protoLeafToJSON can return a nil slice for a leaf-list (e.g. an empty one): JSON `[]` decodes to an empty non-nil slice and reflect.DeepEqual(nil slice, empty slice) is false, so equal intents mismatch")
						continue
					}
					r.OK(key, c.Pos(rs.Pos()), "returns "+tname)
				}
			}
		}
	}
}

func strconvQuote(s string) string {
	if len(s) > 40 {
		s = s[:40] + "…"
	}
	return fmt.Sprintf("%q", s)
}
