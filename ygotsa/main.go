package main

import (
	"fmt"
	"os"
	"path/filepath"
	"runtime/debug"
	"sort"
	"strconv"
	"time"
)

type propFunc func(c *Ctx, r *Report)

var registry = map[string]propFunc{}

func register(id string, f propFunc) { registry[id] = f }

func verifDir() string {
	if d := os.Getenv("YGOTSA_VERIF"); d != "" {
		return d
	}
	exe, err := os.Executable()
	if err == nil {
		d := filepath.Dir(filepath.Dir(exe))
		if _, err := os.Stat(filepath.Join(d, "properties.jsonl")); err == nil {
			return d
		}
	}
	return "/verif"
}

func usage() {
	fmt.Fprintln(os.Stderr, "usage: ygotsa check <Cxx|all> [--tier quick|thorough] [--mutant name] [--no-evidence]\n       ygotsa list | mutants | selftest [Cxx]")
	os.Exit(2)
}

func main() {
	if len(os.Args) < 2 {
		usage()
	}
	switch os.Args[1] {
	case "list":
		var ids []string
		for id := range registry {
			ids = append(ids, id)
		}
		sort.Strings(ids)
		for _, id := range ids {
			fmt.Println(id)
		}
	case "mutants":
		for _, m := range mutants {
			fmt.Printf("%s\t%s\t%s\n", m.Name, m.Property, m.File)
		}
	case "explore":
		c, err := Load(nil)
		if err != nil {
			fmt.Println(err)
			os.Exit(1)
		}
		explore(c, os.Args[2])
		exploreRule(c, os.Args[2])
	case "selftest":
		prop := ""
		if len(os.Args) > 2 {
			prop = os.Args[2]
		}
		os.Exit(runMutants(prop, true))
	case "check":
		if len(os.Args) < 3 {
			usage()
		}
		prop := os.Args[2]
		tier := os.Getenv("VERIF_TIER")
		if tier == "" {
			tier = "quick"
		}
		mutant := ""
		noEv := false
		for i := 3; i < len(os.Args); i++ {
			switch os.Args[i] {
			case "--tier":
				i++
				tier = os.Args[i]
			case "--mutant":
				i++
				mutant = os.Args[i]
			case "--no-evidence":
				noEv = true
			default:
				usage()
			}
		}
		if tier != "quick" && tier != "thorough" {
			usage()
		}
		os.Exit(runCheck(prop, tier, mutant, noEv))
	default:
		usage()
	}
}

func runCheck(prop, tier, mutant string, noEv bool) (code int) {
	start := time.Now()
	seed, _ := strconv.Atoi(os.Getenv("VERIF_SEED"))
	var props []string
	if prop == "all" {
		for id := range registry {
			props = append(props, id)
		}
		sort.Strings(props)
	} else {
		if _, ok := registry[prop]; !ok {
			fmt.Printf("UNDECIDED property=%s rule=plumbing reason=no check registered\n", prop)
			return 2
		}
		props = []string{prop}
	}
	var overlay map[string][]byte
	if mutant != "" {
		m := findMutant(mutant)
		if m == nil {
			fmt.Printf("unknown mutant %s\n", mutant)
			return 2
		}
		ov, err := m.overlay()
		if err != nil {
			fmt.Printf("STALE mutant=%s: %v\n", mutant, err)
			return 3
		}
		overlay = ov
		noEv = true
	}
	c, err := Load(overlay)
	if err != nil {
		fmt.Printf("UNDECIDED property=%s rule=E1-load reason=%v\n", prop, err)
		return 1
	}
	worst := 0
	for _, id := range props {
		r := NewReport(id, tier)
		func() {
			defer func() {
				if e := recover(); e != nil {
					r.Rule("analyser-panic", "the analyser must not panic", 0)
					r.Und("panic", "-", fmt.Sprintf("%v\n%s", e, debug.Stack()))
				}
			}()
			registry[id](c, r)
		}()
		st := map[string]any{}
		for k, v := range c.stats {
			st[k] = v
		}
		if tier == "thorough" && mutant == "" {
			// thorough: also show the analyser fires on every overlay mutant of this property
			// (tests the analyser, not the property: a miss is reported, never a VIOLATION).
			runMutants(id, false)
			fired := 0
			for _, m := range lastMutantResults {
				if m.Status == "fired" {
					fired++
				}
			}
			r.extra["overlay_mutants"] = lastMutantResults
			r.extra["overlay_mutants_fired"] = fired
		}
		rc := r.Finish(finishOpts{verifDir: verifDir(), noEvidence: noEv, start: start, seed: seed, stats: st})
		if rc > worst {
			worst = rc
		}
	}
	return worst
}
