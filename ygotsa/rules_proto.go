package main

import (
	"fmt"
	"go/ast"
	"go/constant"
	"go/token"
	"go/types"
	"math"
	"os"
	"path/filepath"
	"regexp"
	"sort"
	"strconv"
	"strings"
)

// ---- interval sets over uint64 -----------------------------------------------------------

type ival struct{ lo, hi uint64 } // inclusive
type iset []ival

func (s iset) norm() iset {
	if len(s) == 0 {
		return nil
	}
	sort.Slice(s, func(i, j int) bool { return s[i].lo < s[j].lo })
	out := iset{s[0]}
	for _, v := range s[1:] {
		last := &out[len(out)-1]
		if v.lo <= last.hi || (last.hi != math.MaxUint64 && v.lo == last.hi+1) {
			if v.hi > last.hi {
				last.hi = v.hi
			}
		} else {
			out = append(out, v)
		}
	}
	return out
}

func (s iset) union(t iset) iset { return append(append(iset{}, s...), t...).norm() }

func (s iset) complement(dom ival) iset {
	s = s.norm()
	var out iset
	cur := dom.lo
	done := false
	for _, v := range s {
		if v.hi < dom.lo || v.lo > dom.hi {
			continue
		}
		if v.lo > cur {
			out = append(out, ival{cur, v.lo - 1})
		}
		if v.hi >= dom.hi {
			done = true
			break
		}
		cur = v.hi + 1
	}
	if !done && cur <= dom.hi {
		out = append(out, ival{cur, dom.hi})
	}
	return out
}

func (s iset) intersect(t iset, dom ival) iset {
	return s.complement(dom).union(t.complement(dom)).complement(dom)
}

func (s iset) String() string {
	var p []string
	for _, v := range s {
		p = append(p, fmt.Sprintf("[%d,%d]", v.lo, v.hi))
	}
	return strings.Join(p, "∪")
}

func (s iset) contains(x uint64) bool {
	for _, v := range s {
		if v.lo <= x && x <= v.hi {
			return true
		}
	}
	return false
}

// condSet evaluates a boolean expression over the single variable obj (compared with constants)
// to the set of values within dom for which it is true. ok=false if the shape is not understood.
func condSet(info *types.Info, e ast.Expr, obj types.Object, dom ival) (iset, bool) {
	e = ast.Unparen(e)
	switch x := e.(type) {
	case *ast.UnaryExpr:
		if x.Op == token.NOT {
			s, ok := condSet(info, x.X, obj, dom)
			return s.complement(dom), ok
		}
	case *ast.BinaryExpr:
		switch x.Op {
		case token.LOR:
			a, ok1 := condSet(info, x.X, obj, dom)
			b, ok2 := condSet(info, x.Y, obj, dom)
			return a.union(b), ok1 && ok2
		case token.LAND:
			a, ok1 := condSet(info, x.X, obj, dom)
			b, ok2 := condSet(info, x.Y, obj, dom)
			return a.intersect(b, dom), ok1 && ok2
		case token.LSS, token.LEQ, token.GTR, token.GEQ, token.EQL, token.NEQ:
			op := x.Op
			var cv constant.Value
			if ObjOf(info, x.X) == obj {
				if tv, ok := info.Types[x.Y]; ok && tv.Value != nil {
					cv = tv.Value
				}
			} else if ObjOf(info, x.Y) == obj {
				if tv, ok := info.Types[x.X]; ok && tv.Value != nil {
					cv = tv.Value
					// flip
					switch op {
					case token.LSS:
						op = token.GTR
					case token.LEQ:
						op = token.GEQ
					case token.GTR:
						op = token.LSS
					case token.GEQ:
						op = token.LEQ
					}
				}
			}
			if cv == nil {
				return nil, false
			}
			k, exact := constant.Uint64Val(constant.ToInt(cv))
			if !exact {
				return nil, false
			}
			var s iset
			switch op {
			case token.LSS:
				if k > 0 {
					s = iset{{0, k - 1}}
				}
			case token.LEQ:
				s = iset{{0, k}}
			case token.GTR:
				if k < math.MaxUint64 {
					s = iset{{k + 1, math.MaxUint64}}
				}
			case token.GEQ:
				s = iset{{k, math.MaxUint64}}
			case token.EQL:
				s = iset{{k, k}}
			case token.NEQ:
				s = iset{{k, k}}.complement(ival{0, math.MaxUint64})
			}
			return s.intersect(iset{dom}, ival{0, math.MaxUint64}), true
		}
	}
	return nil, false
}

// ruleTagInterval: R-INTERVAL on protogen.fieldTag.
func ruleTagInterval(c *Ctx, r *Report) {
	r.Rule("R-INTERVAL", "every value protogen.fieldTag can return without re-hashing lies in [1, 2^29-1] \\ [19000, 19999]: the hash is masked to 29 bits and every excluded value leads to the re-hash branch (interval evaluation of the function's comparisons)", 3)
	f := c.MustFunc(r, "protogen", "fieldTag")
	if f == nil {
		return
	}
	info := f.Info()
	// v := <hash> & MASK
	var vObj types.Object
	dom := ival{0, math.MaxUint32}
	masked := false
	ast.Inspect(f.Decl.Body, func(n ast.Node) bool {
		as, ok := n.(*ast.AssignStmt)
		if !ok || len(as.Lhs) != 1 || len(as.Rhs) != 1 {
			return true
		}
		be, ok := ast.Unparen(as.Rhs[0]).(*ast.BinaryExpr)
		if !ok || be.Op != token.AND {
			return true
		}
		for _, side := range []ast.Expr{be.X, be.Y} {
			if tv, ok := info.Types[side]; ok && tv.Value != nil {
				if k, exact := constant.Uint64Val(constant.ToInt(tv.Value)); exact {
					vObj = ObjOf(info, as.Lhs[0])
					dom = ival{0, k}
					masked = true
				}
			}
		}
		return true
	})
	if vObj == nil {
		r.Und("protogen.fieldTag:mask", c.Pos(f.Decl.Pos()), "no `v := hash & const` found: the value range of the tag cannot be bounded")
		return
	}
	r.Check(masked && dom.hi <= (1<<29)-1, "protogen.fieldTag:mask", c.Pos(f.Decl.Pos()), fmt.Sprintf("hash masked to [0,%d]", dom.hi),
		fmt.Sprintf("fieldTag masks the hash to [0,%d], which exceeds the largest protobuf field number 2^29-1", dom.hi))
	// returns of v: collect the set of v under which each is reached.
	var ret iset
	nret := 0
	undecided := false
	for _, rs := range returnsOf(f.Decl.Body) {
		if len(rs.Results) != 2 || ObjOf(info, rs.Results[0]) != vObj {
			continue
		}
		nret++
		cur := iset{dom}
		for _, ft := range c.FactsAt(f, rs, false) {
			if ft.Kind != "cond" || !mentionsObj(info, ft.Cond, vObj) {
				continue
			}
			s, ok := condSet(info, ft.Cond, vObj, dom)
			if !ok {
				undecided = true
				continue
			}
			if !ft.Pos {
				s = s.complement(dom)
			}
			cur = cur.intersect(s, dom)
		}
		ret = ret.union(cur)
	}
	if nret == 0 || undecided {
		r.Und("protogen.fieldTag:returned-set", c.Pos(f.Decl.Pos()), "returns of the hashed value not found or guarded by comparisons the interval evaluator does not understand")
		return
	}
	allowed := iset{{1, 18999}, {20000, (1 << 29) - 1}}
	bad := ret.intersect(allowed.complement(ival{0, math.MaxUint64}), ival{0, math.MaxUint64})
	r.Check(len(bad) == 0, "protogen.fieldTag:returned-set", c.Pos(f.Decl.Pos()), "returned set "+ret.String()+" ⊆ [1,18999]∪[20000,2^29-1]",
		"fieldTag can return a value in "+bad.String()+" (returned set "+ret.String()+"): 0 and 19000-19999 are not valid protobuf field numbers, values above 2^29-1 neither")
	// reserved low range kept for explicit tags.
	r.Check(!ret.contains(1) && !ret.contains(1000), "protogen.fieldTag:explicit-range", c.Pos(f.Decl.Pos()), "1..1000 never produced by hashing (reserved for explicit key tags)",
		"fieldTag can return a value in 1..1000, which genListKeyProto allocates explicitly: a hashed tag may collide with an explicit one")
	// the re-hash branch recurses on a different string.
	rec := CallsIn(info, f.Decl.Body, P("protogen")+".fieldTag")
	okRec := len(rec) >= 1
	for _, call := range rec {
		if len(call.Args) != 1 || !mentionsParam(f, call.Args[0], 0) || ObjOf(info, call.Args[0]) != nil && paramIndex(f, ObjOf(info, call.Args[0])) == 0 {
			okRec = false
		}
	}
	if len(rec) == 0 {
		// iterative form: the hashed string is a loop variable that starts as the input and is
		// extended on every further round of a loop that encloses the hashing.
		okRec = false
		pm := c.parentMap(f.File)
		for _, w := range CallsIn(info, f.Decl.Body, "hash.Hash32.Write", "hash.Hash.Write", "io.Writer.Write") {
			if len(w.Args) != 1 {
				continue
			}
			var hashed types.Object
			ast.Inspect(w.Args[0], func(m ast.Node) bool {
				if id, ok := m.(*ast.Ident); ok && hashed == nil {
					if v, isVar := info.ObjectOf(id).(*types.Var); isVar && paramIndex(f, v) < 0 {
						if b, isB := v.Type().Underlying().(*types.Basic); isB && b.Kind() == types.String {
							hashed = v
						}
					}
				}
				return true
			})
			if hashed == nil {
				continue
			}
			var loop *ast.ForStmt
			for p := pm[w]; p != nil; p = pm[p] {
				if fs, ok := p.(*ast.ForStmt); ok {
					loop = fs
					break
				}
			}
			if loop == nil {
				continue
			}
			fromInput, extended := false, false
			ast.Inspect(loop, func(m ast.Node) bool {
				as, ok := m.(*ast.AssignStmt)
				if !ok || len(as.Lhs) != 1 || len(as.Rhs) != 1 || ObjOf(info, as.Lhs[0]) != hashed {
					return true
				}
				switch {
				case as.Tok == token.DEFINE || (as.Tok == token.ASSIGN && !mentionsObj(info, as.Rhs[0], hashed)):
					if mentionsParam(f, as.Rhs[0], 0) {
						fromInput = true
					}
				case as.Tok == token.ADD_ASSIGN:
					if v, ok := ConstOf(info, as.Rhs[0]); ok && v != `""` {
						extended = true
					}
				case as.Tok == token.ASSIGN && mentionsObj(info, as.Rhs[0], hashed):
					extended = true
				}
				return true
			})
			if fromInput && extended {
				okRec = true
			}
		}
	}
	r.Check(okRec, "protogen.fieldTag:rehash", c.Pos(f.Decl.Pos()), "re-hashes a string derived from (and different from) the input", "the re-hash branch of fieldTag does not derive a new string from its input")
}

// stringOnlySlice: the backward slice of e (through local definitions) contains only string-typed
// operands, constants, and calls of pure string functions — no integer-typed operands such as
// counters, lengths or indices.
func stringOnlySlice(f *FuncInfo, e ast.Expr, depth int, why *string) bool {
	info := f.Info()
	e = ast.Unparen(e)
	if depth > 8 {
		*why = "slice too deep"
		return false
	}
	if tv, ok := info.Types[e]; ok && tv.Value != nil {
		return true
	}
	switch x := e.(type) {
	case *ast.BasicLit:
		return true
	case *ast.Ident:
		obj := info.ObjectOf(x)
		if obj == nil {
			return true
		}
		if _, isConst := obj.(*types.Const); isConst {
			return true
		}
		if b, ok := obj.Type().Underlying().(*types.Basic); ok && b.Info()&types.IsString == 0 {
			*why = "non-string operand " + x.Name
			return false
		}
		if paramIndex(f, obj) >= 0 {
			return true
		}
		okAll := true
		ast.Inspect(f.Decl.Body, func(n ast.Node) bool {
			switch s := n.(type) {
			case *ast.AssignStmt:
				for i, l := range s.Lhs {
					if id, isID := l.(*ast.Ident); isID && info.ObjectOf(id) == obj {
						j := i
						if len(s.Rhs) == 1 {
							j = 0
						}
						if s.Tok == token.ADD_ASSIGN || !stringOnlySlice(f, s.Rhs[j], depth+1, why) {
							okAll = false
						}
					}
				}
			case *ast.RangeStmt:
				// range variables over slices/maps of the IR: elements are IR data; the key of a slice is an index.
				if s.Key != nil && ObjOf(info, s.Key) == obj {
					if _, isMap := info.Types[s.X].Type.Underlying().(*types.Map); !isMap {
						*why = "range index " + x.Name
						okAll = false
					}
				}
			}
			return okAll
		})
		return okAll
	case *ast.SelectorExpr:
		if tv, ok := info.Types[x]; ok {
			if b, isB := tv.Type.Underlying().(*types.Basic); isB && b.Info()&types.IsString == 0 {
				*why = "non-string field " + x.Sel.Name
				return false
			}
		}
		return true // a field of IR data
	case *ast.IndexExpr:
		if !stringOnlySlice(f, x.X, depth+1, why) {
			return false
		}
		// an index expression selects by position: position-dependent unless the index is constant or derived from len-1 of the same value (last element).
		return true
	case *ast.BinaryExpr:
		if x.Op != token.ADD {
			*why = "operator " + x.Op.String()
			return false
		}
		return stringOnlySlice(f, x.X, depth+1, why) && stringOnlySlice(f, x.Y, depth+1, why)
	case *ast.CallExpr:
		fn := FullName(Callee(info, x))
		switch fn {
		case "fmt.Sprintf", "fmt.Sprint", "strings.ToLower", "strings.ToUpper", "strings.Join", "strings.TrimPrefix", "strings.TrimSuffix", "strings.Split", "strings.ReplaceAll", "strings.Replace",
			modPath + "/protogen.safeProtoIdentifierName", "github.com/openconfig/goyang/pkg/yang.CamelCase":
			for _, a := range x.Args {
				if !stringOnlySlice(f, a, depth+1, why) {
					return false
				}
			}
			return true
		}
		*why = "call of " + short(fn)
		return false
	}
	*why = fmt.Sprintf("unrecognised operand %T", e)
	return false
}

// ruleTagPure: R-TAG-PURE.
func ruleTagPure(c *Ctx, r *Report) {
	r.Rule("R-TAG-PURE", "every string hashed into a field number / identity value is computed only from schema paths and names (string-typed IR fields, constants, pure string functions): no counter, length, index or other position-dependent operand, so numbers are stable across runs and unrelated schema changes", 3)
	n := 0
	for _, f := range c.AllFuncs("protogen") {
		if f.Name == "protogen.fieldTag" {
			continue
		}
		info := f.Info()
		for i, call := range CallsIn(info, f.Decl.Body, P("protogen")+".fieldTag") {
			n++
			why := ""
			ok := len(call.Args) == 1 && stringOnlySlice(f, call.Args[0], 0, &why)
			r.Check(ok, fmt.Sprintf("%s:fieldTag-arg#%d", f.Name, i+1), c.Pos(call.Pos()), "argument built from schema strings only: "+exprKey(call.Args[0]),
				fmt.Sprintf("%s hashes a string that depends on %s: the resulting field number changes with unrelated schema changes or between runs", f.Name, why))
		}
	}
	// all hashed tags originate in fieldTag: Tag fields are assigned only from fieldTag results or the explicit key counter.
	for _, f := range c.AllFuncs("protogen") {
		info := f.Info()
		k := 0
		check := func(v ast.Expr, pos token.Pos) {
			k++
			src := tagSource(f, v, 0)
			r.Check(src != "", fmt.Sprintf("%s:Tag-value#%d", f.Name, k), c.Pos(pos), "tag from "+src,
				f.Name+" sets a field number that is neither a fieldTag/protoTagForEntry result nor the explicit key counter")
		}
		ast.Inspect(f.Decl.Body, func(n ast.Node) bool {
			switch x := n.(type) {
			case *ast.CompositeLit:
				if namedTypeOf(info.Types[x].Type) != P("protogen")+".protoMsgField" {
					return true
				}
				for _, el := range x.Elts {
					if kv, ok := el.(*ast.KeyValueExpr); ok {
						if id, ok := kv.Key.(*ast.Ident); ok && id.Name == "Tag" {
							check(kv.Value, kv.Pos())
						}
					}
				}
			case *ast.AssignStmt:
				for i, l := range x.Lhs {
					if sel, ok := l.(*ast.SelectorExpr); ok && sel.Sel.Name == "Tag" && namedTypeOf(info.Types[sel.X].Type) == P("protogen")+".protoMsgField" && i < len(x.Rhs) {
						check(x.Rhs[i], x.Pos())
					}
				}
			}
			return true
		})
	}
}

// tagSource classifies the origin of a Tag value.
func tagSource(f *FuncInfo, e ast.Expr, depth int) string {
	info := f.Info()
	e = ast.Unparen(e)
	if depth > 4 {
		return ""
	}
	switch x := e.(type) {
	case *ast.CallExpr:
		if IsCall(info, x, P("protogen")+".fieldTag", P("protogen")+".protoTagForEntry") {
			return ShortName(Callee(info, x))
		}
	case *ast.Ident:
		obj := info.ObjectOf(x)
		src := ""
		counter := false
		ast.Inspect(f.Decl.Body, func(n ast.Node) bool {
			switch s := n.(type) {
			case *ast.AssignStmt:
				for i, l := range s.Lhs {
					if ObjOf(info, l) == obj {
						if _, isID := l.(*ast.Ident); !isID {
							continue
						}
						j := i
						if len(s.Rhs) == 1 {
							j = 0
						}
						if v := tagSource(f, s.Rhs[j], depth+1); v != "" {
							src = v
						} else if tv, ok := info.Types[s.Rhs[j]]; ok && tv.Value != nil {
							src = "explicit counter starting at " + tv.Value.ExactString()
							counter = true
						} else if cc, ok := ast.Unparen(s.Rhs[j]).(*ast.CallExpr); ok && len(cc.Args) == 1 {
							if tv, ok := info.Types[cc.Args[0]]; ok && tv.Value != nil {
								src = "explicit counter starting at " + tv.Value.ExactString()
								counter = true
							}
						}
					}
				}
			}
			return true
		})
		_ = counter
		return src
	}
	return ""
}

// ruleTagUniq: R-TAG-UNIQ.
func ruleTagUniq(c *Ctx, r *Report) {
	r.Rule("R-TAG-UNIQ", "hashed numbers can collide, so every message is checked for repeated field numbers (including oneof members) before it is rendered, identity values are checked before being stored, and a collision is an error; protoMessageTemplate is executed at that single checked site only; explicit key tags increase by one per emitted key field", 6)
	f := c.MustFunc(r, "protogen", "genProto3MsgCode")
	if f != nil {
		info := f.Info()
		ex := 0
		for _, call := range CallsIn(info, f.Decl.Body, "text/template.Template.Execute") {
			if sel, ok := call.Fun.(*ast.SelectorExpr); !ok || QualObj(ObjOf(info, sel.X)) != P("protogen")+".protoMessageTemplate" {
				continue
			}
			ex++
			datum := ObjOf(info, call.Args[1])
			// a preceding `if err := checkUniqueFieldTags(datum); err != nil { <terminating> }` in the same loop body.
			okc := false
			for _, chk := range CallsIn(info, f.Decl.Body, P("protogen")+".checkUniqueFieldTags") {
				if chk.Pos() < call.Pos() && len(chk.Args) == 1 && ObjOf(info, chk.Args[0]) == datum && c.EnclosingLoop(f, chk) == c.EnclosingLoop(f, call) &&
					(isIfInit(c, f, chk) || errTestedAfter(c, f, f.Decl.Body, chk)) && len(c.factsWithin(f, chk, f.Decl.Body)) == 0 {
					okc = true
				}
			}
			r.Check(okc, fmt.Sprintf("protogen.genProto3MsgCode:render#%d:checked", ex), c.Pos(call.Pos()), "message checked for repeated field numbers before rendering; a collision skips rendering with an error",
				"genProto3MsgCode renders a message without first rejecting repeated field numbers: two sibling fields whose paths hash alike are emitted with the same number")
		}
		if ex == 0 {
			r.Und("protogen.genProto3MsgCode:render", c.Pos(f.Decl.Pos()), "execution of protoMessageTemplate not found")
		}
		// errors collected in the loop are returned.
		retErrs := false
		for _, rs := range returnsOf(f.Decl.Body) {
			if len(rs.Results) == 2 && isNilConst(info, rs.Results[0]) {
				if id, ok := rs.Results[1].(*ast.Ident); ok && id.Name != "" {
					for _, ft := range c.FactsAt(f, rs, false) {
						if ft.Kind == "cond" && ft.Pos && mentionsObj(info, ft.Cond, info.ObjectOf(id)) {
							retErrs = true
						}
					}
				}
			}
		}
		r.Check(retErrs, "protogen.genProto3MsgCode:errors-returned", c.Pos(f.Decl.Pos()), "collected errors are returned instead of the code", "genProto3MsgCode does not return the errors it collected: an invalid message is silently dropped or emitted")
	}
	// single execution site of the message template.
	n := 0
	for _, g := range c.AllFuncs("protogen") {
		gi := g.Info()
		for _, call := range CallsIn(gi, g.Decl.Body, "text/template.Template.Execute", "text/template.Template.ExecuteTemplate") {
			if sel, ok := call.Fun.(*ast.SelectorExpr); ok && QualObj(ObjOf(gi, sel.X)) == P("protogen")+".protoMessageTemplate" && g.Name != "protogen.genProto3MsgCode" {
				n++
				r.Bad(fmt.Sprintf("%s:renders-message#%d", g.Name, n), c.Pos(call.Pos()), g.Name+" executes protoMessageTemplate outside the checked site genProto3MsgCode")
			}
		}
	}
	if n == 0 {
		r.OK("protogen:message-template:single-site", "-", "protoMessageTemplate is executed only in genProto3MsgCode")
	}
	// the checker itself.
	if g := c.MustFunc(r, "protogen", "checkUniqueFieldTags"); g != nil {
		gi := g.Info()
		lookup, store, oneof, errRet := false, false, false, false
		ast.Inspect(g.Decl.Body, func(n ast.Node) bool {
			switch x := n.(type) {
			case *ast.AssignStmt:
				if len(x.Lhs) == 2 && len(x.Rhs) == 1 {
					if ix, ok := ast.Unparen(x.Rhs[0]).(*ast.IndexExpr); ok && isTagSel(gi, ix.Index) {
						lookup = true
					}
				}
				if len(x.Lhs) == 1 {
					if ix, ok := x.Lhs[0].(*ast.IndexExpr); ok && isTagSel(gi, ix.Index) {
						store = true
					}
				}
			case *ast.SelectorExpr:
				if x.Sel.Name == "OneOfFields" {
					oneof = true
				}
			case *ast.ReturnStmt:
				if len(x.Results) == 1 && IsCall(gi, x.Results[0], "fmt.Errorf") {
					errRet = true
				}
			}
			return true
		})
		r.Check(lookup && store && oneof && errRet, "protogen.checkUniqueFieldTags:shape", c.Pos(g.Decl.Pos()), "looks each Tag up in a seen-set, records it, descends into OneOfFields, errors on a hit",
			"checkUniqueFieldTags no longer looks up and records every field number (including oneof members) with an error on repetition")
	}
	// identity enum values.
	if g := c.MustFunc(r, "protogen", "writeProtoEnums"); g != nil {
		gi := g.Info()
		k := 0
		ast.Inspect(g.Decl.Body, func(n ast.Node) bool {
			as, ok := n.(*ast.AssignStmt)
			if !ok || len(as.Lhs) != 1 {
				return true
			}
			ix, ok := as.Lhs[0].(*ast.IndexExpr)
			if !ok {
				return true
			}
			if _, isMap := gi.Types[ix.X].Type.Underlying().(*types.Map); !isMap || tagSource(g, stripConv(gi, ix.Index), 0) == "" {
				return true
			}
			k++
			// dominated by a failed lookup of the same key in the same map.
			okl := false
			for _, ft := range c.FactsAt(g, as, false) {
				if ft.Kind == "cond" && !ft.Pos {
					if id, isID := ast.Unparen(ft.Cond).(*ast.Ident); isID {
						ast.Inspect(g.Decl.Body, func(m ast.Node) bool {
							if a2, ok := m.(*ast.AssignStmt); ok && len(a2.Lhs) == 2 && len(a2.Rhs) == 1 && ObjOf(gi, a2.Lhs[1]) == gi.ObjectOf(id) {
								if ix2, ok := ast.Unparen(a2.Rhs[0]).(*ast.IndexExpr); ok && sameExpr(gi, ix2.X, ix.X) && sameExpr(gi, ix2.Index, ix.Index) {
									okl = true
								}
							}
							return true
						})
					}
				}
			}
			r.Check(okl, fmt.Sprintf("protogen.writeProtoEnums:identity-value-store#%d", k), c.Pos(as.Pos()), "stored only after a failed lookup of the same value; a hit is an error",
				"writeProtoEnums stores an identity under its hashed value without checking that the value is free: two identities with equal hashes silently overwrite each other (one disappears from the enum)")
			return true
		})
		if k == 0 {
			r.Und("protogen.writeProtoEnums:identity-value-store", c.Pos(g.Decl.Pos()), "store of hashed identity values not found")
		}
	}
	// explicit key tags.
	if g := c.MustFunc(r, "protogen", "genListKeyProto"); g != nil {
		gi := g.Info()
		var ctag types.Object
		var lits []*ast.CompositeLit
		ast.Inspect(g.Decl.Body, func(n ast.Node) bool {
			if cl, ok := n.(*ast.CompositeLit); ok && namedTypeOf(gi.Types[cl].Type) == P("protogen")+".protoMsgField" {
				for _, el := range cl.Elts {
					if kv, ok := el.(*ast.KeyValueExpr); ok {
						if id, ok := kv.Key.(*ast.Ident); ok && id.Name == "Tag" {
							if o := ObjOf(gi, kv.Value); o != nil {
								ctag = o
								lits = append(lits, cl)
							}
						}
					}
				}
			}
			return true
		})
		if ctag == nil || len(lits) < 2 {
			r.Und("protogen.genListKeyProto:counter", c.Pos(g.Decl.Pos()), "explicit tag counter not found")
		} else {
			// inside the key loop: exactly one increment, at the top level of the loop body, after the literal, and no `continue` after the literal.
			var loop *ast.RangeStmt
			if l, ok := c.EnclosingLoop(g, lits[0]).(*ast.RangeStmt); ok {
				loop = l
			}
			okInc := false
			if loop != nil {
				incs := 0
				for _, s := range loop.Body.List {
					if inc, ok := s.(*ast.IncDecStmt); ok && inc.Tok == token.INC && ObjOf(gi, inc.X) == ctag && inc.Pos() > lits[0].Pos() {
						incs++
					}
				}
				other := 0
				ast.Inspect(g.Decl.Body, func(n ast.Node) bool {
					switch s := n.(type) {
					case *ast.IncDecStmt:
						if ObjOf(gi, s.X) == ctag {
							other++
						}
					case *ast.AssignStmt:
						for _, l := range s.Lhs {
							if ObjOf(gi, l) == ctag && s.Tok != token.DEFINE {
								other += 2
							}
						}
					}
					return true
				})
				conts := 0
				for _, b := range branchStmts(loop.Body, token.CONTINUE) {
					if b.Pos() > lits[0].Pos() {
						conts++
					}
				}
				okInc = incs == 1 && other == 1 && conts == 0 && c.EnclosingLoop(g, lits[len(lits)-1]) == nil
			}
			r.Check(okInc, "protogen.genListKeyProto:counter", c.Pos(lits[0].Pos()), "one unconditional increment per key field; the list member takes the next number",
				"the explicit tag counter of genListKeyProto is not incremented exactly once per emitted key field: two fields of the key message can share a number")
		}
		// (The former obligation that the list-name/key-name clash guard compares the emitted names
		// was withdrawn: since fix 8c52ef3d every field of the key message is named through the
		// message's set of used names (R-PROTO-SCOPE obligation 8), so a missed rename can no
		// longer produce a duplicate field name, and the guard only decides a naming style.)
	}
}

func isTagSel(info *types.Info, e ast.Expr) bool {
	sel, ok := ast.Unparen(e).(*ast.SelectorExpr)
	return ok && sel.Sel.Name == "Tag"
}

// stripConv removes a type conversion T(x).
func stripConv(info *types.Info, e ast.Expr) ast.Expr {
	if call, ok := ast.Unparen(e).(*ast.CallExpr); ok && len(call.Args) == 1 {
		if tv, ok := info.Types[call.Fun]; ok && tv.IsType() {
			return call.Args[0]
		}
	}
	return e
}

// ---- R-PROTO on the golden corpus ---------------------------------------------------------

var (
	protoOpenRe  = regexp.MustCompile(`^\s*(message|enum|oneof)\s+(\w+)\s*\{`)
	protoFieldRe = regexp.MustCompile(`^\s*(?:repeated\s+)?[\w.]+\s+(\w+)\s*=\s*(-?\d+)\s*(\[.*\])?;`)
	protoEnumRe  = regexp.MustCompile(`^\s*(\w+)\s*=\s*(-?\d+)\s*(\[.*\])?;`)
)

// ruleProtoCorpus: R-PROTO — the generated .proto goldens the test-suite pins the generator to.
func ruleProtoCorpus(c *Ctx, r *Report) {
	r.Rule("R-PROTO", "in every golden .proto under protogen/testdata/proto (the byte-exact images of generator output the suite compares against): per message, field names and numbers (oneof members included) are distinct, numbers lie in [1,2^29-1]\\[19000,19999]; per enum, value names and numbers are distinct and the first value is 0; type names are distinct within their message or file and enum value names within the scope their enums share; braces balance and the file declares proto3", 40)
	dir := filepath.Join(repoDir(), "protogen", "testdata", "proto")
	files, _ := filepath.Glob(filepath.Join(dir, "*.formatted-txt"))
	sort.Strings(files)
	if len(files) == 0 {
		r.Und("protogen/testdata/proto", "-", "no golden .proto files found")
		return
	}
	type scope struct {
		kind, name string
		names      map[string]bool
		nums       map[int64]bool
		first      bool
	}
	nmsg, nfield := 0, 0
	for _, fn := range files {
		b, err := os.ReadFile(fn)
		if err != nil {
			r.Und("golden:"+filepath.Base(fn), "-", err.Error())
			continue
		}
		rel := relpos(fn)
		var stack []*scope
		var problems []string
		typeNames := map[string]map[string]bool{}
		valueNames := map[string]map[string]string{}
		enclOf := map[int]string{}
		src := string(b)
		isWhole := strings.Contains(src, "syntax = ")
		if isWhole && !strings.Contains(src, `syntax = "proto3";`) {
			problems = append(problems, "does not declare proto3")
		}
		for ln, l := range strings.Split(src, "\n") {
			t := strings.TrimSpace(l)
			if strings.HasPrefix(t, "//") {
				continue
			}
			if m := protoOpenRe.FindStringSubmatch(l); m != nil {
				// type names share the namespace of the enclosing message (or of the file).
				if m[1] == "message" || m[1] == "enum" {
					encl := "file"
					for i := len(stack) - 1; i >= 0; i-- {
						if stack[i].kind == "message" {
							encl = fmt.Sprintf("message %s@%p", stack[i].name, stack[i])
							break
						}
					}
					if typeNames[encl] == nil {
						typeNames[encl] = map[string]bool{}
					}
					if typeNames[encl][m[2]] {
						problems = append(problems, fmt.Sprintf("%s: type name %s declared twice", strings.SplitN(encl, "@", 2)[0], m[2]))
					}
					typeNames[encl][m[2]] = true
					enclOf[len(stack)] = encl
				}
				stack = append(stack, &scope{kind: m[1], name: m[2], names: map[string]bool{}, nums: map[int64]bool{}, first: true})
				if m[1] == "message" {
					nmsg++
				}
				continue
			}
			if t == "}" {
				if len(stack) == 0 {
					problems = append(problems, fmt.Sprintf("line %d: unbalanced }", ln+1))
					continue
				}
				stack = stack[:len(stack)-1]
				continue
			}
			if len(stack) == 0 {
				continue
			}
			top := stack[len(stack)-1]
			if top.kind == "enum" {
				m := protoEnumRe.FindStringSubmatch(l)
				if m == nil {
					continue
				}
				n, _ := strconv.ParseInt(m[2], 10, 64)
				if top.first && n != 0 {
					problems = append(problems, fmt.Sprintf("enum %s: first value %s = %d, must be 0", top.name, m[1], n))
				}
				top.first = false
				if top.names[m[1]] {
					problems = append(problems, fmt.Sprintf("enum %s: duplicate value name %s", top.name, m[1]))
				} else {
					// enum value names are scoped like the enum itself (C++ rules): siblings of
					// every value of every enum declared in the same message or file.
					encl := enclOf[len(stack)-1]
					if valueNames[encl] == nil {
						valueNames[encl] = map[string]string{}
					}
					if other, ok := valueNames[encl][m[1]]; ok && other != top.name {
						problems = append(problems, fmt.Sprintf("%s: enum value name %s is declared by enums %s and %s, which share one scope", strings.SplitN(encl, "@", 2)[0], m[1], other, top.name))
					}
					valueNames[encl][m[1]] = top.name
				}
				if top.nums[n] {
					problems = append(problems, fmt.Sprintf("enum %s: duplicate value number %d", top.name, n))
				}
				top.names[m[1]], top.nums[n] = true, true
				continue
			}
			m := protoFieldRe.FindStringSubmatch(l)
			if m == nil {
				continue
			}
			var ms *scope
			for i := len(stack) - 1; i >= 0; i-- {
				if stack[i].kind == "message" {
					ms = stack[i]
					break
				}
			}
			if ms == nil {
				continue
			}
			nfield++
			n, _ := strconv.ParseInt(m[2], 10, 64)
			if ms.names[m[1]] {
				problems = append(problems, fmt.Sprintf("message %s: duplicate field name %s", ms.name, m[1]))
			}
			if ms.nums[n] {
				problems = append(problems, fmt.Sprintf("message %s: duplicate field number %d", ms.name, n))
			}
			if n < 1 || n > (1<<29)-1 || (n >= 19000 && n <= 19999) {
				problems = append(problems, fmt.Sprintf("message %s: field %s has invalid number %d", ms.name, m[1], n))
			}
			ms.names[m[1]], ms.nums[n] = true, true
			if top.kind == "oneof" {
				if ms.names["oneof:"+top.name+":"+m[1]] {
					problems = append(problems, "duplicate oneof member")
				}
			}
		}
		if len(stack) != 0 {
			problems = append(problems, "unbalanced braces at end of file")
		}
		r.Check(len(problems) == 0, "golden:"+filepath.Base(fn), rel, "well-formed", strings.Join(problems, "; "))
	}
	c.stats["proto_golden_files"] = len(files)
	c.stats["proto_golden_messages"] = nmsg
	c.stats["proto_golden_fields"] = nfield
}
