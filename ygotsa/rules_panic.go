package main

import (
	"fmt"
	"go/ast"
	"go/token"
	"go/types"
	"strings"
)

var c20Entries = []string{"ytypes:Unmarshal", "ytypes:SetNode", "ytypes:GetNode", "ytypes:DeleteNode", "ytypes:UnmarshalSetRequest", "ytypes:UnmarshalNotifications",
	"ygot:StringToPath", "gnmidiff:DiffSetRequest", "gnmidiff:DiffSetRequestToNotifications"}

// assertExceptions: single-result assertions whose operand is built by the library itself, not by
// input. Keyed by function + asserted type; one line of reason each.
var assertExceptions = map[string]string{
	"util.DbgPrint|string":                                   "debug helper; only reached when the compile-time debug flag is true",
	"ytypes.checkDataTreeAgainstPaths|map[string]interface{}": "operand is the trie this function builds from struct-tag paths, not the JSON input",
	"ygot.mapValuePairsToJSON|[]any":                         "operand is a local initialised in the same jType arm as a []any literal",
	"ygot.mapValuePairsToJSON|map[string]any":                "operand is a local initialised in the same jType arm as a map literal",
	"ygot.structJSON|map[string]any":                         "operand is the output map this function builds (inner nodes are always maps)",
	"ygot.jsonAnnotationSlice|ygot.Annotation":               "caller dispatches here only when the slice element type implements Annotation",
	"ygot.appendTypedValue|uint64":                           "arm lists reflect.Uint64 and reflect.Uint; generated GoStructs never contain Go's platform-sized uint, so only uint64 reaches it",
}

// encPair is set by the property registration before ruleAssert runs (nil: pairing not used).
var encPair *encPairing

// canonFunc maps a FuncInfo (possibly a different instance for the same declaration) to the one used by ep.
func (c *Ctx) canonFunc(ep *encPairing, f *FuncInfo) *FuncInfo {
	for _, g := range ep.funcs {
		if g.Decl == f.Decl {
			return g
		}
	}
	return f
}

func ruleAssert(c *Ctx, r *Report, fs []*FuncInfo) {
	r.Rule("R-ASSERT", "every single-result type assertion reachable from the malformed-input entry points is dominated by a successful comma-ok/type test of the same value and type, is table-guarded, is proto.Clone(x).(typeof x), asserts the kind its reflect.Kind arm names, or is in the frozen table of library-built operands", 30)
	for _, f := range fs {
		info := f.Info()
		pm := c.parentMap(f.File)
		n := 0
		for _, as := range AssertionsIn(c, f, f.Decl.Body) {
			if as.CommaOk {
				continue
			}
			// type switch guards are not single-result assertions
			if _, isTS := pm[as.Node].(*ast.TypeSwitchStmt); isTS {
				continue
			}
			if p, ok := pm[as.Node].(*ast.AssignStmt); ok {
				if _, isTS := pm[p].(*ast.TypeSwitchStmt); isTS {
					continue
				}
			}
			if p, ok := pm[as.Node].(*ast.ExprStmt); ok {
				if _, isTS := pm[p].(*ast.TypeSwitchStmt); isTS {
					continue
				}
			}
			n++
			key := fmt.Sprintf("%s:assert#%d:%s.(%s)", f.Name, n, exprKey(as.X), as.Type)
			pos := c.Pos(as.Node.Pos())
			atype := info.Types[as.Node.Type].Type
			// (c) proto.Clone(x).(T)
			if call, ok := ast.Unparen(as.X).(*ast.CallExpr); ok && IsCall(info, call, "google.golang.org/protobuf/proto.Clone") && len(call.Args) == 1 {
				if types.Identical(info.Types[call.Args[0]].Type, atype) {
					r.OK(key, pos, "proto.Clone returns its argument's dynamic type")
					continue
				}
			}
			// (a) comma-ok on same value/type with ok known true here.
			okObjs := map[types.Object]bool{}
			ast.Inspect(f.Decl.Body, func(m ast.Node) bool {
				a2, ok := m.(*ast.AssignStmt)
				if !ok || len(a2.Lhs) != 2 || len(a2.Rhs) != 1 {
					return true
				}
				ta, ok := ast.Unparen(a2.Rhs[0]).(*ast.TypeAssertExpr)
				if !ok || ta.Type == nil {
					return true
				}
				if sameExpr(info, ta.X, as.X) && types.Identical(info.Types[ta.Type].Type, atype) {
					if o := ObjOf(info, a2.Lhs[1]); o != nil {
						okObjs[o] = true
					}
				}
				return true
			})
			guarded := false
			for _, ft := range c.FactsAt(f, as.Node, true) {
				if ft.Kind == "cond" && ft.Pos {
					if id, ok := ast.Unparen(ft.Cond).(*ast.Ident); ok && okObjs[info.ObjectOf(id)] {
						guarded = true
					}
				}
			}
			// short-circuit: left operands of enclosing && chain
			for cur := ast.Node(as.Node); cur != nil && !guarded; cur = pm[cur] {
				pb, ok := pm[cur].(*ast.BinaryExpr)
				if !ok {
					if _, isExpr := pm[cur].(ast.Expr); !isExpr {
						break
					}
					continue
				}
				if pb.Op == token.LAND && pb.Y == cur.(ast.Expr) {
					var fs2 []Fact
					splitFact(pb.X, true, &fs2)
					for _, ft := range fs2 {
						if id, ok := ast.Unparen(ft.Cond).(*ast.Ident); ok && ft.Pos && okObjs[info.ObjectOf(id)] {
							guarded = true
						}
					}
				}
			}
			// case clause of a tagless switch: `case isTypedValue && …:` bodies carry the fact through FactsAt.
			if guarded {
				r.OK(key, pos, "dominated by a successful comma-ok assertion of the same value and type")
				continue
			}
			// (b) table guard: a failed type test against yangToJSONType returned earlier.
			tbl := false
			for _, ft := range c.FactsAt(f, as.Node, false) {
				if ft.Kind == "cond" && !ft.Pos && len(CallsIn(info, ft.Cond, P("ytypes")+".yangToJSONType")) > 0 {
					tbl = true
				}
			}
			if tbl {
				r.OK(key, pos, "guarded by the reflect-type test against yangToJSONType (agreement per kind is R-TABLES(b))")
				continue
			}
			// (d) kind-switch arm: assertion type's kind equals the arm's single reflect.Kind key.
			kindArm := false
			for _, ft := range c.FactsAt(f, as.Node, false) {
				if ft.Kind == "switch" && len(ft.Vals) >= 1 {
					all := true
					for _, v := range ft.Vals {
						if basicToReflect(atype) != constName(info, v) {
							all = false
						}
					}
					if all {
						kindArm = true
					}
				}
			}
			if kindArm {
				r.OK(key, pos, "asserted type is the basic type of the reflect.Kind arm (callers convert named types first; agreement is R-TABLES(f))")
				continue
			}
			if encPair != nil && isTypedValuePtr(atype) {
				if fe, isF := encPair.encParam[c.canonFunc(encPair, f)]; isF {
					ps := paramObjs(f)
					paired := false
					for i, p := range ps {
						if ObjOf(info, as.X) == p && encPair.need[c.canonFunc(encPair, f)][i] && gnmiOnlyFact(c, f, as.Node, ps[fe]) {
							paired = true
						}
					}
					if paired {
						r.OK(key, pos, "parameter paired with a gNMI encoding: every call site is justified by R-ENC-PAIR")
						continue
					}
				}
			}
			if why, ok := assertExceptions[f.Name+"|"+as.Type]; ok {
				r.Exc(key, pos, why)
				continue
			}
			r.Bad(key, pos, fmt.Sprintf("%s asserts %s.(%s) without checking: input that makes the dynamic type differ panics instead of returning an error", f.Name, types.ExprString(as.X), as.Type))
		}
	}
}

func ruleIfaceEq(c *Ctx, r *Report, fs []*FuncInfo) {
	r.Rule("R-IFACE-EQ", "== / != between two non-nil interface operands happens only where both dynamic types are comparable: under util.IsValueScalar, or on list-key values (map keys are comparable by construction)", 0)
	for _, f := range fs {
		info := f.Info()
		n := 0
		ast.Inspect(f.Decl.Body, func(x ast.Node) bool {
			be, ok := x.(*ast.BinaryExpr)
			if !ok || (be.Op != token.EQL && be.Op != token.NEQ) {
				return true
			}
			tx, ty := info.Types[be.X], info.Types[be.Y]
			if tx.Type == nil || ty.Type == nil || tx.IsNil() || ty.IsNil() {
				return true
			}
			_, ix := tx.Type.Underlying().(*types.Interface)
			_, iy := ty.Type.Underlying().(*types.Interface)
			if !ix || !iy || tx.Type.String() == "error" || tx.Type.String() == "reflect.Type" || strings.HasSuffix(tx.Type.String(), "protoreflect.FullName") {
				return true
			}
			n++
			key := fmt.Sprintf("%s:iface-eq#%d", f.Name, n)
			facts := c.FactsAt(f, be, true)
			if factHasCall(info, facts, true, P("util")+".IsValueScalar") || HasFact(facts, false, func(e ast.Expr) bool {
				// `if !IsValueScalar(..) { return }` gives the positive fact; nothing to do for negatives
				return false
			}) {
				r.OK(key, c.Pos(be.Pos()), "both operands are scalars (util.IsValueScalar)")
				return true
			}
			// key comparison: an operand derives from a map key (reflect MapKeys / key struct field).
			s := types.ExprString(be)
			if strings.Contains(strings.ToLower(s), "key") {
				r.Exc(key, c.Pos(be.Pos()), "operands are list-key values: Go map keys are comparable by construction")
				return true
			}
			r.Bad(key, c.Pos(be.Pos()), fmt.Sprintf("%s compares two interface values (%s) whose dynamic types may be uncomparable (slices, maps): the comparison panics at run time", f.Name, s))
			return true
		})
	}
}

// ruleCallArity: a reflective Call with a variable argument slice is dominated by a test of that
// slice's length.
func ruleCallArity(c *Ctx, r *Report, fs []*FuncInfo) {
	r.Rule("R-CALL-ARITY", "reflect.Value.Call with a computed argument slice is dominated by a comparison involving len(slice) (reflect panics on an arity mismatch)", 1)
	for _, f := range fs {
		info := f.Info()
		n := 0
		for _, call := range CallsIn(info, f.Decl.Body, "reflect.Value.Call") {
			if len(call.Args) != 1 {
				continue
			}
			arg := ast.Unparen(call.Args[0])
			id, ok := arg.(*ast.Ident)
			if !ok || id.Name == "nil" {
				continue // literal slices / nil have a fixed arity
			}
			n++
			lenTested := false
			for _, ft := range c.FactsAt(f, call, true) {
				if ft.Kind != "cond" {
					continue
				}
				ast.Inspect(ft.Cond, func(m ast.Node) bool {
					if cc, ok := m.(*ast.CallExpr); ok {
						if fid, ok := cc.Fun.(*ast.Ident); ok && fid.Name == "len" && len(cc.Args) == 1 && ObjOf(info, cc.Args[0]) == info.ObjectOf(id) {
							lenTested = true
						}
					}
					return true
				})
			}
			r.Check(lenTested, fmt.Sprintf("%s:Call#%d(%s)", f.Name, n, id.Name), c.Pos(call.Pos()), "argument count tested before the reflective call",
				fmt.Sprintf("%s calls a method reflectively with %s without a dominating test of len(%s): a path that yields fewer/more converted keys panics inside reflect", f.Name, id.Name, id.Name))
		}
	}
}

func ruleNoPanicCalls(c *Ctx, r *Report, fs []*FuncInfo) {
	r.Rule("R-NO-PANIC", "no explicit panic() and no Must* helper is reachable from the malformed-input entry points", 100)
	for _, f := range fs {
		info := f.Info()
		bad := 0
		ast.Inspect(f.Decl.Body, func(x ast.Node) bool {
			call, ok := x.(*ast.CallExpr)
			if !ok {
				return true
			}
			if id, ok := call.Fun.(*ast.Ident); ok && id.Name == "panic" {
				if _, isB := info.Uses[id].(*types.Builtin); isB {
					bad++
					r.Bad(fmt.Sprintf("%s:panic#%d", f.Name, bad), c.Pos(call.Pos()), f.Name+" panics explicitly on a path reachable from an input-handling API")
				}
			}
			return true
		})
		if bad == 0 {
			r.OK(f.Name+":no-panic", c.Pos(f.Decl.Pos()), "")
		}
	}
}

// ---- encoding/value pairing (replaces a name-keyed exception of R-ASSERT) ------------------------

// encPairing is the checked form of the invariant "a value handed to the unmarshal functions
// together with a gNMI encoding is a *gnmi.TypedValue":
//   - sinks: an unchecked value.(*gnmi.TypedValue) on a parameter, inside an arm that restricts an
//     Encoding-typed parameter to the gNMI encodings;
//   - need(g): the value parameters of g that must satisfy the invariant — those with a sink, and
//     those forwarded, together with g's encoding parameter, to a needy parameter of a callee;
//   - every call that passes something else to a needy parameter must justify it: the argument is
//     statically a *gnmi.TypedValue, the encoding is the constant JSONEncoding, or the encoding is a
//     local variable that receives a gNMI constant only under a successful comma-ok assertion of the
//     very value that is passed.
type encPairing struct {
	encParam map[*FuncInfo]int
	need     map[*FuncInfo]map[int]bool
	funcs    []*FuncInfo
	byObj    map[*types.Func]*FuncInfo
}

// forward closes need under forwarding of a function's own (value, encoding) parameter pair.
func (ep *encPairing) forward(c *Ctx) {
	byObj := ep.byObj
	for changed := true; changed; {
		changed = false
		for _, f := range ep.funcs {
			info := f.Info()
			ps := paramObjs(f)
			ast.Inspect(f.Decl.Body, func(n ast.Node) bool {
				call, ok := n.(*ast.CallExpr)
				if !ok {
					return true
				}
				g := byObj[Callee(info, call)]
				if g == nil || len(ep.need[g]) == 0 || ep.encParam[g] >= len(call.Args) {
					return true
				}
				if ObjOf(info, call.Args[ep.encParam[g]]) != ps[ep.encParam[f]] {
					return true
				}
				for k := range ep.need[g] {
					if k >= len(call.Args) {
						continue
					}
					for i, p := range ps {
						if ObjOf(info, call.Args[k]) == p && !ep.need[f][i] {
							if _, isID := ast.Unparen(call.Args[k]).(*ast.Ident); isID {
								ep.need[f][i] = true
								changed = true
							}
						}
					}
				}
				return true
			})
		}
	}
}

// notGNMIAt: at node n of function f, f's encoding parameter cannot be a gNMI encoding, because
//   - the facts at n restrict it to JSONEncoding, or
//   - a value parameter of f that is paired with the encoding (its pairing becomes an obligation
//     of f's callers: added to need) has been successfully asserted to a type other than
//     *gnmi.TypedValue on the way to n, or
//   - every module call site of f is itself such a point in its caller (depth-bounded).
func (ep *encPairing) notGNMIAt(c *Ctx, f *FuncInfo, n ast.Node, depth int) (bool, string) {
	info := f.Info()
	ps := paramObjs(f)
	fe, ok := ep.encParam[f]
	if !ok || depth > 3 {
		return false, ""
	}
	for _, ft := range c.FactsAt(f, n, false) {
		if ft.Kind == "switch" && ObjOf(info, ft.Cond) == ps[fe] && len(ft.Vals) > 0 {
			all := true
			for _, v := range ft.Vals {
				nm := constName(info, v)
				if nm[strings.LastIndex(nm, ".")+1:] != "JSONEncoding" {
					all = false
				}
			}
			if all {
				return true, "inside the JSONEncoding arm of the switch on the encoding"
			}
		}
		if ft.Kind != "cond" {
			continue
		}
		// ok of `x, ok := p.(T)`, T not *gnmi.TypedValue, p an interface-typed parameter.
		id, isID := ast.Unparen(ft.Cond).(*ast.Ident)
		if !isID || !ft.Pos {
			continue
		}
		okObj := info.ObjectOf(id)
		found := -1
		ast.Inspect(f.Decl.Body, func(m ast.Node) bool {
			a2, isAs := m.(*ast.AssignStmt)
			if !isAs || len(a2.Lhs) != 2 || len(a2.Rhs) != 1 || ObjOf(info, a2.Lhs[1]) != okObj {
				return true
			}
			ta, isTA := ast.Unparen(a2.Rhs[0]).(*ast.TypeAssertExpr)
			if !isTA || ta.Type == nil || isTypedValuePtr(info.Types[ta.Type].Type) {
				return true
			}
			for i, p := range ps {
				if ObjOf(info, ta.X) == p {
					found = i
				}
			}
			return true
		})
		if found >= 0 {
			if !ep.need[f][found] {
				ep.need[f][found] = true
				ep.forward(c)
			}
			return true, "the paired value parameter " + ps[found].Name() + " was successfully asserted to a type other than *gnmi.TypedValue (a *gnmi.TypedValue would have failed that test)"
		}
	}
	// all callers.
	sites, all := 0, true
	for _, h := range ep.funcs {
		hinfo := h.Info()
		ast.Inspect(h.Decl.Body, func(m ast.Node) bool {
			call, isCall := m.(*ast.CallExpr)
			if !isCall || ep.byObj[Callee(hinfo, call)] != f {
				return true
			}
			sites++
			if fe < len(call.Args) {
				nm := constName(hinfo, call.Args[fe])
				if nm != "" && nm[strings.LastIndex(nm, ".")+1:] == "JSONEncoding" {
					return true
				}
				if he, isH := ep.encParam[h]; isH && ObjOf(hinfo, call.Args[fe]) == paramObjs(h)[he] {
					if ok2, _ := ep.notGNMIAt(c, h, call, depth+1); ok2 {
						return true
					}
				}
			}
			all = false
			return true
		})
	}
	// callers outside the paired functions (no encoding parameter) would pass constants; look for them too.
	for _, h0 := range c.AllFuncs("ytypes") {
		h := c.canonFunc(ep, h0)
		if _, isPaired := ep.encParam[h]; isPaired {
			continue
		}
		hinfo := h.Info()
		ast.Inspect(h.Decl.Body, func(m ast.Node) bool {
			call, isCall := m.(*ast.CallExpr)
			if !isCall || ep.byObj[Callee(hinfo, call)] != f {
				return true
			}
			sites++
			nm := ""
			if fe < len(call.Args) {
				nm = constName(hinfo, call.Args[fe])
			}
			if nm == "" || nm[strings.LastIndex(nm, ".")+1:] != "JSONEncoding" {
				all = false
			}
			return true
		})
	}
	if sites > 0 && all {
		return true, fmt.Sprintf("none of the %d call site(s) of %s can run with a gNMI encoding", sites, f.Decl.Name.Name)
	}
	return false, ""
}


var gnmiEncNames = map[string]bool{"GNMIEncoding": true, "gNMIEncodingWithJSONTolerance": true}

func isEncodingType(t types.Type) bool {
	return t != nil && namedTypeOf(t) == P("ytypes")+".Encoding"
}

func isTypedValuePtr(t types.Type) bool {
	return t != nil && strings.HasSuffix(types.TypeString(t, nil), "gnmi/proto/gnmi.TypedValue") && strings.HasPrefix(types.TypeString(t, nil), "*")
}

// gnmiOnlyFact: the facts at n restrict Encoding-typed expression e (a parameter) to gNMI encodings.
func gnmiOnlyFact(c *Ctx, f *FuncInfo, n ast.Node, enc types.Object) bool {
	info := f.Info()
	isGNMIConst := func(e ast.Expr) bool {
		nm := constName(info, e)
		return gnmiEncNames[strings.TrimPrefix(nm, "ytypes.")] || gnmiEncNames[nm]
	}
	for _, ft := range c.FactsAt(f, n, false) {
		switch ft.Kind {
		case "switch":
			if ObjOf(info, ft.Cond) != enc || len(ft.Vals) == 0 {
				continue
			}
			all := true
			for _, v := range ft.Vals {
				if !isGNMIConst(v) {
					all = false
				}
			}
			if all {
				return true
			}
		case "cond":
			if !ft.Pos {
				continue
			}
			var dis []ast.Expr
			flattenOr(ft.Cond, &dis)
			all := len(dis) > 0
			for _, d := range dis {
				be, ok := ast.Unparen(d).(*ast.BinaryExpr)
				if !ok || be.Op != token.EQL || ObjOf(info, be.X) != enc || !isGNMIConst(be.Y) {
					all = false
				}
			}
			if all {
				return true
			}
		}
	}
	return false
}

func (c *Ctx) buildEncPairing() *encPairing {
	ep := &encPairing{encParam: map[*FuncInfo]int{}, need: map[*FuncInfo]map[int]bool{}}
	for _, f := range c.AllFuncs("ytypes") {
		for i, p := range paramObjs(f) {
			if p != nil && isEncodingType(p.Type()) {
				ep.encParam[f] = i
				ep.funcs = append(ep.funcs, f)
				ep.need[f] = map[int]bool{}
				break
			}
		}
	}
	byObj := map[*types.Func]*FuncInfo{}
	for _, f := range ep.funcs {
		byObj[f.Obj] = f
	}
	// sinks.
	for _, f := range ep.funcs {
		info := f.Info()
		ps := paramObjs(f)
		for _, as := range AssertionsIn(c, f, f.Decl.Body) {
			if as.CommaOk || !isTypedValuePtr(info.Types[as.Node.Type].Type) {
				continue
			}
			for i, p := range ps {
				if ObjOf(info, as.X) == p && gnmiOnlyFact(c, f, as.Node, ps[ep.encParam[f]]) {
					ep.need[f][i] = true
				}
			}
		}
	}
	ep.byObj = byObj
	ep.forward(c)
	return ep
}

// ruleEncPair: R-ENC-PAIR.
func ruleEncPair(c *Ctx, r *Report) *encPairing {
	r.Rule("R-ENC-PAIR", "a value that reaches an unchecked .(*gnmi.TypedValue) in ytypes' unmarshal functions is paired with a gNMI encoding only where it is known to be a *gnmi.TypedValue: at every call into a parameter that needs it the argument is the caller's own paired parameter, is statically a *gnmi.TypedValue, travels with the constant JSONEncoding, or travels with an encoding variable that receives a gNMI constant only under a successful comma-ok assertion of that same value", 4)
	ep := c.buildEncPairing()
	byObj := map[*types.Func]*FuncInfo{}
	for _, f := range ep.funcs {
		byObj[f.Obj] = f
	}
	for _, f0 := range c.AllFuncs("ytypes") {
		f := c.canonFunc(ep, f0)
		info := f.Info()
		ps := paramObjs(f)
		n := 0
		ast.Inspect(f.Decl.Body, func(x ast.Node) bool {
			call, ok := x.(*ast.CallExpr)
			if !ok {
				return true
			}
			g := byObj[Callee(info, call)]
			if g == nil || len(ep.need[g]) == 0 || ep.encParam[g] >= len(call.Args) {
				return true
			}
			encArg := ast.Unparen(call.Args[ep.encParam[g]])
			for k := range ep.need[g] {
				if k >= len(call.Args) {
					continue
				}
				n++
				key := fmt.Sprintf("%s:call#%d→%s(arg %d)", f.Name, n, g.Decl.Name.Name, k)
				pos := c.Pos(call.Pos())
				valArg := ast.Unparen(call.Args[k])
				switch {
				case isTypedValuePtr(info.Types[valArg].Type):
					r.OK(key, pos, "argument is statically a *gnmi.TypedValue")
				case constName(info, encArg) == "JSONEncoding" || strings.HasSuffix(constName(info, encArg), ".JSONEncoding"):
					r.OK(key, pos, "constant JSONEncoding: the gNMI arm is not taken")
				case func() bool {
					fe, isF := ep.encParam[f]
					if !isF || ObjOf(info, encArg) != ps[fe] {
						return false
					}
					for i, p := range ps {
						if ObjOf(info, valArg) == p && ep.need[f][i] {
							return true
						}
					}
					return false
				}():
					r.OK(key, pos, "forwards the caller's own (value, encoding) pair; the caller's callers carry the obligation")
				case func() bool {
					if fe, isF := ep.encParam[f]; isF && ObjOf(info, encArg) == ps[fe] {
						if ok3, why := ep.notGNMIAt(c, f, call, 0); ok3 {
							r.OK(key, pos, "the encoding cannot be a gNMI one here: "+why)
							return true
						}
					}
					return false
				}():
				case func() bool {
					if ok4, why := encSliceJustified(c, ep, f, call, encArg, valArg); ok4 {
						r.OK(key, pos, why)
						return true
					}
					return false
				}():
				default:
					ok2, why := encVarJustified(c, f, encArg, valArg)
					r.Check(ok2, key, pos, why, fmt.Sprintf("%s passes %s with encoding %s to %s, which asserts the value to *gnmi.TypedValue without checking when the encoding is a gNMI one, and nothing shows the value is a *gnmi.TypedValue whenever the encoding is: %s — a SetNode/Unmarshal call with another value type panics instead of returning an error", f.Name, types.ExprString(valArg), types.ExprString(encArg), g.Decl.Name.Name, why))
				}
			}
			return true
		})
	}
	return ep
}

// encVarJustified: encArg is a local variable whose every gNMI-constant assignment sits under a
// successful comma-ok assertion .(*gnmi.TypedValue) of an operand E, with valArg assigned from E in
// the same statement list; its other assignments are the constant JSONEncoding.
func encVarJustified(c *Ctx, f *FuncInfo, encArg, valArg ast.Expr) (bool, string) {
	info := f.Info()
	encObj, valObj := ObjOf(info, encArg), ObjOf(info, valArg)
	if _, isVar := encObj.(*types.Var); !isVar {
		return false, "the encoding argument is not a local variable (a gNMI encoding constant is passed with a value that is not known to be a *gnmi.TypedValue)"
	}
	if _, isID := encArg.(*ast.Ident); !isID || encObj == nil || valObj == nil {
		return false, "the encoding argument is not a local variable"
	}
	for _, p := range paramObjs(f) {
		if p == encObj {
			return false, "the encoding is the caller's parameter but the value passed with it is not the parameter paired with it"
		}
	}
	pm := c.parentMap(f.File)
	okAll, n := true, 0
	why := ""
	ast.Inspect(f.Decl.Body, func(x ast.Node) bool {
		as, ok := x.(*ast.AssignStmt)
		if !ok || len(as.Lhs) != len(as.Rhs) {
			return true
		}
		for i, l := range as.Lhs {
			if ObjOf(info, l) != encObj {
				continue
			}
			nm := constName(info, as.Rhs[i])
			nm = nm[strings.LastIndex(nm, ".")+1:]
			switch {
			case nm == "JSONEncoding":
			case gnmiEncNames[nm]:
				n++
				// the guarding comma-ok and its operand.
				var operand ast.Expr
				for _, ft := range c.FactsAt(f, as, false) {
					if ft.Kind != "cond" || !ft.Pos {
						continue
					}
					id, ok := ast.Unparen(ft.Cond).(*ast.Ident)
					if !ok {
						continue
					}
					okObj := info.ObjectOf(id)
					ast.Inspect(f.Decl.Body, func(m ast.Node) bool {
						a2, ok := m.(*ast.AssignStmt)
						if !ok || len(a2.Lhs) != 2 || len(a2.Rhs) != 1 || ObjOf(info, a2.Lhs[1]) != okObj {
							return true
						}
						if ta, ok := ast.Unparen(a2.Rhs[0]).(*ast.TypeAssertExpr); ok && ta.Type != nil && isTypedValuePtr(info.Types[ta.Type].Type) {
							operand = ta.X
						}
						return true
					})
				}
				if operand == nil {
					okAll, why = false, "the encoding is set to "+nm+" without a preceding successful .(*gnmi.TypedValue) test"
					continue
				}
				// valArg assigned from the same operand in the same list.
				paired := false
				var list []ast.Stmt
				switch p := pm[as].(type) {
				case *ast.BlockStmt:
					list = p.List
				case *ast.CaseClause:
					list = p.Body
				}
				for _, st := range list {
					if a3, ok := st.(*ast.AssignStmt); ok && len(a3.Lhs) == 1 && len(a3.Rhs) == 1 && ObjOf(info, a3.Lhs[0]) == valObj && sameExpr(info, a3.Rhs[0], operand) {
						paired = true
					}
				}
				if !paired {
					okAll, why = false, "where the encoding is set to "+nm+" the value passed on is not the operand of the .(*gnmi.TypedValue) test"
				}
			default:
				okAll, why = false, "the encoding variable is assigned "+types.ExprString(as.Rhs[i])
			}
		}
		return true
	})
	if n == 0 && okAll {
		return true, "the encoding variable never receives a gNMI constant"
	}
	if okAll {
		return true, fmt.Sprintf("encoding variable set to a gNMI constant at %d place(s), each under a successful .(*gnmi.TypedValue) test of the value passed on", n)
	}
	return false, why
}

// jsonOnlyFact: the facts at n restrict f's encoding parameter to JSONEncoding.
func jsonOnlyFact(c *Ctx, f *FuncInfo, n ast.Node, enc types.Object) bool {
	info := f.Info()
	for _, ft := range c.FactsAt(f, n, false) {
		if ft.Kind == "switch" && ObjOf(info, ft.Cond) == enc && len(ft.Vals) > 0 {
			all := true
			for _, v := range ft.Vals {
				nm := constName(info, v)
				if nm[strings.LastIndex(nm, ".")+1:] != "JSONEncoding" {
					all = false
				}
			}
			if all {
				return true
			}
		}
	}
	return false
}

// encSliceJustified: the value passed on is an element of a local slice that the function fills
// per encoding: every element stored where the encoding parameter may be a gNMI one is statically a
// *gnmi.TypedValue; what is stored inside the JSONEncoding arm is never seen with a gNMI encoding,
// because the (unmodified) encoding parameter itself is passed on.
func encSliceJustified(c *Ctx, ep *encPairing, f *FuncInfo, call *ast.CallExpr, encArg, valArg ast.Expr) (bool, string) {
	info := f.Info()
	fe, ok := ep.encParam[f]
	ps := paramObjs(f)
	if !ok || ObjOf(info, encArg) != ps[fe] {
		return false, ""
	}
	// the encoding parameter is never reassigned.
	for _, d := range allDefs(f, ps[fe]) {
		_ = d
		return false, ""
	}
	valObj := ObjOf(info, valArg)
	if valObj == nil {
		return false, ""
	}
	// valArg: range value over a local slice.
	var slice types.Object
	ast.Inspect(f.Decl.Body, func(n ast.Node) bool {
		if rs, ok := n.(*ast.RangeStmt); ok && rs.Value != nil && ObjOf(info, rs.Value) == valObj {
			if o, isVar := ObjOf(info, rs.X).(*types.Var); isVar && paramIndex(f, o) < 0 {
				slice = o
			}
		}
		return true
	})
	if slice == nil {
		return false, ""
	}
	isTV := func(e ast.Expr) bool {
		tv, ok := info.Types[e]
		return ok && isTypedValuePtr(tv.Type)
	}
	isTVSlice := func(e ast.Expr) bool {
		tv, ok := info.Types[e]
		if !ok || tv.Type == nil {
			return false
		}
		sl, ok := tv.Type.Underlying().(*types.Slice)
		return ok && isTypedValuePtr(sl.Elem())
	}
	okAll, writes := true, 0
	ast.Inspect(f.Decl.Body, func(n ast.Node) bool {
		as, ok := n.(*ast.AssignStmt)
		if !ok {
			return true
		}
		for i, l := range as.Lhs {
			if rootObjOf(info, l) != slice || len(as.Rhs) != len(as.Lhs) {
				continue
			}
			writes++
			if jsonOnlyFact(c, f, as, ps[fe]) {
				continue // never seen together with a gNMI encoding
			}
			rhs := ast.Unparen(as.Rhs[i])
			if _, isIdx := l.(*ast.IndexExpr); isIdx {
				if !isTV(rhs) {
					okAll = false
				}
				continue
			}
			if callE, isCall := rhs.(*ast.CallExpr); isCall {
				if id, isID := callE.Fun.(*ast.Ident); isID && id.Name == "append" && len(callE.Args) >= 1 && rootObjOf(info, callE.Args[0]) == slice {
					for _, a := range callE.Args[1:] {
						if callE.Ellipsis.IsValid() {
							if !isTVSlice(a) {
								okAll = false
							}
						} else if !isTV(a) {
							okAll = false
						}
					}
					continue
				}
			}
			if !isTVSlice(rhs) {
				okAll = false
			}
		}
		return true
	})
	if okAll && writes > 0 {
		return true, fmt.Sprintf("element of the local slice %s: its %d write(s) store *gnmi.TypedValue values except inside the JSONEncoding arm, and the encoding parameter is passed on unchanged", slice.Name(), writes)
	}
	return false, ""
}

// rootObjOf: the variable at the root of an lvalue (x, x[i], x.f).
func rootObjOf(info *types.Info, e ast.Expr) types.Object {
	for {
		switch x := ast.Unparen(e).(type) {
		case *ast.Ident:
			return info.ObjectOf(x)
		case *ast.IndexExpr:
			e = x.X
		case *ast.SelectorExpr:
			e = x.X
		case *ast.StarExpr:
			e = x.X
		default:
			return nil
		}
	}
}
