package main

import (
	"fmt"
	"go/ast"
	"go/token"
	"go/types"
	"strings"
)

var c20Entries = []string{"ytypes:Unmarshal", "ytypes:SetNode", "ytypes:GetNode", "ytypes:DeleteNode", "ytypes:UnmarshalSetRequest", "ytypes:UnmarshalNotifications",
	"ygot:StringToPath", "gnmidiff:DiffSetRequest", "gnmidiff:DiffSetRequestToNotifications"}

// assertExceptions: single-result assertions whose operand is built by the library itself, not by
// input. Keyed by function + asserted type; one line of reason each.
var assertExceptions = map[string]string{
	"util.DbgPrint|string":                                   "debug helper; only reached when the compile-time debug flag is true",
	"ytypes.unmarshalUnion|*gnmi.TypedValue":                 "GNMI encodings are selected only in retrieveNodeContainer after a successful *TypedValue comma-ok on the same value",
	"ytypes.checkDataTreeAgainstPaths|map[string]interface{}": "operand is the trie this function builds from struct-tag paths, not the JSON input",
	"ygot.mapValuePairsToJSON|[]any":                         "operand is a local initialised in the same jType arm as a []any literal",
	"ygot.mapValuePairsToJSON|map[string]any":                "operand is a local initialised in the same jType arm as a map literal",
	"ygot.structJSON|map[string]any":                         "operand is the output map this function builds (inner nodes are always maps)",
	"ygot.jsonAnnotationSlice|ygot.Annotation":               "caller dispatches here only when the slice element type implements Annotation",
	"ygot.appendTypedValue|uint64":                           "arm lists reflect.Uint64 and reflect.Uint; generated GoStructs never contain Go's platform-sized uint, so only uint64 reaches it",
}

func ruleAssert(c *Ctx, r *Report, fs []*FuncInfo) {
	r.Rule("R-ASSERT", "every single-result type assertion reachable from the malformed-input entry points is dominated by a successful comma-ok/type test of the same value and type, is table-guarded, is proto.Clone(x).(typeof x), asserts the kind its reflect.Kind arm names, or is in the frozen table of library-built operands", 30)
	for _, f := range fs {
		info := f.Info()
		pm := c.parentMap(f.File)
		n := 0
		for _, as := range AssertionsIn(c, f, f.Decl.Body) {
			if as.CommaOk {
				continue
			}
			// type switch guards are not single-result assertions
			if _, isTS := pm[as.Node].(*ast.TypeSwitchStmt); isTS {
				continue
			}
			if p, ok := pm[as.Node].(*ast.AssignStmt); ok {
				if _, isTS := pm[p].(*ast.TypeSwitchStmt); isTS {
					continue
				}
			}
			if p, ok := pm[as.Node].(*ast.ExprStmt); ok {
				if _, isTS := pm[p].(*ast.TypeSwitchStmt); isTS {
					continue
				}
			}
			n++
			key := fmt.Sprintf("%s:assert#%d:%s.(%s)", f.Name, n, exprKey(as.X), as.Type)
			pos := c.Pos(as.Node.Pos())
			atype := info.Types[as.Node.Type].Type
			// (c) proto.Clone(x).(T)
			if call, ok := ast.Unparen(as.X).(*ast.CallExpr); ok && IsCall(info, call, "google.golang.org/protobuf/proto.Clone") && len(call.Args) == 1 {
				if types.Identical(info.Types[call.Args[0]].Type, atype) {
					r.OK(key, pos, "proto.Clone returns its argument's dynamic type")
					continue
				}
			}
			// (a) comma-ok on same value/type with ok known true here.
			okObjs := map[types.Object]bool{}
			ast.Inspect(f.Decl.Body, func(m ast.Node) bool {
				a2, ok := m.(*ast.AssignStmt)
				if !ok || len(a2.Lhs) != 2 || len(a2.Rhs) != 1 {
					return true
				}
				ta, ok := ast.Unparen(a2.Rhs[0]).(*ast.TypeAssertExpr)
				if !ok || ta.Type == nil {
					return true
				}
				if sameExpr(info, ta.X, as.X) && types.Identical(info.Types[ta.Type].Type, atype) {
					if o := ObjOf(info, a2.Lhs[1]); o != nil {
						okObjs[o] = true
					}
				}
				return true
			})
			guarded := false
			for _, ft := range c.FactsAt(f, as.Node, true) {
				if ft.Kind == "cond" && ft.Pos {
					if id, ok := ast.Unparen(ft.Cond).(*ast.Ident); ok && okObjs[info.ObjectOf(id)] {
						guarded = true
					}
				}
			}
			// short-circuit: left operands of enclosing && chain
			for cur := ast.Node(as.Node); cur != nil && !guarded; cur = pm[cur] {
				pb, ok := pm[cur].(*ast.BinaryExpr)
				if !ok {
					if _, isExpr := pm[cur].(ast.Expr); !isExpr {
						break
					}
					continue
				}
				if pb.Op == token.LAND && pb.Y == cur.(ast.Expr) {
					var fs2 []Fact
					splitFact(pb.X, true, &fs2)
					for _, ft := range fs2 {
						if id, ok := ast.Unparen(ft.Cond).(*ast.Ident); ok && ft.Pos && okObjs[info.ObjectOf(id)] {
							guarded = true
						}
					}
				}
			}
			// case clause of a tagless switch: `case isTypedValue && …:` bodies carry the fact through FactsAt.
			if guarded {
				r.OK(key, pos, "dominated by a successful comma-ok assertion of the same value and type")
				continue
			}
			// (b) table guard: a failed type test against yangToJSONType returned earlier.
			tbl := false
			for _, ft := range c.FactsAt(f, as.Node, false) {
				if ft.Kind == "cond" && !ft.Pos && len(CallsIn(info, ft.Cond, P("ytypes")+".yangToJSONType")) > 0 {
					tbl = true
				}
			}
			if tbl {
				r.OK(key, pos, "guarded by the reflect-type test against yangToJSONType (agreement per kind is R-TABLES(b))")
				continue
			}
			// (d) kind-switch arm: assertion type's kind equals the arm's single reflect.Kind key.
			kindArm := false
			for _, ft := range c.FactsAt(f, as.Node, false) {
				if ft.Kind == "switch" && len(ft.Vals) >= 1 {
					all := true
					for _, v := range ft.Vals {
						if basicToReflect(atype) != constName(info, v) {
							all = false
						}
					}
					if all {
						kindArm = true
					}
				}
			}
			if kindArm {
				r.OK(key, pos, "asserted type is the basic type of the reflect.Kind arm (callers convert named types first; agreement is R-TABLES(f))")
				continue
			}
			if why, ok := assertExceptions[f.Name+"|"+as.Type]; ok {
				r.Exc(key, pos, why)
				continue
			}
			r.Bad(key, pos, fmt.Sprintf("%s asserts %s.(%s) without checking: input that makes the dynamic type differ panics instead of returning an error", f.Name, types.ExprString(as.X), as.Type))
		}
	}
}

func ruleIfaceEq(c *Ctx, r *Report, fs []*FuncInfo) {
	r.Rule("R-IFACE-EQ", "== / != between two non-nil interface operands happens only where both dynamic types are comparable: under util.IsValueScalar, or on list-key values (map keys are comparable by construction)", 0)
	for _, f := range fs {
		info := f.Info()
		n := 0
		ast.Inspect(f.Decl.Body, func(x ast.Node) bool {
			be, ok := x.(*ast.BinaryExpr)
			if !ok || (be.Op != token.EQL && be.Op != token.NEQ) {
				return true
			}
			tx, ty := info.Types[be.X], info.Types[be.Y]
			if tx.Type == nil || ty.Type == nil || tx.IsNil() || ty.IsNil() {
				return true
			}
			_, ix := tx.Type.Underlying().(*types.Interface)
			_, iy := ty.Type.Underlying().(*types.Interface)
			if !ix || !iy || tx.Type.String() == "error" || tx.Type.String() == "reflect.Type" || strings.HasSuffix(tx.Type.String(), "protoreflect.FullName") {
				return true
			}
			n++
			key := fmt.Sprintf("%s:iface-eq#%d", f.Name, n)
			facts := c.FactsAt(f, be, true)
			if factHasCall(info, facts, true, P("util")+".IsValueScalar") || HasFact(facts, false, func(e ast.Expr) bool {
				// `if !IsValueScalar(..) { return }` gives the positive fact; nothing to do for negatives
				return false
			}) {
				r.OK(key, c.Pos(be.Pos()), "both operands are scalars (util.IsValueScalar)")
				return true
			}
			// key comparison: an operand derives from a map key (reflect MapKeys / key struct field).
			s := types.ExprString(be)
			if strings.Contains(strings.ToLower(s), "key") {
				r.Exc(key, c.Pos(be.Pos()), "operands are list-key values: Go map keys are comparable by construction")
				return true
			}
			r.Bad(key, c.Pos(be.Pos()), fmt.Sprintf("%s compares two interface values (%s) whose dynamic types may be uncomparable (slices, maps): the comparison panics at run time", f.Name, s))
			return true
		})
	}
}

// ruleCallArity: a reflective Call with a variable argument slice is dominated by a test of that
// slice's length.
func ruleCallArity(c *Ctx, r *Report, fs []*FuncInfo) {
	r.Rule("R-CALL-ARITY", "reflect.Value.Call with a computed argument slice is dominated by a comparison involving len(slice) (reflect panics on an arity mismatch)", 1)
	for _, f := range fs {
		info := f.Info()
		n := 0
		for _, call := range CallsIn(info, f.Decl.Body, "reflect.Value.Call") {
			if len(call.Args) != 1 {
				continue
			}
			arg := ast.Unparen(call.Args[0])
			id, ok := arg.(*ast.Ident)
			if !ok || id.Name == "nil" {
				continue // literal slices / nil have a fixed arity
			}
			n++
			lenTested := false
			for _, ft := range c.FactsAt(f, call, true) {
				if ft.Kind != "cond" {
					continue
				}
				ast.Inspect(ft.Cond, func(m ast.Node) bool {
					if cc, ok := m.(*ast.CallExpr); ok {
						if fid, ok := cc.Fun.(*ast.Ident); ok && fid.Name == "len" && len(cc.Args) == 1 && ObjOf(info, cc.Args[0]) == info.ObjectOf(id) {
							lenTested = true
						}
					}
					return true
				})
			}
			r.Check(lenTested, fmt.Sprintf("%s:Call#%d(%s)", f.Name, n, id.Name), c.Pos(call.Pos()), "argument count tested before the reflective call",
				fmt.Sprintf("%s calls a method reflectively with %s without a dominating test of len(%s): a path that yields fewer/more converted keys panics inside reflect", f.Name, id.Name, id.Name))
		}
	}
}

func ruleNoPanicCalls(c *Ctx, r *Report, fs []*FuncInfo) {
	r.Rule("R-NO-PANIC", "no explicit panic() and no Must* helper is reachable from the malformed-input entry points", 100)
	for _, f := range fs {
		info := f.Info()
		bad := 0
		ast.Inspect(f.Decl.Body, func(x ast.Node) bool {
			call, ok := x.(*ast.CallExpr)
			if !ok {
				return true
			}
			if id, ok := call.Fun.(*ast.Ident); ok && id.Name == "panic" {
				if _, isB := info.Uses[id].(*types.Builtin); isB {
					bad++
					r.Bad(fmt.Sprintf("%s:panic#%d", f.Name, bad), c.Pos(call.Pos()), f.Name+" panics explicitly on a path reachable from an input-handling API")
				}
			}
			return true
		})
		if bad == 0 {
			r.OK(f.Name+":no-panic", c.Pos(f.Decl.Pos()), "")
		}
	}
}
