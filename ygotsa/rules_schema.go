package main

import (
	"fmt"
	"go/ast"
	"go/token"
	"go/types"
	"reflect"
	"sort"
	"strings"
)

const yangEntry = "github.com/openconfig/goyang/pkg/yang.Entry"

// entryFieldWrites lists stores into fields of yang.Entry values in f: field name → positions.
func entryFieldWrites(f *FuncInfo) map[string][]token.Pos {
	info := f.Info()
	out := map[string][]token.Pos{}
	rec := func(l ast.Expr, pos token.Pos) {
		for {
			switch x := ast.Unparen(l).(type) {
			case *ast.IndexExpr:
				l = x.X
				continue
			case *ast.SelectorExpr:
				if tv, ok := info.Types[x.X]; ok && namedTypeOf(tv.Type) == yangEntry {
					out[x.Sel.Name] = append(out[x.Sel.Name], pos)
				}
			}
			return
		}
	}
	ast.Inspect(f.Decl.Body, func(n ast.Node) bool {
		switch s := n.(type) {
		case *ast.AssignStmt:
			for _, l := range s.Lhs {
				if _, isID := ast.Unparen(l).(*ast.Ident); !isID {
					rec(l, s.Pos())
				}
			}
		case *ast.CallExpr:
			if id, ok := s.Fun.(*ast.Ident); ok && id.Name == "delete" && len(s.Args) > 0 {
				rec(s.Args[0], s.Pos())
			}
		}
		return true
	})
	return out
}

// ruleSchemaEmbed: R-SCHEMA-EMBED (C27).
func ruleSchemaEmbed(c *Ctx, r *Report) {
	r.Rule("R-SCHEMA-EMBED", "the embedded schema is goyang's entry tree itself: struct names are recorded under the key annotateEntry looks them up by; every child of every module is hoisted under the root and every entry is annotated, with no filtering; the only entry fields written on the way are Description and Annotation; the JSON of the whole root is gzipped completely; decoding reads everything, rebuilds Parent for every entry and indexes every annotated entry", 14)
	if f := c.MustFunc(r, "ygen", "IR.SchemaTree"); f != nil {
		info := f.Info()
		ok := false
		ast.Inspect(f.Decl.Body, func(n ast.Node) bool {
			rs, isR := n.(*ast.RangeStmt)
			if !isR || !strings.HasSuffix(types.ExprString(rs.X), ".Directories") || rs.Key == nil {
				return true
			}
			ast.Inspect(rs.Body, func(m ast.Node) bool {
				if as, isAs := m.(*ast.AssignStmt); isAs && len(as.Lhs) == 1 {
					if ix, isIx := as.Lhs[0].(*ast.IndexExpr); isIx && ObjOf(info, ix.Index) == ObjOf(info, rs.Key) {
						if sel, isSel := ast.Unparen(as.Rhs[0]).(*ast.SelectorExpr); isSel && sel.Sel.Name == "Name" && rs.Value != nil && ObjOf(info, sel.X) == ObjOf(info, rs.Value) {
							ok = true
						}
					}
				}
				return true
			})
			return true
		})
		r.Check(ok, "ygen.IR.SchemaTree:names-keyed-by-directory-key", c.Pos(f.Decl.Pos()), "dirNames[<key of ir.Directories>] = d.Name", "SchemaTree records struct names under a key other than the ir.Directories key (the entry's goyang path): annotateEntry looks names up by e.Path(), so directories whose two paths differ (below choice/case) lose their structname and are missing from the embedded schema")
		calls := CallsIn(info, f.Decl.Body, P("ygen")+".buildJSONTree")
		okc := len(calls) == 1 && strings.HasSuffix(types.ExprString(calls[0].Args[0]), ".parsedModules") && strings.HasSuffix(types.ExprString(calls[0].Args[2]), ".fakeroot") && errTestedAfter(c, f, f.Decl.Body, calls[0])
		r.Check(okc, "ygen.IR.SchemaTree:serialises-parsed-modules", c.Pos(f.Decl.Pos()), "buildJSONTree(ir.parsedModules, names, ir.fakeroot, …), error returned", "SchemaTree does not serialise the IR's parsed modules with its fake root")
	}
	if f := c.MustFunc(r, "ygen", "annotateEntry"); f != nil {
		info := f.Info()
		ok := false
		ast.Inspect(f.Decl.Body, func(n ast.Node) bool {
			if ix, isIx := n.(*ast.IndexExpr); isIx && paramIndex(f, ObjOf(info, ix.X)) == 1 {
				if call, isCall := ast.Unparen(ix.Index).(*ast.CallExpr); isCall && FullName(Callee(info, call)) == yangEntry+".Path" {
					ok = true
				}
			}
			return true
		})
		r.Check(ok, "ygen.annotateEntry:lookup-by-entry-path", c.Pos(f.Decl.Pos()), "dn[e.Path()]", "annotateEntry no longer looks the struct name up by the entry's goyang path")
	}
	for _, name := range []string{"buildJSONTree", "annotateChildren"} {
		f := c.MustFunc(r, "ygen", name)
		if f == nil {
			continue
		}
		info := f.Info()
		// loops over children: no continue/break; every child handled.
		n := 0
		ast.Inspect(f.Decl.Body, func(x ast.Node) bool {
			rs, ok := x.(*ast.RangeStmt)
			if !ok {
				return true
			}
			n++
			// per-element actions: annotateEntry(elem)/annotateChildren(elem) must run for every
			// element — no condition inside the loop may guard them (an early `continue` placed
			// before them shows up as a negative fact) — except that the recursion of
			// annotateChildren is limited to directories (ch.IsDir()).
			elem := types.Object(nil)
			if rs.Value != nil {
				elem = ObjOf(info, rs.Value)
			}
			sites, bad := 0, ""
			for _, call := range CallsIn(info, rs.Body, P("ygen")+".annotateEntry", P("ygen")+".annotateChildren") {
				if len(call.Args) == 0 || elem == nil || ObjOf(info, call.Args[0]) != elem {
					continue
				}
				sites++
				recursion := FullName(Callee(info, call)) == P("ygen")+".annotateChildren" && name == "annotateChildren"
				for _, ft := range c.FactsAt(f, call, false) {
					if ft.Cond == nil || ft.Cond.Pos() < rs.Body.Pos() || ft.Cond.Pos() > rs.Body.End() {
						continue
					}
					if recursion && ft.Kind == "cond" && ft.Pos {
						if cc, ok := ast.Unparen(ft.Cond).(*ast.CallExpr); ok && FullName(Callee(info, cc)) == yangEntry+".IsDir" {
							continue
						}
					}
					bad = types.ExprString(ft.Cond)
				}
			}
			if sites > 0 {
				r.Check(bad == "", fmt.Sprintf("ygen.%s:loop#%d:no-filter", name, n), c.Pos(rs.Pos()), fmt.Sprintf("%d per-element annotation call(s) run for every element (recursion only limited to directories)", sites),
					"ygen."+name+" annotates an element only under `"+bad+"`: nodes goyang reports (e.g. top-level leaves, leaf-lists, choices) are skipped while building the embedded schema and are missing from Schema()/UnzipSchema()")
				return true
			}
			skips := len(branchStmts(rs.Body, token.CONTINUE)) + len(branchStmts(rs.Body, token.BREAK))
			r.Check(skips == 0, fmt.Sprintf("ygen.%s:loop#%d:no-filter", name, n), c.Pos(rs.Pos()), "no element is skipped", "ygen."+name+" skips some modules/children while building the embedded schema: nodes goyang reports (e.g. top-level leaves, leaf-lists, choices) are missing from Schema()/UnzipSchema()")
			return true
		})
		if name == "buildJSONTree" {
			stored := false
			ast.Inspect(f.Decl.Body, func(x ast.Node) bool {
				if as, ok := x.(*ast.AssignStmt); ok && len(as.Lhs) == 1 {
					if ix, ok := as.Lhs[0].(*ast.IndexExpr); ok && strings.HasSuffix(types.ExprString(ix.X), "rootEntry.Dir") {
						// facts: only the negative overlap test.
						pos := 0
						for _, ft := range c.FactsAt(f, as, false) {
							if ft.Kind == "cond" && ft.Pos {
								pos++
							}
						}
						if lp, ok := c.EnclosingLoop(f, as).(*ast.RangeStmt); ok && pos == 0 && lp.Value != nil && ObjOf(info, as.Rhs[0]) == ObjOf(info, lp.Value) && IsCall(info, lp.X, P("util")+".Children") {
							stored = true
						}
					}
				}
				return true
			})
			r.Check(stored, "ygen.buildJSONTree:hoists-every-child", c.Pos(f.Decl.Pos()), "rootEntry.Dir[ch.Name] = ch for every util.Children(m)", "buildJSONTree does not place every child of every module under the root entry unconditionally")
			enc := CallsIn(info, f.Decl.Body, "encoding/json.MarshalIndent", "encoding/json.Marshal")
			r.Check(len(enc) == 1 && strings.HasSuffix(types.ExprString(enc[0].Args[0]), "rootEntry") && errTestedAfter(c, f, f.Decl.Body, enc[0]), "ygen.buildJSONTree:marshals-root", c.Pos(f.Decl.Pos()), "json of the root entry, error returned", "buildJSONTree does not serialise the root entry")
		}
		if name == "annotateChildren" {
			rec := CallsIn(info, f.Decl.Body, P("ygen")+".annotateChildren")
			okr := len(rec) == 1
			if okr {
				okr = false
				for _, ft := range c.FactsAt(f, rec[0], false) {
					if ft.Kind == "cond" && ft.Pos && FullName(Callee(info, ast.Unparen(ft.Cond).(*ast.CallExpr))) == yangEntry+".IsDir" {
						okr = true
					}
				}
			}
			r.Check(okr, "ygen.annotateChildren:recursion", c.Pos(f.Decl.Pos()), "recurses into every directory child", "annotateChildren does not recurse into every directory child")
		}
	}
	// who-may-write.
	allowed := map[string]bool{"Description": true, "Annotation": true}
	for _, name := range []string{"buildJSONTree", "annotateChildren", "annotateEntry"} {
		f := c.Func("ygen", name)
		if f == nil {
			continue
		}
		info := f.Info()
		var bad []string
		for fld, ps := range entryFieldWrites(f) {
			if allowed[fld] {
				continue
			}
			// writes to the freshly allocated root entry are not writes to goyang's tree.
			for _, p := range ps {
				fresh := false
				ast.Inspect(f.Decl.Body, func(n ast.Node) bool {
					if as, ok := n.(*ast.AssignStmt); ok && as.Pos() == p {
						for _, l := range as.Lhs {
							root := l
							for {
								switch x := ast.Unparen(root).(type) {
								case *ast.SelectorExpr:
									root = x.X
									continue
								case *ast.IndexExpr:
									root = x.X
									continue
								}
								break
							}
							if id, ok := root.(*ast.Ident); ok && paramIndex(f, info.ObjectOf(id)) < 0 && definedByLiteral(f, info.ObjectOf(id)) {
								fresh = true
							}
						}
					}
					return true
				})
				if !fresh {
					bad = append(bad, fld)
				}
			}
		}
		sort.Strings(bad)
		r.Check(len(bad) == 0, "ygen."+name+":writes-only-description-annotation", c.Pos(f.Decl.Pos()), "goyang entries are only annotated (Description, Annotation)", "ygen."+name+" rewrites entry field(s) "+strings.Join(bad, ", ")+" before serialising: the embedded schema no longer says what goyang compiled")
	}
	// compression.
	if f := c.MustFunc(r, "ygen", "WriteGzippedByteSlice"); f != nil {
		info := f.Info()
		w := CallsIn(info, f.Decl.Body, "compress/gzip.Writer.Write")
		cl := CallsIn(info, f.Decl.Body, "compress/gzip.Writer.Close")
		ok := len(w) == 1 && paramIndex(f, ObjOf(info, w[0].Args[0])) == 0 && len(cl) >= 1
		if ok {
			// Close precedes reading the buffer.
			for _, rs := range returnsOf(f.Decl.Body) {
				if len(rs.Results) == 2 && isNilConst(info, rs.Results[1]) && rs.Pos() < cl[0].Pos() {
					ok = false
				}
			}
			ok = ok && (isIfInit(c, f, w[0]) || errTestedAfter(c, f, f.Decl.Body, w[0]))
		}
		r.Check(ok, "ygen.WriteGzippedByteSlice:complete", c.Pos(f.Decl.Pos()), "writes all bytes, closes the writer before returning the buffer, write error returned", "WriteGzippedByteSlice does not write the whole input and close the gzip stream before returning it: the embedded schema is truncated")
	}
	// decoding.
	if f := c.MustFunc(r, "ygot", "GzipToSchema"); f != nil {
		info := f.Info()
		rd := CallsIn(info, f.Decl.Body, "io.ReadAll", "io/ioutil.ReadAll")
		um := CallsIn(info, f.Decl.Body, "encoding/json.Unmarshal")
		rb := CallsIn(info, f.Decl.Body, P("ygot")+".rebuildSchemaMap")
		ok := len(rd) == 1 && len(um) == 1 && len(rb) == 1 && errTestedAfter(c, f, f.Decl.Body, rd[0]) && (isIfInit(c, f, um[0]) || errTestedAfter(c, f, f.Decl.Body, um[0])) && isNilConst(info, rb[0].Args[1])
		r.Check(ok, "ygot.GzipToSchema:decodes-everything", c.Pos(f.Decl.Pos()), "ReadAll → Unmarshal → rebuildSchemaMap(root, nil, …), errors returned", "GzipToSchema does not read, decode and index the whole embedded schema")
	}
	schemaRebuildObligations(c, r)
}

// schemaRebuildObligations: decoding side shared by C27 and C32 (IsConfig walks Parent pointers).
func schemaRebuildObligations(c *Ctx, r *Report) {
	if f := c.MustFunc(r, "ygot", "rebuildSchemaMap"); f != nil {
		info := f.Info()
		parentSet, recAll := false, false
		for _, s := range f.Decl.Body.List {
			if as, ok := s.(*ast.AssignStmt); ok && len(as.Lhs) == 1 {
				if sel, ok := as.Lhs[0].(*ast.SelectorExpr); ok && sel.Sel.Name == "Parent" && paramIndex(f, ObjOf(info, sel.X)) == 0 && paramIndex(f, ObjOf(info, as.Rhs[0])) == 1 {
					parentSet = true
				}
			}
			if rs, ok := s.(*ast.RangeStmt); ok && strings.HasSuffix(types.ExprString(rs.X), ".Dir") {
				calls := CallsIn(info, rs.Body, P("ygot")+".rebuildSchemaMap")
				direct := false
				if len(calls) == 1 {
					if es, ok := c.parentMap(f.File)[calls[0]].(*ast.ExprStmt); ok && c.parentMap(f.File)[es] == ast.Node(rs.Body) {
						direct = true // the call is a statement of the loop body itself: no if/switch around it
					}
				}
				if len(calls) == 1 && direct && rs.Value != nil && ObjOf(info, calls[0].Args[0]) == ObjOf(info, rs.Value) && paramIndex(f, ObjOf(info, calls[0].Args[1])) == 0 &&
					len(branchStmts(rs.Body, token.CONTINUE))+len(branchStmts(rs.Body, token.BREAK)) == 0 {
					recAll = true
				}
			}
		}
		r.Check(parentSet, "ygot.rebuildSchemaMap:parent", c.Pos(f.Decl.Pos()), "e.Parent = parent unconditionally for every entry", "rebuildSchemaMap does not restore Parent (not serialised) for every entry: inherited config, paths and leafref resolution break at run time")
		r.Check(recAll, "ygot.rebuildSchemaMap:all-children", c.Pos(f.Decl.Pos()), "recurses into every Dir child with itself as parent", "rebuildSchemaMap does not visit every child of every entry")
		idx := false
		ast.Inspect(f.Decl.Body, func(n ast.Node) bool {
			if as, ok := n.(*ast.AssignStmt); ok && len(as.Lhs) == 1 {
				if ix, ok := as.Lhs[0].(*ast.IndexExpr); ok && paramIndex(f, ObjOf(info, ix.X)) == 2 && paramIndex(f, ObjOf(info, as.Rhs[0])) == 0 {
					idx = true
					// no early exit may precede the indexing (an entry with a structname annotation is always indexed).
					for _, rs := range returnsOf(f.Decl.Body) {
						if rs.Pos() < as.Pos() {
							idx = false
						}
					}
					for _, ft := range c.FactsAt(f, as, false) {
						if ft.Kind == "cond" && !ft.Pos {
							idx = false
						}
					}
				}
			}
			return true
		})
		r.Check(idx, "ygot.rebuildSchemaMap:indexes-structname", c.Pos(f.Decl.Pos()), "schema[structname] = e for every annotated entry, before any exit", "rebuildSchemaMap does not index every entry that carries a structname annotation (an early exit or extra condition precedes the indexing): e.g. childless containers, whose Dir is omitted from the JSON, vanish from the schema map")
	}
}

// ruleSchemaRebuild: the decoding-side obligations under their own rule header (C32).
func ruleSchemaRebuild(c *Ctx, r *Report) {
	r.Rule("R-SCHEMA-REBUILD", "GzipToSchema's rebuildSchemaMap restores Parent (not serialised) on every entry and visits every child: util.IsConfig walks Parent pointers, so an entry left without a parent loses its inherited config false", 3)
	schemaRebuildObligations(c, r)
}

// ruleSchemaReadSet: R-SCHEMA-READSET.
func ruleSchemaReadSet(c *Ctx, r *Report) {
	r.Rule("R-SCHEMA-READSET", "run-time library code reads only yang.Entry fields that survive serialisation (goyang's json tags) or that GzipToSchema rebuilds (Parent): a read of Node, Errors, Deviations or Deviate sees a zero value in generated code's schema", 50)
	p := c.All["github.com/openconfig/goyang/pkg/yang"]
	if p == nil || p.Types == nil {
		r.Und("goyang", "-", "goyang not loaded")
		return
	}
	tn, _ := p.Types.Scope().Lookup("Entry").(*types.TypeName)
	if tn == nil {
		r.Und("goyang:Entry", "-", "yang.Entry not found")
		return
	}
	st := tn.Type().Underlying().(*types.Struct)
	notSerialised := map[string]bool{}
	for i := 0; i < st.NumFields(); i++ {
		tag := reflect.StructTag(st.Tag(i)).Get("json")
		if tag == "-" {
			notSerialised[st.Field(i).Name()] = true
		}
	}
	delete(notSerialised, "Parent")
	if len(notSerialised) < 2 {
		r.Und("goyang:Entry:tags", "-", "fewer json:\"-\" fields than expected: tags not readable")
		return
	}
	var ns []string
	for k := range notSerialised {
		ns = append(ns, k)
	}
	sort.Strings(ns)
	r.Assume("yang.Entry fields not serialised (json:\"-\") on this goyang version: " + strings.Join(ns, ", ") + " (Parent is rebuilt by rebuildSchemaMap)")
	entries := append(append([]string{}, allInputEntries...), "ytypes:ValidateLeafRefData", "ytypes:GetOrCreateNode", "ygot:PruneConfigFalse", "ygot:BuildEmptyTree", "ygot:PruneEmptyBranches", "ygot:GzipToSchema")
	fs := c.entryReach(r, entries...)
	n := 0
	for _, f := range fs {
		info := f.Info()
		perField := map[string]token.Pos{}
		reads := 0
		ast.Inspect(f.Decl.Body, func(x ast.Node) bool {
			sel, ok := x.(*ast.SelectorExpr)
			if !ok {
				return true
			}
			tv, ok := info.Types[sel.X]
			if !ok || namedTypeOf(tv.Type) != yangEntry {
				return true
			}
			if _, isField := info.ObjectOf(sel.Sel).(*types.Var); !isField {
				return true
			}
			reads++
			if notSerialised[sel.Sel.Name] {
				perField[sel.Sel.Name] = sel.Pos()
			}
			return true
		})
		if reads == 0 {
			continue
		}
		n++
		if len(perField) == 0 {
			r.OK(f.Name+":entry-fields", c.Pos(f.Decl.Pos()), fmt.Sprintf("%d entry field reads, all serialised", reads))
			continue
		}
		var flds []string
		pos := token.NoPos
		for k, p := range perField {
			flds = append(flds, k)
			pos = p
		}
		sort.Strings(flds)
		if why, ok := readSetExceptions[f.Name]; ok {
			r.Exc(f.Name+":entry-fields", c.Pos(pos), why)
			continue
		}
		r.Bad(f.Name+":entry-fields", c.Pos(pos), fmt.Sprintf("%s, reachable from the run-time API, reads yang.Entry.%s, which is not serialised into the embedded schema: it is always zero for generated code", f.Name, strings.Join(flds, "/")))
	}
}

// readSetExceptions: run-time-reachable functions that read a non-serialised field on purpose.
var readSetExceptions = map[string]string{}

// definedByLiteral: every definition of obj in f is a (pointer to a) composite literal.
func definedByLiteral(f *FuncInfo, obj types.Object) bool {
	info := f.Info()
	seen, ok := false, true
	ast.Inspect(f.Decl.Body, func(n ast.Node) bool {
		as, isAs := n.(*ast.AssignStmt)
		if !isAs {
			return true
		}
		for i, l := range as.Lhs {
			if id, isID := l.(*ast.Ident); isID && info.ObjectOf(id) == obj && i < len(as.Rhs) {
				seen = true
				rhs := ast.Unparen(as.Rhs[i])
				if u, isU := rhs.(*ast.UnaryExpr); isU && u.Op == token.AND {
					rhs = u.X
				}
				if _, isLit := rhs.(*ast.CompositeLit); !isLit {
					ok = false
				}
			}
		}
		return true
	})
	return seen && ok
}
