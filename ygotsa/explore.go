package main

import (
	"fmt"
	"go/ast"
	"go/token"
	"go/types"
)

var exploreHooks = map[string]func(c *Ctx){}

// explore: developer query used to enumerate candidate sites before freezing a rule.
func explore(c *Ctx, what string) {
	for _, rel := range libPkgs {
		for _, f := range c.AllFuncs(rel) {
			info := f.Info()
			ast.Inspect(f.Decl.Body, func(n ast.Node) bool {
				switch what {
				case "signconv":
					call, ok := n.(*ast.CallExpr)
					if !ok || len(call.Args) != 1 {
						return true
					}
					tv, ok := info.Types[call.Fun]
					if !ok || !tv.IsType() {
						return true
					}
					to, ok1 := tv.Type.Underlying().(*types.Basic)
					from, ok2 := info.Types[call.Args[0]].Type.Underlying().(*types.Basic)
					if !ok1 || !ok2 || info.Types[call.Args[0]].Value != nil {
						return true
					}
					if to.Info()&types.IsInteger != 0 && from.Info()&types.IsInteger != 0 {
						if (to.Info()&types.IsUnsigned != 0) != (from.Info()&types.IsUnsigned != 0) {
							fmt.Printf("%s %s: %s -> %s : %s\n", c.Pos(call.Pos()), f.Name, from.Name(), to.Name(), types.ExprString(call))
						}
					}
				case "byterune":
					call, ok := n.(*ast.CallExpr)
					if !ok || len(call.Args) != 1 {
						return true
					}
					tv, ok := info.Types[call.Fun]
					if !ok || !tv.IsType() {
						return true
					}
					if ix, ok := ast.Unparen(call.Args[0]).(*ast.IndexExpr); ok {
						if b, ok := info.Types[ix.X].Type.Underlying().(*types.Basic); ok && b.Info()&types.IsString != 0 {
							fmt.Printf("%s %s: %s\n", c.Pos(call.Pos()), f.Name, types.ExprString(call))
						}
					}
				case "append":
					call, ok := n.(*ast.CallExpr)
					if !ok {
						return true
					}
					if id, ok := call.Fun.(*ast.Ident); ok && id.Name == "append" && len(call.Args) > 0 {
						if _, isB := info.Uses[id].(*types.Builtin); isB {
							fmt.Printf("%s %s: %s\n", c.Pos(call.Pos()), f.Name, types.ExprString(call))
						}
					}
				}
				return true
			})
		}
	}
}

func exploreRule(c *Ctx, what string) {
	if h, ok := exploreHooks[what]; ok {
		h(c)
		return
	}
	r := NewReport("X", "quick")
	all := func(string) bool { return true }
	switch what {
	case "appendalias":
		ruleAppendAlias(c, r, c.funcsInScope(all, libPkgs), 0)
	case "signconvrule":
		ruleSignConv(c, r, c.funcsInScope(all, libPkgs), 0)
	case "optsforward":
		ruleOptsForward(c, r, c.funcsInScope(all, libPkgs), 0)
	case "copyalias":
		ruleCopyAlias(c, r)
	case "node":
		ruleWriteGated(c, r)
		ruleWildcardOpt(c, r)
		ruleDeletePrune(c, r)
		ruleReflectString(c, r, c.funcsInScope(all, libPkgs))
	case "paramstore":
		ruleParamStore(c, r, c.funcsInScope(all, libPkgs), 0)
	case "byterunerule":
		ruleByteRune(c, r, c.funcsInScope(all, libPkgs))
	}
	for _, ob := range r.obs {
		if ob.Status != Discharged {
			fmt.Printf("%s %s %s: %s\n", ob.Status, ob.Pos, ob.Construct, ob.Detail)
		}
	}
	fmt.Println("total", len(r.obs))
}

func init() {
	exploreHooks["roreflect"] = func(c *Ctx) {
		r := NewReport("X", "quick")
		r.Rule("x", "x", 0)
		fs := c.entryReachCut(r, func(f *FuncInfo) bool { return f.Name == "ytypes.retrieveNode" }, "ytypes:Validate", "ygot:ValidateGoStruct", "ygot:EmitJSON", "ygot:ConstructIETFJSON", "ygot:ConstructInternalJSON", "ygot:Marshal7951", "ygot:TogNMINotifications", "ygot:EncodeTypedValue", "ygot:Diff", "ygot:DiffWithAtomic")
		fmt.Println("reachable funcs", len(fs))
		for _, f := range fs {
			ast.Inspect(f.Decl.Body, func(n ast.Node) bool {
				if call, ok := n.(*ast.CallExpr); ok {
					fn := FullName(Callee(f.Info(), call))
					switch fn {
					case "reflect.Value.Set", "reflect.Value.SetMapIndex", "reflect.Value.SetInt", "reflect.Value.SetString", "reflect.Value.SetBool", "reflect.Value.SetUint", "reflect.Value.SetFloat", "reflect.Value.SetLen", "reflect.Value.SetBytes", "reflect.Value.Call", "reflect.Copy", "sort.Slice", "sort.Strings", "sort.Sort":
						fmt.Printf("%s %s: %s\n", c.Pos(call.Pos()), f.Name, types.ExprString(call))
					}
				}
				return true
			})
		}
	}
}


func init() {
	exploreHooks["asserts"] = func(c *Ctx) {
		r := NewReport("X", "quick")
		r.Rule("x", "x", 0)
		fs := c.entryReach(r, c20Entries...)
		fmt.Println("reachable", len(fs))
		for _, f := range fs {
			for _, as := range AssertionsIn(c, f, f.Decl.Body) {
				if as.CommaOk {
					continue
				}
				fmt.Printf("%s %s: %s.(%s)\n", c.Pos(as.Node.Pos()), f.Name, types.ExprString(as.X), as.Type)
			}
		}
	}
}

func init() {
	exploreHooks["ifaceeq"] = func(c *Ctx) {
		for _, rel := range libPkgs {
			for _, f := range c.AllFuncs(rel) {
				info := f.Info()
				ast.Inspect(f.Decl.Body, func(n ast.Node) bool {
					be, ok := n.(*ast.BinaryExpr)
					if !ok || (be.Op != token.EQL && be.Op != token.NEQ) {
						return true
					}
					tx, ty := info.Types[be.X], info.Types[be.Y]
					if tx.Type == nil || ty.Type == nil || tx.IsNil() || ty.IsNil() {
						return true
					}
					_, ix := tx.Type.Underlying().(*types.Interface)
					_, iy := ty.Type.Underlying().(*types.Interface)
					if ix && iy && tx.Type.String() != "error" && tx.Type.String() != "reflect.Type" {
						fmt.Printf("%s %s: %s  [%s | %s]\n", c.Pos(be.Pos()), f.Name, types.ExprString(be), tx.Type, ty.Type)
					}
					return true
				})
			}
		}
	}
}

func init() {
	exploreHooks["constindex"] = func(c *Ctx) {
		r := NewReport("X", "quick")
		r.Rule("x", "x", 0)
		fs := c.entryReach(r, c20Entries...)
		fmt.Println("reachable funcs", len(fs))
		for _, f := range fs {
			info := f.Info()
			ast.Inspect(f.Decl.Body, func(n ast.Node) bool {
				ix, ok := n.(*ast.IndexExpr)
				if !ok {
					return true
				}
				tv, ok := info.Types[ix.X]
				if !ok || tv.Type == nil || tv.IsType() {
					return true
				}
				switch t := tv.Type.Underlying().(type) {
				case *types.Slice:
				case *types.Basic:
					if t.Info()&types.IsString == 0 {
						return true
					}
				default:
					return true
				}
				xs := types.ExprString(ix.X)
				guarded := false
				for _, ft := range c.FactsAt(f, ix, true) {
					if ft.Cond != nil && (containsStr(types.ExprString(ft.Cond), "len("+xs+")") || containsStr(types.ExprString(ft.Cond), xs)) {
						guarded = true
					}
				}
				if loop := c.EnclosingLoop(f, ix); loop != nil {
					if rs, ok := loop.(*ast.RangeStmt); ok && types.ExprString(rs.X) == xs {
						guarded = true
					}
					if fs, ok := loop.(*ast.ForStmt); ok && fs.Cond != nil && containsStr(types.ExprString(fs.Cond), xs) {
						guarded = true
					}
				}
				if !guarded {
					fmt.Printf("%s %s: %s\n", c.Pos(ix.Pos()), f.Name, types.ExprString(ix))
				}
				return true
			})
		}
	}
}

func containsStr(s, sub string) bool {
	for i := 0; i+len(sub) <= len(s); i++ {
		if s[i:i+len(sub)] == sub {
			return true
		}
	}
	return false
}
