package main

import (
	"fmt"
	"go/ast"
	"go/token"
	"go/types"
	"os"
	"path/filepath"
	"sort"
	"strings"
)

// wholePackageSrc expands every gogen template once into one complete synthetic generated package
// (root struct with a container, a keyed list, an ordered list, leaves of several kinds incl. an
// enum, a union and a leaf-list, with getters/setters/defaults/validators/schema variables).
func wholePackageSrc(c *Ctx, r *Report, simpleUnions bool) (string, bool) {
	ts := c.templatesOf("gogen")
	var b strings.Builder
	ok := true
	exp := func(name string, data any) {
		t := ts[name]
		if t == nil {
			r.Und("template:"+name, "-", "template not found in gogen")
			ok = false
			return
		}
		s, err := instantiate(t, data)
		if err != nil {
			r.Und(name+"[whole-package]:expand", c.Pos(t.Pos), "template expansion failed (template reads data the analyser's shape does not provide?): "+err.Error())
			ok = false
			return
		}
		b.WriteString(s)
	}
	goOpts := map[string]any{"YgotImportPath": P("ygot"), "GoyangImportPath": "github.com/openconfig/goyang/pkg/yang", "YtypesImportPath": P("ytypes"), "GNMIProtoPath": "github.com/openconfig/gnmi/proto/gnmi",
		"IncludeModelData": true, "GenerateSimpleUnions": simpleUnions}
	hdr := map[string]any{"PackageName": "wp", "GoOptions": goOpts, "GenerateSchema": true, "CompressEnabled": true, "GeneratingBinary": "ygotsa", "YANGFiles": []string{"a.yang"}, "IncludePaths": []string{"inc"},
		"BinaryTypeName": "Binary", "EmptyTypeName": "YANGEmpty", "FakeRootName": "&Device{}", "ModelData": []map[string]any{{"Name": "a", "Organization": "o", "Version": "1"}}}
	exp("commonHeader", hdr)
	exp("oneoffHeader", hdr)
	fld := func(name, typ, tags string, scalar bool) map[string]any {
		return map[string]any{"Name": name, "Type": typ, "Tags": tags, "IsScalarField": scalar, "IsYANGContainer": false, "IsYANGList": false}
	}
	unionT := "Device_U_Union"
	device := map[string]any{"StructName": "Device", "YANGPath": "/device", "BelongingModule": "", "ValidateProxyFnName": "Validate", "Fields": []map[string]any{
		fld("Str", "string", `path:"str" module:"a"`, true), fld("Color", "E_Color", `path:"color" module:"a"`, false), fld("LL", "[]uint32", `path:"ll" module:"a"`, false),
		fld("U", unionT, `path:"u" module:"a"`, false), fld("Bin", "Binary", `path:"bin" module:"a"`, false), fld("Emp", "YANGEmpty", `path:"emp" module:"a"`, false),
		fld("Cont", "*Cont", `path:"cont" module:"a"`, false), fld("L", "map[string]*Elem", `path:"l" module:"a"`, false), fld("OL", "*Elem_OrderedMap", `path:"ol" module:"a" yangOrderedBy:"user"`, false),
	}}
	cont := map[string]any{"StructName": "Cont", "YANGPath": "/device/cont", "BelongingModule": "a", "ValidateProxyFnName": "Validate", "Fields": []map[string]any{fld("X", "string", `path:"x" module:"a"`, true)}}
	elem := map[string]any{"StructName": "Elem", "YANGPath": "/device/l", "BelongingModule": "a", "ValidateProxyFnName": "Validate", "Fields": []map[string]any{fld("Name", "string", `path:"name" module:"a"`, true), fld("Value", "string", `path:"value" module:"a"`, true)}}
	for _, s := range []map[string]any{device, cont, elem} {
		exp("struct", s)
		exp("structValidator", s)
		exp("structValidatorProxy", s)
		exp("enumTypeMapAccessor", s)
		exp("belongingModuleMethod", s)
	}
	contField := map[string]any{"StructName": "Device", "Field": fld("Cont", "*Cont", "", false)}
	exp("getContainer", contField)
	exp("getOrCreateStruct", contField)
	leaves := []map[string]any{
		{"Name": "Str", "Type": "string", "Zero": `""`, "IsPtr": true, "Receiver": "Device", "Default": "\"d\""},
		{"Name": "Color", "Type": "E_Color", "Zero": "0", "IsPtr": false, "Receiver": "Device", "Default": "Color_RED"},
		{"Name": "LL", "Type": "[]uint32", "Zero": "nil", "IsPtr": false, "Receiver": "Device", "Default": nil},
	}
	for _, l := range leaves {
		exp("getLeaf", l)
		exp("setLeaf", l)
	}
	exp("populateDefaults", map[string]any{"Receiver": "Device", "ChildContainerNames": []string{"Cont"}, "ChildUnorderedListNames": []string{"L"}, "ChildOrderedListNames": []string{"OL"}, "Leaves": leaves})
	exp("populateDefaults", map[string]any{"Receiver": "Cont", "ChildContainerNames": []string{}, "ChildUnorderedListNames": []string{}, "ChildOrderedListNames": []string{}, "Leaves": []map[string]any{}})
	exp("populateDefaults", map[string]any{"Receiver": "Elem", "ChildContainerNames": []string{}, "ChildUnorderedListNames": []string{}, "ChildOrderedListNames": []string{}, "Leaves": []map[string]any{}})
	shape := listShapes[0]
	lm := map[string]any{"ListName": "L", "ListType": "Elem", "Keys": shape.keyData(), "KeyStruct": "", "Receiver": "Device"}
	for _, n := range []string{"newListEntry", "renameListEntry", "getOrCreateList", "getOrCreateListElement", "getList", "deleteList", "appendList"} {
		exp(n, lm)
	}
	exp("keyHelper", map[string]any{"Receiver": "Elem", "Keys": shape.keyHelperData()})
	om := map[string]any{"StructName": "Elem_OrderedMap", "KeyName": "string", "ListTypeName": "Elem", "ListFieldName": "OL", "Keys": shape.keyData(), "ParentStructName": "Device", "YANGPath": "/device/ol"}
	exp("orderedMapParentMethods", om)
	exp("orderedMap", om)
	exp("enumDefinition", map[string]any{"EnumerationPrefix": "Color", "Values": map[int64]string{0: "UNSET", 1: "RED", 2: "BLUE"}})
	exp("enumMap", map[string]map[int64]map[string]any{"Color": {1: {"Name": "RED", "DefiningModule": "a"}, 2: {"Name": "BLUE", "DefiningModule": ""}}})
	exp("enumTypeMap", map[string][]string{"/device/color": {"E_Color"}})
	exp("schemaVar", map[string]any{"VarName": "ySchema", "Schema": []string{"0x1f, 0x8b,"}})
	if simpleUnions {
		u := map[string]any{"Name": unionT, "LeafPath": "/device/u", "ParentReceiver": "Device", "SubtypeDocumentation": "string, uint32", "Types": map[string]string{"UnionString": "string", "UnionUint32": "uint32", "*UnionUnsupported": "interface{}"},
			"TypeNames": []string{"string", "uint32"}, "HasUnsupported": true, "ConversionSpecs": []map[string]any{{"PrimitiveType": "string", "ConversionSnippet": "UnionString(v)"}, {"PrimitiveType": "uint32", "ConversionSnippet": "UnionUint32(v)"}}}
		exp("unionTypeSimple", u)
		exp("unionHelperSimple", u)
	} else {
		u := map[string]any{"Name": unionT, "LeafPath": "/device/u", "ParentReceiver": "Device", "Types": map[string]string{"String": "string", "Uint32": "uint32", "Binary": "Binary"}, "TypeNames": []string{"Binary", "string", "uint32"}}
		exp("unionType", u)
		exp("unionHelper", u)
	}
	return b.String(), ok
}

// ruleCompileTemplates: R-COMPILE(templates).
func ruleCompileTemplates(c *Ctx, r *Report) {
	r.Rule("R-COMPILE", "every gogen template, expanded together into one complete generated package (root, container, keyed list, ordered list, scalar/enum/union/binary/empty/leaf-list leaves; wrapper and simple unions), yields Go code that type-checks against the real ygot/ytypes/goyang packages; every generated struct implements ygot.GoStruct and the validated-struct methods; the compiled generated packages and the golden generated files type-check", 10)
	ts := c.templatesOf("gogen")
	c.stats["gogen_templates"] = len(ts)
	used := map[string]bool{}
	for _, simple := range []bool{true, false} {
		tag := map[bool]string{true: "simple-unions", false: "wrapper-unions"}[simple]
		src, ok := wholePackageSrc(c, r, simple)
		if !ok {
			continue
		}
		sp, err := c.buildSynth("wp_"+strings.ReplaceAll(tag, "-", "_"), src)
		pos := "gogen/gogen.go"
		if err != nil {
			r.Bad("whole-package["+tag+"]:compiles", pos, "the complete package gogen's templates expand to does not compile: "+err.Error())
			continue
		}
		r.OK("whole-package["+tag+"]:compiles", pos, fmt.Sprintf("%d declarations type-check against the loaded ygot/ytypes/goyang", len(sp.File.Decls)))
		// interface satisfaction.
		goStruct := c.Pkg("ygot").Types.Scope().Lookup("GoStruct")
		validated := c.Pkg("ygot").Types.Scope().Lookup("ValidatedGoStruct")
		for _, n := range []string{"Device", "Cont", "Elem"} {
			tn, _ := sp.Pkg.Types.Scope().Lookup(n).(*types.TypeName)
			okI := tn != nil && goStruct != nil && types.Implements(types.NewPointer(tn.Type()), goStruct.Type().Underlying().(*types.Interface))
			okV := tn != nil && validated != nil && types.Implements(types.NewPointer(tn.Type()), validated.Type().Underlying().(*types.Interface))
			r.Check(okI && okV, "whole-package["+tag+"]:"+n+":implements", pos, "*"+n+" implements ygot.GoStruct and ygot.ValidatedGoStruct", "the generated struct "+n+" does not implement ygot.GoStruct/ValidatedGoStruct")
		}
		om, _ := sp.Pkg.Types.Scope().Lookup("Elem_OrderedMap").(*types.TypeName)
		gom := c.Pkg("ygot").Types.Scope().Lookup("GoOrderedMap")
		r.Check(om != nil && gom != nil && types.Implements(types.NewPointer(om.Type()), gom.Type().Underlying().(*types.Interface)), "whole-package["+tag+"]:ordered-map:implements", pos, "generated ordered map implements ygot.GoOrderedMap", "the generated ordered map does not implement ygot.GoOrderedMap")
		en, _ := sp.Pkg.Types.Scope().Lookup("E_Color").(*types.TypeName)
		ge := c.Pkg("ygot").Types.Scope().Lookup("GoEnum")
		r.Check(en != nil && ge != nil && types.Implements(en.Type(), ge.Type().Underlying().(*types.Interface)), "whole-package["+tag+"]:enum:implements", pos, "generated enum implements ygot.GoEnum", "the generated enumeration type does not implement ygot.GoEnum")
	}
	for _, n := range []string{"commonHeader", "oneoffHeader", "struct", "structValidator", "structValidatorProxy", "getContainer", "getOrCreateStruct", "enumDefinition", "getLeaf", "setLeaf", "populateDefaults", "enumMap", "enumTypeMap", "enumTypeMapAccessor", "belongingModuleMethod", "schemaVar", "unionType", "unionHelper", "unionTypeSimple", "unionHelperSimple", "orderedMapParentMethods", "orderedMap", "listkey", "newListEntry", "getList", "getOrCreateListElement", "getOrCreateList", "deleteList", "appendList", "renameListEntry", "keyHelper"} {
		used[n] = true
	}
	var unknown []string
	for n := range ts {
		if !used[n] {
			unknown = append(unknown, n)
		}
	}
	sort.Strings(unknown)
	r.Check(len(unknown) == 0, "gogen:templates-covered", "gogen", fmt.Sprintf("all %d templates of gogen are expanded by the analyser", len(ts)), "gogen has templates the analyser does not expand: "+strings.Join(unknown, ", "))
}

// ruleCompileCorpus: the golden generated files type-check.
func ruleCompileCorpus(c *Ctx, r *Report) {
	dirs := []string{"gogen/testdata/structs", "gogen/testdata/schema"}
	alias := map[string]string{"bar/ygot": P("ygot"), "baz/ytypes": P("ytypes"), "foo/goyang": "github.com/openconfig/goyang/pkg/yang", "foo/goyang/pkg/yang": "github.com/openconfig/goyang/pkg/yang"}
	n := 0
	for _, d := range dirs {
		files, _ := filepath.Glob(filepath.Join(repoDir(), d, "*.formatted-txt"))
		sort.Strings(files)
		for _, fn := range files {
			b, err := os.ReadFile(fn)
			if err != nil {
				continue
			}
			src := string(b)
			for from, to := range alias {
				src = strings.ReplaceAll(src, `"`+from+`"`, `"`+to+`"`)
			}
			if strings.Contains(src, "ySchema") && !strings.Contains(src, "ySchema = []byte") && !strings.Contains(src, "ySchema =") {
				src += "\nvar ySchema []byte\n"
			}
			n++
			name := strings.NewReplacer(".", "_", "-", "_").Replace(strings.TrimSuffix(filepath.Base(fn), ".formatted-txt"))
			_, err = c.buildSynth("golden_"+name, src)
			rel := relpos(fn)
			r.Check(err == nil, "golden:"+filepath.Base(fn)+":compiles", rel, "type-checks", fmt.Sprintf("golden generated file %s does not type-check: %v", rel, err))
		}
	}
	c.stats["golden_go_files"] = n
	if n < 40 {
		r.Und("golden:count", "-", fmt.Sprintf("only %d golden Go files found", n))
	}
}

// ruleFieldKinds: R-FIELD-KIND (gogen.writeGoStruct / ygen.createFakeRoot).
func ruleFieldKinds(c *Ctx, r *Report) {
	r.Rule("R-FIELD-KIND", "in gogen.writeGoStruct every IR field yields exactly one struct field whose Go type follows its node kind (container → pointer to the directory's struct; list → type from yangListFieldToGoType; leaf-list → slice), field names come from the per-directory uniquified name map, struct names from MakeNameUnique on the package-wide set; the PopulateDefaults child lists are chosen by the same test that chose the field's type (ordered map or not); the fake root receives every root container/list and every root leaf and leaf-list", 10)
	f := c.MustFunc(r, "gogen", "writeGoStruct")
	if f != nil {
		info := f.Info()
		// the field loop.
		var loop *ast.RangeStmt
		ast.Inspect(f.Decl.Body, func(n ast.Node) bool {
			if rs, ok := n.(*ast.RangeStmt); ok && strings.HasSuffix(types.ExprString(rs.X), ".OrderedFieldNames()") && loop == nil {
				loop = rs
			}
			return true
		})
		if loop == nil {
			r.Und("gogen.writeGoStruct:field-loop", c.Pos(f.Decl.Pos()), "loop over OrderedFieldNames not found")
		} else {
			// one append of fieldDef per iteration at loop-body top level.
			appends := 0
			for _, s := range loop.Body.List {
				if as, ok := s.(*ast.AssignStmt); ok && len(as.Rhs) == 1 {
					if call, ok := as.Rhs[0].(*ast.CallExpr); ok {
						if id, ok := call.Fun.(*ast.Ident); ok && id.Name == "append" && len(call.Args) == 2 && strings.HasSuffix(types.ExprString(as.Lhs[0]), ".Fields") && types.ExprString(call.Args[1]) == "fieldDef" {
							appends++
						}
					}
				}
			}
			r.Check(appends == 1, "gogen.writeGoStruct:one-field-per-node", c.Pos(loop.Pos()), "structDef.Fields = append(…, fieldDef) once per IR field", "writeGoStruct does not append exactly one struct field per IR field at the end of each iteration")
			// field name source.
			nameOK := false
			ast.Inspect(loop.Body, func(n ast.Node) bool {
				if as, ok := n.(*ast.AssignStmt); ok && len(as.Lhs) == 1 && types.ExprString(as.Lhs[0]) == "fieldName" {
					if ix, ok := ast.Unparen(as.Rhs[0]).(*ast.IndexExpr); ok && rs1(info, loop, ix.Index) {
						// map produced by ygen.GoFieldNameMap
						obj := ObjOf(info, ix.X)
						ast.Inspect(f.Decl.Body, func(m ast.Node) bool {
							if a2, ok := m.(*ast.AssignStmt); ok && len(a2.Lhs) == 1 && ObjOf(info, a2.Lhs[0]) == obj && IsCall(info, a2.Rhs[0], P("ygen")+".GoFieldNameMap") {
								nameOK = true
							}
							return true
						})
					}
				}
				return true
			})
			r.Check(nameOK, "gogen.writeGoStruct:field-names-uniquified", c.Pos(loop.Pos()), "fieldName := ygen.GoFieldNameMap(dir)[yang name]", "writeGoStruct no longer takes field names from the per-directory uniquified name map: two YANG nodes whose names camel-case alike produce duplicate struct fields")
			// arms.
			var sw *ast.SwitchStmt
			for _, s := range loop.Body.List {
				if x, ok := s.(*ast.SwitchStmt); ok && strings.HasSuffix(types.ExprString(x.Tag), ".Type") {
					sw = x
				}
			}
			if sw == nil {
				r.Und("gogen.writeGoStruct:kind-switch", c.Pos(loop.Pos()), "switch on field.Type not found")
			} else {
				for _, cc := range sw.Body.List {
					cl := cc.(*ast.CaseClause)
					var keys []string
					for _, e := range cl.List {
						keys = append(keys, constName(info, e))
					}
					k := strings.Join(keys, ",")
					switch {
					case strings.Contains(k, "ListNode") && !strings.Contains(k, "Leaf"):
						// the ordered/unordered decision.
						var ord, unord, oms ast.Node
						ast.Inspect(cl, func(n ast.Node) bool {
							if as, ok := n.(*ast.AssignStmt); ok && len(as.Lhs) == 1 {
								l := types.ExprString(as.Lhs[0])
								switch {
								case strings.HasSuffix(l, ".ChildOrderedListNames"):
									ord = as
								case strings.HasSuffix(l, ".ChildUnorderedListNames"):
									unord = as
								case strings.HasSuffix(l, "associatedOrderedMapStructs") || l == "associatedOrderedMapStructs":
									oms = as
								}
							}
							return true
						})
						same := ord != nil && unord != nil && oms != nil
						if same {
							fo, fu, fm := condFacts(c, f, ord), condFacts(c, f, unord), condFacts(c, f, oms)
							same = fo == fm && fo != "" && fu == "!"+fo
						}
						r.Check(same, "gogen.writeGoStruct:list:ordered-choice", c.Pos(cl.Pos()), "ordered-list defaults, ordered-map struct generation and the field type share one test; unordered is its negation",
							"writeGoStruct decides the PopulateDefaults list kind by a different test than the one that decides whether the field is an ordered map: with GenerateOrderedListsAsUnorderedMaps an ordered-by-user list is a plain map but PopulateDefaults calls .Values() on it (does not compile)")
						typeFromHelper := len(CallsIn(info, cl, P("gogen")+".yangListFieldToGoType")) == 1
						r.Check(typeFromHelper, "gogen.writeGoStruct:list:type", c.Pos(cl.Pos()), "list field type from yangListFieldToGoType", "the list arm no longer derives the field type from yangListFieldToGoType")
					case strings.Contains(k, "ContainerNode"):
						okc := false
						ast.Inspect(cl, func(n ast.Node) bool {
							if kv, ok := n.(*ast.KeyValueExpr); ok && types.ExprString(kv.Key) == "Type" {
								if call, ok := kv.Value.(*ast.CallExpr); ok && FullName(Callee(info, call)) == "fmt.Sprintf" {
									if v, ok := ConstOf(info, call.Args[0]); ok && v == `"*%s"` && strings.HasSuffix(types.ExprString(call.Args[1]), ".Name") {
										okc = true
									}
								}
							}
							return true
						})
						r.Check(okc, "gogen.writeGoStruct:container:type", c.Pos(cl.Pos()), "container field is *<directory struct name>", "the container arm does not type the field as a pointer to the directory's struct")
					case strings.Contains(k, "LeafNode"):
						ll := false
						ast.Inspect(cl, func(n ast.Node) bool {
							if is, ok := n.(*ast.IfStmt); ok && strings.Contains(types.ExprString(is.Cond), "LeafListNode") {
								ast.Inspect(is.Body, func(m ast.Node) bool {
									if call, ok := m.(*ast.CallExpr); ok && FullName(Callee(info, call)) == "fmt.Sprintf" {
										if v, ok := ConstOf(info, call.Args[0]); ok && v == `"[]%s"` {
											ll = true
										}
									}
									return true
								})
							}
							return true
						})
						r.Check(ll, "gogen.writeGoStruct:leaf-list:type", c.Pos(cl.Pos()), "leaf-list field is []<element type>", "the leaf arm no longer types leaf-lists as slices of the element type")
					}
				}
			}
		}
	}
	if g := c.MustFunc(r, "gogen", "GoLangMapper.DirectoryName"); g != nil {
		gi := g.Info()
		ok := false
		for _, call := range CallsIn(gi, g.Decl.Body, P("genutil")+".MakeNameUnique") {
			if len(call.Args) == 2 && strings.HasSuffix(types.ExprString(call.Args[1]), ".definedGlobals") {
				if as, isAs := c.parentMap(g.File)[call].(*ast.AssignStmt); isAs {
					obj := ObjOf(gi, as.Lhs[0])
					for _, rs := range returnsOf(g.Decl.Body) {
						if len(rs.Results) == 2 && ObjOf(gi, rs.Results[0]) == obj {
							ok = true
						}
					}
				}
			}
		}
		r.Check(ok, "gogen.GoLangMapper.DirectoryName:unique", c.Pos(g.Decl.Pos()), "returns MakeNameUnique(candidate, definedGlobals)", "DirectoryName no longer uniquifies struct names against the package-wide set: two directories with the same candidate name produce duplicate type declarations")
	}
	if g := c.MustFunc(r, "ygen", "GoFieldNameMap"); g != nil {
		gi := g.Info()
		calls := CallsIn(gi, g.Decl.Body, P("genutil")+".MakeNameUnique")
		ok := len(calls) == 1 && c.EnclosingLoop(g, calls[0]) != nil
		r.Check(ok, "ygen.GoFieldNameMap:unique", c.Pos(g.Decl.Pos()), "every field name passes MakeNameUnique within the directory", "GoFieldNameMap no longer uniquifies field names within a directory")
	}
	if g := c.MustFunc(r, "ygen", "createFakeRoot"); g != nil {
		gi := g.Info()
		n := 0
		ast.Inspect(g.Decl.Body, func(x ast.Node) bool {
			rs, ok := x.(*ast.RangeStmt)
			if !ok {
				return true
			}
			n++
			key := fmt.Sprintf("ygen.createFakeRoot:loop#%d", n)
			if paramIndex(g, ObjOf(gi, rs.X)) == 1 {
				// the root leaves/leaf-lists loop: store guarded by IsLeaf() || IsLeafList() and nothing narrower.
				okl := false
				ast.Inspect(rs.Body, func(m ast.Node) bool {
					as, ok := m.(*ast.AssignStmt)
					if !ok || len(as.Lhs) != 1 || !strings.HasSuffix(types.ExprString(as.Lhs[0]), ".Dir[l.Name]") && !strings.Contains(types.ExprString(as.Lhs[0]), ".Dir[") {
						return true
					}
					facts := c.FactsAt(g, as, false)
					admits := true
					leafSeen, llSeen := false, false
					for _, ft := range facts {
						if ft.Kind != "cond" {
							continue
						}
						var dis []ast.Expr
						flattenOr(ft.Cond, &dis)
						if !ft.Pos {
							admits = false // a negated condition (early continue): shape not recognised as admitting both
							continue
						}
						for _, d := range dis {
							if call, ok := ast.Unparen(d).(*ast.CallExpr); ok {
								switch FullName(Callee(gi, call)) {
								case yangEntry + ".IsLeaf":
									leafSeen = true
								case yangEntry + ".IsLeafList":
									llSeen = true
								}
							}
						}
					}
					if admits && leafSeen && llSeen {
						okl = true
					}
					return true
				})
				r.Check(okl && len(branchStmts(rs.Body, token.CONTINUE)) == 0, key+":root-leaves-and-leaf-lists", c.Pos(rs.Pos()), "every root element with IsLeaf() || IsLeafList() is added", "createFakeRoot no longer adds every root-level leaf AND leaf-list to the fake root: the node exists in the schema but has no field in the generated root struct")
			} else {
				stores := 0
				ast.Inspect(rs.Body, func(m ast.Node) bool {
					if as, ok := m.(*ast.AssignStmt); ok && len(as.Lhs) == 1 && strings.Contains(types.ExprString(as.Lhs[0]), ".Dir[") {
						stores++
					}
					return true
				})
				r.Check(stores == 1 && len(branchStmts(rs.Body, token.CONTINUE)) == 0, key+":root-directories", c.Pos(rs.Pos()), "every root container/list is added (duplicates are an error)", "createFakeRoot skips some root directories")
			}
			return true
		})
		if n < 2 {
			r.Und("ygen.createFakeRoot:loops", c.Pos(g.Decl.Pos()), "expected a directory loop and a leaf loop")
		}
	}
}

// rs1: e is the key/value variable of the loop.
func rs1(info *types.Info, loop *ast.RangeStmt, e ast.Expr) bool {
	o := ObjOf(info, e)
	return o != nil && ((loop.Value != nil && ObjOf(info, loop.Value) == o) || (loop.Key != nil && ObjOf(info, loop.Key) == o))
}

// condFacts renders the innermost enclosing if-condition polarity of n ("X" in the body, "!X" in the else).
func condFacts(c *Ctx, f *FuncInfo, n ast.Node) string {
	pm := c.parentMap(f.File)
	for p, ch := pm[n], n; p != nil && p != ast.Node(f.Decl); ch, p = p, pm[p] {
		if is, ok := p.(*ast.IfStmt); ok {
			if ch == ast.Node(is.Body) {
				return types.ExprString(is.Cond)
			}
			if is.Else != nil && ch == ast.Node(is.Else) {
				return "!" + types.ExprString(is.Cond)
			}
		}
		if _, ok := p.(*ast.CaseClause); ok {
			break
		}
	}
	return ""
}

// ruleChoiceTransparent: R-CHOICE-TRANSPARENT (genutil.FindAllChildren).
func ruleChoiceTransparent(c *Ctx, r *Report) {
	r.Rule("R-CHOICE-TRANSPARENT", "in genutil.FindAllChildren (compressed schemas) every name recorded for a child — in the direct/shadow children maps and in the prioritised-name allow list — belongs to an entry proved not to be a choice/case node (choice and case are not data nodes: their first non-choice descendants are recorded instead)", 7)
	f := c.MustFunc(r, "genutil", "FindAllChildren")
	if f == nil {
		return
	}
	info := f.Info()
	isChoiceCall := func(e ast.Expr, x ast.Expr) bool {
		call, ok := ast.Unparen(e).(*ast.CallExpr)
		return ok && IsCall(info, call, P("util")+".IsChoiceOrCase") && len(call.Args) == 1 && sameExpr(info, call.Args[0], x)
	}
	isMethodOn := func(e ast.Expr, x ast.Expr, names ...string) bool {
		call, ok := ast.Unparen(e).(*ast.CallExpr)
		if !ok {
			return false
		}
		sel, ok := call.Fun.(*ast.SelectorExpr)
		if !ok || !sameExpr(info, sel.X, x) {
			return false
		}
		for _, n := range names {
			if sel.Sel.Name == n {
				return true
			}
		}
		return false
	}
	notChoice := func(site ast.Node, x ast.Expr) string {
		for _, ft := range c.FactsAt(f, site, false) {
			if ft.Kind != "cond" {
				continue
			}
			if !ft.Pos && isChoiceCall(ft.Cond, x) {
				return "!IsChoiceOrCase"
			}
			if ft.Pos && isMethodOn(ft.Cond, x, "IsList", "IsLeaf", "IsLeafList", "IsContainer") {
				return "kind predicate"
			}
			if !ft.Pos && isMethodOn(ft.Cond, x, "IsDir") {
				return "!IsDir"
			}
		}
		// range value over FindFirstNonChoiceOrCase(…), directly or through a local map.
		if id, ok := ast.Unparen(x).(*ast.Ident); ok {
			obj := info.ObjectOf(id)
			res := ""
			ast.Inspect(f.Decl.Body, func(n ast.Node) bool {
				rs, ok := n.(*ast.RangeStmt)
				if !ok || rs.Value == nil || ObjOf(info, rs.Value) != obj {
					return true
				}
				if IsCall(info, ast.Unparen(rs.X), P("util")+".FindFirstNonChoiceOrCase") {
					res = "element of FindFirstNonChoiceOrCase"
					return true
				}
				mo := ObjOf(info, rs.X)
				if mo == nil {
					return true
				}
				// all definitions of the map.
				var lit ast.Expr
				var viaChoice ast.Expr
				okDefs := true
				ast.Inspect(f.Decl.Body, func(m ast.Node) bool {
					as, ok := m.(*ast.AssignStmt)
					if !ok || len(as.Lhs) != 1 || len(as.Rhs) != 1 || ObjOf(info, as.Lhs[0]) != mo {
						return true
					}
					rhs := ast.Unparen(as.Rhs[0])
					if cl, ok := rhs.(*ast.CompositeLit); ok && len(cl.Elts) == 1 {
						if kv, ok := cl.Elts[0].(*ast.KeyValueExpr); ok {
							lit = kv.Value
						}
						return true
					}
					if call, ok := rhs.(*ast.CallExpr); ok && IsCall(info, call, P("util")+".FindFirstNonChoiceOrCase") && len(call.Args) == 1 {
						for _, ft := range c.FactsAt(f, as, false) {
							if ft.Kind == "cond" && ft.Pos && isChoiceCall(ft.Cond, call.Args[0]) {
								viaChoice = call.Args[0]
							}
						}
						return true
					}
					okDefs = false
					return true
				})
				if okDefs && lit != nil && viaChoice != nil && sameExpr(info, lit, viaChoice) {
					res = "the entry itself unless it is a choice/case, else its first non-choice descendants"
				}
				return true
			})
			return res
		}
		return ""
	}
	n := 0
	ast.Inspect(f.Decl.Body, func(x ast.Node) bool {
		switch s := x.(type) {
		case *ast.CallExpr:
			if IsCall(info, s, P("genutil")+".addNewChild") && len(s.Args) == 4 {
				n++
				sel, ok := ast.Unparen(s.Args[1]).(*ast.SelectorExpr)
				key := fmt.Sprintf("genutil.FindAllChildren:record#%d", n)
				if !ok || sel.Sel.Name != "Name" || !sameExpr(info, sel.X, s.Args[2]) {
					r.Bad(key, c.Pos(s.Pos()), "FindAllChildren records a child under a name that is not the child's own Name")
					return true
				}
				why := notChoice(s, sel.X)
				r.Check(why != "", key, c.Pos(s.Pos()), types.ExprString(sel.X)+" is not a choice/case: "+why, "FindAllChildren records "+types.ExprString(sel.X)+" as a child without having established that it is not a choice/case node: the choice's own name becomes a field (or its leaves collide)")
			}
		case *ast.AssignStmt:
			if len(s.Lhs) != 1 {
				return true
			}
			ix, ok := s.Lhs[0].(*ast.IndexExpr)
			if !ok || types.ExprString(ix.X) != "prioNames" {
				return true
			}
			n++
			key := fmt.Sprintf("genutil.FindAllChildren:record#%d", n)
			sel, ok := ast.Unparen(ix.Index).(*ast.SelectorExpr)
			if !ok || sel.Sel.Name != "Name" {
				r.Bad(key, c.Pos(s.Pos()), "prioNames is keyed by something other than an entry's Name")
				return true
			}
			why := notChoice(s, sel.X)
			r.Check(why != "", key, c.Pos(s.Pos()), "prioritised name "+types.ExprString(sel.X)+".Name is a data node's: "+why, "FindAllChildren adds "+types.ExprString(sel.X)+".Name to the prioritised-name allow list without having established that it is not a choice/case node: the leaves below a choice in the prioritised container are not allow-listed, so the same choice under config and state fails generation with duplicate errors")
		}
		return true
	})
}
