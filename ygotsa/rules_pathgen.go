package main

import (
	"fmt"
	"go/ast"
	"go/token"
	"go/types"
	"strings"
)

// fieldWrites lists assignments in f whose target is a field (possibly indexed) of a value of named type tn.
func fieldWrites(f *FuncInfo, typeNames ...string) []ast.Node {
	info := f.Info()
	var out []ast.Node
	isT := func(e ast.Expr) bool {
		for {
			switch x := ast.Unparen(e).(type) {
			case *ast.IndexExpr:
				e = x.X
				continue
			case *ast.StarExpr:
				e = x.X
				continue
			case *ast.SelectorExpr:
				if tv, ok := info.Types[x.X]; ok {
					for _, tn := range typeNames {
						if namedTypeOf(tv.Type) == tn {
							return true
						}
					}
				}
				e = x.X
				continue
			}
			return false
		}
	}
	ast.Inspect(f.Decl.Body, func(n ast.Node) bool {
		switch s := n.(type) {
		case *ast.AssignStmt:
			for _, l := range s.Lhs {
				if _, isID := ast.Unparen(l).(*ast.Ident); !isID && isT(l) {
					out = append(out, s)
				}
			}
		case *ast.IncDecStmt:
			if isT(s.X) {
				out = append(out, s)
			}
		case *ast.CallExpr:
			if id, ok := s.Fun.(*ast.Ident); ok && (id.Name == "delete" || id.Name == "clear") && len(s.Args) > 0 && isT(s.Args[0]) {
				out = append(out, s)
			}
		}
		return true
	})
	return out
}

// rulePathResolve: R-PATH-RESOLVE (ygot/path_types.go).
func rulePathResolve(c *Ctx, r *Report) {
	r.Rule("R-PATH-RESOLVE", "path resolution is a pure function of the path structs' current state: relPath/ResolvePath/ResolveRelPath/parent write no field of NodePath or DeviceRootBase (nothing is cached, so keys changed through ModifyKey are always seen); relPath emits one PathElem per relSchemaPath name in order and attaches every key, stringified by KeyValueAsString with errors returned, to the last element; ResolvePath prepends each ancestor's elements; ModifyKey writes exactly keys[name]", 9)
	np, drb := P("ygot")+".NodePath", P("ygot")+".DeviceRootBase"
	for _, name := range []string{"NodePath.relPath", "ResolvePath", "ResolveRelPath", "NodePath.parent"} {
		f := c.MustFunc(r, "ygot", name)
		if f == nil {
			continue
		}
		ws := fieldWrites(f, np, drb)
		pos := c.Pos(f.Decl.Pos())
		if len(ws) > 0 {
			pos = c.Pos(ws[0].Pos())
		}
		r.Check(len(ws) == 0, "ygot."+name+":pure", pos, "writes no path-struct state", "ygot."+name+" writes a field of the path struct while resolving: state kept there (e.g. a cache of key strings) goes stale when keys are changed afterwards through ModifyKey / the generated WithXxx accessors")
	}
	if f := c.MustFunc(r, "ygot", "ModifyKey"); f != nil {
		info := f.Info()
		ws := fieldWrites(f, np)
		ok := len(ws) == 1
		if ok {
			as, isAs := ws[0].(*ast.AssignStmt)
			ok = isAs && len(as.Lhs) == 1
			if ok {
				ix, isIx := as.Lhs[0].(*ast.IndexExpr)
				ok = isIx && paramIndex(f, ObjOf(info, ix.Index)) == 1 && paramIndex(f, ObjOf(info, as.Rhs[0])) == 2
				if ok {
					sel, isSel := ast.Unparen(ix.X).(*ast.SelectorExpr)
					ok = isSel && sel.Sel.Name == "keys" && paramIndex(f, ObjOf(info, sel.X)) == 0
				}
			}
		}
		r.Check(ok, "ygot.ModifyKey:writes-key", c.Pos(f.Decl.Pos()), "n.keys[name] = value and nothing else", "ModifyKey does not (only) store the value under the key name in the node's keys")
	}
	if f := c.MustFunc(r, "ygot", "NodePath.relPath"); f != nil {
		info := f.Info()
		g := newGM(c, f)
		// loops over a field of the receiver: in relPath itself, or in a helper that is handed
		// the field as an argument (then the loop ranges over the helper's parameter).
		type fieldLoop struct {
			fn *FuncInfo
			rs *ast.RangeStmt
		}
		loopsOver := func(field string) []fieldLoop {
			var out []fieldLoop
			isField := func(e ast.Expr) bool {
				sel, ok := ast.Unparen(e).(*ast.SelectorExpr)
				return ok && sel.Sel.Name == field && ObjOf(info, sel.X) == g.recv
			}
			ast.Inspect(f.Decl.Body, func(n ast.Node) bool {
				switch x := n.(type) {
				case *ast.RangeStmt:
					if isField(x.X) {
						out = append(out, fieldLoop{f, x})
					}
				case *ast.CallExpr:
					h := c.funcOfCallee(Callee(info, x))
					if h == nil || h == f {
						return true
					}
					hp := paramObjs(h)
					for i, a := range x.Args {
						if !isField(a) || i >= len(hp) {
							continue
						}
						ast.Inspect(h.Decl.Body, func(m ast.Node) bool {
							if rs, ok := m.(*ast.RangeStmt); ok && ObjOf(h.Info(), rs.X) == hp[i] {
								out = append(out, fieldLoop{h, rs})
							}
							return true
						})
					}
				}
				return true
			})
			return out
		}
		// names in order.
		names := false
		for _, fl := range loopsOver("relSchemaPath") {
			linfo, rs := fl.fn.Info(), fl.rs
			// body: append(pathElems, &PathElem{Name: name})
			ast.Inspect(rs.Body, func(m ast.Node) bool {
				if cl, ok := m.(*ast.CompositeLit); ok && strings.HasSuffix(typeName(linfo, cl.Type), "PathElem") {
					for _, el := range cl.Elts {
						if kv, ok := el.(*ast.KeyValueExpr); ok && kv.Key.(*ast.Ident).Name == "Name" && rs.Value != nil && ObjOf(linfo, kv.Value) == ObjOf(linfo, rs.Value) {
							names = true
						}
					}
				}
				return true
			})
			if len(branchStmts(rs.Body, token.CONTINUE))+len(branchStmts(rs.Body, token.BREAK)) > 0 {
				names = false
			}
		}
		r.Check(names, "ygot.NodePath.relPath:names", c.Pos(f.Decl.Pos()), "one PathElem{Name: name} per relSchemaPath element, in order", "relPath does not emit exactly the node's relative schema path names in order")
		keysOK := false
		for _, fl := range loopsOver("keys") {
			linfo, keysLoop := fl.fn.Info(), fl.rs
			calls := CallsIn(linfo, keysLoop.Body, P("ygot")+".KeyValueAsString")
			if len(calls) == 1 && keysLoop.Value != nil && ObjOf(linfo, calls[0].Args[0]) == ObjOf(linfo, keysLoop.Value) {
				// stored under the same name.
				if as, ok := c.parentMap(fl.fn.File)[calls[0]].(*ast.AssignStmt); ok {
					if ix, ok := as.Lhs[0].(*ast.IndexExpr); ok && keysLoop.Key != nil && ObjOf(linfo, ix.Index) == ObjOf(linfo, keysLoop.Key) {
						keysOK = true
					}
				}
			}
			if len(branchStmts(keysLoop.Body, token.CONTINUE))+len(branchStmts(keysLoop.Body, token.BREAK)) > 0 {
				keysOK = false
			}
		}
		r.Check(keysOK, "ygot.NodePath.relPath:keys", c.Pos(f.Decl.Pos()), "every key of n.keys rendered with KeyValueAsString under its own name", "relPath does not render every key of the node with KeyValueAsString under its name (keys passed to accessors would not appear as key values)")
		// attached to the last element; errors returned.
		attach := false
		ast.Inspect(f.Decl.Body, func(n ast.Node) bool {
			if as, ok := n.(*ast.AssignStmt); ok && len(as.Lhs) == 1 {
				if sel, ok := as.Lhs[0].(*ast.SelectorExpr); ok && sel.Sel.Name == "Key" {
					if ix, ok := ast.Unparen(sel.X).(*ast.IndexExpr); ok {
						idx := ast.Unparen(ix.Index)
						// a hoisted index (last := len(pathElems) - 1) stands for its definition.
						if id, isID := idx.(*ast.Ident); isID {
							if d := oneToOneDef(f, info.ObjectOf(id)); d != nil {
								idx = ast.Unparen(d)
							}
						}
						if strings.Contains(types.ExprString(idx), "len(") && strings.HasSuffix(strings.ReplaceAll(types.ExprString(idx), " ", ""), "-1") {
							attach = true
						}
					}
				}
			}
			return true
		})
		r.Check(attach, "ygot.NodePath.relPath:keys-on-last-elem", c.Pos(f.Decl.Pos()), "keys attached to the last PathElem", "relPath does not attach the keys to the last element of the relative path")
	}
	if f := c.MustFunc(r, "ygot", "ResolvePath"); f != nil {
		info := f.Info()
		pre := false
		ast.Inspect(f.Decl.Body, func(n ast.Node) bool {
			if as, ok := n.(*ast.AssignStmt); ok && len(as.Lhs) == 1 && len(as.Rhs) == 1 {
				if call, ok := as.Rhs[0].(*ast.CallExpr); ok {
					if id, ok := call.Fun.(*ast.Ident); ok && id.Name == "append" && len(call.Args) == 2 && call.Ellipsis.IsValid() && sameExpr(info, call.Args[1], as.Lhs[0]) {
						// p = append(rel, p...)
						pre = true
					}
				}
			}
			return true
		})
		r.Check(pre, "ygot.ResolvePath:prepend", c.Pos(f.Decl.Pos()), "ancestors' elements are prepended (root first)", "ResolvePath does not prepend each ancestor's relative path: the element order is not the data-tree path")
	}
}

// rulePathTemplates: expansion of ypathgen's child constructor and key builder templates.
func rulePathTemplates(c *Ctx, r *Report) {
	r.Rule("R-PATH-TEMPLATES", "the child constructor ypathgen's template expands to returns the child path struct with NodePath = NewNodePath(<relative path list>, <key entries>, n) — the receiver as parent; the key builder calls ModifyKey(n.NodePath, <schema key name>, <parameter>) and returns the receiver", 6)
	ts := c.templatesOf("ypathgen")
	if ts["childConstructor"] == nil || ts["goKeyBuilder"] == nil || ts["struct"] == nil {
		r.Und("template:childConstructor", "-", "templates not found in ypathgen")
		return
	}
	prelude := `package pg

import "github.com/openconfig/ygot/ygot"

type Parent struct{ *ygot.NodePath }
type Child struct{ *ygot.NodePath }
type ChildAny struct{ *ygot.NodePath }
`
	structData := map[string]any{"TypeName": "Parent", "YANGPath": "/p", "PathBaseTypeName": "NodePath", "PathStructInterfaceName": "PathStruct", "FakeRootBaseTypeName": "DeviceRootBase", "GenerateWildcardPaths": true}
	fd := map[string]any{"MethodName": "Child", "SchemaName": "child", "TypeName": "Child", "YANGNodeType": "List", "YANGDescription": "d", "DefiningModuleName": "m", "InstantiatingModuleName": "m",
		"RelPath": "a/child", "AbsPath": "/p/a/child", "Struct": structData, "RelPathList": `"a", "child"`, "KeyParamListStr": "Name string, Id uint32", "KeyEntriesStr": `"name": Name, "id": Id`,
		"KeyParamDocStrs": []string{"Name: string", "Id: uint32"}, "ChildPkgAccessor": ""}
	src := prelude
	s1, err := instantiate(ts["childConstructor"], fd)
	if err != nil {
		r.Und("childConstructor:expand", c.Pos(ts["childConstructor"].Pos), "template expansion failed: "+err.Error())
		return
	}
	kb := map[string]any{"MethodName": "WithName", "TypeName": "ChildAny", "KeySchemaName": "name", "KeyParamType": "string", "KeyParamName": "Name", "KeyParamDocStr": "Name: string"}
	s2, err := instantiate(ts["goKeyBuilder"], kb)
	if err != nil {
		r.Und("goKeyBuilder:expand", c.Pos(ts["goKeyBuilder"].Pos), "template expansion failed: "+err.Error())
		return
	}
	src += s1 + s2
	pos := c.Pos(ts["childConstructor"].Pos)
	sp, err := c.buildSynth("pg", src)
	if err != nil {
		r.Bad("childConstructor[template]:compiles", pos, "the path-struct code generated for the analyser's shape does not compile: "+err.Error())
		return
	}
	r.OK("childConstructor[template]:compiles", pos, "type-checks")
	if f := sp.Funcs["Parent.Child"]; f != nil {
		g := newGM(c, f)
		info := f.Info()
		calls := CallsIn(info, f.Decl.Body, P("ygot")+".NewNodePath")
		ok := len(calls) == 1 && len(calls[0].Args) == 3 && ObjOf(info, calls[0].Args[2]) == g.recv
		r.Check(ok, "childConstructor[template]:parent", pos, "NewNodePath(…, …, n): the receiver is the child's parent", "the generated child constructor does not pass its receiver as the child's parent: the resolved path loses (or mixes up) its ancestors")
		if ok {
			p0, p1 := nodeSrc(c, sp, calls[0].Args[0]), nodeSrc(c, sp, calls[0].Args[1])
			r.Check(strings.Contains(p0, `"a", "child"`) && strings.HasPrefix(p0, "[]string{"), "childConstructor[template]:relpath", pos, "relative path list passed as the first argument", "the generated constructor does not pass RelPathList as the relative schema path")
			r.Check(strings.Contains(p1, `"name": Name`) && strings.Contains(p1, `"id": Id`), "childConstructor[template]:keys", pos, "key entries passed as the key map", "the generated constructor does not pass KeyEntriesStr as the key map")
		}
		ret := false
		for _, rs := range returnsOf(f.Decl.Body) {
			if u, ok := ast.Unparen(rs.Results[0]).(*ast.UnaryExpr); ok {
				if cl, ok := u.X.(*ast.CompositeLit); ok && typeName(info, cl.Type) == "pg.Child" || ok && strings.HasSuffix(typeName(info, cl.Type), "Child") {
					ret = true
				}
			}
		}
		r.Check(ret, "childConstructor[template]:returns-child", pos, "returns &Child{NodePath: …}", "the generated constructor does not return the child's path struct")
	} else {
		r.Bad("childConstructor[template]:method", pos, "no constructor generated")
	}
	if f := sp.Funcs["ChildAny.WithName"]; f != nil {
		g := newGM(c, f)
		info := f.Info()
		calls := CallsIn(info, f.Decl.Body, P("ygot")+".ModifyKey")
		ok := len(calls) == 1 && len(calls[0].Args) == 3
		if ok {
			v, isC := ConstOf(info, calls[0].Args[1])
			sel, isSel := ast.Unparen(calls[0].Args[0]).(*ast.SelectorExpr)
			ok = isC && v == `"name"` && isSel && ObjOf(info, sel.X) == g.recv && ObjOf(info, calls[0].Args[2]) == g.param("Name")
		}
		ret := false
		for _, rs := range returnsOf(f.Decl.Body) {
			if ObjOf(info, rs.Results[0]) == g.recv {
				ret = true
			}
		}
		r.Check(ok && ret, "goKeyBuilder[template]:modify-key", c.Pos(ts["goKeyBuilder"].Pos), "ModifyKey(n.NodePath, schema key name, parameter); returns n", "the generated WithXxx accessor does not set the schema key name to its parameter on its own node and return it")
	} else {
		r.Bad("goKeyBuilder[template]:method", c.Pos(ts["goKeyBuilder"].Pos), "no key builder generated")
	}
}

// rulePathKeyEntries: R-PATH-KEYS (generator side).
func rulePathKeyEntries(c *Ctx, r *Report) {
	r.Rule("R-PATH-KEYS", "in ypathgen every list constructor's key map is the join of one entry per key, each either \"<schema key name>\": <parameter> or \"<schema key name>\": \"*\"; the empty key map is used only for the all-wildcard constructor of the non-builder API under SimplifyWildcardPaths; the builder-format generator never receives that flag and initialises every key to \"*\" in an ascending loop over all keys; the relative path list comes from the field's MappedPaths, the same IR data gogen's `path` tag is built from", 5)
	for _, name := range []string{"generateChildConstructorsForList", "generateChildConstructorsForListBuilderFormat"} {
		f := c.MustFunc(r, "ypathgen", name)
		if f == nil {
			continue
		}
		info := f.Info()
		// assignments to .KeyEntriesStr
		n := 0
		ast.Inspect(f.Decl.Body, func(x ast.Node) bool {
			as, ok := x.(*ast.AssignStmt)
			if !ok || len(as.Lhs) != 1 || len(as.Rhs) != 1 {
				return true
			}
			sel, ok := as.Lhs[0].(*ast.SelectorExpr)
			if !ok || sel.Sel.Name != "KeyEntriesStr" {
				return true
			}
			n++
			key := fmt.Sprintf("ypathgen.%s:KeyEntriesStr#%d", name, n)
			rhs := ast.Unparen(as.Rhs[0])
			if v, ok := ConstOf(info, rhs); ok {
				// constant: only "" under simplify && comboIndex == 0, and only in the non-builder generator.
				simp, zero := false, false
				for _, ft := range c.FactsAt(f, as, false) {
					if ft.Kind != "cond" || !ft.Pos {
						continue
					}
					if id, ok := ast.Unparen(ft.Cond).(*ast.Ident); ok && strings.Contains(strings.ToLower(id.Name), "simplify") && paramIndex(f, info.ObjectOf(id)) >= 0 {
						simp = true
					}
					if be, ok := ast.Unparen(ft.Cond).(*ast.BinaryExpr); ok && be.Op == token.EQL {
						if cv, ok := ConstOf(info, be.Y); ok && cv == "0" {
							zero = true
						}
					}
				}
				r.Check(v == `""` && simp && zero && name == "generateChildConstructorsForList", key, c.Pos(as.Pos()), "empty key map only for the all-wildcard combination under SimplifyWildcardPaths",
					"ypathgen."+name+" sets a constant key map outside the all-wildcard/SimplifyWildcardPaths case: keys left as wildcards (or given as arguments) are missing from resolved paths")
				return true
			}
			call, ok := rhs.(*ast.CallExpr)
			if !ok || FullName(Callee(info, call)) != "strings.Join" || len(call.Args) != 2 {
				r.Bad(key, c.Pos(as.Pos()), "ypathgen."+name+" builds the key map text by something other than strings.Join over the per-key entries: it can no longer be established that every key appears as a value or \"*\"")
				return true
			}
			slice := ObjOf(info, call.Args[0])
			bad := ""
			cnt := 0
			ast.Inspect(f.Decl.Body, func(y ast.Node) bool {
				a2, ok := y.(*ast.AssignStmt)
				if !ok || len(a2.Lhs) != 1 || len(a2.Rhs) != 1 || ObjOf(info, a2.Lhs[0]) != slice {
					return true
				}
				ap, ok := a2.Rhs[0].(*ast.CallExpr)
				if !ok {
					return true
				}
				if id, ok := ap.Fun.(*ast.Ident); !ok || id.Name != "append" || len(ap.Args) != 2 {
					return true
				}
				cnt++
				sp, ok := ast.Unparen(ap.Args[1]).(*ast.CallExpr)
				if !ok || FullName(Callee(info, sp)) != "fmt.Sprintf" {
					bad = "an entry that is not a Sprintf"
					return true
				}
				format, _ := ConstOf(info, sp.Args[0])
				first := types.ExprString(sp.Args[1])
				switch format {
				case "\"\\\"%s\\\": \\\"*\\\"\"":
					if !strings.HasSuffix(first, ".name") || len(sp.Args) != 2 {
						bad = "a wildcard entry not keyed by the schema key name"
					}
				case "\"\\\"%s\\\": %s\"":
					if !strings.HasSuffix(first, ".name") || len(sp.Args) != 3 || !strings.HasSuffix(types.ExprString(sp.Args[2]), ".varName") {
						bad = "a value entry that is not \"<schema key name>\": <parameter>"
					}
				default:
					bad = "an entry with format " + format
				}
				return true
			})
			r.Check(bad == "" && cnt >= 1, key, c.Pos(as.Pos()), fmt.Sprintf("join of %d per-key entry forms, each keyed by the schema key name", cnt), "ypathgen."+name+" adds "+bad+" to the key map")
			return true
		})
		if n == 0 {
			r.Und("ypathgen."+name+":KeyEntriesStr", c.Pos(f.Decl.Pos()), "no assignment of the key map text found")
		}
	}
	// the builder-format generator covers all keys in an ascending loop.
	if f := c.Func("ypathgen", "generateChildConstructorsForListBuilderFormat"); f != nil {
		info := f.Info()
		ok := false
		ast.Inspect(f.Decl.Body, func(n ast.Node) bool {
			fs, isFor := n.(*ast.ForStmt)
			if !isFor || len(CallsIn(info, fs.Body, "fmt.Sprintf")) == 0 {
				return true
			}
			init, ok1 := fs.Init.(*ast.AssignStmt)
			post, ok2 := fs.Post.(*ast.IncDecStmt)
			cond, ok3 := fs.Cond.(*ast.BinaryExpr)
			if ok1 && ok2 && ok3 && post.Tok == token.INC && (cond.Op == token.NEQ || cond.Op == token.LSS) {
				if v, isC := ConstOf(info, init.Rhs[0]); isC && v == "0" && len(c.FactsAt(f, fs, false)) <= 1 {
					ok = true
				}
			}
			return true
		})
		r.Check(ok, "ypathgen.generateChildConstructorsForListBuilderFormat:all-keys-wildcard", c.Pos(f.Decl.Pos()), "for i := 0; i != keyN; i++ — every key initialised to \"*\"", "the builder-format constructor does not initialise every key to \"*\" unconditionally")
		// never receives the simplify flag.
		leak := false
		for _, g := range c.AllFuncs("ypathgen") {
			gi := g.Info()
			for _, call := range CallsIn(gi, g.Decl.Body, P("ypathgen")+".generateChildConstructorsForListBuilderFormat") {
				for _, a := range call.Args {
					ast.Inspect(a, func(n ast.Node) bool {
						if id, ok := n.(*ast.Ident); ok && strings.Contains(strings.ToLower(id.Name), "simplify") {
							leak = true
						}
						if sel, ok := n.(*ast.SelectorExpr); ok && sel.Sel.Name == "SimplifyWildcardPaths" {
							leak = true
						}
						return true
					})
				}
			}
		}
		r.Check(!leak, "ypathgen.generateChildConstructorsForListBuilderFormat:no-simplify-flag", c.Pos(f.Decl.Pos()), "SimplifyWildcardPaths is not passed to the builder-format generator", "SimplifyWildcardPaths reaches the builder-format generator: builder nodes are mutable, so keys not set by WithXxx must stay \"*\" rather than absent")
	}
	// same source for relative paths.
	if f := c.MustFunc(r, "ypathgen", "generateChildConstructors"); f != nil {
		info := f.Info()
		ok := false
		ast.Inspect(f.Decl.Body, func(n ast.Node) bool {
			kv, isKV := n.(*ast.KeyValueExpr)
			if !isKV {
				return true
			}
			if id, isID := kv.Key.(*ast.Ident); !isID || id.Name != "RelPathList" {
				return true
			}
			// mentions a local defined from field.MappedPaths
			ast.Inspect(kv.Value, func(m ast.Node) bool {
				if id, isID := m.(*ast.Ident); isID {
					obj := info.ObjectOf(id)
					ast.Inspect(f.Decl.Body, func(k ast.Node) bool {
						if as, isAs := k.(*ast.AssignStmt); isAs && len(as.Lhs) == 1 && ObjOf(info, as.Lhs[0]) == obj && strings.Contains(types.ExprString(as.Rhs[0]), ".MappedPaths") {
							ok = true
						}
						return true
					})
				}
				return true
			})
			return true
		})
		r.Check(ok, "ypathgen.generateChildConstructors:relpath-source", c.Pos(f.Decl.Pos()), "RelPathList built from field.MappedPaths", "the relative path list of path structs is no longer derived from the IR field's MappedPaths (the data gogen's `path` tags come from)")
	}
	if f := c.MustFunc(r, "gogen", "writeGoStruct"); f != nil {
		ok := strings.Contains(funcText(c, f), "addSchemaPathsToBuffers(field.MappedPaths")
		_ = ok
		info := f.Info()
		found := false
		ast.Inspect(f.Decl.Body, func(n ast.Node) bool {
			if call, isCall := n.(*ast.CallExpr); isCall && len(call.Args) >= 1 {
				if sel, isSel := ast.Unparen(call.Args[0]).(*ast.SelectorExpr); isSel && sel.Sel.Name == "MappedPaths" {
					if id, isID := call.Fun.(*ast.Ident); isID && info.ObjectOf(id) != nil {
						found = true
					}
				}
			}
			return true
		})
		r.Check(found, "gogen.writeGoStruct:path-tag-source", c.Pos(f.Decl.Pos()), "`path` tag built from field.MappedPaths", "gogen's `path` struct tag is no longer derived from the IR field's MappedPaths")
	}
}

func funcText(c *Ctx, f *FuncInfo) string { return "" }

// nodeSrc returns the source text of a node of a synthetic package.
func nodeSrc(c *Ctx, sp *synthPkg, n ast.Node) string {
	a, b := c.Fset.Position(n.Pos()).Offset, c.Fset.Position(n.End()).Offset
	if a < 0 || b > len(sp.Src) || a > b {
		return ""
	}
	return sp.Src[a:b]
}
