package main

import (
	"fmt"
	"go/ast"
	"go/token"
	"go/types"
	"strings"
)

// ---- toolkit over one generated method -------------------------------------------------------

type gm struct {
	c    *Ctx
	f    *FuncInfo
	info *types.Info
	recv types.Object
}

func newGM(c *Ctx, f *FuncInfo) *gm {
	g := &gm{c: c, f: f, info: f.Info()}
	if f.Decl.Recv != nil && len(f.Decl.Recv.List) > 0 && len(f.Decl.Recv.List[0].Names) > 0 {
		g.recv = g.info.ObjectOf(f.Decl.Recv.List[0].Names[0])
	}
	return g
}

func (g *gm) root(e ast.Expr) types.Object {
	switch x := ast.Unparen(e).(type) {
	case *ast.Ident:
		return g.info.ObjectOf(x)
	case *ast.SelectorExpr:
		return g.root(x.X)
	case *ast.IndexExpr:
		return g.root(x.X)
	case *ast.StarExpr:
		return g.root(x.X)
	case *ast.SliceExpr:
		return g.root(x.X)
	case *ast.UnaryExpr:
		if x.Op == token.AND {
			return g.root(x.X)
		}
	}
	return nil
}

func (g *gm) param(name string) types.Object {
	sig := g.f.Obj.Type().(*types.Signature)
	for i := 0; i < sig.Params().Len(); i++ {
		if sig.Params().At(i).Name() == name {
			return sig.Params().At(i)
		}
	}
	return nil
}

type mutation struct {
	Node ast.Node
	Kind string // "store", "delete", "lazy-init"
	LHS  ast.Expr
	RHS  ast.Expr
}

// isFreshAlloc: make(...), &T{...}, T{...}, map literal.
func isFreshAlloc(e ast.Expr) bool {
	switch x := ast.Unparen(e).(type) {
	case *ast.CallExpr:
		if id, ok := x.Fun.(*ast.Ident); ok && (id.Name == "make" || id.Name == "new") {
			return true
		}
	case *ast.CompositeLit:
		return len(x.Elts) == 0
	case *ast.UnaryExpr:
		if cl, ok := x.X.(*ast.CompositeLit); ok && x.Op == token.AND {
			return len(cl.Elts) == 0
		}
	}
	return false
}

// mutations lists the writes to state reachable from obj (receiver or another object).
func (g *gm) mutations(obj types.Object) []mutation {
	var out []mutation
	ast.Inspect(g.f.Decl.Body, func(n ast.Node) bool {
		switch s := n.(type) {
		case *ast.AssignStmt:
			for i, l := range s.Lhs {
				if _, isID := ast.Unparen(l).(*ast.Ident); isID {
					continue
				}
				if g.root(l) != obj {
					continue
				}
				var rhs ast.Expr
				if len(s.Rhs) == len(s.Lhs) {
					rhs = s.Rhs[i]
				} else if len(s.Rhs) == 1 {
					rhs = s.Rhs[0]
				}
				kind := "store"
				if rhs != nil && isFreshAlloc(rhs) {
					// lazy initialisation: `if X == nil { X = make(...) }`
					for _, ft := range g.c.FactsAt(g.f, s, false) {
						if ft.Kind == "cond" && ft.Pos {
							if be, ok := ast.Unparen(ft.Cond).(*ast.BinaryExpr); ok && be.Op == token.EQL && isNilConst(g.info, be.Y) && sameExpr(g.info, be.X, l) {
								kind = "lazy-init"
							}
						}
					}
				}
				out = append(out, mutation{Node: s, Kind: kind, LHS: l, RHS: rhs})
			}
		case *ast.IncDecStmt:
			if g.root(s.X) == obj {
				out = append(out, mutation{Node: s, Kind: "store", LHS: s.X})
			}
		case *ast.CallExpr:
			if id, ok := s.Fun.(*ast.Ident); ok && id.Name == "delete" && len(s.Args) == 2 && g.root(s.Args[0]) == obj {
				out = append(out, mutation{Node: s, Kind: "delete", LHS: s.Args[0], RHS: s.Args[1]})
			}
			if sel, ok := s.Fun.(*ast.SelectorExpr); ok && sel.Sel.Name == "init" && g.root(sel.X) == obj {
				out = append(out, mutation{Node: s, Kind: "lazy-init", LHS: sel.X})
			}
		}
		return true
	})
	return out
}

func (g *gm) semantic(obj types.Object) []mutation {
	var out []mutation
	for _, m := range g.mutations(obj) {
		if m.Kind != "lazy-init" {
			out = append(out, m)
		}
	}
	return out
}

// isErrReturn: the last result is of error type and not nil, or (for bool results) false handled by caller.
func (g *gm) isErrReturn(rs *ast.ReturnStmt) bool {
	if len(rs.Results) == 0 {
		return false
	}
	last := rs.Results[len(rs.Results)-1]
	tv := g.info.Types[last]
	if tv.IsNil() {
		return false
	}
	return isErrorLike(tv.Type) || isErrorLike(g.f.Obj.Type().(*types.Signature).Results().At(len(rs.Results)-1).Type())
}

// negFactNilOf: facts at n contain NOT(<e> == nil).
func (g *gm) nonNilAt(n ast.Node, e ast.Expr) bool {
	for _, ft := range g.c.FactsAt(g.f, n, false) {
		if ft.Kind != "cond" {
			continue
		}
		be, ok := ast.Unparen(ft.Cond).(*ast.BinaryExpr)
		if !ok || !isNilConst(g.info, be.Y) || !sameExpr(g.info, be.X, e) {
			continue
		}
		if (be.Op == token.EQL && !ft.Pos) || (be.Op == token.NEQ && ft.Pos) {
			return true
		}
	}
	return false
}

// lookupOkFact: facts at n contain ok(pos) where ok was bound by `_, ok := <m>[<k>]`; returns the index expr.
func (g *gm) lookupFact(n ast.Node, pos bool) *ast.IndexExpr {
	for _, ft := range g.c.FactsAt(g.f, n, false) {
		if ft.Kind != "cond" || ft.Pos != pos {
			continue
		}
		id, ok := ast.Unparen(ft.Cond).(*ast.Ident)
		if !ok {
			continue
		}
		obj := g.info.ObjectOf(id)
		var res *ast.IndexExpr
		ast.Inspect(g.f.Decl.Body, func(m ast.Node) bool {
			if as, ok := m.(*ast.AssignStmt); ok && len(as.Lhs) == 2 && len(as.Rhs) == 1 && ObjOf(g.info, as.Lhs[1]) == obj {
				if ix, ok := ast.Unparen(as.Rhs[0]).(*ast.IndexExpr); ok {
					res = ix
				}
			}
			return true
		})
		if res != nil {
			return res
		}
	}
	return nil
}

// keyBuiltFrom checks that the local `key` is built from the given source: for each key of the shape,
// component <Name> is `<src>.<Name>` (deref'd when scalar and fromElem) or the parameter <Name>.
// fromElem: source is the element v (fields), else parameters named after the keys.
func (g *gm) keyBuiltFrom(shape listShape, keyObj types.Object, fromElem bool, srcObj types.Object) string {
	var def ast.Expr
	ast.Inspect(g.f.Decl.Body, func(n ast.Node) bool {
		if as, ok := n.(*ast.AssignStmt); ok && len(as.Lhs) == 1 && len(as.Rhs) == 1 && ObjOf(g.info, as.Lhs[0]) == keyObj && as.Tok == token.DEFINE {
			def = as.Rhs[0]
		}
		return true
	})
	if def == nil {
		return "no definition of the key value found"
	}
	want := func(k keyShape, e ast.Expr) string {
		e = ast.Unparen(e)
		if fromElem {
			if k.Scalar {
				st, ok := e.(*ast.StarExpr)
				if !ok {
					return "component " + k.Name + " is not the dereferenced element field"
				}
				e = ast.Unparen(st.X)
			}
			sel, ok := e.(*ast.SelectorExpr)
			if !ok || sel.Sel.Name != k.Name || ObjOf(g.info, sel.X) != srcObj {
				return "component " + k.Name + " is not taken from the element's field " + k.Name
			}
			return ""
		}
		if ObjOf(g.info, e) != g.param(k.Name) || g.param(k.Name) == nil {
			return "component " + k.Name + " is not the parameter " + k.Name
		}
		return ""
	}
	if !shape.multi() {
		return want(shape.Keys[0], def)
	}
	cl, ok := ast.Unparen(def).(*ast.CompositeLit)
	if !ok {
		return "multi-key value is not a key struct literal"
	}
	seen := map[string]bool{}
	for _, el := range cl.Elts {
		kv, ok := el.(*ast.KeyValueExpr)
		if !ok {
			return "positional key struct literal"
		}
		name := kv.Key.(*ast.Ident).Name
		for _, k := range shape.Keys {
			if k.Name == name {
				if w := want(k, kv.Value); w != "" {
					return w
				}
				seen[name] = true
			}
		}
	}
	for _, k := range shape.Keys {
		if !seen[k.Name] {
			return "key component " + k.Name + " is not set"
		}
	}
	return ""
}

// elemLiteralFromParams: &Elem{K: &K | K …} covers every key with the right form.
func (g *gm) elemLiteralFromParams(shape listShape, e ast.Expr) string {
	u, ok := ast.Unparen(e).(*ast.UnaryExpr)
	if !ok || u.Op != token.AND {
		return "new element is not &Elem{…}"
	}
	cl, ok := u.X.(*ast.CompositeLit)
	if !ok {
		return "new element is not a literal"
	}
	seen := map[string]bool{}
	for _, el := range cl.Elts {
		kv, ok := el.(*ast.KeyValueExpr)
		if !ok {
			continue
		}
		name := kv.Key.(*ast.Ident).Name
		for _, k := range shape.Keys {
			if k.Name != name {
				continue
			}
			v := ast.Unparen(kv.Value)
			if k.Scalar {
				uu, ok := v.(*ast.UnaryExpr)
				if !ok || uu.Op != token.AND || ObjOf(g.info, uu.X) != g.param(k.Name) {
					return "key leaf " + name + " of the new element is not &" + name
				}
			} else if ObjOf(g.info, v) != g.param(k.Name) {
				return "key leaf " + name + " of the new element is not the parameter " + name
			}
			seen[name] = true
		}
	}
	for _, k := range shape.Keys {
		if !seen[k.Name] {
			return "key leaf " + k.Name + " of the new element is not set from the arguments"
		}
	}
	return ""
}

// derefsGuarded: every *<obj>.<F> is dominated by a nil test of <obj>.<F> with an early exit.
func (g *gm) derefsGuarded(obj types.Object) (int, string) {
	n := 0
	bad := ""
	ast.Inspect(g.f.Decl.Body, func(x ast.Node) bool {
		st, ok := x.(*ast.StarExpr)
		if !ok {
			return true
		}
		sel, ok := ast.Unparen(st.X).(*ast.SelectorExpr)
		if !ok || ObjOf(g.info, sel.X) != obj {
			return true
		}
		// type expressions like *Elem are StarExpr too.
		if tv, ok := g.info.Types[st]; ok && tv.IsType() {
			return true
		}
		n++
		if !g.nonNilAt(st, sel) {
			bad = types.ExprString(st)
		}
		return true
	})
	return n, bad
}

// allBefore: every node of as precedes every node of bs lexically.
func allBefore(as []token.Pos, bs []token.Pos) bool {
	for _, a := range as {
		for _, b := range bs {
			if a > b {
				return false
			}
		}
	}
	return true
}

func (g *gm) errReturnPositions() []token.Pos {
	var out []token.Pos
	for _, rs := range returnsOf(g.f.Decl.Body) {
		if g.isErrReturn(rs) {
			out = append(out, rs.Pos())
		}
	}
	return out
}

func posOf(ms []mutation) []token.Pos {
	var out []token.Pos
	for _, m := range ms {
		out = append(out, m.Node.Pos())
	}
	return out
}

// recvNilSafe: every use of the receiver as a selector base is dominated by a nil test of the
// receiver (methods are documented to be callable on nil receivers).
func (g *gm) recvNilSafe() bool {
	ok := true
	ast.Inspect(g.f.Decl.Body, func(x ast.Node) bool {
		sel, isSel := x.(*ast.SelectorExpr)
		if !isSel || ObjOf(g.info, sel.X) != g.recv {
			return true
		}
		if _, isMethod := g.info.Selections[sel]; isMethod && g.info.Selections[sel].Kind() == types.MethodVal {
			return true // calling a method on a nil pointer receiver is fine; the callee guards
		}
		id := sel.X.(*ast.Ident)
		if !g.nonNilAt(sel, id) {
			ok = false
		}
		return true
	})
	return ok
}

// ---- R-OM: generated ordered maps --------------------------------------------------------------

func ruleOrderedMapTemplates(c *Ctx, r *Report) {
	r.Rule("R-OM", "for every key shape (single/multi key, pointer/non-pointer key leaves) the ordered-map methods instantiated from gogen's templates: reject nil and duplicate keys before touching keys/valueMap; on success add the same key once to keys and once to valueMap; build the key from the element's own key leaves (each pointer leaf nil-checked before it is dereferenced); Delete removes from both or neither; Get/Len/Keys/Values store nothing and Keys/Values return fresh slices in keys order; parent helpers lazily create the map and delegate with all arguments", 120)
	ts := c.templatesOf("gogen")
	need := []string{"orderedMap", "orderedMapParentMethods", "listkey"}
	for _, n := range need {
		if ts[n] == nil {
			r.Und("template:"+n, "-", "template not found in gogen (renamed?)")
			return
		}
	}
	checkHelperTable(c, r)
	valueKeyShapes, valueKeyMiss, valueKeyPos = 0, "", "-"
	defer func() {
		if valueKeyShapes > 0 {
			r.Check(valueKeyMiss == "", "gogen.orderedMap.Append:unset-value-keys-rejected", valueKeyPos, fmt.Sprintf("%d key shapes with by-value key leaves: each such leaf is tested for its unset value with an error return", valueKeyShapes),
				"the generated ordered-map Append has no test of the by-value key leaf "+valueKeyMiss+" against its unset value (an enumeration's 0, a union's nil): an element without that key is accepted and stored under the key nil / UNSET (`Keys() = [<nil>]`), although Append must reject nil keys without changing the map")
		}
	}()
	for _, shape := range listShapes {
		data := map[string]any{"StructName": "Elem_OrderedMap", "KeyName": shape.keyTypeName(), "ListTypeName": "Elem", "ListFieldName": "L",
			"Keys": shape.keyData(), "ParentStructName": "Parent", "YANGPath": "/parent/l"}
		src := shape.prelude("om"+shape.ID, true)
		ok := true
		if shape.multi() {
			s, err := instantiate(ts["listkey"], map[string]any{"KeyStructName": "Parent_L_Key", "ListName": "L", "ParentPath": "/parent", "Keys": shape.keyData()})
			if err != nil {
				r.Und("orderedMap["+shape.ID+"]:listkey", c.Pos(ts["listkey"].Pos), "template expansion failed: "+err.Error())
				ok = false
			}
			src += s
		}
		for _, n := range []string{"orderedMap", "orderedMapParentMethods"} {
			s, err := instantiate(ts[n], data)
			if err != nil {
				r.Und(n+"["+shape.ID+"]:expand", c.Pos(ts[n].Pos), "template expansion failed (template reads data the analyser's shape does not provide?): "+err.Error())
				ok = false
			}
			src += s
		}
		if !ok {
			continue
		}
		sp, err := c.buildSynth("om"+shape.ID, src)
		if err != nil {
			r.Bad("orderedMap["+shape.ID+"]:compiles", c.Pos(ts["orderedMap"].Pos), "the ordered-map code generated for key shape "+shape.ID+" does not compile: "+err.Error())
			continue
		}
		r.OK("orderedMap["+shape.ID+"]:compiles", c.Pos(ts["orderedMap"].Pos), "type-checks")
		checkOrderedMap(c, r, sp, shape, c.Pos(ts["orderedMap"].Pos))
		checkOrderedMapParent(c, r, sp, shape, c.Pos(ts["orderedMapParentMethods"].Pos))
	}
}

func checkHelperTable(c *Ctx, r *Report) {
	got := strings.Join(c.helperNamesInRepo(), ",")
	r.Check(got == "inc,indentLines,stripAsteriskPrefix,toUpper", "templates:helper-functions", "internal/igenutil", "helper table {inc, indentLines, stripAsteriskPrefix, toUpper} as modelled by the analyser",
		"igenutil.TemplateHelperFunctions is now {"+got+"}: the analyser models {inc, indentLines, stripAsteriskPrefix, toUpper}; expansion would not be faithful")
}

func checkOrderedMap(c *Ctx, r *Report, sp *synthPkg, shape listShape, pos string) {
	pfx := "orderedMap[" + shape.ID + "]."
	get := func(name string) *gm {
		f := sp.Funcs["Elem_OrderedMap."+name]
		if f == nil {
			r.Bad(pfx+name, pos, "generated ordered map has no method "+name)
			return nil
		}
		return newGM(c, f)
	}
	fieldMut := func(g *gm, field string) []mutation {
		var out []mutation
		for _, m := range g.semantic(g.recv) {
			if strings.Contains(types.ExprString(m.LHS), "."+field) {
				out = append(out, m)
			}
		}
		return out
	}
	// Append.
	if g := get("Append"); g != nil {
		v := g.param("v")
		n, bad := g.derefsGuarded(v)
		wantDerefs := 0
		for _, k := range shape.Keys {
			if k.Scalar {
				wantDerefs++
			}
		}
		r.Check(bad == "" && n >= wantDerefs, pfx+"Append:nil-keys-rejected", pos, fmt.Sprintf("%d pointer key leaves, each nil-checked (with an error return) before it is dereferenced", n),
			"generated Append dereferences "+bad+" without having rejected a nil "+bad+": an element with that key leaf unset panics instead of being rejected")
		r.Check(g.paramNilChecked(v), pfx+"Append:nil-element-rejected", pos, "nil element rejected", "generated Append does not reject a nil element")
		checkInsert(r, g, shape, pfx+"Append", pos, true, v)
		for _, k := range shape.Keys {
			if !k.Scalar {
				valueKeyPos = pos
				if !g.valueKeyUnsetRejected(v, k.Name) && valueKeyMiss == "" {
					valueKeyMiss = k.Name + " (shape " + shape.ID + ")"
				}
			}
		}
		if wantDerefs < len(shape.Keys) {
			valueKeyShapes++
		}
	}
	if g := get("AppendNew"); g != nil {
		checkInsert(r, g, shape, pfx+"AppendNew", pos, false, nil)
	}
	if g := get("Delete"); g != nil {
		ks, vs := fieldMut(g, "keys"), fieldMut(g, "valueMap")
		both := len(ks) == 1 && len(vs) == 1 && vs[0].Kind == "delete" && g.c.parentMap(g.f.File)[ks[0].Node] == g.c.parentMap(g.f.File)[g.c.parentMap(g.f.File)[vs[0].Node]]
		r.Check(both, pfx+"Delete:both-or-neither", pos, "key removed from keys and valueMap in one block", "generated Delete does not remove the key from keys and from valueMap together: Keys()/Len() and Get() disagree afterwards")
		// removal shape: o.keys = append(o.keys[:i], o.keys[i+1:]...) under k == key
		shapeOK := false
		if len(ks) == 1 {
			if call, ok := ast.Unparen(ks[0].RHS).(*ast.CallExpr); ok && len(call.Args) == 2 && call.Ellipsis.IsValid() {
				a0, ok0 := ast.Unparen(call.Args[0]).(*ast.SliceExpr)
				a1, ok1 := ast.Unparen(call.Args[1]).(*ast.SliceExpr)
				if ok0 && ok1 && a0.Low == nil && a0.High != nil && a1.High == nil && a1.Low != nil {
					if be, ok := ast.Unparen(a1.Low).(*ast.BinaryExpr); ok && be.Op == token.ADD && sameExpr(g.info, be.X, a0.High) {
						if v, ok := ConstOf(g.info, be.Y); ok && v == "1" {
							shapeOK = true
						}
					}
				}
			}
			guard := false
			for _, ft := range g.c.FactsAt(g.f, ks[0].Node, false) {
				if ft.Kind == "cond" && ft.Pos {
					if be, ok := ast.Unparen(ft.Cond).(*ast.BinaryExpr); ok && be.Op == token.EQL && (ObjOf(g.info, be.Y) == g.param("key") || ObjOf(g.info, be.X) == g.param("key")) {
						guard = true
					}
				}
			}
			shapeOK = shapeOK && guard
		}
		r.Check(shapeOK, pfx+"Delete:removes-exactly-the-key", pos, "keys = append(keys[:i], keys[i+1:]...) where keys[i] == key", "generated Delete does not cut exactly the matching position out of keys")
		// absent → no mutation: mutations after a failed-lookup early return.
		absentGuard := true
		for _, m := range append(ks, vs...) {
			if ix := g.lookupFact(m.Node, true); ix == nil {
				absentGuard = false
			}
		}
		r.Check(absentGuard, pfx+"Delete:absent-is-noop", pos, "returns false before any write when the key is absent", "generated Delete can write when the key is absent")
	}
	for _, name := range []string{"Get", "Len", "Keys", "Values"} {
		if g := get(name); g != nil {
			ms := g.mutations(g.recv)
			r.Check(len(ms) == 0, pfx+name+":read-only", pos, "stores nothing", "generated "+name+" writes receiver state (a read creates or changes entries)")
			r.Check(g.recvNilSafe(), pfx+name+":nil-receiver", pos, "nil receiver handled", "generated "+name+" dereferences a nil receiver")
		}
	}
	if g := get("Keys"); g != nil {
		fresh := false
		for _, rs := range returnsOf(g.f.Decl.Body) {
			if len(rs.Results) == 1 && !isNilConst(g.info, rs.Results[0]) {
				if call, ok := ast.Unparen(rs.Results[0]).(*ast.CallExpr); ok {
					if id, ok := call.Fun.(*ast.Ident); ok && id.Name == "append" && len(call.Args) == 2 {
						if _, isLit := ast.Unparen(call.Args[0]).(*ast.CompositeLit); isLit {
							fresh = true
						}
					}
				}
			}
		}
		r.Check(fresh, pfx+"Keys:copy", pos, "returns append([]K{}, keys...)", "generated Keys returns the internal slice (or something other than a fresh copy): callers can reorder the map")
	}
	if g := get("Values"); g != nil {
		okv := false
		ast.Inspect(g.f.Decl.Body, func(n ast.Node) bool {
			if rs, ok := n.(*ast.RangeStmt); ok {
				if sel, ok := ast.Unparen(rs.X).(*ast.SelectorExpr); ok && sel.Sel.Name == "keys" {
					okv = true
				}
				if sel, ok := ast.Unparen(rs.X).(*ast.SelectorExpr); ok && sel.Sel.Name == "valueMap" {
					okv = false
				}
			}
			return true
		})
		r.Check(okv, pfx+"Values:in-key-order", pos, "iterates keys, not the map", "generated Values does not iterate the keys slice: values come back in map order")
	}
}


// state of the aggregated unset-value-key obligation of the template rule that is running (the rules run one at a time).
var (
	valueKeyShapes int
	valueKeyMiss   string
	valueKeyPos    string
)

// valueKeyUnsetRejected: the method rejects an element whose by-value key leaf `field` (an enumeration,
// 0 = unset, or a union interface, nil = unset) is unset: some `if` whose condition compares p.<field>
// for equality and whose body ends in an error return.
func (g *gm) valueKeyUnsetRejected(p types.Object, field string) bool {
	found := false
	ast.Inspect(g.f.Decl.Body, func(x ast.Node) bool {
		is, ok := x.(*ast.IfStmt)
		if !ok || found {
			return !found
		}
		hit := false
		ast.Inspect(is.Cond, func(y ast.Node) bool {
			be, ok := y.(*ast.BinaryExpr)
			if !ok || be.Op != token.EQL {
				return true
			}
			for _, side := range []ast.Expr{be.X, be.Y} {
				if se, ok := ast.Unparen(side).(*ast.SelectorExpr); ok && se.Sel.Name == field && g.root(se) == p {
					hit = true
				}
			}
			return true
		})
		if hit && terminates(g.info, is.Body.List) {
			for _, rs := range returnsOf(is.Body) {
				if g.isErrReturn(rs) {
					found = true
				}
			}
		}
		return true
	})
	return found
}

// paramNilChecked: `if p == nil { return <err> }` exists at top level.
func (g *gm) paramNilChecked(p types.Object) bool {
	for _, s := range g.f.Decl.Body.List {
		if is, ok := s.(*ast.IfStmt); ok {
			if be, ok := ast.Unparen(is.Cond).(*ast.BinaryExpr); ok && be.Op == token.EQL && isNilConst(g.info, be.Y) && ObjOf(g.info, be.X) == p && terminates(g.info, is.Body.List) {
				return true
			}
		}
	}
	return false
}

// checkInsert: the insertion discipline shared by Append (fromElem) and AppendNew.
func checkInsert(r *Report, g *gm, shape listShape, pfx, pos string, fromElem bool, v types.Object) {
	sem := g.semantic(g.recv)
	var keysM, mapM []mutation
	for _, m := range sem {
		s := types.ExprString(m.LHS)
		switch {
		case strings.Contains(s, ".keys"):
			keysM = append(keysM, m)
		case strings.Contains(s, ".valueMap"):
			mapM = append(mapM, m)
		}
	}
	r.Check(allBefore(g.errReturnPositions(), posOf(sem)), pfx+":errors-before-writes", pos, "every error return precedes the first write", "generated code can return an error after having written keys/valueMap: a rejected insertion changes the map")
	one := len(keysM) == 1 && len(mapM) == 1
	sameKey := false
	var keyObj types.Object
	if one {
		if call, ok := ast.Unparen(keysM[0].RHS).(*ast.CallExpr); ok && len(call.Args) == 2 {
			keyObj = ObjOf(g.info, call.Args[1])
		}
		if ix, ok := ast.Unparen(mapM[0].LHS).(*ast.IndexExpr); ok && keyObj != nil && ObjOf(g.info, ix.Index) == keyObj {
			sameKey = true
		}
	}
	r.Check(one && sameKey, pfx+":one-key-one-entry", pos, "exactly one append to keys and one valueMap store, same key", "generated code does not add the same key exactly once to keys and once to valueMap")
	dup := one
	for _, m := range append(keysM, mapM...) {
		ix := g.lookupFact(m.Node, false)
		if ix == nil || keyObj == nil || ObjOf(g.info, ix.Index) != keyObj || !strings.Contains(types.ExprString(ix.X), "valueMap") {
			dup = false
		}
	}
	r.Check(dup, pfx+":duplicate-rejected", pos, "writes only after valueMap[key] was looked up and found absent", "generated code can insert a key that is already present (duplicate keys)")
	// init before map store.
	initOK := false
	for _, m := range g.mutations(g.recv) {
		if m.Kind == "lazy-init" && one && m.Node.Pos() < mapM[0].Node.Pos() {
			initOK = true
		}
	}
	r.Check(initOK, pfx+":map-initialised", pos, "init() before the valueMap store", "generated code stores into valueMap without initialising it (nil map panic on a zero-value ordered map)")
	if keyObj == nil {
		return
	}
	if w := g.keyBuiltFrom(shape, keyObj, fromElem, v); w != "" {
		r.Bad(pfx+":key-from-source", pos, "generated code builds the inserted key wrongly: "+w)
	} else {
		r.OK(pfx+":key-from-source", pos, "key components come from the element's key leaves / the arguments")
	}
	if one {
		if fromElem {
			r.Check(ObjOf(g.info, mapM[0].RHS) == v, pfx+":stores-element", pos, "valueMap[key] = v", "generated Append does not store the given element")
		} else {
			w := ""
			if id, ok := ast.Unparen(mapM[0].RHS).(*ast.Ident); ok {
				// newElement := &Elem{…}
				obj := g.info.ObjectOf(id)
				var def ast.Expr
				ast.Inspect(g.f.Decl.Body, func(n ast.Node) bool {
					if as, ok := n.(*ast.AssignStmt); ok && len(as.Lhs) == 1 && ObjOf(g.info, as.Lhs[0]) == obj && len(as.Rhs) == 1 {
						def = as.Rhs[0]
					}
					return true
				})
				if def == nil {
					w = "new element not found"
				} else {
					w = g.elemLiteralFromParams(shape, def)
				}
				ret := false
				for _, rs := range returnsOf(g.f.Decl.Body) {
					if len(rs.Results) == 2 && ObjOf(g.info, rs.Results[0]) == obj {
						ret = true
					}
				}
				if w == "" && !ret {
					w = "the new element is not returned"
				}
			} else {
				w = g.elemLiteralFromParams(shape, mapM[0].RHS)
			}
			r.Check(w == "", pfx+":new-element-keys", pos, "the new element's key leaves equal the arguments", "generated AppendNew: "+w)
		}
	}
}

func checkOrderedMapParent(c *Ctx, r *Report, sp *synthPkg, shape listShape, pos string) {
	pfx := "orderedMapParent[" + shape.ID + "]."
	for _, m := range []struct {
		name, callee string
		creates      bool
	}{{"AppendNewL", "AppendNew", true}, {"AppendL", "Append", true}, {"GetL", "Get", false}, {"DeleteL", "Delete", false}} {
		f := sp.Funcs["Parent."+m.name]
		if f == nil {
			r.Bad(pfx+m.name, pos, "parent helper "+m.name+" is not generated")
			continue
		}
		g := newGM(c, f)
		muts := g.mutations(g.recv)
		if m.creates {
			lazy := len(muts) == 1 && muts[0].Kind == "lazy-init"
			r.Check(lazy, pfx+m.name+":lazy-create", pos, "creates the ordered map only when nil", "parent helper "+m.name+" writes the parent other than lazily creating the ordered map")
		} else {
			r.Check(len(muts) == 0, pfx+m.name+":read-only", pos, "does not create or write anything", "parent helper "+m.name+" writes the parent struct ("+m.callee+" must never create)")
		}
		// delegation with the key built from all params / the element.
		var call *ast.CallExpr
		ast.Inspect(f.Decl.Body, func(n ast.Node) bool {
			if cc, ok := n.(*ast.CallExpr); ok {
				if sel, ok := cc.Fun.(*ast.SelectorExpr); ok && sel.Sel.Name == m.callee {
					call = cc
				}
			}
			return true
		})
		okd := call != nil
		if okd {
			switch m.callee {
			case "Append":
				okd = len(call.Args) == 1 && ObjOf(g.info, call.Args[0]) == g.param("v")
			case "AppendNew":
				okd = len(call.Args) == len(shape.Keys)
				for i, k := range shape.Keys {
					if okd && ObjOf(g.info, call.Args[i]) != g.param(k.Name) {
						okd = false
					}
				}
			default:
				okd = len(call.Args) == 1
				if okd {
					if w := g.keyBuiltFrom(shape, ObjOf(g.info, call.Args[0]), false, nil); w != "" {
						okd = false
					}
				}
			}
		}
		r.Check(okd, pfx+m.name+":delegates", pos, "delegates to the ordered map's "+m.callee+" with all arguments in order", "parent helper "+m.name+" does not pass its arguments faithfully to "+m.callee)
		if m.name == "GetL" {
			r.Check(g.recvNilSafe(), pfx+m.name+":nil-receiver", pos, "nil receiver handled", "parent helper GetL dereferences a nil receiver (Get* must be chainable)")
		}
	}
}

// ---- R-KL: generated keyed-list helpers ---------------------------------------------------------

func ruleKeyedListTemplates(c *Ctx, r *Report) {
	r.Rule("R-KL", "for every key shape the keyed-list helpers instantiated from gogen's templates: New/Append reject duplicate keys (Append also nil key leaves) before any entry is written; New's entry has its key leaves set from the same arguments as the map key; Append derives the key from the element's key leaves; Get writes nothing; GetOrCreate calls New only on a lookup miss with all key arguments; Delete only deletes the key; Rename checks newK/oldK first, sets every key leaf of the entry from newK (entry on the left, newK on the right), inserts under newK and deletes oldK; ΛListKeyMap covers every key", 110)
	ts := c.templatesOf("gogen")
	names := []string{"newListEntry", "getList", "getOrCreateListElement", "getOrCreateList", "deleteList", "appendList", "renameListEntry", "keyHelper", "listkey"}
	for _, n := range names {
		if ts[n] == nil {
			r.Und("template:"+n, "-", "template not found in gogen (renamed?)")
			return
		}
	}
	checkHelperTable(c, r)
	valueKeyShapes, valueKeyMiss, valueKeyPos = 0, "", "-"
	defer func() {
		if valueKeyShapes > 0 {
			r.Check(valueKeyMiss == "", "gogen.appendList:unset-value-keys-rejected", valueKeyPos, fmt.Sprintf("%d key shapes with by-value key leaves: each such leaf is tested for its unset value with an error return", valueKeyShapes),
				"the generated Append<List> has no test of the by-value key leaf "+valueKeyMiss+" against its unset value (an enumeration's 0, a union's nil): an element without that key is accepted and stored under the key nil / UNSET (`map[<nil>:…]`), although Append must reject nil keys without changing the map")
		}
	}()
	for _, shape := range listShapes {
		ks := ""
		if shape.multi() {
			ks = "Parent_L_Key"
		}
		data := map[string]any{"ListName": "L", "ListType": "Elem", "Keys": shape.keyData(), "KeyStruct": ks, "Receiver": "Parent"}
		src := shape.prelude("kl"+shape.ID, false)
		ok := true
		exp := func(n string, d any) {
			s, err := instantiate(ts[n], d)
			if err != nil {
				r.Und(n+"["+shape.ID+"]:expand", c.Pos(ts[n].Pos), "template expansion failed (template reads data the analyser's shape does not provide?): "+err.Error())
				ok = false
			}
			src += s
		}
		if shape.multi() {
			exp("listkey", map[string]any{"KeyStructName": "Parent_L_Key", "ListName": "L", "ParentPath": "/parent", "Keys": shape.keyData()})
		}
		for _, n := range names[:7] {
			exp(n, data)
		}
		exp("keyHelper", map[string]any{"Receiver": "Elem", "Keys": shape.keyHelperData()})
		if !ok {
			continue
		}
		pos := c.Pos(ts["newListEntry"].Pos)
		sp, err := c.buildSynth("kl"+shape.ID, src)
		if err != nil {
			r.Bad("keyedList["+shape.ID+"]:compiles", pos, "the list helpers generated for key shape "+shape.ID+" do not compile: "+err.Error())
			continue
		}
		r.OK("keyedList["+shape.ID+"]:compiles", pos, "type-checks")
		checkKeyedList(c, r, sp, shape)
	}
}

func checkKeyedList(c *Ctx, r *Report, sp *synthPkg, shape listShape) {
	ts := c.templatesOf("gogen")
	pfx := "keyedList[" + shape.ID + "]."
	get := func(name, tmpl string) (*gm, string) {
		f := sp.Funcs[name]
		pos := c.Pos(ts[tmpl].Pos)
		if f == nil {
			r.Bad(pfx+name, pos, "helper "+name+" is not generated")
			return nil, pos
		}
		return newGM(c, f), pos
	}
	entryWrites := func(g *gm) []mutation {
		var out []mutation
		for _, m := range g.semantic(g.recv) {
			out = append(out, m)
		}
		return out
	}
	// New
	if g, pos := get("Parent.NewL", "newListEntry"); g != nil {
		ws := entryWrites(g)
		r.Check(allBefore(g.errReturnPositions(), posOf(ws)), pfx+"New:errors-before-writes", pos, "duplicate error precedes the write", "generated New can return an error after having written the map")
		one := len(ws) == 1 && ws[0].Kind == "store"
		var keyObj types.Object
		if one {
			if ix, ok := ast.Unparen(ws[0].LHS).(*ast.IndexExpr); ok {
				keyObj = ObjOf(g.info, ix.Index)
			}
		}
		dup := one && keyObj != nil
		if dup {
			ix := g.lookupFact(ws[0].Node, false)
			dup = ix != nil && ObjOf(g.info, ix.Index) == keyObj
		}
		r.Check(dup, pfx+"New:duplicate-rejected", pos, "stores only after t.L[key] was found absent", "generated New can overwrite an existing entry")
		if keyObj != nil {
			w := g.keyBuiltFrom(shape, keyObj, false, nil)
			if w == "" {
				w = g.elemLiteralFromParams(shape, ws[0].RHS)
			}
			r.Check(w == "", pfx+"New:key-leaves-equal-key", pos, "map key and the entry's key leaves come from the same arguments", "generated New: "+w)
		}
	}
	// Get
	if g, pos := get("Parent.GetL", "getList"); g != nil {
		r.Check(len(g.mutations(g.recv)) == 0, pfx+"Get:read-only", pos, "writes nothing", "generated Get writes the parent (Get must never create entries or the map)")
		r.Check(g.recvNilSafe(), pfx+"Get:nil-receiver", pos, "nil receiver handled", "generated Get dereferences a nil receiver")
		callsNew := false
		ast.Inspect(g.f.Decl.Body, func(n ast.Node) bool {
			if cc, ok := n.(*ast.CallExpr); ok {
				if sel, ok := cc.Fun.(*ast.SelectorExpr); ok && (strings.HasPrefix(sel.Sel.Name, "New") || strings.HasPrefix(sel.Sel.Name, "GetOrCreate")) {
					callsNew = true
				}
			}
			return true
		})
		r.Check(!callsNew, pfx+"Get:never-creates", pos, "calls no creating helper", "generated Get calls a creating helper")
		kOK := ""
		if ko := localObj(g.f, "key"); ko != nil {
			kOK = g.keyBuiltFrom(shape, ko, false, nil)
		} else {
			kOK = "no key"
		}
		r.Check(kOK == "", pfx+"Get:key", pos, "key built from all arguments", "generated Get: "+kOK)
	}
	// GetOrCreate
	if g, pos := get("Parent.GetOrCreateL", "getOrCreateListElement"); g != nil {
		var newCall *ast.CallExpr
		ast.Inspect(g.f.Decl.Body, func(n ast.Node) bool {
			if cc, ok := n.(*ast.CallExpr); ok {
				if sel, ok := cc.Fun.(*ast.SelectorExpr); ok && sel.Sel.Name == "NewL" {
					newCall = cc
				}
			}
			return true
		})
		okc := newCall != nil && len(newCall.Args) == len(shape.Keys)
		if okc {
			for i, k := range shape.Keys {
				if ObjOf(g.info, newCall.Args[i]) != g.param(k.Name) {
					okc = false
				}
			}
			ix := g.lookupFact(newCall, false)
			ko := localObj(g.f, "key")
			okc = okc && ix != nil && ko != nil && ObjOf(g.info, ix.Index) == ko && g.keyBuiltFrom(shape, ko, false, nil) == ""
		}
		r.Check(okc, pfx+"GetOrCreate:new-only-on-miss", pos, "New(all key arguments) only after the lookup missed", "generated GetOrCreate does not create exactly on a lookup miss with all key arguments in order (not idempotent / wrong entry)")
		r.Check(len(g.semantic(g.recv)) == 0, pfx+"GetOrCreate:no-direct-writes", pos, "creation only through New", "generated GetOrCreate writes the map itself")
	}
	// Delete
	if g, pos := get("Parent.DeleteL", "deleteList"); g != nil {
		ms := g.mutations(g.recv)
		okd := len(ms) == 1 && ms[0].Kind == "delete"
		if okd {
			ko := ObjOf(g.info, ms[0].RHS)
			okd = ko != nil && g.keyBuiltFrom(shape, ko, false, nil) == ""
		}
		r.Check(okd, pfx+"Delete:only-the-key", pos, "delete(t.L, key) with the key built from all arguments", "generated Delete does something other than deleting exactly the given key")
	}
	// Append
	if g, pos := get("Parent.AppendL", "appendList"); g != nil {
		v := g.param("v")
		n, bad := g.derefsGuarded(v)
		want := 0
		for _, k := range shape.Keys {
			if k.Scalar {
				want++
			}
		}
		r.Check(bad == "" && n >= want, pfx+"Append:nil-keys-rejected", pos, fmt.Sprintf("%d pointer key leaves nil-checked before dereference", n), "generated Append dereferences "+bad+" without having rejected a nil key leaf: panic instead of an error")
		for _, k := range shape.Keys {
			if !k.Scalar {
				valueKeyPos = pos
				if !g.valueKeyUnsetRejected(v, k.Name) && valueKeyMiss == "" {
					valueKeyMiss = k.Name + " (shape " + shape.ID + ")"
				}
			}
		}
		if want < len(shape.Keys) {
			valueKeyShapes++
		}
		ws := g.semantic(g.recv)
		r.Check(allBefore(g.errReturnPositions(), posOf(ws)), pfx+"Append:errors-before-writes", pos, "errors precede the write", "generated Append can return an error after having written the map")
		one := len(ws) == 1 && ws[0].Kind == "store" && ObjOf(g.info, ws[0].RHS) == v
		var keyObj types.Object
		if one {
			if ix, ok := ast.Unparen(ws[0].LHS).(*ast.IndexExpr); ok {
				keyObj = ObjOf(g.info, ix.Index)
			}
		}
		dup := one && keyObj != nil
		if dup {
			ix := g.lookupFact(ws[0].Node, false)
			dup = ix != nil && ObjOf(g.info, ix.Index) == keyObj
		}
		r.Check(dup, pfx+"Append:duplicate-rejected", pos, "t.L[key] = v only after the key was found absent", "generated Append can overwrite an existing entry or stores something other than the element")
		if keyObj != nil {
			w := g.keyBuiltFrom(shape, keyObj, true, v)
			r.Check(w == "", pfx+"Append:key-from-element", pos, "key derived from the element's key leaves", "generated Append: "+w)
		}
	}
	// Rename
	if g, pos := get("Parent.RenameL", "renameListEntry"); g != nil {
		oldK, newK := g.param("oldK"), g.param("newK")
		var e types.Object
		ast.Inspect(g.f.Decl.Body, func(n ast.Node) bool {
			if as, ok := n.(*ast.AssignStmt); ok && len(as.Lhs) == 2 && len(as.Rhs) == 1 {
				if ix, ok := ast.Unparen(as.Rhs[0]).(*ast.IndexExpr); ok && ObjOf(g.info, ix.Index) == oldK {
					e = ObjOf(g.info, as.Lhs[0])
				}
			}
			return true
		})
		if e == nil || oldK == nil || newK == nil {
			r.Bad(pfx+"Rename:shape", pos, "generated Rename does not look the entry up under oldK")
		} else {
			// newK is never written.
			r.Check(len(g.mutations(newK)) == 0 && len(g.mutations(oldK)) == 0, pfx+"Rename:keys-not-written", pos, "oldK/newK are only read", "generated Rename assigns into newK/oldK (the key under which the entry is inserted is altered after the checks)")
			// all writes after both checks.
			ws := append(g.semantic(g.recv), g.semantic(e)...)
			r.Check(allBefore(g.errReturnPositions(), posOf(ws)), pfx+"Rename:errors-before-writes", pos, "both checks precede every write", "generated Rename can fail after having modified the entry or the map")
			// key leaves.
			missing := ""
			for _, k := range shape.Keys {
				found := false
				for _, m := range g.semantic(e) {
					sel, ok := ast.Unparen(m.LHS).(*ast.SelectorExpr)
					if !ok || sel.Sel.Name != k.Name || ObjOf(g.info, sel.X) != e {
						continue
					}
					rhs := ast.Unparen(m.RHS)
					if k.Scalar {
						u, ok := rhs.(*ast.UnaryExpr)
						if !ok || u.Op != token.AND {
							continue
						}
						rhs = ast.Unparen(u.X)
					}
					if shape.multi() {
						s2, ok := rhs.(*ast.SelectorExpr)
						if ok && s2.Sel.Name == k.Name && ObjOf(g.info, s2.X) == newK {
							found = true
						}
					} else if ObjOf(g.info, rhs) == newK {
						found = true
					}
				}
				if !found {
					missing = k.Name
				}
			}
			r.Check(missing == "", pfx+"Rename:key-leaves-updated", pos, "every key leaf of the entry is set from newK", "generated Rename does not set the entry's key leaf "+missing+" from newK: after the rename the entry's key leaves differ from its map key")
			// map move.
			ins, del := false, false
			for _, m := range g.semantic(g.recv) {
				switch m.Kind {
				case "store":
					if ix, ok := ast.Unparen(m.LHS).(*ast.IndexExpr); ok && ObjOf(g.info, ix.Index) == newK && ObjOf(g.info, m.RHS) == e {
						ins = true
					}
				case "delete":
					if ObjOf(g.info, m.RHS) == oldK {
						del = true
					}
				}
			}
			r.Check(ins && del && len(g.semantic(g.recv)) == 2, pfx+"Rename:moves-entry", pos, "t.L[newK] = e; delete(t.L, oldK)", "generated Rename does not insert the entry under newK and delete oldK (and nothing else)")
			// checks: newK exists → error; oldK missing → error.
			nErr := 0
			for _, rs := range returnsOf(g.f.Decl.Body) {
				if g.isErrReturn(rs) {
					nErr++
				}
			}
			r.Check(nErr >= 2, pfx+"Rename:preconditions", pos, "errors for an existing newK and a missing oldK", "generated Rename lacks the newK-exists / oldK-missing errors")
		}
	}
	// ΛListKeyMap of the element.
	if g, pos := get("Elem.ΛListKeyMap", "keyHelper"); g != nil {
		n, bad := g.derefsGuarded(g.recv)
		want := 0
		for _, k := range shape.Keys {
			if k.Scalar {
				want++
			}
		}
		r.Check(bad == "" && n >= want, pfx+"ΛListKeyMap:nil-keys", pos, "pointer key leaves nil-checked before dereference", "generated ΛListKeyMap dereferences "+bad+" unchecked")
		cover := map[string]bool{}
		ast.Inspect(g.f.Decl.Body, func(x ast.Node) bool {
			if kv, ok := x.(*ast.KeyValueExpr); ok {
				if v, ok := ConstOf(g.info, kv.Key); ok {
					for _, k := range shape.Keys {
						if v == `"`+k.YANGName+`"` && strings.HasSuffix(types.ExprString(kv.Value), "."+k.Name) {
							cover[k.Name] = true
						}
					}
				}
			}
			return true
		})
		r.Check(len(cover) == len(shape.Keys), pfx+"ΛListKeyMap:covers-keys", pos, "one entry per key, YANG name → key leaf", "generated ΛListKeyMap does not map every YANG key name to its key leaf")
	}
}

// ---- R-OM-TRAVERSAL: library side of ordered maps ------------------------------------------------

func ruleOrderedMapTraversal(c *Ctx, r *Report) {
	r.Rule("R-OM-TRAVERSAL", "the library reads an ordered map only through its Keys() slice in ascending position (yreflect.OrderedMapKeys / RangeOrderedMap: index or slice loops, no sorting, no map iteration, every key visited until the visitor stops); every method the library calls reflectively on an ordered map exists in the code the templates expand to, with the result count the caller checks", 12)
	for _, name := range []string{"OrderedMapKeys", "RangeOrderedMap"} {
		f := c.MustFunc(r, "internal/yreflect", name)
		if f == nil {
			continue
		}
		info := f.Info()
		bad := ""
		loops := 0
		ast.Inspect(f.Decl.Body, func(n ast.Node) bool {
			switch x := n.(type) {
			case *ast.RangeStmt:
				loops++
				if tv, ok := info.Types[x.X]; ok {
					if _, isMap := tv.Type.Underlying().(*types.Map); isMap {
						bad = "ranges over a map"
					}
				}
			case *ast.ForStmt:
				loops++
				// ascending index loop: i := 0; i != / < n; i++
				inc, ok := x.Post.(*ast.IncDecStmt)
				if !ok || inc.Tok != token.INC {
					bad = "index loop is not ascending by one"
				}
				if as, ok := x.Init.(*ast.AssignStmt); !ok || len(as.Rhs) != 1 {
					bad = "index loop has no simple initialiser"
				} else if v, ok := ConstOf(info, as.Rhs[0]); !ok || v != "0" {
					bad = "index loop does not start at 0"
				}
			case *ast.CallExpr:
				fn := FullName(Callee(info, x))
				if strings.HasPrefix(fn, "sort.") || strings.HasPrefix(fn, "slices.Sort") || strings.HasPrefix(fn, "slices.Reverse") {
					bad = "reorders with " + fn
				}
			case *ast.BranchStmt:
				if x.Tok == token.BREAK || x.Tok == token.CONTINUE || x.Tok == token.GOTO {
					bad = "skips or stops with " + x.Tok.String()
				}
			}
			return true
		})
		r.Check(bad == "" && loops == 1, "internal/yreflect."+name+":in-order", c.Pos(f.Decl.Pos()), "one ascending loop over Keys(), nothing skipped or reordered",
			"yreflect."+name+" "+bad+": ordered lists are rendered/copied in an order other than the user's")
	}
	if f := c.Func("internal/yreflect", "RangeOrderedMap"); f != nil {
		info := f.Info()
		// the loop ranges over the result of OrderedMapKeys and the only early exit is the visitor's false.
		src := false
		ast.Inspect(f.Decl.Body, func(n ast.Node) bool {
			if rs, ok := n.(*ast.RangeStmt); ok {
				obj := ObjOf(info, rs.X)
				ast.Inspect(f.Decl.Body, func(m ast.Node) bool {
					if as, ok := m.(*ast.AssignStmt); ok && len(as.Rhs) == 1 && len(as.Lhs) >= 1 && ObjOf(info, as.Lhs[0]) == obj && IsCall(info, as.Rhs[0], P("internal/yreflect")+".OrderedMapKeys") {
						src = true
					}
					return true
				})
			}
			return true
		})
		r.Check(src, "internal/yreflect.RangeOrderedMap:keys-source", c.Pos(f.Decl.Pos()), "iterates OrderedMapKeys(orderedMap)", "RangeOrderedMap does not iterate the ordered key slice")
		n := 0
		for _, rs := range returnsOf(f.Decl.Body) {
			if lp := c.EnclosingLoop(f, rs); lp != nil && len(rs.Results) == 1 && isNilConst(info, rs.Results[0]) {
				n++
				okv := false
				for _, ft := range c.FactsAt(f, rs, false) {
					if ft.Kind == "cond" && !ft.Pos {
						if call, ok := ast.Unparen(ft.Cond).(*ast.CallExpr); ok && paramIndex(f, ObjOf(info, call.Fun)) == 1 {
							okv = true
						}
					}
				}
				r.Check(okv, fmt.Sprintf("internal/yreflect.RangeOrderedMap:early-stop#%d", n), c.Pos(rs.Pos()), "stops early only when the visitor returns false", "RangeOrderedMap stops before the last element for a reason other than the visitor's result")
			}
		}
	}
	// reflective method names against the expanded templates.
	ts := c.templatesOf("gogen")
	if ts["orderedMap"] == nil {
		r.Und("template:orderedMap", "-", "template not found")
		return
	}
	shape := listShapes[2]
	data := map[string]any{"StructName": "Elem_OrderedMap", "KeyName": shape.keyTypeName(), "ListTypeName": "Elem", "ListFieldName": "L", "Keys": shape.keyData(), "ParentStructName": "Parent", "YANGPath": "/parent/l"}
	src := shape.prelude("omnames", true)
	for _, n := range []string{"listkey", "orderedMap"} {
		d := any(data)
		if n == "listkey" {
			d = map[string]any{"KeyStructName": "Parent_L_Key", "ListName": "L", "ParentPath": "/parent", "Keys": shape.keyData()}
		}
		s, err := instantiate(ts[n], d)
		if err != nil {
			r.Und("orderedMap:expand", c.Pos(ts[n].Pos), err.Error())
			return
		}
		src += s
	}
	sp, err := c.buildSynth("omnames", src)
	if err != nil {
		r.Und("orderedMap:compile", c.Pos(ts["orderedMap"].Pos), err.Error())
		return
	}
	omNames := map[string]bool{"Append": true, "AppendNew": true, "Get": true, "Keys": true, "Values": true, "Delete": true, "Len": true}
	n := 0
	for _, rel := range libPkgs {
		for _, f := range c.AllFuncs(rel) {
			info := f.Info()
			for _, call := range CallsIn(info, f.Decl.Body, P("internal/yreflect")+".MethodByName", "reflect.Value.MethodByName", P("internal/yreflect")+".UnaryMethodArgType") {
				if len(call.Args) == 0 {
					continue
				}
				v, ok := ConstOf(info, call.Args[len(call.Args)-1])
				if !ok {
					continue
				}
				name := strings.Trim(v, `"`)
				if !omNames[name] {
					continue
				}
				n++
				m := sp.Funcs["Elem_OrderedMap."+name]
				key := fmt.Sprintf("%s:reflective-%s#%d", f.Name, name, n)
				if m == nil {
					r.Bad(key, c.Pos(call.Pos()), f.Name+" looks up method "+name+" on ordered maps by name, but the generated ordered map has no such method: every ordered list fails at run time")
					continue
				}
				// result count the caller checks: <mv> := MethodByName(…); ret := <mv>.Call(…); len(ret), N.
				wantN := -1
				var mv, retObj types.Object
				if as, ok := c.parentMap(f.File)[call].(*ast.AssignStmt); ok && len(as.Lhs) >= 1 {
					mv = ObjOf(info, as.Lhs[0])
				}
				ast.Inspect(f.Decl.Body, func(x ast.Node) bool {
					if as, ok := x.(*ast.AssignStmt); ok && len(as.Lhs) == 1 && len(as.Rhs) == 1 && mv != nil {
						if cc, ok := as.Rhs[0].(*ast.CallExpr); ok && FullName(Callee(info, cc)) == "reflect.Value.Call" {
							if sel, ok := cc.Fun.(*ast.SelectorExpr); ok && ObjOf(info, sel.X) == mv {
								retObj = ObjOf(info, as.Lhs[0])
							}
						}
					}
					return true
				})
				ast.Inspect(f.Decl.Body, func(x ast.Node) bool {
					if as, ok := x.(*ast.AssignStmt); ok && len(as.Lhs) == 2 && len(as.Rhs) == 2 && retObj != nil {
						if cc, ok := as.Rhs[0].(*ast.CallExpr); ok && len(cc.Args) == 1 && ObjOf(info, cc.Args[0]) == retObj {
							if cv, ok := ConstOf(info, as.Rhs[1]); ok {
								fmt.Sscanf(cv, "%d", &wantN)
							}
						}
					}
					return true
				})
				got := m.Obj.Type().(*types.Signature).Results().Len()
				r.Check(wantN < 0 || wantN == got, key, c.Pos(call.Pos()), fmt.Sprintf("generated %s has %d result(s)", name, got),
					fmt.Sprintf("%s expects %d results from the generated %s, which returns %d", f.Name, wantN, name, got))
			}
		}
	}
}
