package main

import (
	"bytes"
	"fmt"
	"os"
	"os/exec"
	"path/filepath"
	"strings"
	"sync"
)

// Mutant is an in-memory (packages.Config.Overlay) textual variant of one repo
// file. Mutants test the analyser (it must fire and name the construct); they
// are not the property check. A mutant whose Old text no longer occurs is stale.
type Mutant struct {
	Name     string
	Property string
	File     string // relative to /repo
	Old, New string
	Expect   string // substring that must occur in a "violated:" line
	// Extra edits in the same or other files (all must apply).
	More []Edit
}

type Edit struct{ File, Old, New string }

var mutants []Mutant

func addMutant(m Mutant) { mutants = append(mutants, m) }

func findMutant(name string) *Mutant {
	for i := range mutants {
		if mutants[i].Name == name {
			return &mutants[i]
		}
	}
	return nil
}

func (m *Mutant) overlay() (map[string][]byte, error) {
	ov := map[string][]byte{}
	edits := append([]Edit{{m.File, m.Old, m.New}}, m.More...)
	for _, e := range edits {
		p := filepath.Join(repoDir(), e.File)
		src, ok := ov[p]
		if !ok {
			b, err := os.ReadFile(p)
			if err != nil {
				return nil, err
			}
			src = b
		}
		if !bytes.Contains(src, []byte(e.Old)) {
			return nil, fmt.Errorf("old text not found in %s", e.File)
		}
		ov[p] = bytes.Replace(src, []byte(e.Old), []byte(e.New), 1)
	}
	return ov, nil
}

type mutantResult struct {
	Name   string `json:"name"`
	Status string `json:"status"` // fired | missed | stale | error
	Detail string `json:"detail,omitempty"`
}

// runMutants runs all mutants of prop ("" = all), ≤4 at a time, one process each.
// strict: exit 1 if any mutant is missed. Otherwise only reports.
func runMutants(prop string, strict bool) int {
	var sel []Mutant
	for _, m := range mutants {
		if prop == "" || m.Property == prop {
			sel = append(sel, m)
		}
	}
	res := make([]mutantResult, len(sel))
	sem := make(chan struct{}, 4)
	var wg sync.WaitGroup
	for i, m := range sel {
		wg.Add(1)
		go func(i int, m Mutant) {
			defer wg.Done()
			sem <- struct{}{}
			defer func() { <-sem }()
			cmd := exec.Command(os.Args[0], "check", m.Property, "--mutant", m.Name)
			cmd.Env = os.Environ()
			out, err := cmd.CombinedOutput()
			code := 0
			if ee, ok := err.(*exec.ExitError); ok {
				code = ee.ExitCode()
			} else if err != nil {
				res[i] = mutantResult{m.Name, "error", err.Error()}
				return
			}
			fired := false
			for _, line := range strings.Split(string(out), "\n") {
				if strings.Contains(line, "violated:") && strings.Contains(line, m.Expect) {
					fired = true
				}
			}
			switch {
			case code == 3:
				res[i] = mutantResult{m.Name, "stale", "old text no longer present"}
			case code == 1 && fired:
				res[i] = mutantResult{m.Name, "fired", m.Expect}
			default:
				tail := string(out)
				if len(tail) > 600 {
					tail = tail[len(tail)-600:]
				}
				res[i] = mutantResult{m.Name, "missed", fmt.Sprintf("exit=%d; expected a violated line containing %q; tail: %s", code, m.Expect, tail)}
			}
		}(i, m)
	}
	wg.Wait()
	missed := 0
	for _, r := range res {
		fmt.Printf("mutant %-40s %s %s\n", r.Name, r.Status, func() string {
			if r.Status == "missed" || r.Status == "error" {
				return r.Detail
			}
			return ""
		}())
		if r.Status == "missed" || r.Status == "error" {
			missed++
		}
	}
	lastMutantResults = res
	if strict && missed > 0 {
		return 1
	}
	return 0
}

var lastMutantResults []mutantResult
