package main

import (
	"fmt"
	"go/ast"
	"go/token"
	"go/types"
	"strings"
)

// Rules added after the sixth batch of seeded changes.

// ---- R-KEYCHECK-SKIP (C07) ---------------------------------------------------------------------

// isNilTestOf: e is a nil test (x == nil, x.IsNil(), util.IsValueNil(x…), util.IsNilOrInvalidValue(x),
// !x.IsValid()) — a test whose outcome does not depend on which non-nil value x holds.
func isNilTest(info *types.Info, e ast.Expr) bool {
	switch x := ast.Unparen(e).(type) {
	case *ast.BinaryExpr:
		if x.Op == token.EQL || x.Op == token.NEQ {
			return isNilIdent(info, x.X) || isNilIdent(info, x.Y)
		}
	case *ast.UnaryExpr:
		return x.Op == token.NOT && isNilTest(info, x.X)
	case *ast.CallExpr:
		switch FullName(Callee(info, x)) {
		case P("util") + ".IsValueNil", P("util") + ".IsNilOrInvalidValue", "reflect.Value.IsNil", "reflect.Value.IsValid":
			return true
		}
	}
	return false
}

func isNilIdent(info *types.Info, e ast.Expr) bool {
	id, ok := ast.Unparen(e).(*ast.Ident)
	if !ok {
		return false
	}
	_, isNil := info.ObjectOf(id).(*types.Nil)
	return isNil
}

// ruleKeyCheckSkip: the two functions that compare a list's map key with the entry's key leaf
// succeed early (return nil / continue) only on a nil test of the map key. A skip that depends on
// which value the key has (zero, default, empty) accepts a mismatched entry stored under that value.
func ruleKeyCheckSkip(c *Ctx, r *Report) {
	r.Rule("R-KEYCHECK-SKIP", "checkBasicKeyValue/checkStructKeyValues leave without comparing the map key with the entry's key leaf only on a nil test of the key; a skip conditioned on the key's value (zero/default/empty) makes Validate accept an entry stored under that key whose key leaf differs", 2)
	for _, name := range []string{"checkBasicKeyValue", "checkStructKeyValues"} {
		f := c.MustFunc(r, "ytypes", name)
		if f == nil {
			continue
		}
		info := f.Info()
		ps := paramObjs(f)
		if len(ps) == 0 {
			r.Bad("ytypes."+name+":shape", c.Pos(f.Decl.Pos()), name+" has no parameters: the map key it checks cannot be identified")
			continue
		}
		key := ps[len(ps)-1]
		// locals derived from the key parameter (keyValue := keyStruct.Field(i).Interface()).
		derived := map[types.Object]bool{key: true}
		for changed := true; changed; {
			changed = false
			ast.Inspect(f.Decl.Body, func(n ast.Node) bool {
				as, ok := n.(*ast.AssignStmt)
				if !ok || len(as.Lhs) != len(as.Rhs) {
					return true
				}
				for i, l := range as.Lhs {
					o := ObjOf(info, l)
					if o == nil || derived[o] {
						continue
					}
					for d := range derived {
						if mentionsObj(info, as.Rhs[i], d) {
							derived[o] = true
							changed = true
							break
						}
					}
				}
				return true
			})
		}
		mentionsKey := func(e ast.Node) bool {
			for d := range derived {
				if mentionsObj(info, e, d) {
					return true
				}
			}
			return false
		}
		// the comparison: an (in)equality, or reflect.DeepEqual / cmp.Equal, that mentions the key.
		var cmpPos token.Pos
		ast.Inspect(f.Decl.Body, func(n ast.Node) bool {
			switch x := n.(type) {
			case *ast.BinaryExpr:
				if (x.Op == token.NEQ || x.Op == token.EQL) && mentionsKey(x) && !isNilIdent(info, x.X) && !isNilIdent(info, x.Y) {
					if tv, ok := info.Types[x.Y]; ok && tv.Value == nil {
						if cmpPos == token.NoPos {
							cmpPos = x.Pos()
						}
					}
				}
			case *ast.CallExpr:
				fn := FullName(Callee(info, x))
				if (fn == "reflect.DeepEqual" || strings.HasSuffix(fn, "cmp.Equal")) && mentionsKey(x) && cmpPos == token.NoPos {
					cmpPos = x.Pos()
				}
			}
			return true
		})
		if cmpPos == token.NoPos {
			r.Bad("ytypes."+name+":comparison", c.Pos(f.Decl.Pos()), name+" no longer compares the map key with the entry's key leaf")
			continue
		}
		r.OK("ytypes."+name+":comparison", c.Pos(cmpPos), "map key compared with the entry's key leaf")
		n := 0
		ast.Inspect(f.Decl.Body, func(x ast.Node) bool {
			var at ast.Node
			switch s := x.(type) {
			case *ast.ReturnStmt:
				if len(s.Results) == 1 && isNilIdent(info, s.Results[0]) {
					at = s
				}
			case *ast.BranchStmt:
				if s.Tok == token.CONTINUE {
					at = s
				}
			}
			if at == nil {
				return true
			}
			for _, ft := range c.FactsAt(f, at, false) {
				if ft.Kind != "cond" || !mentionsKey(ft.Cond) || isNilTest(info, ft.Cond) {
					continue
				}
				if !factEncloses(c, f, ft, at) {
					continue
				}
				n++
				r.Bad(fmt.Sprintf("ytypes.%s:skip#%d", name, n), c.Pos(at.Pos()),
					fmt.Sprintf("%s succeeds without comparing keys when %s is %v: an entry stored under such a key is accepted whatever its key leaf holds", name, types.ExprString(ft.Cond), ft.Pos))
			}
			return true
		})
		if n == 0 {
			r.OK("ytypes."+name+":skips", c.Pos(f.Decl.Pos()), "no value-dependent early success")
		}
	}
}

// factEncloses: the fact comes from an if statement whose body or else branch contains at (a
// lexical fact). Facts that hold at `at` because an earlier guard clause left the function are not
// skips of `at`: the guard's own exit is judged where it stands.
func factEncloses(c *Ctx, f *FuncInfo, ft Fact, at ast.Node) bool {
	pm := c.parentMap(f.File)
	for p := pm[ast.Node(ft.Cond)]; p != nil; p = pm[p] {
		switch x := p.(type) {
		case *ast.IfStmt:
			if x.Cond.Pos() <= ft.Cond.Pos() && ft.Cond.End() <= x.Cond.End() {
				return x.Pos() <= at.Pos() && at.End() <= x.End()
			}
		case *ast.CaseClause:
			return x.Pos() <= at.Pos() && at.End() <= x.End()
		case *ast.FuncDecl, *ast.FuncLit:
			return false
		}
	}
	return false
}

// ---- R-ELEM-ALL (C09) --------------------------------------------------------------------------

// ruleElemAll: the relation between two paths is a conjunction over their elements: every element
// position the loop visits must go through the element-level comparison. Decided on the CFG: no
// iteration reaches the loop's back edge without executing the comparison.
func ruleElemAll(c *Ctx, r *Report) {
	r.Rule("R-ELEM-ALL", "in util's element-wise path functions every iteration of the loop over path elements executes the element comparison (keys included) before the next iteration starts; an iteration that bypasses it makes the result independent of that element's keys", 4)
	gp := "github.com/openconfig/gnmi/proto/gnmi"
	keyOfElem := func(info *types.Info, x ast.Node) bool {
		se, ok := x.(*ast.SelectorExpr)
		if !ok || se.Sel.Name != "Key" {
			return false
		}
		tv, ok := info.Types[se.X]
		return ok && tv.Type != nil && strings.HasSuffix(tv.Type.String(), gp+".PathElem")
	}
	for _, w := range []struct {
		fn, what string
		check    func(info *types.Info, x ast.Node) bool
	}{
		{"ComparePaths", "call of comparePathElem", func(info *types.Info, x ast.Node) bool {
			call, ok := x.(*ast.CallExpr)
			return ok && FullName(Callee(info, call)) == P("util")+".comparePathElem"
		}},
		{"PathMatchesQuery", "comparison of the query element's keys", keyOfElem},
		{"PathMatchesPathElemPrefix", "call of PathElemsEqual", func(info *types.Info, x ast.Node) bool {
			call, ok := x.(*ast.CallExpr)
			return ok && FullName(Callee(info, call)) == P("util")+".PathElemsEqual"
		}},
		{"PathElemSlicesEqual", "call of PathElemsEqual", func(info *types.Info, x ast.Node) bool {
			call, ok := x.(*ast.CallExpr)
			return ok && FullName(Callee(info, call)) == P("util")+".PathElemsEqual"
		}},
	} {
		f := c.MustFunc(r, "util", w.fn)
		if f == nil {
			continue
		}
		info := f.Info()
		// the comparison may sit in an unexported helper the loop body calls once per element: a
		// call of such a helper counts as the check when the helper itself cannot reach a result
		// other than `false` without executing the comparison.
		direct := w.check
		w.check = func(inf *types.Info, x ast.Node) bool {
			if direct(inf, x) {
				return true
			}
			call, ok := x.(*ast.CallExpr)
			if !ok || inf != info {
				return false
			}
			g := c.funcOfCallee(Callee(inf, call))
			if g == nil || g == f || g.Decl.Body == nil || g.Obj.Pkg() != f.Obj.Pkg() || g.Obj.Exported() {
				return false
			}
			ginfo := g.Info()
			has := false
			ast.Inspect(g.Decl.Body, func(m ast.Node) bool {
				if m != nil && direct(ginfo, m) {
					has = true
				}
				return !has
			})
			if !has {
				return false
			}
			bypass, decided := c.FuncBypass(g, func(m ast.Node) bool { return direct(ginfo, m) }, func(rs *ast.ReturnStmt) bool {
				if len(rs.Results) != 1 {
					return false
				}
				tv, ok := ginfo.Types[rs.Results[0]]
				return ok && tv.Value != nil && tv.Value.ExactString() == "false"
			})
			return decided && !bypass
		}
		// the element loop: the outermost loop of the function whose body contains a check node.
		var loop ast.Stmt
		ast.Inspect(f.Decl.Body, func(n ast.Node) bool {
			if loop != nil {
				return false
			}
			var body *ast.BlockStmt
			switch s := n.(type) {
			case *ast.ForStmt:
				body = s.Body
			case *ast.RangeStmt:
				body = s.Body
			default:
				return true
			}
			has := false
			ast.Inspect(body, func(m ast.Node) bool {
				if m != nil && w.check(info, m) {
					has = true
				}
				return !has
			})
			if has {
				loop = n.(ast.Stmt)
			}
			return !has
		})
		key := "util." + w.fn + ":every-element"
		if loop == nil {
			r.Bad(key, c.Pos(f.Decl.Pos()), fmt.Sprintf("%s has no loop over path elements containing the %s: elements are no longer compared one by one", w.fn, w.what))
			continue
		}
		bypass, _, decided := c.IterationBypass(f, loop, func(x ast.Node) bool { return w.check(info, x) })
		switch {
		case !decided:
			r.Und(key, c.Pos(loop.Pos()), "the loop's blocks could not be identified in the control-flow graph")
		case bypass:
			r.Bad(key, c.Pos(loop.Pos()), fmt.Sprintf("an iteration of %s's loop over path elements can reach the next iteration without the %s: for that element position the keys do not influence the result", w.fn, w.what))
		default:
			r.OK(key, c.Pos(loop.Pos()), "every iteration executes the "+w.what)
		}
	}
}

// ---- R-WRITE-THROUGH (C10) ---------------------------------------------------------------------

// reflectMethod: e is a call of method name on a reflect.Value; returns the receiver expression.
func reflectMethod(info *types.Info, e ast.Expr) (recv ast.Expr, name string, ok bool) {
	call, isCall := ast.Unparen(e).(*ast.CallExpr)
	if !isCall {
		return nil, "", false
	}
	sel, isSel := call.Fun.(*ast.SelectorExpr)
	if !isSel {
		return nil, "", false
	}
	fn := FullName(Callee(info, call))
	if !strings.HasPrefix(fn, "reflect.Value.") {
		return nil, "", false
	}
	return sel.X, strings.TrimPrefix(fn, "reflect.Value."), true
}

// ruleWriteThrough: the struct-field setters of util/reflect.go replace what a field holds; they
// never store through a pointer the tree already holds. Two leaves that share one Go pointer
// (ygot.String("x") assigned to several fields) must not change together.
func ruleWriteThrough(c *Ctx, r *Report) {
	r.Rule("R-WRITE-THROUGH", "util's struct-field setters (InsertIntoStruct, UpdateField, InsertInto*StructField) assign the field itself, or fill a value they allocated (reflect.New); none applies Set to the target of a pointer read out of the struct, so a leaf whose pointer is shared with another leaf cannot be changed through it", 4)
	for _, name := range []string{"InsertIntoStruct", "UpdateField", "InsertIntoSliceStructField", "InsertIntoMapStructField", "InsertIntoSlice", "InsertIntoMap"} {
		f := c.MustFunc(r, "util", name)
		if f == nil {
			continue
		}
		info := f.Info()
		var fieldDerived, derefStored func(e ast.Expr, depth int) bool
		viaDefs := func(e ast.Expr, depth int, pred func(ast.Expr, int) bool) (bool, bool) {
			id, ok := ast.Unparen(e).(*ast.Ident)
			if !ok {
				return false, false
			}
			obj := info.ObjectOf(id)
			if obj == nil {
				return false, true
			}
			for _, d := range allDefs(f, obj) {
				if pred(d, depth+1) {
					return true, true
				}
			}
			return false, true
		}
		fieldDerived = func(e ast.Expr, depth int) bool {
			if depth > 6 {
				return false
			}
			if v, isID := viaDefs(e, depth, fieldDerived); isID {
				return v
			}
			recv, m, ok := reflectMethod(info, e)
			if !ok {
				return false
			}
			switch m {
			case "FieldByName", "Field", "FieldByIndex", "Index", "MapIndex":
				return true
			}
			return fieldDerived(recv, depth+1)
		}
		derefStored = func(e ast.Expr, depth int) bool {
			if depth > 6 {
				return false
			}
			if v, isID := viaDefs(e, depth, derefStored); isID {
				return v
			}
			recv, m, ok := reflectMethod(info, e)
			if !ok {
				return false
			}
			if m == "Elem" && fieldDerived(recv, depth+1) {
				return true
			}
			return derefStored(recv, depth+1)
		}
		n := 0
		ast.Inspect(f.Decl.Body, func(x ast.Node) bool {
			call, ok := x.(*ast.CallExpr)
			if !ok {
				return true
			}
			recv, m, ok := reflectMethod(info, call)
			if !ok || !strings.HasPrefix(m, "Set") || m == "SetMapIndex" {
				return true
			}
			n++
			key := fmt.Sprintf("util.%s:%s#%d", name, m, n)
			r.Check(!derefStored(recv, 0), key, c.Pos(call.Pos()), "assigns the field or a freshly allocated value",
				fmt.Sprintf("%s applies %s to %s, the target of a pointer read out of the struct: every other leaf sharing that pointer changes with it", name, m, types.ExprString(recv)))
			return true
		})
	}
}

// ---- R-TABLE-INDEX (C20) -----------------------------------------------------------------------

// ruleTableIndex: a fixed-size table (an array, or a package-level slice/array variable) indexed
// by a run-time value panics when the value is outside the table. In code reachable from the
// malformed-input entry points the index must be bounded: it is the key of a range over the same
// table, or a dominating comparison bounds it by the table's length / a constant.
func ruleTableIndex(c *Ctx, r *Report, fs []*FuncInfo) {
	r.Rule("R-TABLE-INDEX", "in code reachable from the malformed-input entry points, a fixed-size table (array, or package-level slice/array variable) is indexed by a run-time value only under a bound on that value (range key of the same table, or a dominating comparison with the table's length or a constant); an unbounded index taken from a message panics with index out of range", 0)
	for _, f := range fs {
		info := f.Info()
		n := 0
		ast.Inspect(f.Decl.Body, func(x ast.Node) bool {
			ix, ok := x.(*ast.IndexExpr)
			if !ok {
				return true
			}
			tv, ok := info.Types[ix.X]
			if !ok || tv.Type == nil || tv.IsType() {
				return true
			}
			isArray := false
			switch t := tv.Type.Underlying().(type) {
			case *types.Array:
				isArray = true
			case *types.Pointer:
				_, isArray = t.Elem().Underlying().(*types.Array)
			}
			isPkgTable := false
			if !isArray {
				if _, isSlice := tv.Type.Underlying().(*types.Slice); isSlice {
					var obj types.Object
					switch e := ast.Unparen(ix.X).(type) {
					case *ast.Ident:
						obj = info.ObjectOf(e)
					case *ast.SelectorExpr:
						obj = info.ObjectOf(e.Sel)
					}
					if v, ok := obj.(*types.Var); ok && !v.IsField() && v.Parent() == v.Pkg().Scope() {
						isPkgTable = true
					}
				}
			}
			if !isArray && !isPkgTable {
				return true
			}
			if itv, ok := info.Types[ix.Index]; ok && itv.Value != nil {
				return true
			}
			n++
			key := fmt.Sprintf("%s:table-index#%d:%s", f.Name, n, types.ExprString(ix.X))
			pos := c.Pos(ix.Pos())
			if why := indexBounded(c, f, ix); why != "" {
				r.OK(key, pos, why)
			} else {
				r.Bad(key, pos, fmt.Sprintf("%s indexes the fixed-size table %s with %s, which nothing bounds: a value outside the table (taken from the input) panics with index out of range", f.Name, types.ExprString(ix.X), types.ExprString(ix.Index)))
			}
			return true
		})
	}
}

// indexBounded: why the index of ix is within the table, or "".
func indexBounded(c *Ctx, f *FuncInfo, ix *ast.IndexExpr) string {
	info := f.Info()
	pm := c.parentMap(f.File)
	idx := ast.Unparen(ix.Index)
	// x % len(T), x & mask with a constant.
	if be, ok := idx.(*ast.BinaryExpr); ok {
		if be.Op == token.REM || be.Op == token.AND {
			return "index reduced with " + be.Op.String()
		}
	}
	var iobj types.Object
	if id, ok := idx.(*ast.Ident); ok {
		iobj = info.ObjectOf(id)
	}
	for p := pm[ast.Node(ix)]; p != nil; p = pm[p] {
		switch s := p.(type) {
		case *ast.RangeStmt:
			if iobj != nil && s.Key != nil && ObjOf(info, s.Key) == iobj && sameExpr(info, s.X, ix.X) {
				return "index is the key of a range over the same table"
			}
		case *ast.ForStmt:
			if be, ok := s.Cond.(*ast.BinaryExpr); ok && iobj != nil && (be.Op == token.LSS || be.Op == token.LEQ) && ObjOf(info, be.X) == iobj {
				return "loop condition bounds the index: " + types.ExprString(s.Cond)
			}
		}
	}
	mentionsIdx := func(e ast.Expr) bool {
		found := false
		ast.Inspect(e, func(n ast.Node) bool {
			if ex, ok := n.(ast.Expr); ok && sameExpr(info, ex, idx) {
				found = true
			}
			return !found
		})
		return found
	}
	for _, ft := range c.FactsAt(f, ix, false) {
		if ft.Kind != "cond" {
			continue
		}
		if be, ok := ast.Unparen(ft.Cond).(*ast.BinaryExpr); ok {
			switch be.Op {
			case token.LSS, token.LEQ, token.GTR, token.GEQ:
				if mentionsIdx(be.X) || mentionsIdx(be.Y) {
					return "dominated by the bound test " + types.ExprString(ft.Cond)
				}
			}
		}
	}
	return ""
}

// ---- R-LOOP-NAME-UNIQUE (C26) ------------------------------------------------------------------

// ruleLoopNameUnique: a goStructField built once per iteration of a loop becomes one member of a
// generated struct / parameter list; its Go name must be unique among its siblings. The candidate
// names (CamelCase of YANG names) are not: "foo-bar" and "foo_bar" collide. So the Name must come
// from a uniquifier whose memory outlives the iteration: genutil.MakeNameUnique with a set declared
// outside the loop, the per-directory map of ygen.GoFieldNameMap, or a constant decoration of
// another field's already unique name.
func ruleLoopNameUnique(c *Ctx, r *Report) {
	r.Rule("R-LOOP-NAME-UNIQUE", "every gogen.goStructField built inside a loop takes its Name from a uniquifier that remembers the names of earlier iterations (genutil.MakeNameUnique with a set declared outside the loop, ygen.GoFieldNameMap, or a decoration of another field's unique name); candidate CamelCase names collide for YANG names that differ only in separators, which yields duplicate members and a package that does not compile", 4)
	for _, f := range c.AllFuncs("gogen") {
		info := f.Info()
		n := 0
		ast.Inspect(f.Decl.Body, func(x ast.Node) bool {
			cl, ok := x.(*ast.CompositeLit)
			if !ok {
				return true
			}
			tv, ok := info.Types[cl]
			if !ok || tv.Type == nil {
				return true
			}
			nt, ok := tv.Type.(*types.Named)
			if !ok || nt.Obj().Name() != "goStructField" {
				return true
			}
			loop := c.EnclosingLoop(f, cl)
			if loop == nil {
				return true
			}
			var nameExpr ast.Expr
			for _, el := range cl.Elts {
				if kv, ok := el.(*ast.KeyValueExpr); ok {
					if id, ok := kv.Key.(*ast.Ident); ok && id.Name == "Name" {
						nameExpr = kv.Value
					}
				}
			}
			n++
			key := fmt.Sprintf("%s:goStructField#%d:Name", f.Name, n)
			if nameExpr == nil {
				r.Bad(key, c.Pos(cl.Pos()), f.Name+" builds a goStructField in a loop without a Name")
				return true
			}
			why := uniqueNameSource(c, f, nameExpr, loop, 0)
			r.Check(why != "", key, c.Pos(nameExpr.Pos()), why,
				fmt.Sprintf("%s names a per-iteration goStructField %s, which no uniquifier with memory across iterations produced: two YANG names with the same CamelCase form give duplicate members in the generated code", f.Name, types.ExprString(nameExpr)))
			return true
		})
	}
}

// uniqueNameSource: why e is unique across the iterations of loop, or "".
func uniqueNameSource(c *Ctx, f *FuncInfo, e ast.Expr, loop ast.Node, depth int) string {
	info := f.Info()
	if depth > 5 {
		return ""
	}
	outside := func(x ast.Expr) bool {
		var obj types.Object
		switch y := ast.Unparen(x).(type) {
		case *ast.Ident:
			obj = info.ObjectOf(y)
		case *ast.SelectorExpr:
			return true // a field of a longer-lived value (s.definedGlobals)
		}
		return obj != nil && !(loop.Pos() <= obj.Pos() && obj.Pos() <= loop.End())
	}
	switch x := ast.Unparen(e).(type) {
	case *ast.CallExpr:
		switch FullName(Callee(info, x)) {
		case P("genutil") + ".MakeNameUnique":
			if len(x.Args) == 2 && outside(x.Args[1]) {
				return "genutil.MakeNameUnique with a set that outlives the iteration"
			}
			return ""
		case "fmt.Sprintf":
			// constant format decorating exactly one unique name.
			if len(x.Args) >= 2 {
				if tv, ok := info.Types[x.Args[0]]; ok && tv.Value != nil {
					uniq := 0
					for _, a := range x.Args[1:] {
						if atv, ok := info.Types[a]; ok && atv.Value != nil {
							continue
						}
						if id, ok := ast.Unparen(a).(*ast.Ident); ok && outside(id) && !assignedIn(info, loop, info.ObjectOf(id)) {
							continue // loop-invariant decoration
						}
						if uniqueNameSource(c, f, a, loop, depth+1) != "" {
							uniq++
						} else {
							return ""
						}
					}
					if uniq == 1 {
						return "constant decoration of a unique name"
					}
				}
			}
			return ""
		}
	case *ast.IndexExpr:
		// m[k] where m := ygen.GoFieldNameMap(dir), declared outside the loop.
		if id, ok := ast.Unparen(x.X).(*ast.Ident); ok && outside(id) {
			for _, d := range allDefs(f, info.ObjectOf(id)) {
				if call, ok := ast.Unparen(d).(*ast.CallExpr); ok && FullName(Callee(info, call)) == P("ygen")+".GoFieldNameMap" {
					return "per-directory uniquified name map (ygen.GoFieldNameMap)"
				}
			}
			// a local map every entry of which is a MakeNameUnique result (distinct keys of the
			// map then hold distinct names as long as one set of used names was shared).
			if rhs, _ := storesOf(f, info.ObjectOf(id)); len(rhs) > 0 {
				var set types.Object
				all := true
				for _, r := range rhs {
					call, ok := ast.Unparen(r).(*ast.CallExpr)
					if !ok || FullName(Callee(info, call)) != P("genutil")+".MakeNameUnique" || len(call.Args) != 2 {
						all = false
						break
					}
					s := ObjOf(info, call.Args[1])
					if s == nil || (set != nil && s != set) {
						all = false
						break
					}
					set = s
				}
				if all {
					return "map of genutil.MakeNameUnique results over one set of used names"
				}
			}
		}
	case *ast.SelectorExpr:
		// fieldDef.Name of another goStructField built in the same loop.
		if x.Sel.Name == "Name" {
			if tv, ok := info.Types[x.X]; ok && tv.Type != nil && strings.HasSuffix(strings.TrimPrefix(tv.Type.String(), "*"), "gogen.goStructField") {
				return "Name of another goStructField"
			}
		}
	case *ast.Ident:
		obj := info.ObjectOf(x)
		if obj == nil {
			return ""
		}
		defs := allDefs(f, obj)
		if len(defs) == 0 {
			return ""
		}
		why := ""
		for _, d := range defs {
			w := uniqueNameSource(c, f, d, loop, depth+1)
			if w == "" {
				return ""
			}
			why = w
		}
		return why
	}
	return ""
}

// assignedIn: obj is assigned (or its address taken) somewhere inside n.
func assignedIn(info *types.Info, n ast.Node, obj types.Object) bool {
	found := false
	ast.Inspect(n, func(x ast.Node) bool {
		switch s := x.(type) {
		case *ast.AssignStmt:
			for _, l := range s.Lhs {
				if ObjOf(info, l) == obj {
					found = true
				}
			}
		case *ast.IncDecStmt:
			if ObjOf(info, s.X) == obj {
				found = true
			}
		case *ast.UnaryExpr:
			if s.Op == token.AND && ObjOf(info, s.X) == obj {
				found = true
			}
		}
		return !found
	})
	return found
}

// ---- R-DEFAULT-VERBATIM (C33) ------------------------------------------------------------------

// enumKindOnly: the fact restricts the code to enumerated types (enumeration / identityref), the
// only kinds whose default may carry a module prefix ("pfx:NAME") that is not part of the value.
func enumKindOnly(c *Ctx, f *FuncInfo, ft Fact) bool {
	info := f.Info()
	isEnumKind := func(e ast.Expr) bool {
		var obj types.Object
		switch x := ast.Unparen(e).(type) {
		case *ast.SelectorExpr:
			obj = info.ObjectOf(x.Sel)
		case *ast.Ident:
			obj = info.ObjectOf(x)
		}
		if obj == nil || obj.Pkg() == nil || obj.Pkg().Path() != "github.com/openconfig/goyang/pkg/yang" {
			return false
		}
		return obj.Name() == "Yenum" || obj.Name() == "Yidentityref"
	}
	switch ft.Kind {
	case "switch":
		if !ft.Pos || ft.Deflt || len(ft.Vals) == 0 {
			return false
		}
		for _, v := range ft.Vals {
			if !isEnumKind(v) {
				return false
			}
		}
		return true
	case "cond":
		if !ft.Pos {
			return false
		}
		switch x := ast.Unparen(ft.Cond).(type) {
		case *ast.BinaryExpr:
			return x.Op == token.EQL && (isEnumKind(x.X) || isEnumKind(x.Y))
		case *ast.Ident:
			// isTypedef, the third result of EnumeratedTypedefTypeName: an enumerated typedef.
			obj := info.ObjectOf(x)
			found := false
			ast.Inspect(f.Decl.Body, func(n ast.Node) bool {
				as, ok := n.(*ast.AssignStmt)
				if !ok || len(as.Rhs) != 1 || len(as.Lhs) < 3 {
					return true
				}
				if call, ok := as.Rhs[0].(*ast.CallExpr); ok && strings.HasSuffix(FullName(Callee(info, call)), ".EnumeratedTypedefTypeName") && ObjOf(info, as.Lhs[2]) == obj {
					found = true
				}
				return true
			})
			return found
		}
	}
	return false
}

// ruleDefaultVerbatim: the text of a YANG default reaches the per-kind conversion unchanged. The
// only rewrite of it (dropping a "prefix:") is valid for enumeration and identityref values; for
// every other kind a colon is part of the value ("00:11:22:33:44:55", "::1", "12:30").
func ruleDefaultVerbatim(c *Ctx, r *Report) {
	r.Rule("R-DEFAULT-VERBATIM", "yangDefaultValueToGo rewrites the default's text (prefix stripping) only inside arms restricted to enumeration/identityref types; for every other kind the text the schema gives is what is parsed or quoted, so a default containing ':' is not truncated", 2)
	f := c.MustFunc(r, "gogen", "GoLangMapper.yangDefaultValueToGo")
	if f == nil {
		return
	}
	info := f.Info()
	ps := paramObjs(f)
	if len(ps) == 0 {
		r.Und("gogen.yangDefaultValueToGo:value-param", c.Pos(f.Decl.Pos()), "no parameters")
		return
	}
	val := ps[0]
	n := 0
	ast.Inspect(f.Decl.Body, func(x ast.Node) bool {
		as, ok := x.(*ast.AssignStmt)
		if !ok {
			return true
		}
		for _, l := range as.Lhs {
			if ObjOf(info, l) != val {
				continue
			}
			n++
			key := fmt.Sprintf("gogen.yangDefaultValueToGo:rewrite#%d", n)
			okArm := false
			for _, ft := range c.FactsAt(f, as, false) {
				if enumKindOnly(c, f, ft) {
					okArm = true
				}
			}
			if !okArm {
				// shared tail of several arms: every path must carry an enum-kind fact.
				if holds, decided := c.EveryPath(f, as, func(fs []Fact) bool {
					for _, ft := range fs {
						if enumKindOnly(c, f, ft) {
							return true
						}
					}
					return false
				}); decided && holds {
					okArm = true
				}
			}
			r.Check(okArm, key, c.Pos(as.Pos()), "rewrite confined to enumeration/identityref",
				"yangDefaultValueToGo rewrites the default's text ("+types.ExprString(as.Rhs[0])+") on a path that is not restricted to enumeration/identityref types: string, union, leaf-list and other defaults containing ':' are truncated and PopulateDefaults sets a value that is not the YANG default")
		}
		return true
	})
	if n == 0 {
		r.OK("gogen.yangDefaultValueToGo:no-rewrite", c.Pos(f.Decl.Pos()), "the default text is never rewritten")
	}
	r.OK("gogen.yangDefaultValueToGo:value-param", c.Pos(f.Decl.Pos()), "value parameter "+val.Name())
}

// ---- R-EMPTYTREE-ALL (C33) ---------------------------------------------------------------------

// ruleEmptyTreeAll: the generated PopulateDefaults creates the tree below its receiver with
// ygot.BuildEmptyTree and then descends into every child container; a child that BuildEmptyTree
// leaves nil is skipped by the nil-receiver test of the child's PopulateDefaults and its defaults
// are never set. So initialiseTree must create every nil struct-pointer field: the conditions on
// the way to the creating write may only test the field's Go shape and whether it is nil.
func ruleEmptyTreeAll(c *Ctx, r *Report) {
	r.Rule("R-EMPTYTREE-ALL", "ygot.initialiseTree (BuildEmptyTree, the first step of every generated PopulateDefaults) creates every nil struct-pointer field: the conditions on every path to the creating write test only the field's Go shape (struct pointer, ordered map) and nil-ness; a skip keyed on anything else (a tag, a name) leaves that subtree nil, and every default below it unset", 1)
	f := c.MustFunc(r, "ygot", "initialiseTree")
	if f == nil {
		return
	}
	info := f.Info()
	// creating write: X.Set(v) where v is (a local holding) reflect.New(...).
	var sets []*ast.CallExpr
	ast.Inspect(f.Decl.Body, func(x ast.Node) bool {
		call, ok := x.(*ast.CallExpr)
		if !ok {
			return true
		}
		if _, m, ok := reflectMethod(info, call); ok && m == "Set" && len(call.Args) == 1 {
			isNew := func(e ast.Expr) bool {
				cl, ok := ast.Unparen(e).(*ast.CallExpr)
				return ok && FullName(Callee(info, cl)) == "reflect.New"
			}
			a := call.Args[0]
			fresh := isNew(a)
			if id, ok := ast.Unparen(a).(*ast.Ident); ok {
				for _, d := range allDefs(f, info.ObjectOf(id)) {
					if isNew(d) {
						fresh = true
					}
				}
			}
			if fresh {
				sets = append(sets, call)
			}
		}
		return true
	})
	if len(sets) == 0 {
		r.Bad("ygot.initialiseTree:creates", c.Pos(f.Decl.Pos()), "initialiseTree no longer stores a newly allocated struct into nil struct-pointer fields: BuildEmptyTree creates nothing and PopulateDefaults sets no default below its receiver")
		return
	}
	shapeOrNil := func(e ast.Expr) bool {
		switch x := ast.Unparen(e).(type) {
		case *ast.Ident:
			// comma-ok result of a type assertion.
			obj := info.ObjectOf(x)
			ok := false
			ast.Inspect(f.Decl.Body, func(n ast.Node) bool {
				as, isAs := n.(*ast.AssignStmt)
				if !isAs || len(as.Rhs) != 1 || len(as.Lhs) != 2 {
					return true
				}
				if _, isTA := ast.Unparen(as.Rhs[0]).(*ast.TypeAssertExpr); isTA && ObjOf(info, as.Lhs[1]) == obj {
					ok = true
				}
				return true
			})
			return ok
		case *ast.CallExpr:
			fn := FullName(Callee(info, x))
			switch fn {
			case "reflect.Value.IsNil", "reflect.Value.IsValid", "reflect.Value.CanSet", "reflect.Value.CanInterface":
				return true
			}
			if strings.HasPrefix(fn, P("util")+".IsType") || strings.HasPrefix(fn, P("util")+".IsValue") {
				return fn != P("util")+".IsValueNilOrDefault"
			}
		case *ast.BinaryExpr:
			mentions := func(s string) bool {
				return strings.Contains(types.ExprString(x), s)
			}
			switch x.Op {
			case token.EQL, token.NEQ:
				return mentions(".Kind()") || isNilIdent(info, x.X) || isNilIdent(info, x.Y)
			case token.LSS, token.LEQ, token.GTR, token.GEQ:
				return mentions(".NumField()")
			}
		}
		return false
	}
	for i, set := range sets {
		key := fmt.Sprintf("ygot.initialiseTree:create#%d:conditions", i+1)
		var offending string
		holds, decided := c.EveryPath(f, set, func(fs []Fact) bool {
			for _, ft := range fs {
				if ft.Kind != "cond" || !shapeOrNil(ft.Cond) {
					if ft.Cond != nil {
						offending = types.ExprString(ft.Cond)
					}
					return false
				}
			}
			return true
		})
		switch {
		case !decided:
			r.Und(key, c.Pos(set.Pos()), "paths to the creating write could not be enumerated")
		case !holds:
			r.Bad(key, c.Pos(set.Pos()), "initialiseTree reaches the creation of a nil struct-pointer field only when "+offending+" has a particular outcome, which is neither a test of the field's Go shape nor of its nil-ness: the fields it excludes stay nil after BuildEmptyTree, the generated PopulateDefaults skips them (nil receiver), and every default below them stays unset")
		default:
			r.OK(key, c.Pos(set.Pos()), "only shape and nil tests guard the creation")
		}
	}
}

// ---- R-KEYFIELD-NAME (C34, C26) ----------------------------------------------------------------

// storesOf: the right-hand sides of every `m[…] = rhs` in f for the local map object m.
func storesOf(f *FuncInfo, m types.Object) (rhs []ast.Expr, sites []*ast.AssignStmt) {
	info := f.Info()
	ast.Inspect(f.Decl.Body, func(n ast.Node) bool {
		as, ok := n.(*ast.AssignStmt)
		if !ok || len(as.Lhs) != len(as.Rhs) {
			return true
		}
		for i, l := range as.Lhs {
			if ix, ok := ast.Unparen(l).(*ast.IndexExpr); ok && ObjOf(info, ix.X) == m {
				rhs = append(rhs, as.Rhs[i])
				sites = append(sites, as)
			}
		}
		return true
	})
	return
}

// entryFieldNaming decides whether the name expression e (the Name of a key goStructField) is the
// name of the list entry's field that holds the key. Two forms are recognised:
//   - ygen.GoFieldNameMap(dir)[key]: the very map the entry struct's fields are named from;
//   - m[key] for a local map m filled with genutil.MakeNameUnique(…, set) inside a loop over
//     dir.OrderedFieldNames() in which *every* iteration draws a name from the same set — the same
//     uniquification, over the same fields in the same order, as ygen.GoFieldNameMap.
func entryFieldNaming(c *Ctx, f *FuncInfo, e ast.Expr) (string, bool) {
	info := f.Info()
	ix, ok := ast.Unparen(e).(*ast.IndexExpr)
	if !ok {
		return "the key's name is " + types.ExprString(e) + ", not a lookup in the entry's field-name map", false
	}
	m := ObjOf(info, ix.X)
	if m == nil {
		return "the key's name is looked up in " + types.ExprString(ix.X) + ", which is not a local map", false
	}
	for _, d := range allDefs(f, m) {
		if call, ok := ast.Unparen(d).(*ast.CallExpr); ok && FullName(Callee(info, call)) == P("ygen")+".GoFieldNameMap" {
			return "ygen.GoFieldNameMap of the list entry", true
		}
	}
	rhs, sites := storesOf(f, m)
	if len(rhs) == 0 {
		return "the map " + m.Name() + " the key's name is read from is never filled in this function", false
	}
	for i, r := range rhs {
		call, ok := ast.Unparen(r).(*ast.CallExpr)
		if !ok || FullName(Callee(info, call)) != P("genutil")+".MakeNameUnique" || len(call.Args) != 2 {
			return m.Name() + " receives " + types.ExprString(r) + ", which is not a MakeNameUnique result", false
		}
		set := ObjOf(info, call.Args[1])
		loop := c.EnclosingLoop(f, sites[i])
		rs, isRange := loop.(*ast.RangeStmt)
		if loop == nil || !isRange || set == nil {
			return "the key names are not produced in a range loop with a local set of used names", false
		}
		over, ok := ast.Unparen(rs.X).(*ast.CallExpr)
		if !ok || !strings.HasSuffix(FullName(Callee(info, over)), "ParsedDirectory.OrderedFieldNames") {
			return "the key names are made unique in a loop over " + types.ExprString(rs.X) + ", not over all the entry's fields in the order ygen.GoFieldNameMap names them (OrderedFieldNames): a key can get the name of another field of the entry", false
		}
		bypass, _, decided := c.IterationBypass(f, rs, func(x ast.Node) bool {
			cl, ok := x.(*ast.CallExpr)
			return ok && FullName(Callee(info, cl)) == P("genutil")+".MakeNameUnique" && len(cl.Args) == 2 && ObjOf(info, cl.Args[1]) == set
		})
		if !decided {
			return "loop blocks not identified", false
		}
		if bypass {
			return "some field of the entry does not draw its name from " + set.Name() + " in the naming loop: the names of the keys can differ from the names ygen.GoFieldNameMap gives the entry's fields", false
		}
	}
	return "MakeNameUnique over all the entry's fields in OrderedFieldNames order", true
}

// ruleKeyFieldName: the helper templates use a key's Name both as the helper's parameter and as the
// selector of the entry's field (`FooBar: &FooBar`, `e.FooBar = &newK`). The entry's fields are
// named by ygen.GoFieldNameMap (MakeNameUnique over all fields in alphabetical order); the key must
// get that same name, otherwise a helper writes the key into a sibling field (or does not compile).
func ruleKeyFieldName(c *Ctx, r *Report) {
	r.Rule("R-KEYFIELD-NAME", "the Go name gogen gives a list key (helper parameter and selector of the entry's field in New/Append/Rename/GetOrCreate and the key struct) is the name ygen.GoFieldNameMap gives the entry's field holding that key: taken from that map, or produced by the same uniquification over all the entry's fields in the same order", 1)
	f := c.MustFunc(r, "gogen", "yangListFieldToGoType")
	if f == nil {
		return
	}
	info := f.Info()
	n := 0
	ast.Inspect(f.Decl.Body, func(x ast.Node) bool {
		cl, ok := x.(*ast.CompositeLit)
		if !ok {
			return true
		}
		tv, ok := info.Types[cl]
		if !ok || tv.Type == nil {
			return true
		}
		nt, ok := tv.Type.(*types.Named)
		if !ok || nt.Obj().Name() != "goStructField" || c.EnclosingLoop(f, cl) == nil {
			return true
		}
		for _, el := range cl.Elts {
			kv, ok := el.(*ast.KeyValueExpr)
			if !ok {
				continue
			}
			if id, ok := kv.Key.(*ast.Ident); !ok || id.Name != "Name" {
				continue
			}
			n++
			why, good := entryFieldNaming(c, f, kv.Value)
			r.Check(good, fmt.Sprintf("gogen.yangListFieldToGoType:key-field#%d:name", n), c.Pos(kv.Value.Pos()), why,
				"yangListFieldToGoType: "+why+". The helper templates use the key's name to select the entry's field, so with two YANG names of the same CamelCase form (key foo_bar next to leaf foo-bar) New/Rename/Append write the key into the sibling field, or the package does not compile when the types differ")
		}
		return true
	})
	if n == 0 {
		r.Bad("gogen.yangListFieldToGoType:key-field", c.Pos(f.Decl.Pos()), "no per-key goStructField is built in yangListFieldToGoType: the rule no longer recognises how keys are named")
	}
}
