package main

import (
	"fmt"
	"go/ast"
	"go/types"
	"strings"
)

var readOnlyEntries = []string{"ytypes:Validate", "ygot:ValidateGoStruct", "ygot:EmitJSON", "ygot:ConstructIETFJSON", "ygot:ConstructInternalJSON",
	"ygot:Marshal7951", "ygot:TogNMINotifications", "ygot:EncodeTypedValue", "ygot:Diff", "ygot:DiffWithAtomic"}

var allInputEntries = append(append([]string{}, readOnlyEntries...),
	"ytypes:GetNode", "ygot:DeepCopy", "ygot:MergeStructs", "gnmidiff:DiffSetRequest", "gnmidiff:DiffSetRequestToNotifications",
	"ytypes:Unmarshal", "ytypes:SetNode", "ytypes:DeleteNode", "ytypes:UnmarshalSetRequest", "ytypes:UnmarshalNotifications")

// read-only generated methods that library code may invoke reflectively.
var roReflectMethods = map[string]bool{"Keys": true, "Get": true, "Values": true, "Len": true, "ΛMap": true, "ΛEnumTypeMap": true, "ΛListKeyMap": true, "String": true}

func cutAtRetrieveNode(f *FuncInfo) bool { return f.Name == "ytypes.retrieveNode" }

// ruleROReflect: R-RO-REFLECT.
func ruleROReflect(c *Ctx, r *Report) {
	r.Rule("R-RO-REFLECT", "code reachable from the read-only APIs (Validate, EmitJSON/ConstructIETFJSON/Marshal7951, TogNMINotifications, EncodeTypedValue, Diff*; not descending into retrieveNode, which R-WRITE-GATED covers) applies reflect mutators only to fresh values, sorts only fresh slices, and reflectively calls only read-only generated methods", 4)
	fs := c.entryReachCut(r, cutAtRetrieveNode, readOnlyEntries...)
	c.stats["functions_analysed"] = len(fs)
	for _, f := range fs {
		info := f.Info()
		n := 0
		ast.Inspect(f.Decl.Body, func(x ast.Node) bool {
			call, ok := x.(*ast.CallExpr)
			if !ok {
				return true
			}
			fn := FullName(Callee(info, call))
			isSetter := strings.HasPrefix(fn, "reflect.Value.Set") || fn == "reflect.Copy"
			isSort := strings.HasPrefix(fn, "sort.") && (strings.HasSuffix(fn, ".Strings") || strings.HasSuffix(fn, ".Sort") || strings.HasSuffix(fn, ".Slice") || strings.HasSuffix(fn, ".SliceStable") || strings.HasSuffix(fn, ".Ints") || strings.HasSuffix(fn, ".Stable"))
			isCall := fn == "reflect.Value.Call"
			if !isSetter && !isSort && !isCall {
				return true
			}
			n++
			key := fmt.Sprintf("%s:%s#%d", f.Name, fn[strings.LastIndex(fn, ".")+1:], n)
			pos := c.Pos(call.Pos())
			switch {
			case isSetter:
				var recv ast.Expr
				if fn == "reflect.Copy" {
					recv = call.Args[0]
				} else {
					recv = call.Fun.(*ast.SelectorExpr).X
				}
				p := provOf(f, recv, nil, nil, 0)
				r.Check(p.kind == "fresh", key, pos, "receiver is a freshly allocated value",
					fmt.Sprintf("%s is reachable from a read-only API and applies %s to %s, which is not a freshly allocated value: the caller's tree may be modified", f.Name, fn, types.ExprString(recv)))
			case isSort:
				ok := len(call.Args) > 0 && freshExpr(f, call.Args[0], nil, 0)
				r.Check(ok, key, pos, "sorts a slice owned by this function", fmt.Sprintf("%s sorts %s in place, which this function does not own", f.Name, types.ExprString(call.Args[0])))
			case isCall:
				name := reflectMethodName(f, call.Fun.(*ast.SelectorExpr).X)
				if name == "" {
					// the method value is a parameter (an extracted "call the method" helper):
					// every call site must pass a read-only generated method.
					if pi := paramIndex(f, ObjOf(info, call.Fun.(*ast.SelectorExpr).X)); pi >= 0 && f.Obj != nil {
						var names []string
						all := true
						for _, g := range c.AllFuncs(strings.TrimPrefix(f.Pkg.PkgPath, modPath+"/")) {
							for _, cs := range CallsIn(g.Info(), g.Decl.Body, FullName(f.Obj)) {
								nm := ""
								if pi < len(cs.Args) {
									nm = reflectMethodName(g, cs.Args[pi])
								}
								if !roReflectMethods[nm] {
									all = false
								}
								names = append(names, nm)
							}
						}
						if all && len(names) > 0 {
							name = names[0]
						}
					}
				}
				r.Check(roReflectMethods[name], key, pos, "reflective call of read-only generated method "+name,
					fmt.Sprintf("%s reflectively calls method %q from a read-only API; only read-only generated methods (%v) are allowed", f.Name, name, keysOf(roReflectMethods)))
			}
			return true
		})
	}
}

// reflectMethodName resolves the constant method name behind a reflect.Value obtained from
// MethodByName / yreflect.MethodByName ("" if not resolvable).
func reflectMethodName(f *FuncInfo, e ast.Expr) string {
	info := f.Info()
	e = ast.Unparen(e)
	var fromCall func(x ast.Expr) string
	fromCall = func(x ast.Expr) string {
		call, ok := ast.Unparen(x).(*ast.CallExpr)
		if !ok {
			return ""
		}
		fn := FullName(Callee(info, call))
		var nameArg ast.Expr
		switch fn {
		case "reflect.Value.MethodByName":
			nameArg = call.Args[0]
		case P("internal/yreflect") + ".MethodByName":
			nameArg = call.Args[1]
		default:
			return ""
		}
		if v, ok := info.Types[nameArg]; ok && v.Value != nil {
			return strings.Trim(v.Value.ExactString(), `"`)
		}
		return ""
	}
	if n := fromCall(e); n != "" {
		return n
	}
	if id, ok := e.(*ast.Ident); ok {
		obj := info.ObjectOf(id)
		res := ""
		ast.Inspect(f.Decl.Body, func(n ast.Node) bool {
			if as, ok := n.(*ast.AssignStmt); ok && len(as.Rhs) == 1 && len(as.Lhs) >= 1 && ObjOf(info, as.Lhs[0]) == obj {
				if nm := fromCall(as.Rhs[0]); nm != "" {
					res = nm
				}
			}
			return true
		})
		return res
	}
	return ""
}

// ruleGnmidiffRoot: gnmidiff never hands the caller's schema.Root to a tree-mutating API.
func ruleGnmidiffRoot(c *Ctx, r *Report) {
	r.Rule("R-FRESH-ROOT", "gnmidiff passes only freshly allocated roots to tree-mutating ytypes APIs (GetOrCreateNode, SetNode, Unmarshal*, DeleteNode); the caller's schema.Root is an input", 2)
	mut := []string{P("ytypes") + ".GetOrCreateNode", P("ytypes") + ".SetNode", P("ytypes") + ".DeleteNode", P("ytypes") + ".Unmarshal", P("ytypes") + ".UnmarshalSetRequest", P("ytypes") + ".UnmarshalNotifications"}
	for _, f := range c.AllFuncs("gnmidiff") {
		info := f.Info()
		for i, call := range CallsIn(info, f.Decl.Body, mut...) {
			fn := ShortName(Callee(info, call))
			var root ast.Expr
			switch {
			case strings.HasSuffix(fn, "UnmarshalSetRequest") || strings.HasSuffix(fn, "UnmarshalNotifications"):
				root = call.Args[0]
			default:
				root = call.Args[1]
			}
			ro := storeRoot(f, root, 0)
			r.Check(ro == nil, fmt.Sprintf("%s:%s#%d:root", f.Name, fn, i+1), c.Pos(call.Pos()), "root is local to gnmidiff",
				fmt.Sprintf("%s calls %s on %s, which is reached from parameter %v: the caller's tree (schema.Root) is modified by a diff", f.Name, fn, types.ExprString(root), ro))
		}
	}
}
