package main

import (
	"fmt"
	"go/ast"
	"go/token"
	"go/types"
	"strings"
)

var retrieveFamily = []string{"retrieveNode", "retrieveNodeContainer", "retrieveNodeList", "retrieveNodeOrderedList"}

// isArgsField: e is a selector <x>.<field> where x has type ytypes.retrieveNodeArgs.
func isArgsField(info *types.Info, e ast.Expr, field string) bool {
	sel, ok := ast.Unparen(e).(*ast.SelectorExpr)
	if !ok || sel.Sel.Name != field {
		return false
	}
	tv, ok := info.Types[sel.X]
	return ok && namedTypeOf(tv.Type) == P("ytypes")+".retrieveNodeArgs"
}

func exprMentionsArgsField(info *types.Info, e ast.Expr, field string) bool {
	found := false
	ast.Inspect(e, func(n ast.Node) bool {
		if x, ok := n.(ast.Expr); ok && isArgsField(info, x, field) {
			found = true
		}
		return true
	})
	return found
}

// writeGate: which write flag (if any) is known to be set at node n.
func writeGate(c *Ctx, f *FuncInfo, n ast.Node) string {
	info := f.Info()
	for _, ft := range c.FactsAt(f, n, true) {
		if ft.Kind != "cond" {
			continue
		}
		if ft.Pos && isArgsField(info, ft.Cond, "delete") {
			return "args.delete"
		}
		if ft.Pos && isArgsField(info, ft.Cond, "modifyRoot") {
			return "args.modifyRoot"
		}
		if !ft.Pos {
			if call, ok := ast.Unparen(ft.Cond).(*ast.CallExpr); ok && IsCall(info, call, P("util")+".IsValueNil") && len(call.Args) == 1 && isArgsField(info, call.Args[0], "val") {
				return "args.val != nil"
			}
		}
	}
	return ""
}

var treeWriters = map[string]bool{
	"reflect.Value.Set": true, "reflect.Value.SetMapIndex": true, "reflect.Value.Call": true,
	P("util") + ".InitializeStructField": true, P("util") + ".UpdateField": true, P("util") + ".InsertIntoMap": true,
	P("util") + ".InsertIntoStruct": true, P("util") + ".InsertIntoSlice": true,
	P("ytypes") + ".unmarshalGeneric": true, P("ytypes") + ".Unmarshal": true, P("ytypes") + ".insertAndGetKey": true,
	P("internal/yreflect") + ".AppendIntoOrderedMap": true,
}

func ruleWriteGated(c *Ctx, r *Report) {
	r.Rule("R-WRITE-GATED", "in ytypes' retrieveNode family every write to the tree (Set, SetMapIndex, reflective Call, InitializeStructField, UpdateField, unmarshal…, insertAndGetKey) is control-dependent on args.delete, args.modifyRoot or a non-nil args.val — so GetNode, which sets none of them, writes nothing", 14)
	for _, name := range retrieveFamily {
		f := c.MustFunc(r, "ytypes", name)
		if f == nil {
			continue
		}
		info := f.Info()
		n := 0
		ast.Inspect(f.Decl.Body, func(x ast.Node) bool {
			call, ok := x.(*ast.CallExpr)
			if !ok {
				return true
			}
			fn := FullName(Callee(info, call))
			if !treeWriters[fn] {
				return true
			}
			if fn == "reflect.Value.Call" {
				// Call on a method looked up by name: only the mutating generated methods count.
				// The receiver's name constant is resolved below; read-only lookups are not in this family.
			}
			n++
			gate := writeGate(c, f, call)
			short := fn[strings.LastIndex(fn, ".")+1:]
			r.Check(gate != "", fmt.Sprintf("ytypes.%s:write#%d:%s", name, n, short), c.Pos(call.Pos()), "gated by "+gate,
				fmt.Sprintf("%s writes to the tree (%s) on a path not guarded by args.delete / args.modifyRoot / non-nil args.val: GetNode (and any read) can modify its input", name, types.ExprString(call.Fun)))
			return true
		})
	}
	// entry points: GetNode passes none of the write flags.
	if f := c.MustFunc(r, "ytypes", "GetNode"); f != nil {
		info := f.Info()
		bad := ""
		ast.Inspect(f.Decl.Body, func(x ast.Node) bool {
			cl, ok := x.(*ast.CompositeLit)
			if !ok || namedTypeOf(info.Types[cl].Type) != P("ytypes")+".retrieveNodeArgs" {
				return true
			}
			for _, el := range cl.Elts {
				if kv, ok := el.(*ast.KeyValueExpr); ok {
					k := kv.Key.(*ast.Ident).Name
					if k == "delete" || k == "modifyRoot" || k == "val" || k == "initializeLeafs" {
						if v, ok := info.Types[kv.Value]; ok && (v.IsNil() || (v.Value != nil && v.Value.ExactString() == "false")) {
							continue
						}
						bad = k
					}
				}
			}
			return true
		})
		r.Check(bad == "", "ytypes.GetNode:args-literal:no-write-flags", c.Pos(f.Decl.Pos()), "GetNode sets none of delete/modifyRoot/val", "GetNode sets write flag "+bad+" in its retrieveNodeArgs")
	}
}

// ruleWildcardOpt: R-WILDCARD-OPT.
func ruleWildcardOpt(c *Ctx, r *Report) {
	r.Rule("R-WILDCARD-OPT", "in ytypes' retrieveNode family a path key is compared with \"*\" only in conjunction with args.handleWildcards (set by GetNode's option only): SetNode/DeleteNode and plain GetNode treat \"*\" as a literal key", 3)
	for _, name := range retrieveFamily {
		f := c.MustFunc(r, "ytypes", name)
		if f == nil {
			continue
		}
		info := f.Info()
		pm := c.parentMap(f.File)
		n := 0
		ast.Inspect(f.Decl.Body, func(x ast.Node) bool {
			be, ok := x.(*ast.BinaryExpr)
			if !ok || (be.Op != token.EQL && be.Op != token.NEQ) {
				return true
			}
			star := false
			for _, s := range []ast.Expr{be.X, be.Y} {
				if v, ok := info.Types[s]; ok && v.Value != nil && v.Value.ExactString() == `"*"` {
					star = true
				}
			}
			if !star {
				return true
			}
			n++
			guarded := false
			// conjunction partner
			var cur ast.Node = be
			for {
				p := pm[cur]
				pe, ok := p.(ast.Expr)
				if !ok {
					break
				}
				if pb, ok := pe.(*ast.BinaryExpr); ok && pb.Op == token.LAND {
					other := pb.X
					if other == cur.(ast.Expr) {
						other = pb.Y
					}
					if isArgsField(info, other, "handleWildcards") && be.Op == token.EQL {
						guarded = true
					}
				}
				cur = p
			}
			if !guarded {
				for _, ft := range c.FactsAt(f, be, true) {
					if ft.Kind == "cond" && ft.Pos && isArgsField(info, ft.Cond, "handleWildcards") {
						guarded = true
					}
				}
			}
			r.Check(guarded, fmt.Sprintf("ytypes.%s:star-compare#%d", name, n), c.Pos(be.Pos()), "conjoined with args.handleWildcards",
				fmt.Sprintf("%s compares a path key with \"*\" without requiring args.handleWildcards: an entry whose key is literally \"*\" matches every entry in SetNode/DeleteNode/GetNode", name))
			return true
		})
	}
}

// ruleDeletePrune: R-DELETE-PRUNE (C12).
func ruleDeletePrune(c *Ctx, r *Report) {
	r.Rule("R-DELETE-PRUNE", "every recursive descent in retrieveNodeContainer/List/OrderedList that can run under delete is followed, under args.delete, by an emptiness test and a removal of the emptied child; creation (modifyRoot) and wildcard/partial-key descents are the documented exceptions", 5)
	for _, name := range retrieveFamily[1:] {
		f := c.MustFunc(r, "ytypes", name)
		if f == nil {
			continue
		}
		info := f.Info()
		pm := c.parentMap(f.File)
		n := 0
		for _, call := range CallsIn(info, f.Decl.Body, P("ytypes")+".retrieveNode") {
			n++
			key := fmt.Sprintf("ytypes.%s:descent#%d", name, n)
			pos := c.Pos(call.Pos())
			// exceptions, identified structurally.
			exc := ""
			for _, ft := range c.FactsAt(f, call, true) {
				if ft.Kind != "cond" || !ft.Pos {
					continue
				}
				if exprMentionsArgsField(info, ft.Cond, "modifyRoot") {
					exc = "creation path (args.modifyRoot): nothing to prune"
				}
				if exprMentionsArgsField(info, ft.Cond, "partialKeyMatch") || exprMentionsArgsField(info, ft.Cond, "handleWildcards") {
					exc = "wildcard / partial-key descent: documented as incompatible with delete"
				}
			}
			if exc != "" {
				r.Exc(key, pos, exc)
				continue
			}
			// find enclosing statement and its list.
			var stmt ast.Stmt
			var list []ast.Stmt
			for cur := ast.Node(call); cur != nil; cur = pm[cur] {
				if s, ok := cur.(ast.Stmt); ok {
					switch p := pm[cur].(type) {
					case *ast.BlockStmt:
						stmt, list = s, p.List
					case *ast.CaseClause:
						stmt, list = s, p.Body
					}
					if stmt != nil {
						break
					}
				}
			}
			pruned := false
			after := false
			for _, s := range list {
				if s == stmt {
					after = true
					continue
				}
				if !after {
					continue
				}
				is, ok := s.(*ast.IfStmt)
				if !ok {
					continue
				}
				condHasDelete := false
				var fs []Fact
				splitFact(is.Cond, true, &fs)
				for _, ft := range fs {
					if ft.Pos && isArgsField(info, ft.Cond, "delete") {
						condHasDelete = true
					}
				}
				if !condHasDelete {
					continue
				}
				emptiness, removal := false, false
				ast.Inspect(is, func(m ast.Node) bool {
					if cc, ok := m.(*ast.CallExpr); ok {
						switch FullName(Callee(info, cc)) {
						case "reflect.Value.IsZero":
							emptiness = true
						case "reflect.Value.Len":
							emptiness = true
						case "reflect.Value.Set", "reflect.Value.SetMapIndex", "reflect.Value.Call":
							removal = true
						default:
							// a module helper that performs the removal (extracted function).
							if g := c.funcOfCallee(Callee(info, cc)); g != nil {
								for _, h := range c.astReach(g) {
									if len(CallsIn(h.Info(), h.Decl.Body, "reflect.Value.Set", "reflect.Value.SetMapIndex", "reflect.Value.Call")) > 0 {
										removal = true
									}
								}
							}
						}
					}
					return true
				})
				if emptiness && removal {
					pruned = true
				}
			}
			r.Check(pruned, key, pos, "followed by `if args.delete … empty → remove`",
				name+" descends into a child that may be emptied by a delete but does not prune it afterwards: empty containers / list entries are left behind")
		}
	}
	// the removals themselves only happen under args.delete (shared with R-WRITE-GATED).
}

// ruleReflectString: R-REFLECT-STRING — reflect.Value.String() on a non-string yields "<T Value>".
func ruleReflectString(c *Ctx, r *Report, fs []*FuncInfo) {
	r.Rule("R-REFLECT-STRING", "reflect.Value.String() is only used on values proved to be of string kind (otherwise it yields \"<T Value>\", not the value)", 0)
	for _, f := range fs {
		info := f.Info()
		n := 0
		ast.Inspect(f.Decl.Body, func(x ast.Node) bool {
			call, ok := x.(*ast.CallExpr)
			if !ok || FullName(Callee(info, call)) != "reflect.Value.String" {
				return true
			}
			n++
			recv := call.Fun.(*ast.SelectorExpr).X
			ok2 := false
			for _, ft := range c.FactsAt(f, call, true) {
				switch ft.Kind {
				case "switch":
					if cc, isCall := ast.Unparen(ft.Cond).(*ast.CallExpr); isCall {
						if sel, isSel := cc.Fun.(*ast.SelectorExpr); isSel && sel.Sel.Name == "Kind" && sameExpr(info, sel.X, recv) {
							all := len(ft.Vals) > 0
							for _, v := range ft.Vals {
								if constName(info, v) != "reflect.String" {
									all = false
								}
							}
							if all {
								ok2 = true
							}
						}
					}
				case "cond":
					if be, isBE := ast.Unparen(ft.Cond).(*ast.BinaryExpr); isBE && ft.Pos && be.Op == token.EQL {
						if constName(info, be.Y) == "reflect.String" || constName(info, be.X) == "reflect.String" {
							ok2 = true
						}
					}
				}
			}
			if tv, has := info.Types[recv]; has && tv.Type != nil && tv.Type.String() != "reflect.Value" {
				ok2 = true
			}
			// inside debug/format helpers the textual form is intended.
			if pf := c.relFile(call.Pos()); strings.HasSuffix(pf, "debug.go") {
				ok2 = true
			}
			r.Check(ok2, fmt.Sprintf("%s:Value.String#%d", f.Name, n), c.Pos(call.Pos()), "receiver proved to be a string",
				fmt.Sprintf("%s calls String() on a reflect.Value not known to be of string kind: for any other kind the result is \"<T Value>\"", f.Name))
			return true
		})
	}
}

// flattenAnd returns the conjuncts of e.
func flattenAnd(e ast.Expr, out *[]ast.Expr) {
	e = ast.Unparen(e)
	if be, ok := e.(*ast.BinaryExpr); ok && be.Op == token.LAND {
		flattenAnd(be.X, out)
		flattenAnd(be.Y, out)
		return
	}
	*out = append(*out, e)
}

// rulePartialKey: R-PARTIAL-KEY.
func rulePartialKey(c *Ctx, r *Report) {
	r.Rule("R-PARTIAL-KEY", "in the retrieveNode family args.partialKeyMatch widens a lookup only in conjunction with a test that the key is absent from the path (comma-ok miss on the path's key map, or len(keys) == 0) — never with a comparison of the key's value (an empty key value is a value, it selects no entry)", 3)
	for _, name := range retrieveFamily {
		f := c.MustFunc(r, "ytypes", name)
		if f == nil {
			continue
		}
		info := f.Info()
		pm := c.parentMap(f.File)
		n := 0
		ast.Inspect(f.Decl.Body, func(x ast.Node) bool {
			sel, ok := x.(*ast.SelectorExpr)
			if !ok || !isArgsField(info, sel, "partialKeyMatch") {
				return true
			}
			// polarity and enclosing conjunction.
			var cur ast.Expr = sel
			neg := false
			for {
				p, ok := pm[cur].(ast.Expr)
				if !ok {
					break
				}
				if u, ok := p.(*ast.UnaryExpr); ok && u.Op == token.NOT {
					if cur == ast.Expr(sel) || ast.Unparen(u.X) == ast.Expr(sel) {
						neg = !neg
						cur = p
						continue
					}
					break
				}
				if _, ok := p.(*ast.ParenExpr); ok {
					cur = p
					continue
				}
				if be, ok := p.(*ast.BinaryExpr); ok && be.Op == token.LAND {
					cur = p
					continue
				}
				break
			}
			if neg {
				// `if !args.partialKeyMatch { <exit> }`: what follows in the block runs under
				// partialKeyMatch and widens the lookup; the absent-key test must then be a fact
				// at that if statement.
				if is, ok := pm[cur].(*ast.IfStmt); ok && is.Cond == cur && is.Else == nil && terminates(info, is.Body.List) {
					n++
					absent := ""
					for _, ft := range c.FactsAt(f, is, false) {
						if ft.Kind != "cond" {
							continue
						}
						if id, ok := ast.Unparen(ft.Cond).(*ast.Ident); ok && !ft.Pos && boundByMapCommaOk(f, info.ObjectOf(id)) {
							absent = "comma-ok miss (enclosing)"
						}
						if be, ok := ast.Unparen(ft.Cond).(*ast.BinaryExpr); ok && ft.Pos && be.Op == token.EQL {
							if call, ok := ast.Unparen(be.X).(*ast.CallExpr); ok && len(call.Args) == 1 {
								if id, ok := call.Fun.(*ast.Ident); ok && id.Name == "len" {
									if v, ok := ConstOf(info, be.Y); ok && v == "0" {
										if tv, ok := info.Types[call.Args[0]]; ok {
											if _, isMap := tv.Type.Underlying().(*types.Map); isMap {
												absent = "len(keys) == 0 (enclosing)"
											}
										}
									}
								}
							}
						}
					}
					r.Check(absent != "", fmt.Sprintf("ytypes.%s:partialKeyMatch#%d", name, n), c.Pos(sel.Pos()), "early exit on !partialKeyMatch inside "+absent,
						name+" widens a lookup under partialKeyMatch (code after `if !args.partialKeyMatch { exit }`) without testing that the key is absent from the path")
				}
				return true
			}
			if _, isKV := pm[sel].(*ast.KeyValueExpr); isKV {
				return true
			}
			n++
			var conj []ast.Expr
			flattenAnd(cur, &conj)
			absent := ""
			for _, cj := range conj {
				if u, ok := cj.(*ast.UnaryExpr); ok && u.Op == token.NOT {
					if id, ok := ast.Unparen(u.X).(*ast.Ident); ok && boundByMapCommaOk(f, info.ObjectOf(id)) {
						absent = "comma-ok miss"
					}
				}
				if be, ok := cj.(*ast.BinaryExpr); ok && be.Op == token.EQL {
					if call, ok := ast.Unparen(be.X).(*ast.CallExpr); ok && len(call.Args) == 1 {
						if id, ok := call.Fun.(*ast.Ident); ok && id.Name == "len" {
							if v, ok := ConstOf(info, be.Y); ok && v == "0" {
								if tv, ok := info.Types[call.Args[0]]; ok {
									if _, isMap := tv.Type.Underlying().(*types.Map); isMap {
										absent = "len(keys) == 0"
									}
								}
							}
						}
					}
				}
			}
			r.Check(absent != "", fmt.Sprintf("ytypes.%s:partialKeyMatch#%d", name, n), c.Pos(sel.Pos()), "conjoined with "+absent,
				name+" widens a lookup under partialKeyMatch without testing that the key is absent from the path: a key given with an empty value matches every entry (a leafref predicate whose source leaf is unset then accepts any value present in the list)")
			return true
		})
	}
}

// boundByMapCommaOk: obj is the second variable of `v, ok := m[k]` with m a map.
func boundByMapCommaOk(f *FuncInfo, obj types.Object) bool {
	if obj == nil {
		return false
	}
	info := f.Info()
	found := false
	ast.Inspect(f.Decl.Body, func(n ast.Node) bool {
		as, ok := n.(*ast.AssignStmt)
		if !ok || len(as.Lhs) != 2 || len(as.Rhs) != 1 || ObjOf(info, as.Lhs[1]) != obj {
			return true
		}
		if ix, ok := ast.Unparen(as.Rhs[0]).(*ast.IndexExpr); ok {
			if tv, ok := info.Types[ix.X]; ok {
				if _, isMap := tv.Type.Underlying().(*types.Map); isMap {
					found = true
				}
			}
		}
		return true
	})
	return found
}

// ruleSetAtTarget: R-SET-AT-TARGET (C10) — value writes happen only where the path is exhausted.
func ruleSetAtTarget(c *Ctx, r *Report) {
	r.Rule("R-SET-AT-TARGET", "in retrieveNodeContainer the value carried by SetNode is written (unmarshalGeneric / util.UpdateField) only when a value is present and the path is exhausted at this field (len(path.Elem) == to), with the field's own child schema and the parent struct; the field matched is decided by util.PathMatchesPrefix on the field's path tags", 4)
	f := c.MustFunc(r, "ytypes", "retrieveNodeContainer")
	if f == nil {
		return
	}
	info := f.Info()
	n := 0
	for _, call := range CallsIn(info, f.Decl.Body, P("ytypes")+".unmarshalGeneric", P("util")+".UpdateField") {
		n++
		key := fmt.Sprintf("ytypes.retrieveNodeContainer:value-write#%d", n)
		exhausted, hasVal := false, false
		for _, ft := range c.FactsAt(f, call, true) {
			if ft.Kind != "cond" {
				continue
			}
			if ft.Pos {
				if be, ok := ast.Unparen(ft.Cond).(*ast.BinaryExpr); ok && be.Op == token.EQL && strings.Contains(types.ExprString(be.X), "len(path.Elem)") {
					exhausted = true
				}
			}
			if !ft.Pos {
				if cc, ok := ast.Unparen(ft.Cond).(*ast.CallExpr); ok && IsCall(info, cc, P("util")+".IsValueNil") && len(cc.Args) == 1 && isArgsField(info, cc.Args[0], "val") {
					hasVal = true
				}
			}
		}
		r.Check(exhausted && hasVal, key, c.Pos(call.Pos()), "only when args.val is present and the path ends at this field", "retrieveNodeContainer writes the SetNode value at a field where the path is not exhausted (or without a value): leaves other than the addressed one are modified")
		if strings.HasSuffix(FullName(Callee(info, call)), "unmarshalGeneric") {
			ok := len(call.Args) >= 4 && types.ExprString(call.Args[0]) == "cschema" && paramIndex(f, ObjOf(info, call.Args[1])) == 1
			r.Check(ok, key+":target", c.Pos(call.Pos()), "unmarshalGeneric(child schema, parent struct, value, encoding)", "the value is unmarshalled with a schema/parent other than the addressed field's")
		}
	}
	if n == 0 {
		r.Bad("ytypes.retrieveNodeContainer:value-write", c.Pos(f.Decl.Pos()), "retrieveNodeContainer no longer writes leaf values")
	}
	// field selection by path tags.
	calls := CallsIn(info, f.Decl.Body, P("util")+".PathMatchesPrefix")
	r.Check(len(calls) >= 2, "ytypes.retrieveNodeContainer:field-selection", c.Pos(f.Decl.Pos()), fmt.Sprintf("%d PathMatchesPrefix tests select the field (path and shadow-path tags)", len(calls)), "fields are no longer selected by util.PathMatchesPrefix on their path tags")
}

// ruleDeleteSites: R-DELETE-SITE (C12) — classification of the zeroing writes of retrieveNodeContainer.
func ruleDeleteSites(c *Ctx, r *Report) {
	r.Rule("R-DELETE-SITE", "retrieveNodeContainer zeroes a field only (a) where the delete path is exhausted at that field, (b) after a descent, when the child it descended into has become empty, or (c) for an ordered-map field when the path ends at its compressed-out surrounding container; any other field that merely shares a path prefix is left alone", 4)
	f := c.MustFunc(r, "ytypes", "retrieveNodeContainer")
	if f == nil {
		return
	}
	info := f.Info()
	type flags struct{ del, exhausted, emptied, partial, om bool }
	// classify reads the facts that hold at a zeroing site of function g; `bind` maps a parameter
	// of g to the argument expression (in retrieveNodeContainer) it was called with, or nil.
	classify := func(g *FuncInfo, at ast.Node, bind func(types.Object) ast.Expr) flags {
		ginfo := g.Info()
		var fl flags
		for _, ft := range c.FactsAt(g, at, true) {
			if ft.Kind != "cond" || !ft.Pos {
				continue
			}
			e := ast.Unparen(ft.Cond)
			if isArgsField(ginfo, e, "delete") {
				fl.del = true
			}
			s := types.ExprString(e)
			if be, ok := e.(*ast.BinaryExpr); ok && be.Op == token.EQL {
				if strings.Contains(s, "len(path.Elem)") {
					fl.exhausted = true
				}
				if strings.HasSuffix(types.ExprString(be.X), ".Len()") {
					if v, ok := ConstOf(ginfo, be.Y); ok && v == "0" {
						fl.emptied = true
					}
				}
			}
			if call2, ok := e.(*ast.CallExpr); ok {
				fn := FullName(Callee(ginfo, call2))
				if fn == "reflect.Value.IsZero" {
					fl.emptied = true
				}
				if strings.HasSuffix(fn, "util.PathPartiallyMatchesPrefix") {
					fl.partial = true
				}
			}
			if id, ok := e.(*ast.Ident); ok {
				obj := ginfo.ObjectOf(id)
				if bind != nil {
					if a := bind(obj); a != nil && isArgsField(info, ast.Unparen(a), "delete") {
						fl.del = true
					}
				}
				ast.Inspect(g.Decl.Body, func(m ast.Node) bool {
					if as, ok := m.(*ast.AssignStmt); ok && len(as.Lhs) == 2 && len(as.Rhs) == 1 && ObjOf(ginfo, as.Lhs[1]) == obj {
						if ta, ok := as.Rhs[0].(*ast.TypeAssertExpr); ok && strings.HasSuffix(typeName(ginfo, ta.Type), "GoOrderedMap") {
							fl.om = true
						}
					}
					return true
				})
			}
		}
		return fl
	}
	zeroings := func(g *FuncInfo) []*ast.CallExpr {
		var out []*ast.CallExpr
		for _, call := range CallsIn(g.Info(), g.Decl.Body, "reflect.Value.Set") {
			if len(call.Args) == 1 && IsCall(g.Info(), call.Args[0], "reflect.Zero") {
				out = append(out, call)
			}
		}
		return out
	}
	n := 0
	report := func(fl flags, at ast.Node) {
		n++
		class := ""
		switch {
		case fl.del && fl.exhausted:
			class = "path exhausted at the field"
		case fl.del && fl.emptied:
			class = "child emptied by the delete below it"
		case fl.del && fl.partial && fl.om:
			class = "ordered map below a compressed-out container"
		}
		r.Check(class != "", fmt.Sprintf("ytypes.retrieveNodeContainer:zeroing#%d", n), c.Pos(at.Pos()), class,
			"retrieveNodeContainer zeroes a field that is neither the delete target, nor a child emptied by the delete, nor an ordered map below a compressed-out container: a delete whose path merely shares a prefix with the field's path removes (only the first such) field and reports success")
	}
	for _, call := range zeroings(f) {
		report(classify(f, call, nil), call)
	}
	// zeroing performed by a helper the function hands the field to: the helper's own guards,
	// with its parameters bound to the arguments, are combined with the facts at the call.
	ast.Inspect(f.Decl.Body, func(x ast.Node) bool {
		call, ok := x.(*ast.CallExpr)
		if !ok {
			return true
		}
		h := c.funcOfCallee(Callee(info, call))
		if h == nil || h == f || h.Pkg != f.Pkg {
			return true
		}
		for _, fam := range retrieveFamily {
			if h.Decl.Name.Name == fam {
				return true // the recursion itself, not a helper
			}
		}
		inner := zeroings(h)
		if len(inner) == 0 {
			return true
		}
		hp := paramObjs(h)
		bind := func(o types.Object) ast.Expr {
			for i, p := range hp {
				if p == o && i < len(call.Args) {
					return call.Args[i]
				}
			}
			return nil
		}
		outer := classify(f, call, nil)
		for _, z := range inner {
			in := classify(h, z, bind)
			report(flags{in.del || outer.del, in.exhausted || outer.exhausted, in.emptied || outer.emptied, in.partial || outer.partial, in.om || outer.om}, call)
		}
		return true
	})
	if n == 0 {
		r.Bad("ytypes.retrieveNodeContainer:zeroing", c.Pos(f.Decl.Pos()), "retrieveNodeContainer no longer zeroes deleted fields")
	}
}
