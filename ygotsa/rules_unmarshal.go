package main

import (
	"fmt"
	"go/ast"
	"go/token"
	"go/types"
)

// isNilConst: e is the untyped nil.
func isNilConst(info *types.Info, e ast.Expr) bool {
	tv, ok := info.Types[e]
	return ok && tv.IsNil()
}

// enclosingCase returns the case clause enclosing n (inside f), or nil.
func (c *Ctx) enclosingCase(f *FuncInfo, n ast.Node) *ast.CaseClause {
	pm := c.parentMap(f.File)
	for p := pm[n]; p != nil && p != ast.Node(f.Decl); p = pm[p] {
		if cc, ok := p.(*ast.CaseClause); ok {
			return cc
		}
	}
	return nil
}

// ruleLeafListReplace: R-LEAFLIST-REPLACE (C31).
func ruleLeafListReplace(c *Ctx, r *Report) {
	r.Rule("R-LEAFLIST-REPLACE", "in unmarshalLeafList every encoding arm that appends elements clears the slice field first, and no successful return can be reached between the arm's entry and the clear (a mentioned leaf-list — even an empty one — replaces the existing contents); outside the arms a successful return is possible only for an absent (nil) value or after the arms", 4)
	f := c.MustFunc(r, "ytypes", "unmarshalLeafList")
	if f == nil {
		return
	}
	info := f.Info()
	clears := CallsIn(info, f.Decl.Body, P("ytypes")+".clearSliceField")
	gens := CallsIn(info, f.Decl.Body, P("ytypes")+".unmarshalGeneric")
	if len(gens) == 0 {
		r.Und("ytypes.unmarshalLeafList:shape", c.Pos(f.Decl.Pos()), "no element unmarshalling call found")
		return
	}
	arms := map[*ast.CaseClause]bool{}
	for i, g := range gens {
		arm := c.enclosingCase(f, g)
		key := fmt.Sprintf("ytypes.unmarshalLeafList:arm#%d:clear-before-elements", i+1)
		// the region the element loop belongs to: its encoding arm, or — when the arms only
		// collect the elements and one shared tail stores them — the function body.
		var region ast.Node = f.Decl.Body
		if arm != nil {
			arms[arm] = true
			region = arm
		}
		loop := c.EnclosingLoop(f, g)
		var clr *ast.CallExpr
		for _, cl := range clears {
			sameRegion := c.enclosingCase(f, cl) == arm
			if sameRegion && loop != nil && cl.End() < loop.Pos() && c.EnclosingLoop(f, cl) == nil && len(c.factsWithin(f, cl, region)) == 0 {
				clr = cl
			}
		}
		r.Check(clr != nil, key, c.Pos(g.Pos()), "clearSliceField runs unconditionally in the arm before the element loop",
			"unmarshalLeafList appends the elements of a mentioned leaf-list without first clearing the existing slice: the old elements survive (merge instead of replace)")
		if clr == nil {
			continue
		}
		// no successful return in the arm before the clear.
		n := 0
		for _, rs := range returnsOf(region) {
			if rs.Pos() < clr.Pos() && len(rs.Results) == 1 && isNilConst(info, rs.Results[0]) {
				if arm == nil {
					// in the function body the one admissible success before the clear is the
					// absent (nil) value, judged below with the other returns outside the arms.
					absent := false
					for _, ft := range c.FactsAt(f, rs, false) {
						if ft.Kind == "cond" && ft.Pos && len(CallsIn(info, ft.Cond, P("util")+".IsValueNil")) > 0 && mentionsParam(f, ft.Cond, 2) {
							absent = true
						}
					}
					if absent {
						continue
					}
				}
				n++
				r.Bad(fmt.Sprintf("ytypes.unmarshalLeafList:arm#%d:success-before-clear#%d", i+1, n), c.Pos(rs.Pos()),
					"unmarshalLeafList returns success from an encoding arm before clearing the slice: for the inputs on that path (e.g. an empty JSON array) a mentioned leaf-list keeps its old contents")
			}
		}
		if n == 0 {
			r.OK(fmt.Sprintf("ytypes.unmarshalLeafList:arm#%d:no-success-before-clear", i+1), c.Pos(region.Pos()), "only error returns precede the clear")
		}
	}
	// successful returns outside the arms.
	n := 0
	for _, rs := range returnsOf(f.Decl.Body) {
		if len(rs.Results) != 1 || !isNilConst(info, rs.Results[0]) {
			continue
		}
		if a := c.enclosingCase(f, rs); a != nil && arms[a] {
			continue
		}
		n++
		ok := false
		why := ""
		for _, ft := range c.FactsAt(f, rs, false) {
			if ft.Kind == "cond" && ft.Pos && len(CallsIn(info, ft.Cond, P("util")+".IsValueNil")) > 0 && mentionsParam(f, ft.Cond, 2) {
				ok, why = true, "value absent (nil)"
			}
		}
		if !ok {
			// the final return after the switch.
			last := f.Decl.Body.List[len(f.Decl.Body.List)-1]
			if ast.Node(rs) == ast.Node(last) {
				ok, why = true, "after the encoding arms"
			}
		}
		r.Check(ok, fmt.Sprintf("ytypes.unmarshalLeafList:success-return#%d", n), c.Pos(rs.Pos()), why,
			"unmarshalLeafList returns success on a path that neither clears-and-fills the field nor has a nil value")
	}
}

// factsWithin returns the facts at n that originate from conditions inside `within`.
func (c *Ctx) factsWithin(f *FuncInfo, n ast.Node, within ast.Node) []Fact {
	var out []Fact
	for _, ft := range c.FactsAt(f, n, false) {
		if ft.Cond != nil && ft.Cond.Pos() >= within.Pos() && ft.Cond.End() <= within.End() && ft.Kind == "cond" {
			// conditions of early error exits (`if !ok { return err }`) are not restrictions on success paths;
			// keep only positive enclosing conditions, i.e. the call sits inside an if/else body.
			if enclosesLexically(c, f, ft.Cond, n) {
				out = append(out, ft)
			}
		}
	}
	return out
}

// enclosesLexically: cond is the condition of an if statement whose body/else contains n.
func enclosesLexically(c *Ctx, f *FuncInfo, cond ast.Expr, n ast.Node) bool {
	pm := c.parentMap(f.File)
	for p := pm[n]; p != nil && p != ast.Node(f.Decl); p = pm[p] {
		if is, ok := p.(*ast.IfStmt); ok && is.Cond.Pos() <= cond.Pos() && cond.End() <= is.Cond.End() {
			return true
		}
	}
	return false
}

// ruleStructMerge: R-STRUCT-MERGE (C31).
func ruleStructMerge(c *Ctx, r *Report) {
	r.Rule("R-STRUCT-MERGE", "unmarshalStruct creates a field only when it is nil (existing values are kept), descends only into fields the JSON mentions, checks unknown members exactly when IgnoreExtraFields is absent, after all fields were applied, and returns that check's error", 6)
	f := c.MustFunc(r, "ytypes", "unmarshalStruct")
	if f == nil {
		return
	}
	info := f.Info()
	// (1) field creation only when nil.
	mk := CallsIn(info, f.Decl.Body, P("ytypes")+".makeField")
	for i, call := range mk {
		ok := factIsCall(info, c.FactsAt(f, call, false), true, P("util")+".IsNilOrInvalidValue") != nil
		r.Check(ok, fmt.Sprintf("ytypes.unmarshalStruct:makeField#%d", i+1), c.Pos(call.Pos()), "only under IsNilOrInvalidValue(field)",
			"unmarshalStruct re-creates a field that may already hold data: everything under it that the JSON does not mention is lost")
	}
	if len(mk) == 0 {
		r.Bad("ytypes.unmarshalStruct:makeField", c.Pos(f.Decl.Pos()), "unmarshalStruct no longer creates nil fields through makeField (shape changed)")
	}
	// no other direct write to the destination in this function.
	nw := 0
	ast.Inspect(f.Decl.Body, func(n ast.Node) bool {
		if call, ok := n.(*ast.CallExpr); ok && reflectMutators[FullName(Callee(info, call))] {
			nw++
			r.Bad(fmt.Sprintf("ytypes.unmarshalStruct:direct-write#%d", nw), c.Pos(call.Pos()), "unmarshalStruct writes a destination field directly (outside makeField / the per-kind unmarshallers)")
		}
		return true
	})
	if nw == 0 {
		r.OK("ytypes.unmarshalStruct:no-direct-writes", c.Pos(f.Decl.Pos()), "the only creation site is makeField")
	}
	// (2) descent only for mentioned fields.
	gens := CallsIn(info, f.Decl.Body, P("ytypes")+".unmarshalGeneric")
	for i, call := range gens {
		ok := false
		if len(call.Args) >= 3 {
			vobj := ObjOf(info, call.Args[2])
			for _, ft := range c.FactsAt(f, call, false) {
				if ft.Kind == "cond" && !ft.Pos {
					if be, isBE := ast.Unparen(ft.Cond).(*ast.BinaryExpr); isBE && be.Op == token.EQL && isNilConst(info, be.Y) && ObjOf(info, be.X) == vobj && vobj != nil {
						ok = true
					}
				}
			}
			// and the value comes from the JSON tree lookup for this field.
			src := false
			ast.Inspect(f.Decl.Body, func(n ast.Node) bool {
				if as, isAs := n.(*ast.AssignStmt); isAs && len(as.Rhs) == 1 && ObjOf(info, as.Lhs[0]) == vobj && IsCall(info, as.Rhs[0], P("ytypes")+".getJSONTreeValForField") {
					src = true
				}
				return true
			})
			ok = ok && src
		}
		r.Check(ok, fmt.Sprintf("ytypes.unmarshalStruct:descent#%d", i+1), c.Pos(call.Pos()), "only when the JSON tree has a value for the field",
			"unmarshalStruct descends into (and may create or clear) a field the JSON does not mention")
	}
	// (3) unknown members.
	chk := CallsIn(info, f.Decl.Body, P("ytypes")+".checkDataTreeAgainstPaths")
	if len(chk) != 1 {
		r.Bad("ytypes.unmarshalStruct:extra-fields-check", c.Pos(f.Decl.Pos()), fmt.Sprintf("unmarshalStruct calls checkDataTreeAgainstPaths %d times, expected once", len(chk)))
	} else {
		call := chk[0]
		facts := c.FactsAt(f, call, false)
		neg, other := false, 0
		for _, ft := range facts {
			if ft.Kind != "cond" {
				other++
				continue
			}
			if !ft.Pos && IsCall(info, ast.Unparen(ft.Cond), P("ytypes")+".hasIgnoreExtraFields") {
				neg = true
				continue
			}
			if enclosesLexically(c, f, ft.Cond, call) {
				other++
			}
		}
		r.Check(neg && other == 0 && c.EnclosingLoop(f, call) == nil, "ytypes.unmarshalStruct:extra-fields-check:guard", c.Pos(call.Pos()), "exactly under !hasIgnoreExtraFields(opts)",
			"the unknown-member check in unmarshalStruct is not governed exactly by the IgnoreExtraFields option")
		r.Check(errTestedAfter(c, f, f.Decl.Body, call), "ytypes.unmarshalStruct:extra-fields-check:error", c.Pos(call.Pos()), "error returned", "the unknown-member error is dropped")
		// arguments: the JSON tree and the collected paths.
		okArgs := len(call.Args) == 2 && paramIndex(f, ObjOf(info, call.Args[0])) == 2
		r.Check(okArgs, "ytypes.unmarshalStruct:extra-fields-check:args", c.Pos(call.Pos()), "checks the JSON tree being unmarshalled", "the unknown-member check does not look at the JSON tree being unmarshalled")
		// successful returns come after the check.
		n := 0
		for _, rs := range returnsOf(f.Decl.Body) {
			if len(rs.Results) == 1 && isNilConst(info, rs.Results[0]) && rs.Pos() < call.Pos() {
				n++
			}
		}
		r.Check(n == 0, "ytypes.unmarshalStruct:no-success-before-check", c.Pos(call.Pos()), "no successful return precedes the unknown-member check", "unmarshalStruct can return success before checking for unknown members")
	}
	// (4) skips in the field loop.
	n := 0
	for _, bs := range branchStmts(f.Decl.Body, token.CONTINUE) {
		n++
		why := ""
		for _, ft := range c.FactsAt(f, bs, false) {
			if ft.Kind != "cond" || !ft.Pos {
				continue
			}
			if IsCall(info, ast.Unparen(ft.Cond), P("util")+".IsYgotAnnotation") {
				why = "annotation field"
			}
			if be, ok := ast.Unparen(ft.Cond).(*ast.BinaryExpr); ok && be.Op == token.EQL && isNilConst(info, be.Y) {
				why = "field not mentioned in the JSON"
			}
		}
		r.Check(why != "", fmt.Sprintf("ytypes.unmarshalStruct:skip#%d", n), c.Pos(bs.Pos()), why, "unmarshalStruct skips a field for a reason other than being an annotation or absent from the JSON")
	}
}

// ruleListMerge: R-LIST-MERGE (C31).
func ruleListMerge(c *Ctx, r *Report) {
	r.Rule("R-LIST-MERGE", "in unmarshalList's keyed-map arm the entry inserted under the new key is the existing entry whenever the map already has that key, the JSON element is applied to that existing entry, and a new entry is used only when the lookup misses; the key is derived from the freshly decoded element", 4)
	f := c.MustFunc(r, "ytypes", "unmarshalList")
	if f == nil {
		return
	}
	info := f.Info()
	ins := CallsIn(info, f.Decl.Body, P("util")+".InsertIntoMap")
	if len(ins) != 1 || len(ins[0].Args) != 3 {
		r.Und("ytypes.unmarshalList:insert", c.Pos(f.Decl.Pos()), "expected exactly one util.InsertIntoMap(parent, key, value)")
		return
	}
	call := ins[0]
	// value argument: <val>.Interface()
	var valObj, keyObj types.Object
	if cc, ok := ast.Unparen(call.Args[2]).(*ast.CallExpr); ok {
		if sel, ok := cc.Fun.(*ast.SelectorExpr); ok {
			valObj = ObjOf(info, sel.X)
		}
	}
	if cc, ok := ast.Unparen(call.Args[1]).(*ast.CallExpr); ok {
		if sel, ok := cc.Fun.(*ast.SelectorExpr); ok {
			keyObj = ObjOf(info, sel.X)
		}
	}
	if valObj == nil || keyObj == nil {
		r.Und("ytypes.unmarshalList:insert:args", c.Pos(call.Pos()), "key/value arguments not of the form x.Interface()")
		return
	}
	arm := c.enclosingCase(f, call)
	scope := ast.Node(f.Decl.Body)
	if arm != nil {
		scope = arm
	}
	// definitions of val within the arm.
	var lookup *ast.AssignStmt
	var overrides []*ast.AssignStmt
	ast.Inspect(scope, func(n ast.Node) bool {
		as, ok := n.(*ast.AssignStmt)
		if !ok || len(as.Lhs) != 1 || len(as.Rhs) != 1 || ObjOf(info, as.Lhs[0]) != valObj {
			return true
		}
		if cc, ok := ast.Unparen(as.Rhs[0]).(*ast.CallExpr); ok && FullName(Callee(info, cc)) == "reflect.Value.MapIndex" && len(cc.Args) == 1 && ObjOf(info, cc.Args[0]) == keyObj {
			lookup = as
		} else {
			overrides = append(overrides, as)
		}
		return true
	})
	r.Check(lookup != nil && mentionsParam(f, lookup.Rhs[0], 1), "ytypes.unmarshalList:existing-lookup", c.Pos(call.Pos()), "inserted value starts as parent[newKey]",
		"unmarshalList does not look the new key up in the existing map before inserting: an existing entry is replaced, its unmentioned leaves are lost")
	if lookup == nil {
		return
	}
	for i, ov := range overrides {
		// The override may run only when the lookup missed: !val.IsValid() || val.IsZero().
		// Truth-table reading: under the one assignment that is a hit (valid and non-zero)
		// some fact that holds at the override must be definitely false, in whatever form
		// (if/else, negated guard, early continue) the code states it.
		atom := func(e ast.Expr) (bool, bool) {
			if cc, ok := ast.Unparen(e).(*ast.CallExpr); ok {
				if sel, ok := cc.Fun.(*ast.SelectorExpr); ok && ObjOf(info, sel.X) == valObj {
					switch FullName(Callee(info, cc)) {
					case "reflect.Value.IsValid":
						return true, true
					case "reflect.Value.IsZero", "reflect.Value.IsNil":
						return false, true
					}
				}
			}
			return false, false
		}
		miss := false
		for _, ft := range c.FactsAt(f, ov, false) {
			if ft.Kind != "cond" {
				continue
			}
			if v, known := evalBool3(ft.Cond, atom); known && v != ft.Pos {
				miss = true // this fact cannot hold on a hit
			}
		}
		r.Check(miss, fmt.Sprintf("ytypes.unmarshalList:new-entry#%d", i+1), c.Pos(ov.Pos()), "new element used only when the lookup misses",
			"unmarshalList replaces the looked-up entry with the new element on a path where the lookup may have hit: existing entries are overwritten instead of updated")
	}
	// the JSON element is applied to the existing entry.
	applied := false
	for _, us := range CallsIn(info, scope, P("ytypes")+".unmarshalStruct") {
		if len(us.Args) >= 3 && mentionsObj(info, us.Args[1], valObj) {
			applied = true
			r.Check(errTestedAfter(c, f, scope, us) || isIfInit(c, f, us), "ytypes.unmarshalList:update-existing:error", c.Pos(us.Pos()), "error returned", "error of updating the existing entry is dropped")
		}
	}
	r.Check(applied, "ytypes.unmarshalList:update-existing", c.Pos(call.Pos()), "unmarshalStruct(schema, existing, element…) on a hit",
		"unmarshalList does not apply the JSON element to the existing entry: an update of an existing key is ignored")
	// key derived from the decoded element.
	keyOK := false
	ast.Inspect(scope, func(n ast.Node) bool {
		if as, ok := n.(*ast.AssignStmt); ok && len(as.Rhs) == 1 && len(as.Lhs) >= 1 && ObjOf(info, as.Lhs[0]) == keyObj {
			if cc, ok := as.Rhs[0].(*ast.CallExpr); ok && IsCall(info, cc, P("ytypes")+".makeKeyForInsert") {
				keyOK = true
			}
		}
		return true
	})
	r.Check(keyOK, "ytypes.unmarshalList:key", c.Pos(call.Pos()), "key built by makeKeyForInsert from the decoded element", "the insertion key is not derived from the decoded element")
}

// isIfInit: call is the initialiser of an if whose body terminates.
func isIfInit(c *Ctx, f *FuncInfo, call *ast.CallExpr) bool {
	pm := c.parentMap(f.File)
	if as, ok := pm[call].(*ast.AssignStmt); ok {
		if is, ok := pm[as].(*ast.IfStmt); ok && is.Init == ast.Stmt(as) {
			return terminates(f.Info(), is.Body.List)
		}
	}
	return false
}

// evalBool3 evaluates a boolean expression built with &&, ||, ! and parentheses in Kleene's
// three-valued logic; atom gives the value of a leaf (known=false: unknown).
func evalBool3(e ast.Expr, atom func(ast.Expr) (val, known bool)) (bool, bool) {
	switch x := ast.Unparen(e).(type) {
	case *ast.UnaryExpr:
		if x.Op == token.NOT {
			v, k := evalBool3(x.X, atom)
			return !v, k
		}
	case *ast.BinaryExpr:
		if x.Op == token.LAND || x.Op == token.LOR {
			a, ka := evalBool3(x.X, atom)
			b, kb := evalBool3(x.Y, atom)
			if x.Op == token.LAND {
				if (ka && !a) || (kb && !b) {
					return false, true
				}
				return true, ka && kb
			}
			if (ka && a) || (kb && b) {
				return true, true
			}
			return false, ka && kb
		}
	}
	return atom(ast.Unparen(e))
}
