package main

import (
	"fmt"
	"go/ast"
	"go/token"
	"go/types"
	"sort"
	"strings"
)

// Rules added after the fifth batch of seeded changes (see DESIGN.md §10.2): each is a structural
// necessary condition of the named property that an earlier rule set did not cover.

// siblingsBefore: the statements that precede n in its own statement list.
func siblingsBefore(c *Ctx, f *FuncInfo, n ast.Stmt) []ast.Stmt {
	pm := c.parentMap(f.File)
	var list []ast.Stmt
	switch p := pm[n].(type) {
	case *ast.BlockStmt:
		list = p.List
	case *ast.CaseClause:
		list = p.Body
	case *ast.CommClause:
		list = p.Body
	}
	for i, s := range list {
		if s == n {
			return list[:i]
		}
	}
	return nil
}

// ---- R-RENDER-SKIP (C02) ---------------------------------------------------------

// ruleRenderSkip: the leaf walkers behind TogNMINotifications abandon a field only for the
// accepted reasons. Emptiness is not unset-ness: a non-nil empty binary or leaf-list is data.
func ruleRenderSkip(c *Ctx, r *Report) {
	r.Rule("R-RENDER-SKIP", "ygot's leaf walkers (findUpdatedLeaves, findUpdatedOrderedListLeaves) abandon a struct field only after recording an error, after emitting its leaves, because the field is nil (IsNil), because an enumeration is unset, or because it is a leaf-list without entries (Len()==0 with the Binary leaf type excluded); any other silent skip (e.g. on Len()==0 alone, which also matches a zero-length binary) drops data the decoder would have restored", 8)
	for _, name := range []string{"findUpdatedLeaves", "findUpdatedOrderedListLeaves"} {
		f := c.MustFunc(r, "ygot", name)
		if f == nil {
			continue
		}
		info := f.Info()
		emit := leafEmitters(f)
		n := 0
		ast.Inspect(f.Decl.Body, func(x ast.Node) bool {
			bs, ok := x.(*ast.BranchStmt)
			if !ok || bs.Tok != token.CONTINUE {
				return true
			}
			n++
			key := fmt.Sprintf("ygot.%s:continue#%d", name, n)
			pos := c.Pos(bs.Pos())
			recorded, emitted := false, false
			for _, s := range siblingsBefore(c, f, bs) {
				ast.Inspect(s, func(y ast.Node) bool {
					call, ok := y.(*ast.CallExpr)
					if !ok {
						return true
					}
					if fn := FullName(Callee(info, call)); strings.HasSuffix(fn, "errlist.List.Add") || strings.HasSuffix(fn, "errlist.Error.Add") {
						recorded = true
					}
					if id, ok := call.Fun.(*ast.Ident); ok && emit[info.ObjectOf(id)] {
						emitted = true
					}
					return true
				})
			}
			switch {
			case recorded:
				r.OK(key, pos, "error recorded before continue")
				return true
			case emitted:
				r.OK(key, pos, "leaves emitted before continue")
				return true
			}
			for _, ft := range c.FactsAt(f, bs, false) {
				if ft.Kind != "cond" {
					continue
				}
				if call, ok := ast.Unparen(ft.Cond).(*ast.CallExpr); ok && ft.Pos && FullName(Callee(info, call)) == "reflect.Value.IsNil" {
					r.OK(key, pos, "field is nil: "+types.ExprString(ft.Cond))
					return true
				}
				if id, ok := ast.Unparen(ft.Cond).(*ast.Ident); ok && !ft.Pos && boundFromCall(f, info.ObjectOf(id), P("ygot")+".enumFieldToString") {
					r.OK(key, pos, "enumeration value is unset (0)")
					return true
				}
			}
			// an empty leaf-list (never a zero-length Binary): the decoder refuses it, R-EMPTY-LEAFLIST.
			pm := c.parentMap(f.File)
			if blk, ok := pm[bs].(*ast.BlockStmt); ok {
				if is, ok := pm[blk].(*ast.IfStmt); ok && is.Body == blk && emptyLeafListCond(info, is.Cond) {
					r.OK(key, pos, "leaf-list without entries (Binary excluded): "+types.ExprString(is.Cond))
					return true
				}
			}
			r.Bad(key, pos, name+" skips a field without recording an error or emitting it, on a condition other than nil-ness: a set value (for example a zero-length binary or an empty non-nil leaf-list) is dropped from the notifications and is missing after UnmarshalNotifications")
			return true
		})
	}
}

// leafEmitters: the local function variables of f through which leaves are recorded: `addLeaf`, and
// every local closure whose body calls one of them (e.g. a helper that adds a value at all paths).
func leafEmitters(f *FuncInfo) map[types.Object]bool {
	info := f.Info()
	set := map[types.Object]bool{}
	ast.Inspect(f.Decl.Body, func(n ast.Node) bool {
		if id, ok := n.(*ast.Ident); ok && id.Name == "addLeaf" {
			if o := info.ObjectOf(id); o != nil {
				set[o] = true
			}
		}
		return true
	})
	for changed := true; changed; {
		changed = false
		ast.Inspect(f.Decl.Body, func(n ast.Node) bool {
			as, ok := n.(*ast.AssignStmt)
			if !ok || len(as.Lhs) != 1 || len(as.Rhs) != 1 {
				return true
			}
			fl, ok := as.Rhs[0].(*ast.FuncLit)
			if !ok {
				return true
			}
			o := ObjOf(info, as.Lhs[0])
			if o == nil || set[o] {
				return true
			}
			calls := false
			ast.Inspect(fl.Body, func(m ast.Node) bool {
				if call, ok := m.(*ast.CallExpr); ok {
					if id, ok := call.Fun.(*ast.Ident); ok && set[info.ObjectOf(id)] {
						calls = true
					}
				}
				return true
			})
			if calls {
				set[o] = true
				changed = true
			}
			return true
		})
	}
	return set
}

// boundFromCall: obj is defined by an assignment whose right-hand side is a call to fn.
func boundFromCall(f *FuncInfo, obj types.Object, fn string) bool {
	if obj == nil {
		return false
	}
	info := f.Info()
	found := false
	ast.Inspect(f.Decl.Body, func(n ast.Node) bool {
		as, ok := n.(*ast.AssignStmt)
		if !ok || len(as.Rhs) != 1 {
			return true
		}
		call, ok := as.Rhs[0].(*ast.CallExpr)
		if !ok || FullName(Callee(info, call)) != fn {
			return true
		}
		for _, l := range as.Lhs {
			if ObjOf(info, l) == obj {
				found = true
			}
		}
		return true
	})
	return found
}

// ---- R-IFACE-IDENTITY (C05) -------------------------------------------------------

// ruleIfaceIdentity: `==` on, or a map keyed by, reflect.Value.Interface() compares pointers by
// identity. That is right for map keys (comparable by construction) and wrong for leaf-list
// members, which may be wrapper-union pointers or Binary slices.
func ruleIfaceIdentity(c *Ctx, r *Report) {
	r.Rule("R-IFACE-IDENTITY", "in ygot's merge code, values extracted with reflect.Value.Interface() are compared by identity (== or used as a map key) only when they are list map keys (from MapKeys/OrderedMapKeys); everything else goes through reflect.DeepEqual", 3)
	fs := c.funcsInScope(func(s string) bool { return s == "ygot/struct_validation_map.go" }, libPkgs)
	byName := map[string]*FuncInfo{}
	for _, f := range fs {
		if f.Obj != nil {
			byName[FullName(f.Obj)] = f
		}
	}
	ifaceRecv := func(f *FuncInfo, e ast.Expr) ast.Expr {
		info := f.Info()
		e = ast.Unparen(e)
		if id, ok := e.(*ast.Ident); ok {
			if d := singleDef(f, info.ObjectOf(id)); d != nil {
				e = ast.Unparen(d)
			}
		}
		if call, ok := e.(*ast.CallExpr); ok && FullName(Callee(info, call)) == "reflect.Value.Interface" {
			return call.Fun.(*ast.SelectorExpr).X
		}
		return nil
	}
	var keySlice func(f *FuncInfo, e ast.Expr, depth int) bool
	keySlice = func(f *FuncInfo, e ast.Expr, depth int) bool {
		info := f.Info()
		e = ast.Unparen(e)
		if depth > 3 {
			return false
		}
		if call, ok := e.(*ast.CallExpr); ok {
			switch FullName(Callee(info, call)) {
			case "reflect.Value.MapKeys", P("internal/yreflect") + ".OrderedMapKeys":
				return true
			}
			return false
		}
		id, ok := e.(*ast.Ident)
		if !ok {
			return false
		}
		obj := info.ObjectOf(id)
		// parameter: every call site in the file passes a key slice.
		for i, p := range paramObjs(f) {
			if p != obj {
				continue
			}
			sites, all := 0, true
			for _, g := range fs {
				for _, call := range CallsIn(g.Info(), g.Decl.Body, FullName(f.Obj)) {
					sites++
					if i >= len(call.Args) || !keySlice(g, call.Args[i], depth+1) {
						all = false
					}
				}
			}
			return sites > 0 && all
		}
		defs := allDefs(f, obj)
		if len(defs) == 0 {
			return false
		}
		for _, d := range defs {
			if !keySlice(f, d, depth+1) {
				return false
			}
		}
		return true
	}
	keyValue := func(f *FuncInfo, e ast.Expr) bool {
		info := f.Info()
		e = ast.Unparen(e)
		if ix, ok := e.(*ast.IndexExpr); ok {
			return keySlice(f, ix.X, 0)
		}
		id, ok := e.(*ast.Ident)
		if !ok {
			return false
		}
		obj := info.ObjectOf(id)
		ok = false
		ast.Inspect(f.Decl.Body, func(n ast.Node) bool {
			if rs, isR := n.(*ast.RangeStmt); isR && rs.Value != nil && ObjOf(info, rs.Value) == obj {
				ok = keySlice(f, rs.X, 0)
			}
			return true
		})
		return ok
	}
	for _, f := range fs {
		info := f.Info()
		n := 0
		report := func(at ast.Node, what string, recvs ...ast.Expr) {
			n++
			key := fmt.Sprintf("%s:identity#%d", f.Name, n)
			for _, rv := range recvs {
				if !keyValue(f, rv) {
					r.Bad(key, c.Pos(at.Pos()), fmt.Sprintf("%s %s of %s.Interface(), which is not a list map key: wrapper-union members are pointers and are compared by address, so equal values are judged different (overlapping leaf-lists merge without a conflict and duplicate a member)", f.Name, what, types.ExprString(rv)))
					return
				}
			}
			r.OK(key, c.Pos(at.Pos()), what+" of list map keys, which are comparable by construction")
		}
		ast.Inspect(f.Decl.Body, func(x ast.Node) bool {
			switch e := x.(type) {
			case *ast.IndexExpr:
				tv, ok := info.Types[e.X]
				if !ok || tv.Type == nil {
					return true
				}
				m, ok := tv.Type.Underlying().(*types.Map)
				if !ok || !types.IsInterface(m.Key()) {
					return true
				}
				if rv := ifaceRecv(f, e.Index); rv != nil {
					report(e, "uses as a map key the dynamic value", rv)
				}
			case *ast.BinaryExpr:
				if e.Op != token.EQL && e.Op != token.NEQ {
					return true
				}
				a, b := ifaceRecv(f, e.X), ifaceRecv(f, e.Y)
				switch {
				case a != nil && b != nil:
					report(e, "compares with "+e.Op.String()+" the dynamic values", a, b)
				case a != nil || b != nil:
					other := e.Y
					rv := a
					if a == nil {
						other, rv = e.X, b
					}
					if tv, ok := info.Types[other]; ok && (tv.IsNil() || tv.Value != nil || !types.IsInterface(tv.Type)) {
						return true // comparison with nil, a constant, or a concrete typed value
					}
					report(e, "compares with "+e.Op.String()+" the dynamic value", rv)
				}
			}
			return true
		})
	}
}

func paramObjs(f *FuncInfo) []types.Object {
	var out []types.Object
	for _, fl := range f.Decl.Type.Params.List {
		for _, n := range fl.Names {
			out = append(out, f.Info().ObjectOf(n))
		}
	}
	return out
}

// allDefs: right-hand sides assigned to obj anywhere in f (single-value assignments and the single
// call of a multi-value assignment).
func allDefs(f *FuncInfo, obj types.Object) []ast.Expr {
	info := f.Info()
	var out []ast.Expr
	ast.Inspect(f.Decl.Body, func(n ast.Node) bool {
		switch s := n.(type) {
		case *ast.AssignStmt:
			for i, l := range s.Lhs {
				if _, isID := l.(*ast.Ident); !isID || ObjOf(info, l) != obj {
					continue
				}
				if len(s.Rhs) == len(s.Lhs) {
					out = append(out, s.Rhs[i])
				} else if len(s.Rhs) == 1 {
					out = append(out, s.Rhs[0])
				}
			}
		case *ast.ValueSpec:
			for i, nm := range s.Names {
				if info.ObjectOf(nm) == obj && i < len(s.Values) {
					out = append(out, s.Values[i])
				}
			}
		}
		return true
	})
	return out
}

func singleDef(f *FuncInfo, obj types.Object) ast.Expr {
	if obj == nil {
		return nil
	}
	if d := allDefs(f, obj); len(d) == 1 {
		return d[0]
	}
	return nil
}

// ---- R-CACHE-KEY (C06) ------------------------------------------------------------

// paramDeps computes, flow-insensitively, for every local variable of f the set of parameters
// (receiver included) its value may depend on, through data flow and through the conditions of
// the if/switch statements that enclose its assignments (control dependence).
type depSet map[types.Object]bool

func (c *Ctx) paramDeps(f *FuncInfo) (func(e ast.Expr) depSet, func(n ast.Node) depSet) {
	info := f.Info()
	pm := c.parentMap(f.File)
	params := map[types.Object]bool{}
	for _, p := range paramObjs(f) {
		params[p] = true
	}
	if f.Decl.Recv != nil {
		for _, fl := range f.Decl.Recv.List {
			for _, n := range fl.Names {
				params[info.ObjectOf(n)] = true
			}
		}
	}
	deps := map[types.Object]depSet{}
	var exprDeps func(e ast.Node) depSet
	exprDeps = func(e ast.Node) depSet {
		out := depSet{}
		if e == nil {
			return out
		}
		ast.Inspect(e, func(n ast.Node) bool {
			id, ok := n.(*ast.Ident)
			if !ok {
				return true
			}
			obj := info.ObjectOf(id)
			if obj == nil {
				return true
			}
			if params[obj] {
				out[obj] = true
			}
			for d := range deps[obj] {
				out[d] = true
			}
			return true
		})
		return out
	}
	ctrlDeps := func(n ast.Node) depSet {
		out := depSet{}
		for p := pm[n]; p != nil && p != ast.Node(f.Decl); p = pm[p] {
			switch s := p.(type) {
			case *ast.IfStmt:
				for d := range exprDeps(s.Cond) {
					out[d] = true
				}
			case *ast.SwitchStmt:
				for d := range exprDeps(s.Tag) {
					out[d] = true
				}
			case *ast.CaseClause:
				for _, e := range s.List {
					for d := range exprDeps(e) {
						out[d] = true
					}
				}
			}
		}
		return out
	}
	for changed := true; changed; {
		changed = false
		add := func(obj types.Object, ds depSet) {
			if obj == nil || params[obj] {
				return
			}
			if deps[obj] == nil {
				deps[obj] = depSet{}
			}
			for d := range ds {
				if !deps[obj][d] {
					deps[obj][d] = true
					changed = true
				}
			}
		}
		ast.Inspect(f.Decl.Body, func(n ast.Node) bool {
			switch s := n.(type) {
			case *ast.AssignStmt:
				cd := ctrlDeps(s)
				for i, l := range s.Lhs {
					id, ok := l.(*ast.Ident)
					if !ok {
						continue
					}
					var rhs ast.Expr
					if len(s.Rhs) == len(s.Lhs) {
						rhs = s.Rhs[i]
					} else if len(s.Rhs) == 1 {
						rhs = s.Rhs[0]
					}
					add(info.ObjectOf(id), exprDeps(rhs))
					add(info.ObjectOf(id), cd)
				}
			case *ast.ValueSpec:
				for i, nm := range s.Names {
					if i < len(s.Values) {
						add(info.ObjectOf(nm), exprDeps(s.Values[i]))
					}
				}
			}
			return true
		})
	}
	return func(e ast.Expr) depSet { return exprDeps(e) }, ctrlDeps
}

func depNames(d depSet) string {
	var s []string
	for o := range d {
		s = append(s, o.Name())
	}
	sort.Strings(s)
	return "{" + strings.Join(s, ",") + "}"
}

// ruleCacheKey: the compiled-pattern cache is a memo table; every parameter that influences the
// compiled value must also select the table or the key, otherwise one flavour's compilation is
// served for the other (POSIX leftmost-longest and multi-line anchors vs. RE2 semantics).
func ruleCacheKey(c *Ctx, r *Report) {
	r.Rule("R-CACHE-KEY", "in regexpCache.compilePattern every parameter the compiled regexp depends on (pattern text, POSIX flag) also determines the cache slot (which map, which key) at the store and at every lookup", 2)
	f := c.MustFunc(r, "ytypes", "regexpCache.compilePattern")
	if f == nil {
		return
	}
	info := f.Info()
	exprDeps, ctrlDeps := c.paramDeps(f)
	recv := map[types.Object]bool{}
	if f.Decl.Recv != nil {
		for _, fl := range f.Decl.Recv.List {
			for _, n := range fl.Names {
				recv[info.ObjectOf(n)] = true
			}
		}
	}
	isMapIndex := func(e ast.Expr) (*ast.IndexExpr, bool) {
		ix, ok := ast.Unparen(e).(*ast.IndexExpr)
		if !ok {
			return nil, false
		}
		tv, ok := info.Types[ix.X]
		if !ok || tv.Type == nil {
			return nil, false
		}
		_, isMap := tv.Type.Underlying().(*types.Map)
		return ix, isMap
	}
	// stores
	need := depSet{}
	type site struct {
		ix    *ast.IndexExpr
		store bool
	}
	var sites []site
	stored := map[*ast.IndexExpr]bool{}
	ast.Inspect(f.Decl.Body, func(n ast.Node) bool {
		as, ok := n.(*ast.AssignStmt)
		if !ok {
			return true
		}
		for i, l := range as.Lhs {
			ix, ok := isMapIndex(l)
			if !ok || len(as.Rhs) != len(as.Lhs) {
				continue
			}
			stored[ix] = true
			sites = append(sites, site{ix, true})
			for d := range exprDeps(as.Rhs[i]) {
				need[d] = true
			}
			for d := range ctrlDeps(as) {
				need[d] = true
			}
		}
		return true
	})
	ast.Inspect(f.Decl.Body, func(n ast.Node) bool {
		if e, ok := n.(ast.Expr); ok {
			if ix, ok := isMapIndex(e); ok && ix == e && !stored[ix] {
				sites = append(sites, site{ix, false})
			}
		}
		return true
	})
	// helpers that receive the map and the key as parameters (an extracted lookup/store function).
	type hsite struct {
		at       ast.Expr
		have     depSet
		store    bool
		describe string
	}
	var hsites []hsite
	ast.Inspect(f.Decl.Body, func(n ast.Node) bool {
		call, ok := n.(*ast.CallExpr)
		if !ok {
			return true
		}
		h := c.funcOfCallee(Callee(info, call))
		if h == nil || h == f {
			return true
		}
		hinfo := h.Info()
		hp := paramObjs(h)
		idx := func(o types.Object) int {
			for i, p := range hp {
				if p == o {
					return i
				}
			}
			return -1
		}
		ast.Inspect(h.Decl.Body, func(m ast.Node) bool {
			ix, ok := m.(*ast.IndexExpr)
			if !ok {
				return true
			}
			tv, ok := hinfo.Types[ix.X]
			if !ok || tv.Type == nil {
				return true
			}
			if _, isMap := tv.Type.Underlying().(*types.Map); !isMap {
				return true
			}
			mi, ki := idx(ObjOf(hinfo, ix.X)), idx(ObjOf(hinfo, ix.Index))
			if mi < 0 || ki < 0 || mi >= len(call.Args) || ki >= len(call.Args) {
				return true
			}
			have := exprDeps(call.Args[mi])
			for d := range exprDeps(call.Args[ki]) {
				have[d] = true
			}
			st := false
			ast.Inspect(h.Decl.Body, func(q ast.Node) bool {
				if as, ok := q.(*ast.AssignStmt); ok {
					for i, l := range as.Lhs {
						if l == ast.Expr(ix) && len(as.Rhs) == len(as.Lhs) {
							st = true
							if vi := idx(ObjOf(hinfo, as.Rhs[i])); vi >= 0 && vi < len(call.Args) {
								for d := range exprDeps(call.Args[vi]) {
									need[d] = true
								}
								for d := range ctrlDeps(call) {
									need[d] = true
								}
							}
						}
					}
				}
				return true
			})
			hsites = append(hsites, hsite{call, have, st, types.ExprString(call) + " → " + types.ExprString(ix)})
			return true
		})
		return true
	})
	for o := range need {
		if recv[o] {
			delete(need, o)
		}
	}
	nStore, nLookup := 0, 0
	for _, hs := range hsites {
		var missing []string
		for d := range need {
			if !hs.have[d] {
				missing = append(missing, d.Name())
			}
		}
		sort.Strings(missing)
		kind := "lookup"
		if hs.store {
			kind = "store"
			nStore++
		} else {
			nLookup++
		}
		idx := nLookup
		if hs.store {
			idx = nStore
		}
		r.Check(len(missing) == 0, fmt.Sprintf("ytypes.regexpCache.compilePattern:%s#%d", kind, idx), c.Pos(hs.at.Pos()),
			"slot "+hs.describe+" depends on "+depNames(hs.have)+" ⊇ value dependencies "+depNames(need),
			fmt.Sprintf("the cached regexp depends on %s but the cache %s %s does not depend on %s: a pattern compiled for one flavour is returned for the other", depNames(need), kind, hs.describe, strings.Join(missing, ",")))
	}
	for _, s := range sites {
		have := exprDeps(s.ix.X)
		for d := range exprDeps(s.ix.Index) {
			have[d] = true
		}
		var missing []string
		for d := range need {
			if !have[d] {
				missing = append(missing, d.Name())
			}
		}
		sort.Strings(missing)
		kind := "lookup"
		if s.store {
			kind = "store"
			nStore++
		} else {
			nLookup++
		}
		idx := nLookup
		if s.store {
			idx = nStore
		}
		key := fmt.Sprintf("ytypes.regexpCache.compilePattern:%s#%d", kind, idx)
		r.Check(len(missing) == 0, key, c.Pos(s.ix.Pos()),
			"slot "+types.ExprString(s.ix)+" depends on "+depNames(have)+" ⊇ value dependencies "+depNames(need),
			fmt.Sprintf("the cached regexp depends on %s but the cache %s %s does not depend on %s: a pattern compiled for one flavour is returned for the other (e.g. the POSIX compilation of ^(ab*)$ — multi-line anchors — is served for the YANG pattern ab*)", depNames(need), kind, types.ExprString(s.ix), strings.Join(missing, ",")))
	}
	if nStore == 0 || nLookup == 0 {
		r.Und("ytypes.regexpCache.compilePattern:shape", c.Pos(f.Decl.Pos()), fmt.Sprintf("expected a map store and a map lookup in compilePattern (found %d/%d): the cache shape changed, re-confirm the rule", nStore, nLookup))
	}
}

// ---- R-FMT-CONST (C08, C02, C16) ---------------------------------------------------

var printfLike = map[string]int{
	"fmt.Sprintf": 0, "fmt.Printf": 0, "fmt.Errorf": 0, "fmt.Fprintf": 1, "fmt.Appendf": 1,
	"google.golang.org/grpc/status.Errorf": 1, "google.golang.org/grpc/status.Newf": 1,
}

// ruleFmtConst: data never reaches the format-string position of a printf-style call.
func ruleFmtConst(c *Ctx, r *Report, fs []*FuncInfo, floor int) {
	r.Rule("R-FMT-CONST", "in the path/key string encoders every printf-style call has a constant format string: a key name or value in format position is interpreted ('%' becomes a verb) and the rendered string no longer contains the value", floor)
	for _, f := range fs {
		info := f.Info()
		n, bad := 0, 0
		ast.Inspect(f.Decl.Body, func(x ast.Node) bool {
			call, ok := x.(*ast.CallExpr)
			if !ok {
				return true
			}
			idx, ok := printfLike[FullName(Callee(info, call))]
			if !ok || idx >= len(call.Args) {
				return true
			}
			n++
			if tv, ok := info.Types[call.Args[idx]]; ok && tv.Value != nil {
				return true
			}
			bad++
			r.Bad(fmt.Sprintf("%s:format#%d", f.Name, bad), c.Pos(call.Pos()), fmt.Sprintf("%s passes the non-constant %s as format string to %s: any '%%' in the data is read as a formatting verb (fe80::1%%eth0 is rendered as fe80::1%%!e(MISSING)th0)", f.Name, types.ExprString(call.Args[idx]), FullName(Callee(info, call))))
			return true
		})
		if bad == 0 && n > 0 {
			r.OK(f.Name+":format", c.Pos(f.Decl.Pos()), fmt.Sprintf("%d printf-style calls, all with constant format strings", n))
		}
	}
}

// ---- R-KEY-EXACT (C10, C16, C12) ----------------------------------------------------

// ruleKeyExact: list entries are selected by exact string equality between the key given in the
// path and the entry's rendered key.
func ruleKeyExact(c *Ctx, r *Report) {
	r.Rule("R-KEY-EXACT", "in ytypes' retrieveNode family a key taken from the gNMI path is compared with an entry's key by == / != on the bare strings (or with the constant \"*\"): no function is applied to either side, so two distinct key strings never select the same entry", 3)
	for _, name := range []string{"retrieveNodeList", "retrieveNodeOrderedList"} {
		f := c.MustFunc(r, "ytypes", name)
		if f == nil {
			continue
		}
		info := f.Info()
		// path-key variables: strings bound by indexing a map[string]string.
		pk := map[types.Object]bool{}
		ast.Inspect(f.Decl.Body, func(n ast.Node) bool {
			as, ok := n.(*ast.AssignStmt)
			if !ok || len(as.Rhs) != 1 {
				return true
			}
			ix, ok := ast.Unparen(as.Rhs[0]).(*ast.IndexExpr)
			if !ok {
				return true
			}
			tv, ok := info.Types[ix.X]
			if !ok || tv.Type == nil {
				return true
			}
			m, ok := tv.Type.Underlying().(*types.Map)
			if !ok {
				return true
			}
			kb, ok1 := m.Key().Underlying().(*types.Basic)
			vb, ok2 := m.Elem().Underlying().(*types.Basic)
			if !ok1 || !ok2 || kb.Kind() != types.String || vb.Kind() != types.String {
				return true
			}
			if o := ObjOf(info, as.Lhs[0]); o != nil {
				pk[o] = true
			}
			return true
		})
		mentions := func(e ast.Expr) bool {
			found := false
			ast.Inspect(e, func(n ast.Node) bool {
				if id, ok := n.(*ast.Ident); ok && pk[info.ObjectOf(id)] {
					found = true
				}
				return true
			})
			return found
		}
		bare := func(e ast.Expr) bool {
			e = ast.Unparen(e)
			if tv, ok := info.Types[e]; ok && tv.Value != nil {
				return true
			}
			if _, ok := e.(*ast.Ident); ok {
				return true
			}
			// a value canonicaliser (parse to the key's type, render again) merges only spellings of
			// one key value: "1.0" and "1" are the same decimal64.
			if call, ok := e.(*ast.CallExpr); ok {
				return c.isKeyCanonicaliser(c.funcOfCallee(Callee(info, call)))
			}
			return false
		}
		n := 0
		ast.Inspect(f.Decl.Body, func(x ast.Node) bool {
			switch e := x.(type) {
			case *ast.BinaryExpr:
				if e.Op != token.EQL && e.Op != token.NEQ || !(mentions(e.X) || mentions(e.Y)) {
					return true
				}
				n++
				key := fmt.Sprintf("ytypes.%s:key-compare#%d", name, n)
				r.Check(bare(e.X) && bare(e.Y), key, c.Pos(e.Pos()), "exact comparison "+types.ExprString(e),
					fmt.Sprintf("%s compares list keys through a function (%s): distinct key strings that the function maps to the same result (rtr1:eth0 / rtr2:eth0 under StripModulePrefix) select the same entry, so SetNode writes into, and GetNode returns, an entry other than the one named by the path", name, types.ExprString(e)))
			case *ast.CallExpr:
				// a path key handed to a comparison helper instead of ==.
				switch fn := FullName(Callee(info, e)); fn {
				case "strings.EqualFold", "strings.HasPrefix", "strings.HasSuffix", "strings.Contains", "strings.Compare":
					for _, a := range e.Args {
						if mentions(a) {
							n++
							r.Bad(fmt.Sprintf("ytypes.%s:key-compare#%d", name, n), c.Pos(e.Pos()), fmt.Sprintf("%s matches a path key with %s instead of exact equality", name, fn))
							break
						}
					}
				}
			}
			return true
		})
	}
}

// ---- R-LOSSY-NUM (C10, C02) ----------------------------------------------------------

// lossyNumExceptions: reviewed conversions, keyed by function and operand text.
var lossyNumExceptions = map[string]string{
	"ytypes.checkJSONFloat64Range|minMax[t].min": "table bound of an at most 32-bit type: exactly representable",
	"ytypes.checkJSONFloat64Range|minMax[t].max": "table bound of an at most 32-bit type: exactly representable",
}

// ruleLossyNum: 64-bit integers are not converted to floating point in the value decoders; the
// conversion rounds above 2^53 and a following division rounds again.
func ruleLossyNum(c *Ctx, r *Report, fs []*FuncInfo, floor int) {
	r.Rule("R-LOSSY-NUM", "value decoders never convert a 64-bit integer to float64/float32 (not exact above 2^53; followed by a division the result is rounded twice and differs from the nearest float64 of the decimal value): decimal64 digits are scaled with exact rational arithmetic", floor)
	for _, f := range fs {
		info := f.Info()
		n, bad := 0, 0
		ast.Inspect(f.Decl.Body, func(x ast.Node) bool {
			call, ok := x.(*ast.CallExpr)
			if !ok || len(call.Args) != 1 {
				return true
			}
			tv, ok := info.Types[call.Fun]
			if !ok || !tv.IsType() {
				return true
			}
			tb, ok := tv.Type.Underlying().(*types.Basic)
			if !ok || tb.Info()&types.IsFloat == 0 {
				return true
			}
			n++
			at, ok := info.Types[call.Args[0]]
			if !ok || at.Value != nil {
				return true
			}
			ab, ok := at.Type.Underlying().(*types.Basic)
			if !ok {
				return true
			}
			switch ab.Kind() {
			case types.Int64, types.Uint64, types.Int, types.Uint, types.Uintptr:
			default:
				return true
			}
			k := f.Name + "|" + canonExprString(f, call.Args[0])
			if why, ok := lossyNumExceptions[k]; ok {
				r.Exc(fmt.Sprintf("%s:float(%s)", f.Name, types.ExprString(call.Args[0])), c.Pos(call.Pos()), why)
				return true
			}
			bad++
			r.Bad(fmt.Sprintf("%s:float-of-int64#%d", f.Name, bad), c.Pos(call.Pos()), fmt.Sprintf("%s converts the 64-bit integer %s to floating point: above 2^53 the conversion rounds, so the decoded value is not the nearest float64 of what was sent (decimal_val 9007199254740993e-2 decodes one ulp off) and GetNode returns a value different from the one set", f.Name, types.ExprString(call.Args[0])))
			return true
		})
		if n > 0 && bad == 0 {
			r.OK(f.Name+":float-conversions", c.Pos(f.Decl.Pos()), fmt.Sprintf("%d conversions to floating point, none from a 64-bit integer variable", n))
		}
	}
}

// ---- R-INT-BASE (C16, C10, C02) ------------------------------------------------------

// ruleIntBase: the renderers write integers in decimal; the parsers must read decimal only.
func ruleIntBase(c *Ctx, r *Report) {
	r.Rule("R-INT-BASE", "every strconv.ParseInt/ParseUint in ytypes' key and value parsers and every strconv.FormatInt/FormatUint in ygot's renderers uses the constant base 10: with base 0 the strings 0x10, 0b11, 0o7, 1_000 parse as integers, so a string member of a union key is turned into a different (integer) key", 4)
	scope := func(s string) bool {
		return s == "ytypes/util_types.go" || s == "ytypes/leaf.go" || s == "ytypes/list.go" || s == "ytypes/node.go" || s == "ygot/render.go" || s == "util/reflect.go"
	}
	for _, f := range c.funcsInScope(scope, libPkgs) {
		info := f.Info()
		n := 0
		ast.Inspect(f.Decl.Body, func(x ast.Node) bool {
			call, ok := x.(*ast.CallExpr)
			if !ok {
				return true
			}
			fn := FullName(Callee(info, call))
			switch fn {
			case "strconv.ParseInt", "strconv.ParseUint", "strconv.FormatInt", "strconv.FormatUint":
			default:
				return true
			}
			if len(call.Args) < 2 {
				return true
			}
			n++
			base, isConst := ConstOf(info, call.Args[1])
			r.Check(isConst && base == "10", fmt.Sprintf("%s:%s#%d:base", f.Name, strings.TrimPrefix(fn, "strconv."), n), c.Pos(call.Pos()), "base 10",
				fmt.Sprintf("%s calls %s with base %s: key and value strings are rendered in decimal, and a non-decimal base makes strings such as \"0x10\" or \"1_000\" parse as integers (a union{uint32,string} key \"0x10\" becomes the integer key 16 and can no longer be addressed)", f.Name, fn, types.ExprString(call.Args[1])))
			return true
		})
	}
}

// ---- R-EMPTY-LEAFLIST (C02, C03) -----------------------------------------------------

// emptyLeafListCond: cond is a conjunction that holds exactly for empty leaf-lists — one
// conjunct `X.Len() == 0`, at least one conjunct excluding the Binary leaf type (a zero-length
// binary is a value), and nothing else but slice-kind tests.
func emptyLeafListCond(info *types.Info, cond ast.Expr) bool {
	var cs []ast.Expr
	flattenAnd(cond, &cs)
	lenZero, notBinary := false, false
	for _, e := range cs {
		e = ast.Unparen(e)
		switch x := e.(type) {
		case *ast.BinaryExpr:
			isConst := func(y ast.Expr, want string) bool {
				v, ok := ConstOf(info, y)
				return ok && strings.Trim(v, `"`) == want
			}
			lenCall := func(y ast.Expr) bool {
				call, ok := ast.Unparen(y).(*ast.CallExpr)
				return ok && FullName(Callee(info, call)) == "reflect.Value.Len"
			}
			switch {
			case x.Op == token.EQL && (lenCall(x.X) && isConst(x.Y, "0") || lenCall(x.Y) && isConst(x.X, "0")):
				lenZero = true
				continue
			case x.Op == token.NEQ && (isConst(x.X, "Binary") || isConst(x.Y, "Binary")):
				notBinary = true
				continue
			case x.Op == token.EQL && (constName(info, x.X) == "reflect.Slice" || constName(info, x.Y) == "reflect.Slice"):
				continue
			}
			return false
		case *ast.CallExpr:
			if FullName(Callee(info, x)) == P("util")+".IsValueSlice" {
				continue
			}
			return false
		default:
			return false
		}
	}
	return lenZero && notBinary
}

// nonEmptyFacts: a set of facts excludes an empty leaf-list — through the negation of the whole
// "empty leaf-list" condition, through Len() != 0, or (facts read off control-flow edges, where
// && has been lowered) through the refutation of one of that condition's conjuncts.
func nonEmptyFacts(info *types.Info, facts []Fact) (bool, string) {
	isLen := func(e ast.Expr) bool {
		call, ok := ast.Unparen(e).(*ast.CallExpr)
		return ok && FullName(Callee(info, call)) == "reflect.Value.Len"
	}
	for _, ft := range facts {
		if ft.Kind != "cond" {
			continue
		}
		if !ft.Pos && emptyLeafListCond(info, ft.Cond) {
			return true, "not (" + types.ExprString(ft.Cond) + ")"
		}
		switch x := ast.Unparen(ft.Cond).(type) {
		case *ast.BinaryExpr:
			zero := false
			if v, ok := ConstOf(info, x.Y); ok && v == "0" {
				zero = true
			}
			switch {
			case isLen(x.X) && zero && ft.Pos && (x.Op == token.NEQ || x.Op == token.GTR):
				return true, types.ExprString(ft.Cond)
			case isLen(x.X) && zero && !ft.Pos && x.Op == token.EQL:
				return true, "not " + types.ExprString(ft.Cond)
			case !ft.Pos && x.Op == token.EQL && (constName(info, x.X) == "reflect.Slice" || constName(info, x.Y) == "reflect.Slice"):
				return true, "not a slice"
			case !ft.Pos && x.Op == token.NEQ:
				for _, side := range []ast.Expr{x.X, x.Y} {
					if v, ok := ConstOf(info, side); ok && strings.Trim(v, `"`) == "Binary" {
						return true, "a Binary leaf"
					}
				}
			}
		case *ast.CallExpr:
			if !ft.Pos && FullName(Callee(info, x)) == P("util")+".IsValueSlice" {
				return true, "not a slice"
			}
		}
	}
	return false, ""
}

// nonEmptyAt: an empty leaf-list cannot reach n — by the lexical facts, or on every control-flow path.
func nonEmptyAt(c *Ctx, f *FuncInfo, n ast.Node) (bool, string) {
	info := f.Info()
	if ok, why := nonEmptyFacts(info, c.FactsAt(f, n, true)); ok {
		return true, why
	}
	why := ""
	if holds, decided := c.EveryPath(f, n, func(facts []Fact) bool {
		ok, w := nonEmptyFacts(info, facts)
		if ok {
			why = w
		}
		return ok
	}); decided && holds {
		return true, "on every path: " + why
	}
	return false, ""
}

// ruleEmptyLeafList: writer/reader agreement on leaf-lists without entries. ytypes' gNMI decoder
// refuses a leaflist_val with no elements; as long as it does, no writer may emit one.
func ruleEmptyLeafList(c *Ctx, r *Report) {
	r.Rule("R-EMPTY-LEAFLIST", "while ytypes.unmarshalLeafList rejects a gNMI leaf-list value without elements, the notification writers (findUpdatedLeaves for TogNMINotifications, findSetLeaves for Diff) emit a slice-valued leaf only where an empty leaf-list is excluded (a zero-length Binary leaf is a value and must still be emitted)", 2)
	dec := c.MustFunc(r, "ytypes", "unmarshalLeafList")
	if dec == nil {
		return
	}
	dinfo := dec.Info()
	rejects := false
	var at token.Pos
	ast.Inspect(dec.Decl.Body, func(n ast.Node) bool {
		is, ok := n.(*ast.IfStmt)
		if !ok {
			return true
		}
		be, ok := ast.Unparen(is.Cond).(*ast.BinaryExpr)
		if !ok || be.Op != token.EQL {
			return true
		}
		call, ok := ast.Unparen(be.X).(*ast.CallExpr)
		if !ok {
			return true
		}
		id, ok := call.Fun.(*ast.Ident)
		if !ok || id.Name != "len" || len(call.Args) != 1 || !strings.Contains(types.ExprString(call.Args[0]), "GetElement") {
			return true
		}
		if v, ok := ConstOf(dinfo, be.Y); !ok || v != "0" {
			return true
		}
		for _, s := range is.Body.List {
			if rs, ok := s.(*ast.ReturnStmt); ok && len(rs.Results) == 1 && !dinfo.Types[rs.Results[0]].IsNil() {
				rejects, at = true, is.Pos()
			}
		}
		return true
	})
	if !rejects {
		r.OK("ytypes.unmarshalLeafList:empty-accepted", c.Pos(dec.Decl.Pos()), "the decoder has no arm rejecting an empty leaflist_val: writers may emit one")
		r.OK("ygot.findUpdatedLeaves:leaf-list-emission", c.Pos(dec.Decl.Pos()), "not constrained (decoder accepts empty leaf-lists)")
		r.OK("ygot.findSetLeaves:leaf-list-emission", c.Pos(dec.Decl.Pos()), "not constrained (decoder accepts empty leaf-lists)")
		return
	}
	r.Note("ytypes.unmarshalLeafList:rejects-empty", c.Pos(at), "decoder returns an error for len(elements) == 0")
	// writer 1: findUpdatedLeaves, Slice arm.
	if f := c.MustFunc(r, "ygot", "findUpdatedLeaves"); f != nil {
		info := f.Info()
		emit := leafEmitters(f)
		n := 0
		ast.Inspect(f.Decl.Body, func(x ast.Node) bool {
			call, ok := x.(*ast.CallExpr)
			if !ok {
				return true
			}
			id, ok := call.Fun.(*ast.Ident)
			if !ok || !emit[info.ObjectOf(id)] {
				return true
			}
			inSlice := false
			for _, ft := range c.FactsAt(f, call, false) {
				if ft.Kind == "switch" {
					for _, v := range ft.Vals {
						if constName(info, v) == "reflect.Slice" {
							inSlice = true
						}
					}
				}
			}
			if !inSlice {
				return true
			}
			n++
			ok2, why := nonEmptyAt(c, f, call)
			r.Check(ok2, fmt.Sprintf("ygot.findUpdatedLeaves:leaf-list-emission#%d", n), c.Pos(call.Pos()), "empty leaf-lists excluded: "+why,
				"findUpdatedLeaves emits every non-nil slice, also a leaf-list with no entries ([]string{}): TogNMINotifications produces an update with an empty leaflist_val, which UnmarshalNotifications rejects (\"got empty leaf list\")")
			return true
		})
		if n == 0 {
			r.Und("ygot.findUpdatedLeaves:leaf-list-emission", c.Pos(f.Decl.Pos()), "no addLeaf call found in the reflect.Slice arm: the shape changed, re-confirm the rule")
		}
	}
	// writer 2: findSetLeaves' recording store.
	if f := c.MustFunc(r, "ygot", "findSetLeaves"); f != nil {
		n := 0
		ast.Inspect(f.Decl.Body, func(x ast.Node) bool {
			as, ok := x.(*ast.AssignStmt)
			if !ok || len(as.Lhs) != 1 {
				return true
			}
			ix, ok := as.Lhs[0].(*ast.IndexExpr)
			if !ok || types.ExprString(ix.X) != "outs" {
				return true
			}
			n++
			ok2, why := nonEmptyAt(c, f, as)
			r.Check(ok2, fmt.Sprintf("ygot.findSetLeaves:leaf-list-emission#%d", n), c.Pos(as.Pos()), "empty leaf-lists excluded: "+why,
				"findSetLeaves records every non-nil slice as a set leaf, also a leaf-list with no entries: Diff(a, b) contains an update with an empty leaflist_val that cannot be applied to a (SetNode rejects it), and an emptied leaf-list is never reported as deleted")
			return true
		})
		if n == 0 {
			r.Und("ygot.findSetLeaves:leaf-list-emission", c.Pos(f.Decl.Pos()), "recording store outs[...] not found: the shape changed, re-confirm the rule")
		}
	}
}

// ---- R-ANCHOR-GROUP (C06) --------------------------------------------------------------

// ruleAnchorGroup: fixYangRegexp turns an implicitly anchored XSD pattern into ^…$. Anchors bind
// tighter than '|', so the pattern body must be grouped on both first-rune branches: when the
// anchor is added (pattern does not start with '^') and when the pattern brings its own '^'
// (grouping may then be limited to patterns that contain '|').
func ruleAnchorGroup(c *Ctx, r *Report) {
	r.Rule("R-ANCHOR-GROUP", "util.fixYangRegexp opens a group after the leading anchor on both first-rune branches — unconditionally when it adds the '^' itself, and at least for patterns containing '|' when the pattern starts with '^' — and every group it opens sets the flag under which the closing ')' is written; otherwise ^ and $ bind to the first and last alternative only and values that merely start or end with an alternative are accepted", 2)
	f := c.MustFunc(r, "util", "fixYangRegexp")
	if f == nil {
		return
	}
	info := f.Info()
	pm := c.parentMap(f.File)
	isWrite := func(n ast.Node, ch string) bool {
		call, ok := n.(*ast.CallExpr)
		if !ok || len(call.Args) != 1 {
			return false
		}
		fn := FullName(Callee(info, call))
		if !strings.HasSuffix(fn, "Buffer.WriteRune") && !strings.HasSuffix(fn, "Builder.WriteRune") && !strings.HasSuffix(fn, "Buffer.WriteByte") && !strings.HasSuffix(fn, "Builder.WriteByte") && !strings.HasSuffix(fn, "Buffer.WriteString") && !strings.HasSuffix(fn, "Builder.WriteString") {
			return false
		}
		tv, ok := info.Types[call.Args[0]]
		if !ok || tv.Value == nil {
			return false
		}
		v := tv.Value.ExactString()
		return v == fmt.Sprint(int(ch[0])) || strings.Trim(v, `"`) == ch
	}
	// the flag under which ')' is written.
	closeFlags := map[types.Object]bool{}
	ast.Inspect(f.Decl.Body, func(n ast.Node) bool {
		if !isWrite(n, ")") {
			return true
		}
		for _, ft := range c.FactsAt(f, n, false) {
			if ft.Kind == "cond" && ft.Pos {
				if id, ok := ast.Unparen(ft.Cond).(*ast.Ident); ok {
					closeFlags[info.ObjectOf(id)] = true
				}
			}
		}
		return true
	})
	mentionsBar := func(e ast.Expr) bool {
		found := false
		var visit func(e ast.Node, depth int)
		visit = func(e ast.Node, depth int) {
			ast.Inspect(e, func(n ast.Node) bool {
				switch x := n.(type) {
				case *ast.CallExpr:
					fn := FullName(Callee(info, x))
					if (fn == "strings.Contains" || fn == "strings.ContainsRune" || fn == "strings.ContainsAny" || fn == "strings.IndexByte" || fn == "strings.IndexRune" || fn == "strings.Index") && len(x.Args) == 2 {
						if v, ok := ConstOf(info, x.Args[1]); ok && (strings.Trim(v, `"`) == "|" || v == "124") {
							found = true
						}
					}
				case *ast.Ident:
					if depth < 3 {
						if d := singleDef(f, info.ObjectOf(x)); d != nil {
							visit(d, depth+1)
						}
					}
				}
				return true
			})
		}
		visit(e, 0)
		return found
	}
	added, own := false, false
	n := 0
	ast.Inspect(f.Decl.Body, func(x ast.Node) bool {
		if !isWrite(x, "(") {
			return true
		}
		n++
		key := fmt.Sprintf("util.fixYangRegexp:group-open#%d", n)
		// the enclosing block sets a close flag.
		sets := false
		var blk *ast.BlockStmt
		for p := pm[x]; p != nil; p = pm[p] {
			if b, ok := p.(*ast.BlockStmt); ok {
				blk = b
				break
			}
		}
		if blk != nil {
			for _, s := range blk.List {
				if as, ok := s.(*ast.AssignStmt); ok && len(as.Lhs) == 1 && len(as.Rhs) == 1 && closeFlags[ObjOf(info, as.Lhs[0])] {
					if v, ok := ConstOf(info, as.Rhs[0]); ok && v == "true" {
						sets = true
					}
				}
			}
		}
		if !sets {
			r.Bad(key, c.Pos(x.Pos()), "fixYangRegexp opens a group without setting the flag under which the closing ')' is written: the result does not compile, and a pattern that does not compile makes every value fail")
			return true
		}
		first, notCaret, other, bar := false, false, false, false
		for _, ft := range c.FactsAt(f, x, false) {
			if ft.Kind != "cond" {
				continue
			}
			s := types.ExprString(ft.Cond)
			switch {
			case ft.Pos && s == "i == 0":
				first = true
			case ft.Pos && s == "ch != '^'", !ft.Pos && s == "ch == '^'":
				notCaret = true
			case ft.Pos && s == "ch == '^'", !ft.Pos && s == "ch != '^'", ft.Pos && s == `strings.HasPrefix(pattern, "^")`:
			case ft.Pos && mentionsBar(ft.Cond):
				bar = true
			default:
				other = true
			}
		}
		switch {
		case !first || other:
			r.Und(key, c.Pos(x.Pos()), "a group is opened under conditions the rule does not recognise (expected i == 0, a test of ch against '^', and optionally a test that the pattern contains '|')")
		case notCaret && !bar:
			added = true
			r.OK(key, c.Pos(x.Pos()), "group opened whenever the leading '^' is added by fixYangRegexp")
		case notCaret && bar:
			r.Bad(key, c.Pos(x.Pos()), "when fixYangRegexp adds the leading '^' it groups the pattern only if it contains '|': not wrong by itself, but the closing logic expects the group")
		default:
			own = true
			if bar {
				r.OK(key, c.Pos(x.Pos()), "group opened after the pattern's own '^' when the pattern contains '|'")
			} else {
				r.OK(key, c.Pos(x.Pos()), "group opened after the pattern's own '^'")
			}
		}
		return true
	})
	if !added {
		r.Bad("util.fixYangRegexp:group-open:anchor-added", c.Pos(f.Decl.Pos()), "fixYangRegexp adds '^' without opening a group: for a|b the result ^a|b$ accepts every value that starts with a or ends with b")
	}
	if !own {
		r.Bad("util.fixYangRegexp:group-open:own-caret", c.Pos(f.Decl.Pos()), "for a pattern that starts with '^' fixYangRegexp never opens a group: `^a|b` becomes `^a|b$`, which accepts \"axyz\" and \"xyzb\" (anchors bind to the first and last alternative only)")
	}
}

// ---- R-PREFIX-PAIR (C02) -----------------------------------------------------------------

// rulePrefixPair: the prefix configured for TogNMINotifications is used consistently: leaf paths
// are built below it, stripped of exactly it, and it is what the notification carries.
func rulePrefixPair(c *Ctx, r *Report) {
	r.Rule("R-PREFIX-PAIR", "TogNMINotifications builds every leaf path below one prefix value and hands the same value to leavesToNotifications; that function stores it (ToProto) in Notification.Prefix and adds every non-atomic leaf through addToNotification with the same prefix, which strips exactly that prefix (error returned) before the update path is formed; atomic subtrees carry their own full path as prefix", 6)
	Y := P("ygot")
	if f := c.MustFunc(r, "ygot", "TogNMINotifications"); f != nil {
		info := f.Info()
		var a, b types.Object
		for _, call := range CallsIn(info, f.Decl.Body, Y+".findUpdatedLeaves") {
			if len(call.Args) >= 3 {
				a = ObjOf(info, call.Args[2])
			}
		}
		for _, call := range CallsIn(info, f.Decl.Body, Y+".leavesToNotifications") {
			if len(call.Args) >= 3 {
				b = ObjOf(info, call.Args[2])
			}
		}
		r.Check(a != nil && a == b, "ygot.TogNMINotifications:one-prefix", c.Pos(f.Decl.Pos()), "findUpdatedLeaves(…, pfx, …) and leavesToNotifications(…, pfx) receive the same variable",
			"the prefix below which leaf paths are built is not the one leavesToNotifications strips and publishes: paths lose the wrong elements or stripping fails")
		// its definitions come from the configuration's prefix fields.
		okDef := a != nil
		if a != nil {
			for _, d := range allDefs(f, a) {
				s := types.ExprString(d)
				if !strings.Contains(s, "cfg.PathElemPrefix") && !strings.Contains(s, "cfg.StringSlicePrefix") {
					okDef = false
				}
			}
			if len(allDefs(f, a)) == 0 {
				okDef = false
			}
		}
		r.Check(okDef, "ygot.TogNMINotifications:prefix-from-config", c.Pos(f.Decl.Pos()), "prefix built from cfg.PathElemPrefix / cfg.StringSlicePrefix only", "the prefix is not (only) the one configured by the caller")
	}
	if f := c.MustFunc(r, "ygot", "leavesToNotifications"); f != nil {
		info := f.Info()
		ps := paramObjs(f)
		if len(ps) < 3 {
			r.Und("ygot.leavesToNotifications:signature", c.Pos(f.Decl.Pos()), "expected (leaves, ts, pfx)")
			return
		}
		pfx := ps[2]
		// n.Prefix = p where p := pfx.ToProto()
		okPrefix := false
		ast.Inspect(f.Decl.Body, func(n ast.Node) bool {
			as, ok := n.(*ast.AssignStmt)
			if !ok || len(as.Lhs) != 1 || len(as.Rhs) != 1 {
				return true
			}
			sel, ok := as.Lhs[0].(*ast.SelectorExpr)
			if !ok || sel.Sel.Name != "Prefix" {
				return true
			}
			rhs := ast.Unparen(as.Rhs[0])
			if id, ok := rhs.(*ast.Ident); ok {
				if d := singleDef(f, info.ObjectOf(id)); d != nil {
					rhs = ast.Unparen(d)
				}
			}
			if call, ok := rhs.(*ast.CallExpr); ok && FullName(Callee(info, call)) == Y+".gnmiPath.ToProto" {
				if s, ok := call.Fun.(*ast.SelectorExpr); ok && ObjOf(info, s.X) == pfx {
					okPrefix = errTestedAfter(c, f, f.Decl.Body, call)
				}
			}
			return true
		})
		r.Check(okPrefix, "ygot.leavesToNotifications:Prefix=pfx.ToProto()", c.Pos(f.Decl.Pos()), "Notification.Prefix is the prefix parameter's proto form (conversion error returned)", "the notification's Prefix is not the proto form of the prefix parameter")
		calls := CallsIn(info, f.Decl.Body, Y+".addToNotification")
		okAdd := len(calls) > 0
		for _, call := range calls {
			if len(call.Args) < 4 || ObjOf(info, call.Args[3]) != pfx {
				okAdd = false
			}
		}
		r.Check(okAdd, "ygot.leavesToNotifications:addToNotification(…, pfx)", c.Pos(f.Decl.Pos()), "every leaf is added with the prefix parameter", "a leaf is added with a prefix other than the one published in Notification.Prefix")
		// atomic subtrees: the subtree's own path, checked to lie under the prefix.
		okAtomic := false
		for _, call := range CallsIn(info, f.Decl.Body, Y+".createAtomicNotif") {
			if len(call.Args) >= 3 {
				if id, ok := ast.Unparen(call.Args[2]).(*ast.Ident); ok {
					if d := singleDef(f, info.ObjectOf(id)); d != nil && strings.HasSuffix(types.ExprString(d), ".p") {
						okAtomic = true
					}
				}
			}
		}
		r.Check(okAtomic, "ygot.leavesToNotifications:atomic-prefix=subtree-path", c.Pos(f.Decl.Pos()), "atomic notifications carry the subtree's full path as prefix", "atomic notifications no longer use the subtree's own path as prefix")
	}
	if f := c.MustFunc(r, "ygot", "addToNotification"); f != nil {
		info := f.Info()
		ps := paramObjs(f)
		ok := false
		var stripped types.Object
		for _, call := range CallsIn(info, f.Decl.Body, Y+".gnmiPath.StripPrefix") {
			if len(ps) >= 4 && len(call.Args) == 1 && ObjOf(info, call.Args[0]) == ps[3] && errTestedAfter(c, f, f.Decl.Body, call) {
				ok = true
				ast.Inspect(f.Decl.Body, func(n ast.Node) bool {
					if as, isA := n.(*ast.AssignStmt); isA && len(as.Rhs) == 1 && as.Rhs[0] == ast.Expr(call) {
						stripped = ObjOf(info, as.Lhs[0])
					}
					return true
				})
			}
		}
		r.Check(ok, "ygot.addToNotification:StripPrefix(pfx)", c.Pos(f.Decl.Pos()), "the leaf path is stripped of the prefix parameter, error returned", "addToNotification no longer strips the prefix parameter from the leaf path (or drops the error)")
		// the Update's Path is the proto of the stripped path.
		okPath := false
		ast.Inspect(f.Decl.Body, func(n ast.Node) bool {
			kv, isKV := n.(*ast.KeyValueExpr)
			if !isKV || types.ExprString(kv.Key) != "Path" {
				return true
			}
			if id, isID := ast.Unparen(kv.Value).(*ast.Ident); isID {
				if d := singleDef(f, info.ObjectOf(id)); d != nil {
					if call, isC := ast.Unparen(d).(*ast.CallExpr); isC && FullName(Callee(info, call)) == Y+".gnmiPath.ToProto" {
						if s, isS := call.Fun.(*ast.SelectorExpr); isS && stripped != nil && ObjOf(info, s.X) == stripped {
							okPath = true
						}
					}
				}
			}
			return true
		})
		r.Check(okPath, "ygot.addToNotification:Update.Path=stripped.ToProto()", c.Pos(f.Decl.Pos()), "the update path is the stripped path", "the update's path is not the prefix-stripped leaf path: prefix + path no longer names the leaf")
	}
}

// ---- R-MERGE-UNSET (C05) -------------------------------------------------------------------

// ruleMergeUnset: in copyStruct a by-value field (enum, empty, …) is copied from the source only
// when the source sets it; the reference kinds are delegated to helpers that return early on nil.
func ruleMergeUnset(c *Ctx, r *Report) {
	r.Rule("R-MERGE-UNSET", "copyStruct writes the source's by-value field into the destination only under a test that the source value is set (non-zero); the reference-kind helpers return before any write when the source is nil: an unset source field never replaces a value set in the destination (union of leaves, commutativity)", 6)
	f := c.MustFunc(r, "ygot", "copyStruct")
	if f == nil {
		return
	}
	info := f.Info()
	ps := paramObjs(f)
	if len(ps) < 2 {
		r.Und("ygot.copyStruct:signature", c.Pos(f.Decl.Pos()), "expected (dst, src, …)")
		return
	}
	refHelpers := map[string]bool{"copyPtrField": true, "copyInterfaceField": true, "copySliceField": true, "copyMapField": true, "copyOrderedMap": true, "copyBinaryField": true}
	n := 0
	// checkWrites: in function g, every whole-field write dst.Set(src) — src identified by isSrc —
	// happens under a fact that the source value is set (non-zero).
	checkWrites := func(g *FuncInfo, isSrc func(ast.Expr) bool) {
		ginfo := g.Info()
		nonZeroFact := func(at ast.Node) (bool, string) {
			for _, ft := range c.FactsAt(g, at, false) {
				var conds []ast.Expr
				pos := ft.Pos
				switch ft.Kind {
				case "cond":
					conds = []ast.Expr{ft.Cond}
				case "switch":
					conds, pos = ft.Vals, true
				default:
					continue
				}
				for _, cd := range conds {
					var cs []ast.Expr
					if pos {
						flattenAnd(cd, &cs)
					} else {
						flattenOr(cd, &cs) // !(a || b) = !a && !b
					}
					for _, e := range cs {
						e = ast.Unparen(e)
						epos := pos
						if u, ok := e.(*ast.UnaryExpr); ok && u.Op == token.NOT {
							e, epos = ast.Unparen(u.X), !epos
						}
						if call, ok := e.(*ast.CallExpr); ok && !epos && FullName(Callee(ginfo, call)) == "reflect.Value.IsZero" && isSrc(call.Fun.(*ast.SelectorExpr).X) {
							return true, "!" + types.ExprString(e)
						}
						be, ok := e.(*ast.BinaryExpr)
						if !ok || !((be.Op == token.NEQ && epos) || (be.Op == token.EQL && !epos)) {
							continue
						}
						if v, ok := ConstOf(ginfo, be.Y); !ok || v != "0" {
							continue
						}
						x := ast.Unparen(be.X)
						if id, ok := x.(*ast.Ident); ok {
							if d := parallelDef(g, ginfo.ObjectOf(id)); d != nil {
								x = ast.Unparen(d)
							}
						}
						if call, ok := x.(*ast.CallExpr); ok {
							if sel, ok := call.Fun.(*ast.SelectorExpr); ok && isSrc(sel.X) {
								switch FullName(Callee(ginfo, call)) {
								case "reflect.Value.Int", "reflect.Value.Uint", "reflect.Value.Len":
									if epos {
										return true, types.ExprString(e)
									}
									return true, "not (" + types.ExprString(e) + ")"
								}
							}
						}
					}
				}
			}
			return false, ""
		}
		ast.Inspect(g.Decl.Body, func(x ast.Node) bool {
			call, ok := x.(*ast.CallExpr)
			if !ok || FullName(Callee(ginfo, call)) != "reflect.Value.Set" || len(call.Args) != 1 || !isSrc(call.Args[0]) {
				return true
			}
			n++
			ok2, why := nonZeroFact(call)
			r.Check(ok2, fmt.Sprintf("%s:by-value-write#%d", g.Name, n), c.Pos(call.Pos()), "only when the source sets the field: "+why,
				g.Name+" copies a by-value source field into the destination without testing that the source sets it: a zero (unset) field of b replaces the value set in a, e.g. a leaf of type empty set only in a is lost by MergeStructs(a, b) but kept by MergeStructs(b, a)")
			return true
		})
	}
	// src field variable(s) of copyStruct: defined as srcVal.Field(i)
	isSrcField := func(e ast.Expr) bool {
		id, ok := ast.Unparen(e).(*ast.Ident)
		if !ok {
			return false
		}
		d := singleDef(f, info.ObjectOf(id))
		if d == nil {
			return false
		}
		call, ok := ast.Unparen(d).(*ast.CallExpr)
		if !ok || FullName(Callee(info, call)) != "reflect.Value.Field" {
			return false
		}
		sel := call.Fun.(*ast.SelectorExpr)
		return ObjOf(info, sel.X) == ps[1]
	}
	checkWrites(f, isSrcField)
	// by-value kinds handled by an extracted helper h(dstField, srcField, …).
	seenHelper := map[*FuncInfo]bool{}
	ast.Inspect(f.Decl.Body, func(x ast.Node) bool {
		call, ok := x.(*ast.CallExpr)
		if !ok || len(call.Args) < 2 || !isSrcField(call.Args[1]) {
			return true
		}
		h := c.funcOfCallee(Callee(info, call))
		if h == nil || h == f || refHelpers[h.Decl.Name.Name] || seenHelper[h] {
			return true
		}
		seenHelper[h] = true
		hp := paramObjs(h)
		if len(hp) < 2 {
			return true
		}
		hinfo := h.Info()
		checkWrites(h, func(e ast.Expr) bool { return ObjOf(hinfo, e) == hp[1] })
		return true
	})
	if n == 0 {
		r.Und("ygot.copyStruct:by-value-write", c.Pos(f.Decl.Pos()), "no direct dstField.Set(srcField) found: by-value kinds are handled elsewhere, re-confirm the rule")
	}
	// reference-kind helpers: first statement(s) return when the source is nil.
	for _, h := range []struct{ name, what string }{{"copyPtrField", "IsNilOrInvalidValue(srcField)"}, {"copyInterfaceField", "IsNilOrInvalidValue(srcField)"}, {"copySliceField", "nil or empty source"}, {"copyBinaryField", "nil source"}} {
		g := c.MustFunc(r, "ygot", h.name)
		if g == nil {
			continue
		}
		ginfo := g.Info()
		gps := paramObjs(g)
		early := false
		var firstWrite token.Pos = token.Pos(1 << 40)
		ast.Inspect(g.Decl.Body, func(x ast.Node) bool {
			if call, ok := x.(*ast.CallExpr); ok {
				switch FullName(Callee(ginfo, call)) {
				case "reflect.Value.Set", "reflect.Value.SetMapIndex":
					if call.Pos() < firstWrite {
						firstWrite = call.Pos()
					}
				}
			}
			return true
		})
		for _, s := range g.Decl.Body.List {
			is, ok := s.(*ast.IfStmt)
			if !ok || is.Pos() > firstWrite {
				continue
			}
			mentionsSrc := false
			ast.Inspect(is.Cond, func(y ast.Node) bool {
				if id, ok := y.(*ast.Ident); ok && len(gps) >= 2 && ginfo.ObjectOf(id) == gps[1] {
					mentionsSrc = true
				}
				return true
			})
			if !mentionsSrc || len(is.Body.List) == 0 {
				continue
			}
			if rs, ok := is.Body.List[len(is.Body.List)-1].(*ast.ReturnStmt); ok && len(rs.Results) == 1 && ginfo.Types[rs.Results[0]].IsNil() {
				s := types.ExprString(is.Cond)
				if strings.Contains(s, "IsNilOrInvalidValue") || strings.Contains(s, "IsNil()") || strings.Contains(s, "Len() == 0") {
					early = true
				}
			}
		}
		r.Check(early, "ygot."+h.name+":unset-source-returns-early", c.Pos(g.Decl.Pos()), "returns nil before any write when the source is unset ("+h.what+")",
			h.name+" no longer returns before its first write when the source field is nil/empty: an unset field of b can replace a value set in a")
	}
	// copyMapField adds entries key by key (SetMapIndex); the only whole-field write replaces an
	// empty destination.
	if g := c.MustFunc(r, "ygot", "copyMapField"); g != nil {
		ginfo := g.Info()
		gps := paramObjs(g)
		n, ok := 0, true
		ast.Inspect(g.Decl.Body, func(x ast.Node) bool {
			call, isC := x.(*ast.CallExpr)
			if !isC || FullName(Callee(ginfo, call)) != "reflect.Value.Set" || len(gps) < 1 || ObjOf(ginfo, call.Fun.(*ast.SelectorExpr).X) != gps[0] {
				return true
			}
			n++
			guarded := false
			for _, ft := range c.FactsAt(g, call, false) {
				if ft.Kind == "cond" && ft.Pos && types.ExprString(ft.Cond) == gps[0].Name()+".Len() == 0" {
					guarded = true
				}
			}
			ok = ok && guarded
			return true
		})
		r.Check(ok, "ygot.copyMapField:whole-field-write-only-into-empty-destination", c.Pos(g.Decl.Pos()), fmt.Sprintf("%d whole-field write(s), each under dstField.Len() == 0; entries are otherwise added key by key", n),
			"copyMapField replaces the destination map as a whole although it may hold entries: list entries set only in a are lost")
	}
}

// parallelDef: the single right-hand side paired with obj, also in `a, b := x.Int(), y.Int()`.
func parallelDef(f *FuncInfo, obj types.Object) ast.Expr {
	return singleDef(f, obj)
}

// ---- canonical expression text (robustness to hoisting) ----------------------------------------

// canonExprString prints e with every local variable that has exactly one definition, whose
// right-hand side is a call-free access path (identifiers, selectors, index, dereference), replaced
// by that definition — so hoisting `x := a.b.c` does not change the text a construct is keyed by.
func canonExprString(f *FuncInfo, e ast.Expr) string {
	info := f.Info()
	var pr func(e ast.Expr, depth int) string
	purePath := func(e ast.Expr) bool {
		ok := true
		ast.Inspect(e, func(n ast.Node) bool {
			switch n.(type) {
			case *ast.CallExpr, *ast.FuncLit, *ast.CompositeLit, *ast.BinaryExpr, *ast.TypeAssertExpr:
				ok = false
			}
			return ok
		})
		return ok
	}
	pr = func(e ast.Expr, depth int) string {
		switch x := ast.Unparen(e).(type) {
		case *ast.Ident:
			if depth < 5 {
				if obj, isVar := info.ObjectOf(x).(*types.Var); isVar && !obj.IsField() && obj.Parent() != nil && obj.Parent() != obj.Pkg().Scope() {
					if d := singleDef(f, obj); d != nil && purePath(d) {
						if _, isID := ast.Unparen(d).(*ast.Ident); !isID || true {
							return pr(d, depth+1)
						}
					}
				}
			}
			return x.Name
		case *ast.SelectorExpr:
			return pr(x.X, depth) + "." + x.Sel.Name
		case *ast.IndexExpr:
			return pr(x.X, depth) + "[" + pr(x.Index, depth) + "]"
		case *ast.StarExpr:
			return "*" + pr(x.X, depth)
		}
		return types.ExprString(e)
	}
	s := pr(e, 0)
	if len(s) > 60 {
		s = s[:60]
	}
	return s
}

// funcOfCallee: the source declaration of a module function (nil for dependencies and builtins).
func (c *Ctx) funcOfCallee(fn *types.Func) *FuncInfo {
	if fn == nil || fn.Pkg() == nil || !strings.HasPrefix(fn.Pkg().Path(), modPath) {
		return nil
	}
	return c.funcIndex()[fn.Origin()]
}

// ---- R-BINARY-LEAF (C05, C04) ------------------------------------------------------------------

// ruleBinaryLeaf: a field of the generated type Binary ([]byte) is one leaf value. The list merge
// (copySliceField: disjointness test, then append) must never be applied to it.
func ruleBinaryLeaf(c *Ctx, r *Report) {
	r.Rule("R-BINARY-LEAF", "copyStruct sends a slice-kinded field to the list merge (copySliceField: append of the members) only when its type is not Binary; a Binary field goes through a leaf merge that reports a conflict unless the values are equal or fields are overwritten, and stores a fresh copy of the source's bytes", 3)
	f := c.MustFunc(r, "ygot", "copyStruct")
	if f == nil {
		return
	}
	info := f.Info()
	isBinaryTest := func(e ast.Expr) bool {
		be, ok := ast.Unparen(e).(*ast.BinaryExpr)
		if !ok || (be.Op != token.EQL && be.Op != token.NEQ) {
			return false
		}
		for _, side := range []ast.Expr{be.X, be.Y} {
			if v, ok := ConstOf(info, side); ok && strings.Trim(v, `"`) == "Binary" {
				return true
			}
		}
		return false
	}
	n := 0
	for _, call := range CallsIn(info, f.Decl.Body, P("ygot")+".copySliceField") {
		n++
		excluded := false
		for _, ft := range c.FactsAt(f, call, false) {
			if ft.Kind != "cond" || !isBinaryTest(ft.Cond) {
				continue
			}
			be := ast.Unparen(ft.Cond).(*ast.BinaryExpr)
			if (be.Op == token.EQL && !ft.Pos) || (be.Op == token.NEQ && ft.Pos) {
				excluded = true
			}
		}
		r.Check(excluded, fmt.Sprintf("ygot.copyStruct:copySliceField#%d:not-binary", n), c.Pos(call.Pos()), "list merge only for non-Binary slices",
			"copyStruct merges every slice-kinded field as a list: a binary leaf set in both inputs is merged byte-wise — {1,2} and {3} give {1,2,3} instead of a conflict, and with MergeOverwriteExistingFields the second value does not win")
	}
	if n == 0 {
		r.Und("ygot.copyStruct:copySliceField", c.Pos(f.Decl.Pos()), "copyStruct no longer calls copySliceField: re-confirm how slices are merged")
	}
	g := c.MustFunc(r, "ygot", "copyBinaryField")
	if g == nil {
		return
	}
	ginfo := g.Info()
	// conflict: an error return guarded by !fieldOverwriteEnabled(opts) and !reflect.DeepEqual(src, dst).
	conflict := false
	for _, rs := range returnsOf(g.Decl.Body) {
		if len(rs.Results) != 1 || isNilConst(ginfo, rs.Results[0]) {
			continue
		}
		ow, de := false, false
		for _, ft := range c.FactsAt(g, rs, false) {
			if ft.Kind != "cond" || ft.Pos {
				continue
			}
			if IsCall(ginfo, ast.Unparen(ft.Cond), P("ygot")+".fieldOverwriteEnabled") {
				ow = true
			}
			if IsCall(ginfo, ast.Unparen(ft.Cond), "reflect.DeepEqual") {
				de = true
			}
		}
		if ow && de {
			conflict = true
		}
	}
	r.Check(conflict, "ygot.copyBinaryField:conflict", c.Pos(g.Decl.Pos()), "error when both are set, values differ (reflect.DeepEqual) and fields are not overwritten", "copyBinaryField does not report a conflict for two different values of one binary leaf")
	// write: dst.Set(x) with x from reflect.MakeSlice, filled by reflect.Copy(x, src).
	ps := paramObjs(g)
	fresh := false
	for _, call := range CallsIn(ginfo, g.Decl.Body, "reflect.Value.Set") {
		if len(ps) >= 2 && ObjOf(ginfo, call.Fun.(*ast.SelectorExpr).X) == ps[0] && len(call.Args) == 1 {
			if id, ok := ast.Unparen(call.Args[0]).(*ast.Ident); ok {
				if d := singleDef(g, ginfo.ObjectOf(id)); d != nil && IsCall(ginfo, ast.Unparen(d), "reflect.MakeSlice") {
					for _, cp := range CallsIn(ginfo, g.Decl.Body, "reflect.Copy") {
						if len(cp.Args) == 2 && ObjOf(ginfo, cp.Args[0]) == ginfo.ObjectOf(id) && ObjOf(ginfo, cp.Args[1]) == ps[1] {
							fresh = true
						}
					}
				}
			}
		}
	}
	r.Check(fresh, "ygot.copyBinaryField:fresh-copy", c.Pos(g.Decl.Pos()), "destination gets reflect.MakeSlice + reflect.Copy of the source bytes", "copyBinaryField does not store a fresh copy of the source's bytes")
}

// ---- R-SLICE-EMPTINESS (C14, C02, C03) -----------------------------------------------------------

// ruleSliceEmptiness: a slice-kinded GoStruct field is a leaf-list, an unkeyed list, or a leaf of
// type binary. Length zero means "no data" for the first two only.
func ruleSliceEmptiness(c *Ctx, r *Report, floor int) {
	r.Rule("R-SLICE-EMPTINESS", "wherever ygot's generic struct walkers decide from Len() (compared with 0) whether a slice-kinded field holds data, the same condition treats the Binary leaf type separately: a zero-length, non-nil binary is a value (it renders as \"\"), while a leaf-list or unkeyed list without entries holds none", floor)
	for _, f := range c.AllFuncs("ygot") {
		info := f.Info()
		pm := c.parentMap(f.File)
		n := 0
		ast.Inspect(f.Decl.Body, func(x ast.Node) bool {
			be, ok := x.(*ast.BinaryExpr)
			if !ok {
				return true
			}
			switch be.Op {
			case token.EQL, token.NEQ, token.GTR:
			default:
				return true
			}
			call, ok := ast.Unparen(be.X).(*ast.CallExpr)
			if !ok || FullName(Callee(info, call)) != "reflect.Value.Len" {
				return true
			}
			if v, ok := ConstOf(info, be.Y); !ok || v != "0" {
				return true
			}
			// the whole condition this comparison belongs to.
			var whole ast.Expr = be
			for {
				p, ok := pm[whole].(ast.Expr)
				if !ok {
					break
				}
				switch p.(type) {
				case *ast.BinaryExpr, *ast.ParenExpr, *ast.UnaryExpr:
					whole = p
					continue
				}
				break
			}
			sliceKind := func(e ast.Expr) bool {
				found := false
				ast.Inspect(e, func(m ast.Node) bool {
					switch y := m.(type) {
					case *ast.CallExpr:
						switch FullName(Callee(info, y)) {
						case P("util") + ".IsTypeSlice", P("util") + ".IsValueSlice":
							found = true
						}
					case *ast.SelectorExpr:
						if constName(info, y) == "reflect.Slice" {
							found = true
						}
					}
					return true
				})
				return found
			}
			isSlice := sliceKind(whole)
			for _, ft := range c.FactsAt(f, be, false) {
				if !ft.Pos {
					continue
				}
				if ft.Kind == "cond" && sliceKind(ft.Cond) {
					isSlice = true
				}
				if ft.Kind == "switch" {
					for _, v := range ft.Vals {
						if constName(info, v) == "reflect.Slice" || sliceKind(v) {
							isSlice = true
						}
					}
				}
			}
			if !isSlice {
				return true
			}
			n++
			binary := false
			ast.Inspect(whole, func(m ast.Node) bool {
				if e, ok := m.(ast.Expr); ok {
					if v, ok := ConstOf(info, e); ok && strings.Trim(v, `"`) == "Binary" {
						binary = true
					}
				}
				return true
			})
			r.Check(binary, fmt.Sprintf("%s:slice-emptiness#%d", f.Name, n), c.Pos(be.Pos()), "Binary handled in the same condition: "+exprKey(whole),
				fmt.Sprintf("%s decides from %s alone whether a slice-kinded field holds data: a leaf of type binary set to the zero-length value is taken for an empty list (PruneEmptyBranches removes the container that holds only that leaf; a walker skips the leaf)", f.Name, types.ExprString(be)))
			return true
		})
	}
}

// ---- R-SCHEMATREE-KEY (C26) -----------------------------------------------------------------------

// ruleSchemaTreeKey: yangschema's leaf tree is written by schemaTreeChildrenAdd/BuildTree and read
// by ResolveLeafrefTarget with a key computed by fixSchemaTreePath. XPATH paths of leafref
// statements never name choice or case nodes, so both sides must use choice/case-free paths.
func ruleSchemaTreeKey(c *Ctx, r *Report) {
	r.Rule("R-SCHEMATREE-KEY", "yangschema registers every leaf under the same kind of path it later looks leafref targets up by: the key of each Tree.Add below the module level and the caller path in fixSchemaTreePath both come from the choice/case-free path functions (util.SchemaTreePath family), never from yang.Entry.Path(), which names choice and case nodes that XPATH paths omit", 2)
	yangEntryPath := "github.com/openconfig/goyang/pkg/yang.Entry.Path"
	choiceFree := map[string]bool{P("util") + ".SchemaTreePath": true, P("util") + ".SchemaPathNoChoiceCase": true, P("util") + ".SchemaTreePathNoModule": true, P("util") + ".SchemaEntryPathNoChoiceCase": true}
	// pathSources: the path functions whose result reaches expression e through local definitions.
	var pathSources func(f *FuncInfo, e ast.Expr, depth int, out map[string]bool)
	pathSources = func(f *FuncInfo, e ast.Expr, depth int, out map[string]bool) {
		info := f.Info()
		if depth > 4 {
			return
		}
		ast.Inspect(e, func(n ast.Node) bool {
			switch x := n.(type) {
			case *ast.CallExpr:
				fn := FullName(Callee(info, x))
				if fn == yangEntryPath || choiceFree[fn] {
					out[fn] = true
				}
			case *ast.Ident:
				if v, ok := info.ObjectOf(x).(*types.Var); ok && paramIndex(f, v) < 0 {
					for _, d := range allDefs(f, v) {
						pathSources(f, d, depth+1, out)
					}
				}
			}
			return true
		})
	}
	if f := c.MustFunc(r, "yangschema", "schemaTreeChildrenAdd"); f != nil {
		info := f.Info()
		n := 0
		ast.Inspect(f.Decl.Body, func(x ast.Node) bool {
			call, ok := x.(*ast.CallExpr)
			if !ok || len(call.Args) != 2 {
				return true
			}
			if fn := FullName(Callee(info, call)); !strings.HasSuffix(fn, "ctree.Tree.Add") {
				return true
			}
			n++
			src := map[string]bool{}
			pathSources(f, call.Args[0], 0, src)
			var bad, good []string
			for fn := range src {
				if choiceFree[fn] {
					good = append(good, short(fn))
				} else {
					bad = append(bad, short(fn))
				}
			}
			sort.Strings(good)
			sort.Strings(bad)
			r.Check(len(bad) == 0 && len(good) > 0, fmt.Sprintf("yangschema.schemaTreeChildrenAdd:Add#%d:key", n), c.Pos(call.Pos()), "key from "+strings.Join(good, ", "),
				fmt.Sprintf("schemaTreeChildrenAdd registers leaves under a key built from %s: for a leaf below a choice/case the key contains the choice and case names, while ResolveLeafrefTarget looks the leaf up by its XPATH path without them — code generation fails (\"could not resolve leafref path\") for every leafref whose target lies under a choice", strings.Join(append(bad, good...), ", ")))
			return true
		})
		if n == 0 {
			r.Und("yangschema.schemaTreeChildrenAdd:Add", c.Pos(f.Decl.Pos()), "no Tree.Add call found: re-confirm how the leaf tree is built")
		}
	}
	if f := c.MustFunc(r, "yangschema", "fixSchemaTreePath"); f != nil {
		src := map[string]bool{}
		for _, rs := range returnsOf(f.Decl.Body) {
			if len(rs.Results) == 2 && !isNilConst(f.Info(), rs.Results[0]) {
				pathSources(f, rs.Results[0], 0, src)
			}
			if len(rs.Results) == 1 {
				// `return helper(callerPath, …)`: the result is computed from the arguments.
				if _, isCall := ast.Unparen(rs.Results[0]).(*ast.CallExpr); isCall {
					pathSources(f, rs.Results[0], 0, src)
				}
			}
		}
		var bad, good []string
		for fn := range src {
			if choiceFree[fn] {
				good = append(good, short(fn))
			} else {
				bad = append(bad, short(fn))
			}
		}
		sort.Strings(good)
		sort.Strings(bad)
		r.Check(len(bad) == 0 && len(good) > 0, "yangschema.fixSchemaTreePath:caller-path", c.Pos(f.Decl.Pos()), "relative paths are resolved against "+strings.Join(good, ", "),
			"fixSchemaTreePath resolves relative leafref paths against "+strings.Join(append(bad, good...), ", ")+": with choice/case names in the caller's path every `..` climbs a choice or case instead of a data node")
	}
}

// ---- R-UNION-MEMBER (C07) ------------------------------------------------------------------------

// ruleUnionMember: the simplified-union representation stores a union member as a named scalar type
// (UnionInt8 … UnionFloat64, UnionString, UnionBool; table ygot.unionSingletonUnderlyingTypes), an
// enumeration (int64) or Binary (slice). Validate must accept each of them: validateLeaf's
// Go-kind arm for the member's kind has to admit a union schema, and the per-type validator the
// member's schema leads to must test the value's kind, not assert the predeclared type.
func ruleUnionMember(c *Ctx, r *Report) {
	r.Rule("R-UNION-MEMBER", "for every Go kind a simplified-union member can have (the kinds of ygot.unionSingletonUnderlyingTypes, int64 enumerations, Binary slices), the arm of validateLeaf's switch on the value's kind admits yang.Yunion, and no scalar validator reachable for a union member (validateDecimal, validateBool, validateString, validateInt, validateBinary) asserts its value to a predeclared type — a named member type such as UnionFloat64 fails such an assertion although its value is valid", 14)
	// (1) member kinds from the table.
	kinds := map[string]bool{"reflect.Int64": true, "reflect.Slice": true}
	if p := c.Pkg("ygot"); p != nil {
		for _, file := range p.Syntax {
			ast.Inspect(file, func(n ast.Node) bool {
				vs, ok := n.(*ast.ValueSpec)
				if !ok {
					return true
				}
				for i, nm := range vs.Names {
					if nm.Name != "unionSingletonUnderlyingTypes" || i >= len(vs.Values) {
						continue
					}
					cl, ok := vs.Values[i].(*ast.CompositeLit)
					if !ok {
						continue
					}
					for _, el := range cl.Elts {
						kv, ok := el.(*ast.KeyValueExpr)
						if !ok {
							continue
						}
						// reflect.TypeOf(T(v)): the conversion's type gives the kind.
						if call, ok := kv.Value.(*ast.CallExpr); ok && len(call.Args) == 1 {
							if tv, ok := p.TypesInfo.Types[call.Args[0]]; ok && tv.Type != nil {
								if b, ok := tv.Type.Underlying().(*types.Basic); ok {
									nm := b.Name()
									kinds["reflect."+strings.ToUpper(nm[:1])+nm[1:]] = true
								}
							}
						}
					}
				}
				return true
			})
		}
	}
	if len(kinds) < 8 {
		r.Und("ygot.unionSingletonUnderlyingTypes", "-", "the table of simplified-union member types was not found: the member kinds cannot be enumerated")
		return
	}
	// (2) validateLeaf's kind switch.
	if f := c.MustFunc(r, "ytypes", "validateLeaf"); f != nil {
		info := f.Info()
		var sw *ast.SwitchStmt
		ast.Inspect(f.Decl.Body, func(n ast.Node) bool {
			if s, ok := n.(*ast.SwitchStmt); ok && s.Tag != nil && sw == nil {
				for _, cl := range s.Body.List {
					for _, e := range cl.(*ast.CaseClause).List {
						if strings.HasPrefix(constName(info, e), "reflect.") {
							sw = s
						}
					}
				}
			}
			return true
		})
		if sw == nil {
			r.Und("ytypes.validateLeaf:kind-switch", c.Pos(f.Decl.Pos()), "switch on the value's reflect.Kind not found")
		} else {
			covered := map[string]bool{}
			for _, cl := range sw.Body.List {
				cc := cl.(*ast.CaseClause)
				var armKinds []string
				for _, e := range cc.List {
					if k := constName(info, e); kinds[k] {
						armKinds = append(armKinds, k)
					}
				}
				if len(armKinds) == 0 {
					continue
				}
				// the arm rejects (returns an error) under its first if: which schema kinds escape it?
				admits := false
				rejects := false
				for _, st := range cc.Body {
					is, ok := st.(*ast.IfStmt)
					if !ok || !terminates(info, is.Body.List) {
						continue
					}
					rejects = true
					var cs []ast.Expr
					flattenAnd(is.Cond, &cs)
					for _, e := range cs {
						if be, ok := ast.Unparen(e).(*ast.BinaryExpr); ok && be.Op == token.NEQ && strings.HasSuffix(constName(info, be.Y), "Yunion") {
							admits = true
						}
					}
				}
				if !rejects {
					admits = true // the arm accepts every schema kind
				}
				for _, k := range armKinds {
					covered[k] = true
					r.Check(admits, "ytypes.validateLeaf:kind-arm("+k+"):admits-union", c.Pos(cc.Pos()), "a "+k+" value is let through for a union schema",
						"validateLeaf rejects every value of kind "+strings.TrimPrefix(k, "reflect.")+" for a union leaf (the arm's type check does not exempt yang.Yunion): a simplified-union member of that kind — e.g. UnionBool for a union with a boolean member — can never validate")
				}
			}
			var missing []string
			for k := range kinds {
				if !covered[k] {
					missing = append(missing, k)
				}
			}
			sort.Strings(missing)
			for _, k := range missing {
				r.Bad("ytypes.validateLeaf:kind-arm("+k+")", c.Pos(sw.Pos()), "validateLeaf's kind switch has no arm for "+k+", a kind simplified-union members can have: such values fall to the default error")
			}
		}
	}
	// (3) scalar validators: no assertion of the value to a predeclared type.
	for _, name := range []string{"validateDecimal", "validateBool", "validateString", "validateInt", "validateBinary"} {
		f := c.MustFunc(r, "ytypes", name)
		if f == nil {
			continue
		}
		info := f.Info()
		ps := paramObjs(f)
		bad := ""
		for _, as := range AssertionsIn(c, f, f.Decl.Body) {
			if len(ps) < 2 || ObjOf(info, as.X) != ps[1] {
				continue
			}
			if tv, ok := info.Types[as.Node.Type]; ok && tv.Type != nil {
				if _, isBasic := tv.Type.(*types.Basic); isBasic {
					bad = as.Type
				}
				if sl, isSlice := tv.Type.(*types.Slice); isSlice {
					if _, eb := sl.Elem().(*types.Basic); eb {
						bad = as.Type
					}
				}
			}
		}
		r.Check(bad == "", "ytypes."+name+":accepts-named-member-types", c.Pos(f.Decl.Pos()), "the value's kind is tested, no assertion to a predeclared type",
			fmt.Sprintf("%s asserts its value to the predeclared type %s: the named type a simplified union stores for such a member (UnionFloat64, UnionBool, …) fails the assertion, so Validate rejects a valid union value", name, bad))
	}
}

// ---- R-DEFAULT-VALUE (C33): two clauses found with a probe, recorded as known findings -------------

// ruleDefaultValueSemantics: (1) a binary default is written in base64 (RFC 7950 §9.8.2): the Go
// literal must be built from the decoded bytes; (2) the default of a leaf below a case applies only
// when that case is selected or is the default case (§7.9.3, §7.6.1): somewhere between the schema
// and the PopulateDefaults template the generator has to distinguish such leaves.
func ruleDefaultValueSemantics(c *Ctx, r *Report) {
	r.Rule("R-DEFAULT-VALUE", "gogen's default conversion builds the Binary literal from the base64-decoded bytes, and the generator distinguishes leaves below a case when it hands defaults to PopulateDefaults (their defaults are conditional on the case being selected)", 2)
	if f := c.MustFunc(r, "gogen", "GoLangMapper.yangDefaultValueToGo"); f != nil {
		info := f.Info()
		var decoded types.Object
		var dec *ast.CallExpr
		for _, call := range CallsIn(info, f.Decl.Body, "encoding/base64.Encoding.DecodeString") {
			dec = call
			if as, ok := c.parentMap(f.File)[call].(*ast.AssignStmt); ok {
				decoded = ObjOf(info, as.Lhs[0])
			}
		}
		if dec == nil || decoded == nil {
			r.Und("gogen.yangDefaultValueToGo:binary:literal-from-decoded-bytes", c.Pos(f.Decl.Pos()), "binary arm (base64 DecodeString) not found")
		} else {
			// the literal returned from the arm: a Sprintf mentioning Binary whose data argument
			// is (derived from) the decoded bytes.
			arm := c.enclosingCase(f, dec)
			ok, found := false, false
			if arm != nil {
				for _, call := range CallsIn(info, arm, "fmt.Sprintf") {
					found = true
					for _, a := range call.Args[1:] {
						if mentionsObj(info, a, decoded) {
							ok = true
						}
					}
				}
			}
			switch {
			case !found:
				r.Und("gogen.yangDefaultValueToGo:binary:literal-from-decoded-bytes", c.Pos(dec.Pos()), "the binary arm does not build its literal with fmt.Sprintf: re-confirm the rule")
			default:
				r.Check(ok, "gogen.yangDefaultValueToGo:binary:literal-from-decoded-bytes", c.Pos(dec.Pos()), "Binary literal built from the decoded bytes",
					"the binary arm decodes the base64 default only to validate its length and then emits Binary(\"<base64 text>\"): PopulateDefaults sets the leaf to the bytes of the base64 text (default \"aGVsbG8=\" gives \"aGVsbG8=\", not \"hello\"), which renders as a different value")
			}
		}
	}
	if f := c.MustFunc(r, "gogen", "generateGoDefaultValue"); f != nil {
		info := f.Info()
		aware := false
		ast.Inspect(f.Decl.Body, func(n ast.Node) bool {
			switch x := n.(type) {
			case *ast.CallExpr:
				fn := FullName(Callee(info, x))
				if strings.HasSuffix(fn, ".IsChoiceOrCase") || strings.HasSuffix(fn, "yang.Entry.IsCase") || strings.HasSuffix(fn, "yang.Entry.IsChoice") {
					aware = true
				}
			case *ast.SelectorExpr:
				if nm := constName(info, x); strings.HasSuffix(nm, "CaseEntry") || strings.HasSuffix(nm, "ChoiceEntry") {
					aware = true
				}
			}
			return true
		})
		// the IR may carry the distinction instead.
		if p := c.Pkg("ygen"); p != nil && !aware {
			if tn, ok := p.Types.Scope().Lookup("YANGNodeDetails").(*types.TypeName); ok {
				if st, ok := tn.Type().Underlying().(*types.Struct); ok {
					for i := 0; i < st.NumFields(); i++ {
						if nm := strings.ToLower(st.Field(i).Name()); strings.Contains(nm, "case") || strings.Contains(nm, "choice") {
							aware = true
						}
					}
				}
			}
		}
		r.Check(aware, "gogen.generateGoDefaultValue:case-aware-defaults", c.Pos(f.Decl.Pos()), "leaves below a case are distinguished when defaults are generated",
			"nothing between the schema and the PopulateDefaults template distinguishes a leaf below a case: its default is populated unconditionally, so a tree with case b populated gets the default of a leaf of case a as well and no longer validates (\"multiple cases selected\")")
	}
}

// ---- R-UNSET-KEY (C20, C12) --------------------------------------------------------------------------

// ruleUnsetKey: a list entry's key leaf is a pointer (nil when unset) or stored by value — an
// enumeration (0 when unset) or a union interface (nil when unset). Code that reads the key leaf out
// of an entry must refuse both forms of "unset"; handling only the pointer form lets a zero
// reflect.Value reach reflect.Value.Set (panic on JSON list entries without their union key),
// silently keys entries by the UNSET enumeration value, and defeats retrieveNodeList's fallback to
// the map key for entries in a transitory state.
func ruleUnsetKey(c *Ctx, r *Report) {
	r.Rule("R-UNSET-KEY", "ytypes.getKeyValue returns a by-value key leaf only after testing that it is not the zero value (as it tests a pointer key leaf for nil), and makeKeyForInsert copies a key leaf into the key struct only after tests that cover a nil pointer leaf (validity of the dereferenced Value) and a zero by-value leaf", 4)
	zeroTested := func(f *FuncInfo, at ast.Node) (bool, string) {
		info := f.Info()
		for _, ft := range c.FactsAt(f, at, false) {
			if ft.Kind != "cond" || ft.Pos {
				continue
			}
			found := false
			ast.Inspect(ft.Cond, func(n ast.Node) bool {
				if call, ok := n.(*ast.CallExpr); ok && FullName(Callee(info, call)) == "reflect.Value.IsZero" {
					found = true
				}
				return true
			})
			if found {
				return true, "not (" + types.ExprString(ft.Cond) + ")"
			}
		}
		return false, ""
	}
	// validTested: the facts at `at` establish that a dereferenced pointer key leaf is a valid Value
	// (X.IsValid() holds, or X.IsNil() does not).
	validTested := func(f *FuncInfo, at ast.Node, about ast.Expr) (bool, string) {
		info := f.Info()
		for _, ft := range c.FactsAt(f, at, false) {
			if ft.Kind != "cond" {
				continue
			}
			if call, ok := ast.Unparen(ft.Cond).(*ast.CallExpr); ok {
				// the test must be about the value that is used (the dereferenced leaf), not
				// about the field lookup that precedes it.
				if sel, isSel := call.Fun.(*ast.SelectorExpr); !isSel || !sameExpr(info, sel.X, about) {
					continue
				}
				switch FullName(Callee(info, call)) {
				case "reflect.Value.IsValid":
					if ft.Pos {
						return true, types.ExprString(ft.Cond)
					}
				case "reflect.Value.IsNil":
					if !ft.Pos {
						return true, "not " + types.ExprString(ft.Cond)
					}
				}
			}
		}
		return false, ""
	}
	if f := c.MustFunc(r, "ytypes", "getKeyValue"); f != nil {
		info := f.Info()
		n := 0
		for _, rs := range returnsOf(f.Decl.Body) {
			if len(rs.Results) != 2 || !isNilConst(info, rs.Results[1]) {
				continue
			}
			call, ok := ast.Unparen(rs.Results[0]).(*ast.CallExpr)
			if !ok || FullName(Callee(info, call)) != "reflect.Value.Interface" {
				continue
			}
			// the by-value return: the receiver is the field itself, not its Elem().
			recv := ast.Unparen(call.Fun.(*ast.SelectorExpr).X)
			if inner, ok := recv.(*ast.CallExpr); ok && FullName(Callee(info, inner)) == "reflect.Value.Elem" {
				okv, whyv := validTested(f, rs, recv)
				r.Check(okv, "ytypes.getKeyValue:pointer-return", c.Pos(rs.Pos()), "nil pointer key leaves are refused: "+whyv,
					"getKeyValue dereferences a pointer key leaf without testing that it is set: Interface() on the zero Value of a nil pointer panics")
				continue
			}
			n++
			ok2, why := zeroTested(f, rs)
			r.Check(ok2, fmt.Sprintf("ytypes.getKeyValue:by-value-return#%d", n), c.Pos(rs.Pos()), "zero (unset) by-value key leaves are refused: "+why,
				"getKeyValue returns a key leaf that is stored by value (enumeration, union) without testing that it is set: an unset union key reaches reflect.Value.Set as a zero Value (Unmarshal of a JSON list entry without its key panics), an unset enumeration key becomes the map key 0, and retrieveNodeList cannot fall back to the map key for an entry whose key leaf was deleted")
		}
		if n == 0 {
			r.Und("ytypes.getKeyValue:by-value-return", c.Pos(f.Decl.Pos()), "no `return fv.Interface(), nil` found: re-confirm how by-value key leaves are read")
		}
	}
	if f := c.MustFunc(r, "ytypes", "makeKeyForInsert"); f != nil {
		info := f.Info()
		n := 0
		ast.Inspect(f.Decl.Body, func(x ast.Node) bool {
			call, ok := x.(*ast.CallExpr)
			if !ok || FullName(Callee(info, call)) != "reflect.Value.Set" {
				return true
			}
			// only the copy inside the per-key-field loop of the struct-key branch.
			if _, inLoop := c.EnclosingLoop(f, call).(*ast.ForStmt); !inLoop {
				return true
			}
			n++
			okv, whyv := validTested(f, call, call.Args[0])
			r.Check(okv, fmt.Sprintf("ytypes.makeKeyForInsert:key-field-copy#%d:valid", n), c.Pos(call.Pos()), "nil pointer key leaves are refused: "+whyv,
				"makeKeyForInsert uses the dereferenced key leaf without testing that it is a valid Value: for a JSON list entry that omits one of the keys of a multi-key list the key field is a nil pointer, its Elem()/Indirect is the zero Value, and Interface()/Type()/Set on it panic instead of returning an error")
			ok2, why := zeroTested(f, call)
			r.Check(ok2, fmt.Sprintf("ytypes.makeKeyForInsert:key-field-copy#%d", n), c.Pos(call.Pos()), "zero (unset) by-value key leaves are refused: "+why,
				"makeKeyForInsert copies a key leaf into the key struct after testing only reflect validity: an unset by-value key leaf (nil union, UNSET enumeration) of a multi-key list entry is accepted and the entry is stored under a key it cannot be rendered or addressed by")
			return true
		})
		if n == 0 {
			r.Und("ytypes.makeKeyForInsert:key-field-copy", c.Pos(f.Decl.Pos()), "no key-field copy found in the struct-key loop: re-confirm the rule")
		}
	}
}

// ---- R-UNION-CONV (C01, C02) --------------------------------------------------------------------------

// ruleUnionConv: a decoded union value reaches the generated To_<Union> converter as the Go type
// ytypes' decoder produces for its YANG kind (yangBuiltinTypeToGoType): int8 … uint64, float64,
// string, bool, []byte. The converter is a type switch, which matches dynamic types exactly, so
// for every member kind the wrapper-union template must have an arm of exactly that type — an arm
// for the generated named type (Binary) does not match the decoder's []byte.
func ruleUnionConv(c *Ctx, r *Report) {
	r.Rule("R-UNION-CONV", "the wrapper-union converter gogen generates (template unionHelper, expanded over a union with one member of every scalar kind the generator maps) has, for every member kind, a type-switch arm of exactly the Go type ytypes.yangBuiltinTypeToGoType produces for that kind", 10)
	g := extractT1(c, r)
	dec := c.MustFunc(r, "ytypes", "yangBuiltinTypeToGoType")
	ts := c.templatesOf("gogen")
	if g == nil || dec == nil || ts["unionHelper"] == nil {
		if ts["unionHelper"] == nil {
			r.Und("gogen.unionHelper:template", "-", "template unionHelper not found")
		}
		return
	}
	sws := KindSwitches(dec, yangKind)
	if len(sws) != 1 {
		r.Und("ytypes.yangBuiltinTypeToGoType:table", c.Pos(dec.Decl.Pos()), "dispatch shape not recognised")
		return
	}
	dinfo := dec.Info()
	decoderType := map[string]string{}
	for k, a := range sws[0].ByKey {
		for _, st := range a.Body {
			if rs, ok := st.(*ast.ReturnStmt); ok && len(rs.Results) == 1 {
				if tv, ok := dinfo.Types[rs.Results[0]]; ok && tv.Type != nil {
					decoderType[k] = types.TypeString(tv.Type, nil)
				}
			}
		}
	}
	// the union: one member per scalar kind with a native (non-enumerated, non-derived) Go type.
	typesMap := map[string]string{}
	var typeNames []string
	kindOf := map[string]string{} // native type → kind
	for k, nat := range g.native {
		if nat == "" || nat == "enum" || nat == "interface{}" || decoderType[k] == "" {
			continue
		}
		if k == "yang.Yenum" || k == "yang.Yidentityref" || k == "yang.Yunion" || k == "yang.Yleafref" || k == "yang.Yempty" {
			continue
		}
		if _, dup := kindOf[nat]; dup {
			continue
		}
		kindOf[nat] = k
		nm := strings.ToUpper(nat[:1]) + nat[1:]
		typesMap[nm] = nat
		typeNames = append(typeNames, nat)
	}
	sort.Strings(typeNames)
	src, err := instantiate(ts["unionHelper"], map[string]any{"Name": "Device_U_Union", "LeafPath": "/device/u", "ParentReceiver": "Device", "Types": typesMap, "TypeNames": typeNames})
	if err != nil {
		r.Und("gogen.unionHelper:expand", "-", "template expansion failed: "+err.Error())
		return
	}
	arms := map[string]bool{}
	for _, line := range strings.Split(src, "\n") {
		line = strings.TrimSpace(line)
		if strings.HasPrefix(line, "case ") && strings.HasSuffix(line, ":") {
			for _, t := range strings.Split(strings.TrimSuffix(strings.TrimPrefix(line, "case "), ":"), ",") {
				arms[strings.TrimSpace(t)] = true
			}
		}
	}
	norm := func(t string) string { return strings.ReplaceAll(t, "[]uint8", "[]byte") }
	for _, nat := range typeNames {
		k := kindOf[nat]
		want := norm(decoderType[k])
		r.Check(arms[want], "gogen.unionHelper:arm("+strings.TrimPrefix(k, "yang.")+")", "gogen/gogen.go (template unionHelper)", fmt.Sprintf("decoder hands over %s; the converter has an arm for it", want),
			fmt.Sprintf("for a %s member the decoder hands the value to To_<Union> as %s, but the generated type switch only has an arm for %s: a wrapper union holding such a member can be rendered but not unmarshalled again (\"unknown union type, got: %s\")", strings.TrimPrefix(k, "yang.Y"), want, nat, decoderType[k]))
	}
}
