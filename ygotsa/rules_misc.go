package main

import (
	"fmt"
	"go/ast"
	"go/token"
	"go/types"
	"strings"
)

// ---- C13: gNMI Set semantics (ytypes/gnmi.go) --------------------------------------

// topLevelCallOrder returns the positions (statement index in the function's top-level list)
// of the first statement containing a call to each name.
func topLevelCallOrder(f *FuncInfo, names ...string) map[string]int {
	out := map[string]int{}
	for i, s := range f.Decl.Body.List {
		for _, n := range names {
			if _, seen := out[n]; !seen && len(CallsIn(f.Info(), s, n)) > 0 {
				out[n] = i
			}
		}
	}
	return out
}

func ruleSetOrder(c *Ctx, r *Report) {
	r.Rule("R-ORDER(set)", "UnmarshalSetRequest applies deletes, then replaces, then updates; each replace deletes then writes within the same iteration; updates and replaces iterate the message slices in order; every notification is applied; the atomic delete path is added exactly under n.Atomic", 8)
	Y := P("ytypes")
	if f := c.MustFunc(r, "ytypes", "UnmarshalSetRequest"); f != nil {
		o := topLevelCallOrder(f, Y+".deletePaths", Y+".replacePaths", Y+".updatePaths")
		d, okd := o[Y+".deletePaths"]
		p, okp := o[Y+".replacePaths"]
		u, oku := o[Y+".updatePaths"]
		r.Check(okd && okp && oku && d < p && p < u, "ytypes.UnmarshalSetRequest:delete≺replace≺update", c.Pos(f.Decl.Pos()),
			"the three phases are top-level statements in gNMI order", fmt.Sprintf("phases are not unconditional top-level statements in the order delete, replace, update (found at %v)", o))
		// each phase receives the corresponding request field.
		for _, ph := range []struct{ fn, field string }{{"deletePaths", "Delete"}, {"replacePaths", "Replace"}, {"updatePaths", "Update"}} {
			ok := false
			for _, call := range CallsIn(f.Info(), f.Decl.Body, Y+"."+ph.fn) {
				for _, a := range call.Args {
					if sel, isSel := ast.Unparen(a).(*ast.SelectorExpr); isSel && sel.Sel.Name == ph.field {
						ok = true
					}
				}
				pref := false
				for _, a := range call.Args {
					if sel, isSel := ast.Unparen(a).(*ast.SelectorExpr); isSel && sel.Sel.Name == "Prefix" {
						pref = true
					}
				}
				ok = ok && pref
			}
			r.Check(ok, "ytypes.UnmarshalSetRequest:"+ph.fn+"(req.Prefix, req."+ph.field+")", c.Pos(f.Decl.Pos()), "phase gets the prefix and its own field", ph.fn+" is not called with req.Prefix and req."+ph.field)
		}
	}
	if f := c.MustFunc(r, "ytypes", "replacePaths"); f != nil {
		info := f.Info()
		ok := false
		ast.Inspect(f.Decl.Body, func(n ast.Node) bool {
			rs, isR := n.(*ast.RangeStmt)
			if !isR {
				return true
			}
			del := CallsIn(info, rs.Body, Y+".DeleteNode")
			set := CallsIn(info, rs.Body, Y+".setNode", Y+".SetNode")
			if len(del) > 0 && len(set) > 0 && del[0].Pos() < set[0].Pos() {
				// same update: both use the loop's update variable
				ok = true
			}
			return true
		})
		r.Check(ok, "ytypes.replacePaths:per-update(DeleteNode≺setNode)", c.Pos(f.Decl.Pos()), "each replace deletes its subtree and then writes, before the next replace is looked at",
			"replacePaths no longer deletes and writes each replace within one iteration: a later replace can wipe (or fail to wipe) data written by an earlier one")
	}
	for _, name := range []string{"deletePaths", "replacePaths", "updatePaths"} {
		f := c.MustFunc(r, "ytypes", name)
		if f == nil {
			continue
		}
		info := f.Info()
		// the loop ranges over the slice parameter (message order) and joins the prefix.
		sliceParam := false
		ast.Inspect(f.Decl.Body, func(n ast.Node) bool {
			if rs, ok := n.(*ast.RangeStmt); ok {
				if id, ok := rs.X.(*ast.Ident); ok && rootParamOfObj(f, info.ObjectOf(id)) {
					if _, isSlice := info.Types[rs.X].Type.Underlying().(*types.Slice); isSlice {
						sliceParam = true
					}
				}
			}
			return true
		})
		joined := len(CallsIn(info, f.Decl.Body, P("util")+".JoinPaths", Y+".joinPrefixToUpdate")) > 0
		r.Check(sliceParam && joined, "ytypes."+name+":range-slice+join-prefix", c.Pos(f.Decl.Pos()), "iterates the message slice in order and joins the prefix to each path",
			fmt.Sprintf("%s: ranges over its slice parameter=%v, joins prefix=%v", name, sliceParam, joined))
		// no skip: no continue that is not preceded by an error record (best-effort path).
		ast.Inspect(f.Decl.Body, func(n ast.Node) bool {
			bs, ok := n.(*ast.BranchStmt)
			if !ok || bs.Tok != token.CONTINUE {
				return true
			}
			facts := c.FactsAt(f, bs, false)
			okc := HasFact(facts, true, func(e ast.Expr) bool {
				id, isID := ast.Unparen(e).(*ast.Ident)
				return isID && id.Name == types.ExprString(e) && rootParamOfObj(f, info.ObjectOf(id))
			})
			r.Check(okc, "ytypes."+name+":continue-only-under-bestEffort", c.Pos(bs.Pos()), "a path is skipped only after its error was recorded under the best-effort flag", name+" skips a path outside the best-effort error branch")
			return true
		})
	}
	if f := c.MustFunc(r, "ytypes", "UnmarshalNotifications"); f != nil {
		info := f.Info()
		var loop *ast.RangeStmt
		ast.Inspect(f.Decl.Body, func(n ast.Node) bool {
			if rs, ok := n.(*ast.RangeStmt); ok && loop == nil {
				loop = rs
			}
			return true
		})
		if loop == nil {
			r.Bad("ytypes.UnmarshalNotifications:loop", c.Pos(f.Decl.Pos()), "no loop over the notifications")
		} else {
			// the call is a direct statement of the loop body and no continue/return precedes it.
			direct := false
			for _, s := range loop.Body.List {
				if len(CallsIn(info, s, Y+".UnmarshalSetRequest")) > 0 {
					direct = true
					break
				}
				skip := false
				ast.Inspect(s, func(m ast.Node) bool {
					switch x := m.(type) {
					case *ast.BranchStmt:
						if x.Tok == token.CONTINUE || x.Tok == token.BREAK {
							skip = true
						}
					case *ast.ReturnStmt:
						// leaving with an error fails the whole call: the notification is
						// not skipped silently.
						for _, res := range x.Results {
							if isNilIdent(info, res) {
								skip = true
							}
						}
						if len(x.Results) == 0 {
							skip = true
						}
					}
					return true
				})
				if skip {
					break
				}
			}
			r.Check(direct, "ytypes.UnmarshalNotifications:every-notification-applied", c.Pos(loop.Pos()), "UnmarshalSetRequest is reached for every notification",
				"a notification can be skipped before UnmarshalSetRequest is called (e.g. one that only carries a prefix and the atomic flag): its subtree is not replaced")
			atomicOK := false
			ast.Inspect(loop.Body, func(m ast.Node) bool {
				cl, ok := m.(*ast.CompositeLit)
				if !ok || namedTypeOf(info.Types[cl].Type) != "github.com/openconfig/gnmi/proto/gnmi.Path" || len(cl.Elts) != 0 {
					return true
				}
				atomic, others := false, 0
				for _, ft := range c.FactsAt(f, cl, false) {
					if ft.Kind == "cond" && ft.Pos {
						if sel, ok := ast.Unparen(ft.Cond).(*ast.SelectorExpr); ok && sel.Sel.Name == "Atomic" {
							atomic = true
							continue
						}
					}
					if ft.Kind == "cond" && enclosesLexically(c, f, ft.Cond, cl) {
						others++ // a further condition narrows "atomic ⇒ delete the prefix"
					}
				}
				if atomic && others == 0 {
					atomicOK = true
				}
				return true
			})
			r.Check(atomicOK, "ytypes.UnmarshalNotifications:atomic⇒delete-prefix", c.Pos(loop.Pos()), "the empty delete path (the prefix itself) is added exactly when n.Atomic", "the prefix-delete for atomic notifications is missing, not conditional on n.Atomic, or narrowed by a further condition (e.g. only when the notification carries no explicit delete): an atomic notification then updates the existing subtree in place instead of replacing it, so entries of an ordered list keep their old order")
		}
	}
}

// ---- C14: pruneBranchesInternal ---------------------------------------------------

func rulePrune(c *Ctx, r *Report) {
	r.Rule("R-PRUNE", "in pruneBranchesInternal the all-children-pruned flag only ever goes from true to false; every Set writes a zero value into a struct-pointer (or empty ordered-map) field and is conditional on emptiness; leaf fields are compared with the zero value of their type; ordered maps are recognised before struct pointers are dereferenced", 11)
	f := c.MustFunc(r, "ygot", "pruneBranchesInternal")
	if f == nil {
		return
	}
	info := f.Info()
	// monotone flag: the bool local returned at the end.
	var flag types.Object
	if n := len(f.Decl.Body.List); n > 0 {
		if rs, ok := f.Decl.Body.List[n-1].(*ast.ReturnStmt); ok && len(rs.Results) == 1 {
			flag = ObjOf(info, rs.Results[0])
		}
	}
	if flag == nil {
		r.Und("ygot.pruneBranchesInternal:flag", c.Pos(f.Decl.Pos()), "result flag not identified")
	} else {
		n := 0
		bad := 0
		ast.Inspect(f.Decl.Body, func(x ast.Node) bool {
			as, ok := x.(*ast.AssignStmt)
			if !ok {
				return true
			}
			for i, l := range as.Lhs {
				if ObjOf(info, l) != flag || i >= len(as.Rhs) {
					continue
				}
				n++
				v := constName(info, as.Rhs[i])
				if as.Tok == token.DEFINE && v == "true" {
					continue
				}
				if v != "false" {
					bad++
					r.Bad(fmt.Sprintf("ygot.pruneBranchesInternal:flag-assign#%d", n), c.Pos(as.Pos()),
						"the all-children-pruned flag is assigned "+types.ExprString(as.Rhs[i])+": once a populated field has been seen the flag must stay false, otherwise a later empty child makes the parent (and its set leaves) disappear")
				}
			}
			return true
		})
		if bad == 0 {
			r.OK("ygot.pruneBranchesInternal:flag-monotone", c.Pos(f.Decl.Pos()), fmt.Sprintf("%d assignments, all `= false`", n))
		}
		// every `flag = false` has a witness that the field keeps data: a non-zero length, a child that
		// was not pruned, a non-zero leaf, or (outside the ordered-map block only) a non-nil pointer leaf.
		k := 0
		ast.Inspect(f.Decl.Body, func(x ast.Node) bool {
			as, ok := x.(*ast.AssignStmt)
			if !ok || len(as.Lhs) != 1 || ObjOf(info, as.Lhs[0]) != flag || as.Tok == token.DEFINE {
				return true
			}
			k++
			inOM := false
			witness := ""
			for _, ft := range c.FactsAt(f, as, false) {
				if ft.Kind != "cond" {
					continue
				}
				e := ast.Unparen(ft.Cond)
				if id, ok := e.(*ast.Ident); ok {
					obj := info.ObjectOf(id)
					ast.Inspect(f.Decl.Body, func(m ast.Node) bool {
						a2, ok := m.(*ast.AssignStmt)
						if !ok || len(a2.Rhs) != 1 {
							return true
						}
						if len(a2.Lhs) == 2 && ObjOf(info, a2.Lhs[1]) == obj && ft.Pos {
							if ta, ok := a2.Rhs[0].(*ast.TypeAssertExpr); ok && strings.HasSuffix(typeName(info, ta.Type), "GoOrderedMap") {
								inOM = true
							}
						}
						if len(a2.Lhs) == 1 && ObjOf(info, a2.Lhs[0]) == obj && !ft.Pos && IsCall(info, a2.Rhs[0], P("ygot")+".pruneBranchesInternal") {
							witness = "child not pruned"
						}
						return true
					})
					continue
				}
				// witnessOf: what a condition (with polarity) proves about the field: a positive
				// disjunction needs a witness in every disjunct, a positive conjunction in any.
				var witnessOf func(e ast.Expr, pos bool) string
				witnessOf = func(e ast.Expr, pos bool) string {
					e = ast.Unparen(e)
					if u, ok := e.(*ast.UnaryExpr); ok && u.Op == token.NOT {
						return witnessOf(u.X, !pos)
					}
					if be, ok := e.(*ast.BinaryExpr); ok {
						if (be.Op == token.LOR && pos) || (be.Op == token.LAND && !pos) {
							a, b := witnessOf(be.X, pos), witnessOf(be.Y, pos)
							if a != "" && b != "" {
								if a == b {
									return a
								}
								return a + " or " + b
							}
							return ""
						}
						if (be.Op == token.LAND && pos) || (be.Op == token.LOR && !pos) {
							if a := witnessOf(be.X, pos); a != "" {
								return a
							}
							return witnessOf(be.Y, pos)
						}
						isLen := strings.HasSuffix(types.ExprString(be.X), ".Len()")
						zero, _ := ConstOf(info, be.Y)
						if isLen && zero == "0" && ((be.Op == token.NEQ && pos) || (be.Op == token.EQL && !pos) || (be.Op == token.GTR && pos)) {
							return "non-zero length"
						}
					}
					if call, ok := e.(*ast.CallExpr); ok {
						fn := FullName(Callee(info, call))
						if fn == "reflect.DeepEqual" && !pos {
							return "non-zero leaf"
						}
						if fn == "reflect.Value.IsNil" && !pos {
							return "non-nil pointer"
						}
					}
					return ""
				}
				if w := witnessOf(e, ft.Pos); w != "" && (witness == "" || witness == "non-nil pointer") {
					witness = w
				}
			}
			if inOM && strings.Contains(witness, "non-nil pointer") {
				witness = "" // a non-nil ordered map may still be empty (and is then pruned itself)
			}
			r.Check(witness != "", fmt.Sprintf("ygot.pruneBranchesInternal:keeps-parent#%d", k), c.Pos(as.Pos()), "the flag is cleared only with a witness that the field keeps data: "+witness,
				"pruneBranchesInternal marks the parent as non-empty for a field that is not known to keep data (e.g. a non-nil but empty ordered list, which is itself set to nil): the empty container survives the first call and disappears on the second")
			return true
		})
	}
	// every Set writes reflect.Zero(..) and is guarded.
	ns := 0
	for _, call := range CallsIn(info, f.Decl.Body, "reflect.Value.Set") {
		ns++
		zero := len(call.Args) == 1 && IsCall(info, call.Args[0], "reflect.Zero")
		// classify: what a set of facts establishes about the field that is being zeroed.
		classify := func(facts []Fact) (structPtr, om, empty bool) {
			structPtr = factHasCall(info, facts, true, P("util")+".IsTypeStructPtr")
			for _, ft := range facts {
				if ft.Kind != "cond" {
					continue
				}
				if ft.Pos && (len(CallsIn(info, ft.Cond, "reflect.DeepEqual")) > 0 || strings.Contains(types.ExprString(ft.Cond), "Len() == 0")) {
					empty = true
				}
				if id, ok := ast.Unparen(ft.Cond).(*ast.Ident); ok && ft.Pos {
					obj := info.ObjectOf(id)
					ast.Inspect(f.Decl.Body, func(m ast.Node) bool {
						as, ok := m.(*ast.AssignStmt)
						if !ok {
							return true
						}
						// ok of a GoOrderedMap assertion
						if len(as.Lhs) == 2 && ObjOf(info, as.Lhs[1]) == obj {
							if ta, ok := as.Rhs[0].(*ast.TypeAssertExpr); ok && strings.HasSuffix(typeName(info, ta.Type), "GoOrderedMap") {
								om = true
							}
						}
						// childPruned := pruneBranchesInternal(...)
						if len(as.Lhs) == 1 && len(as.Rhs) == 1 && ObjOf(info, as.Lhs[0]) == obj && IsCall(info, as.Rhs[0], P("ygot")+".pruneBranchesInternal") {
							empty = true
						}
						return true
					})
				}
			}
			return
		}
		structPtr, om, empty := classify(c.FactsAt(f, call, true))
		if zero && !((structPtr || om) && empty) {
			// the lexical reading fails when several branches fall into one shared Set: ask for
			// the same three facts on every control-flow path that reaches it.
			if holds, decided := c.EveryPath(f, call, func(facts []Fact) bool {
				sp, o, e := classify(facts)
				return (sp || o) && e
			}); decided && holds {
				structPtr, empty = true, true
			}
		}
		r.Check(zero && (structPtr || om) && empty, fmt.Sprintf("ygot.pruneBranchesInternal:Set#%d", ns), c.Pos(call.Pos()),
			"writes a zero value into a struct-pointer/ordered-map field, only when it is empty",
			fmt.Sprintf("a Set in pruneBranchesInternal is not (zero value: %v) ∧ (struct pointer or ordered map: %v) ∧ (conditional on emptiness: %v): leaves, leaf-lists or populated branches can be removed", zero, structPtr || om, empty))
	}
	if ns == 0 {
		r.Bad("ygot.pruneBranchesInternal:Set", c.Pos(f.Decl.Pos()), "no Set: nothing is ever pruned")
	}
	// ordered-map recognition precedes struct-pointer handling.
	omPos, spPos := token.NoPos, token.NoPos
	ast.Inspect(f.Decl.Body, func(m ast.Node) bool {
		if ta, ok := m.(*ast.TypeAssertExpr); ok && ta.Type != nil && strings.HasSuffix(typeName(info, ta.Type), "GoOrderedMap") && omPos == token.NoPos {
			omPos = ta.Pos()
		}
		if call, ok := m.(*ast.CallExpr); ok && IsCall(info, call, P("util")+".IsTypeStructPtr") && spPos == token.NoPos {
			spPos = call.Pos()
		}
		return true
	})
	r.Check(omPos != token.NoPos && spPos != token.NoPos && omPos < spPos, "ygot.pruneBranchesInternal:orderedmap-before-structptr", c.Pos(f.Decl.Pos()),
		"fields are tested for GoOrderedMap before being treated as struct pointers", "ordered maps are not recognised before the struct-pointer branch: reflecting into their unexported fields panics")
	// leaf zero test: default arm compares with reflect.Zero via DeepEqual.
	zeroCmp := false
	for _, call := range CallsIn(info, f.Decl.Body, "reflect.DeepEqual") {
		if len(call.Args) == 2 && len(CallsIn(info, call.Args[0], "reflect.Zero")) > 0 {
			if len(CallsIn(info, call.Args[1], "reflect.Value.Elem")) == 0 { // the leaf comparison, not the struct one
				zeroCmp = true
			}
		}
	}
	r.Check(zeroCmp, "ygot.pruneBranchesInternal:leaf-zero-test", c.Pos(f.Decl.Pos()), "non-pointer fields count as unset only when equal to their type's zero value",
		"the non-pointer leaf test is no longer a comparison with reflect.Zero(type): set union members holding a zero value (e.g. UnionUint32(0)) are treated as unset and their container is pruned")
}

// ---- C17 / C01: enums ----------------------------------------------------------

func ruleEnumLib(c *Ctx, r *Report) {
	r.Rule("R-ENUM-LIB", "enumFieldToString treats exactly the value 0 as UNSET, every name it returns comes from a successful lookup and an unknown value is an error; castToEnumValue consults the type's own ΛMap on every call (no cache keyed by bare type name) and compares names exactly first, then with the module prefix stripped on both sides", 5)
	if f := c.MustFunc(r, "ygot", "enumFieldToString"); f != nil {
		info := f.Info()
		// unset test
		unset := ""
		ast.Inspect(f.Decl.Body, func(n ast.Node) bool {
			is, ok := n.(*ast.IfStmt)
			if !ok || len(is.Body.List) == 0 {
				return true
			}
			if rs, ok := is.Body.List[len(is.Body.List)-1].(*ast.ReturnStmt); ok && len(rs.Results) == 3 && constName(info, rs.Results[1]) == "false" && constName(info, rs.Results[2]) == "nil" {
				unset = types.ExprString(is.Cond)
				if be, ok := ast.Unparen(is.Cond).(*ast.BinaryExpr); ok {
					ok2 := be.Op == token.EQL && constName(info, be.Y) == "0" && IsCall(info, be.X, "reflect.Value.Int")
					r.Check(ok2, "ygot.enumFieldToString:unset⇔value==0", c.Pos(is.Pos()), "UNSET is exactly 0", "the UNSET test is `"+unset+"`, not `value == 0`: defined values other than 0 (e.g. negative ones) are never rendered / undefined ones not reported")
				}
			}
			return true
		})
		if unset == "" {
			r.Bad("ygot.enumFieldToString:unset⇔value==0", c.Pos(f.Decl.Pos()), "no UNSET early return found")
		}
		// every return of set=true is dominated by successful lookups (two `!ok → error` early returns)
		okCount := 0
		ast.Inspect(f.Decl.Body, func(n ast.Node) bool {
			rs, isR := n.(*ast.ReturnStmt)
			if !isR || len(rs.Results) != 3 || constName(info, rs.Results[1]) != "true" {
				return true
			}
			facts := c.FactsAt(f, rs, false)
			cnt := 0
			for _, ft := range facts {
				if ft.Kind == "cond" && ft.Pos {
					if id, ok := ast.Unparen(ft.Cond).(*ast.Ident); ok && boundByMapCommaOk(f, info.ObjectOf(id)) {
						cnt++
					}
				}
			}
			if cnt >= 2 {
				okCount++
			}
			return true
		})
		r.Check(okCount >= 1, "ygot.enumFieldToString:name⇐successful-lookups", c.Pos(f.Decl.Pos()), "a name is returned only after the type and the value were found in ΛMap", "a name can be returned without both ΛMap lookups having succeeded")
		// the UNSET test dominates every ΛMap lookup: 0 is never looked up, so it is never rendered
		// even for a type whose map (wrongly) has an entry for 0.
		dom := true
		nl := 0
		ast.Inspect(f.Decl.Body, func(n ast.Node) bool {
			ix, ok := n.(*ast.IndexExpr)
			if !ok {
				return true
			}
			if _, isMap := info.Types[ix.X].Type.Underlying().(*types.Map); !isMap {
				return true
			}
			nl++
			zeroExcluded := false
			for _, ft := range c.FactsAt(f, ix, false) {
				if ft.Kind == "cond" && !ft.Pos {
					if be, ok := ast.Unparen(ft.Cond).(*ast.BinaryExpr); ok && be.Op == token.EQL && constName(info, be.Y) == "0" && IsCall(info, be.X, "reflect.Value.Int") {
						zeroExcluded = true
					}
				}
			}
			if !zeroExcluded {
				dom = false
			}
			return true
		})
		r.Check(dom && nl >= 2, "ygot.enumFieldToString:unset-before-lookup", c.Pos(f.Decl.Pos()), "value 0 returns UNSET before any lookup", "enumFieldToString looks the value up before (or without) excluding 0: for a type whose ΛMap has an entry for 0 the zero (UNSET) value is rendered")
	}
	if f := c.MustFunc(r, "ytypes", "castToEnumValue"); f != nil {
		info := f.Info()
		// (a) uses no package-level variable
		gl := ""
		ast.Inspect(f.Decl.Body, func(n ast.Node) bool {
			if id, ok := n.(*ast.Ident); ok {
				if v, ok := info.Uses[id].(*types.Var); ok && v.Pkg() != nil && v.Parent() == v.Pkg().Scope() && strings.HasPrefix(v.Pkg().Path(), modPath) {
					gl = v.Name()
				}
			}
			return true
		})
		r.Check(gl == "", "ytypes.castToEnumValue:no-global-state", c.Pos(f.Decl.Pos()), "no package-level state involved", "castToEnumValue uses package-level variable "+gl+": results for one enum type can leak into another (types from different packages share bare names)")
		// (b) ΛMap obtained reflectively in this function
		lm := false
		for _, call := range CallsIn(info, f.Decl.Body, P("internal/yreflect")+".MethodByName", "reflect.Value.MethodByName") {
			for _, a := range call.Args {
				if v, ok := info.Types[a]; ok && v.Value != nil && strings.Trim(v.Value.ExactString(), `"`) == "ΛMap" {
					lm = true
				}
			}
		}
		r.Check(lm, "ytypes.castToEnumValue:ΛMap-per-call", c.Pos(f.Decl.Pos()), "the enum's own ΛMap is looked up", "castToEnumValue no longer looks up the type's ΛMap")
		// (c) comparison strips the module prefix on both sides
		strip := false
		ast.Inspect(f.Decl.Body, func(n ast.Node) bool {
			be, ok := n.(*ast.BinaryExpr)
			if !ok || be.Op != token.EQL {
				return true
			}
			if IsCall(info, be.X, P("util")+".StripModulePrefix") && IsCall(info, be.Y, P("util")+".StripModulePrefix") {
				strip = true
			}
			return true
		})
		// (d) an exact comparison of the whole name is tried in a loop that precedes the stripped one.
		var exactPos, stripPos token.Pos
		ast.Inspect(f.Decl.Body, func(n ast.Node) bool {
			be, ok := n.(*ast.BinaryExpr)
			if !ok || be.Op != token.EQL || c.EnclosingLoop(f, be) == nil {
				return true
			}
			if IsCall(info, be.X, P("util")+".StripModulePrefix") && stripPos == token.NoPos {
				stripPos = be.Pos()
			}
			if sel, ok := ast.Unparen(be.X).(*ast.SelectorExpr); ok && sel.Sel.Name == "Name" && paramIndex(f, ObjOf(info, be.Y)) == 1 && exactPos == token.NoPos {
				exactPos = be.Pos()
			}
			return true
		})
		r.Check(exactPos != token.NoPos && stripPos != token.NoPos && exactPos < stripPos, "ytypes.castToEnumValue:exact-before-stripped", c.Pos(f.Decl.Pos()), "an exact name match is tried before the prefix-insensitive comparison", "castToEnumValue compares names only modulo a module-prefix-like part: enum names that themselves contain a colon and differ only before it (ipv4:unicast, ipv6:unicast) collide and the parsed value depends on map iteration order")
		r.Check(strip, "ytypes.castToEnumValue:strip-prefix-both-sides", c.Pos(f.Decl.Pos()), "names compared modulo module prefix", "the name comparison in castToEnumValue no longer strips the module prefix on both sides: 'module:NAME' (what AppendModuleName renders) is not parsed back for every caller (unions, keys)")
	}
}

// ---- C18: decoding ----------------------------------------------------------------

func ruleFloat2Int(c *Ctx, r *Report) {
	r.Rule("R-FLOAT2INT", "every float→integer conversion of a decoded JSON number is preceded by checkJSONFloat64Range, which contains an integrality test in a sound form and compares the range without converting the float first", 8)
	if f := c.MustFunc(r, "ytypes", "checkJSONFloat64Range"); f != nil {
		info := f.Info()
		fparam := info.ObjectOf(f.Decl.Type.Params.List[1].Names[0])
		integral := ""
		ast.Inspect(f.Decl.Body, func(n ast.Node) bool {
			be, ok := n.(*ast.BinaryExpr)
			if !ok {
				return true
			}
			for _, pr := range [][2]ast.Expr{{be.X, be.Y}, {be.Y, be.X}} {
				if ObjOf(info, pr[0]) == fparam && be.Op == token.NEQ {
					if call, ok := ast.Unparen(pr[1]).(*ast.CallExpr); ok {
						switch FullName(Callee(info, call)) {
						case "math.Trunc", "math.Floor", "math.Ceil", "math.Round", "math.RoundToEven":
							if len(call.Args) == 1 && ObjOf(info, call.Args[0]) == fparam {
								integral = types.ExprString(be)
							}
						}
					}
				}
				if IsCall(info, pr[0], "math.Mod") && be.Op == token.NEQ && constName(info, pr[1]) == "0" {
					integral = types.ExprString(be)
				}
			}
			return true
		})
		errOn := false
		if integral != "" {
			ast.Inspect(f.Decl.Body, func(n ast.Node) bool {
				if is, ok := n.(*ast.IfStmt); ok && types.ExprString(is.Cond) == integral && terminates(info, is.Body.List) {
					errOn = true
				}
				return true
			})
		}
		r.Check(integral != "" && errOn, "ytypes.checkJSONFloat64Range:integrality", c.Pos(f.Decl.Pos()), "non-integral numbers are rejected: "+integral,
			"checkJSONFloat64Range has no sound integrality test (accepted: f != math.Trunc/Floor/Ceil/Round(f), math.Mod(f,1) != 0) leading to an error: fractional numbers (incl. negative ones) are truncated into integer leaves")
		// range comparison must not convert f to an integer first.
		conv := 0
		ast.Inspect(f.Decl.Body, func(n ast.Node) bool {
			if call, ok := n.(*ast.CallExpr); ok && len(call.Args) == 1 {
				if tv, ok := info.Types[call.Fun]; ok && tv.IsType() {
					if b, ok := isIntBasic(tv.Type); ok && b != nil && ObjOf(info, call.Args[0]) == fparam {
						// conversions inside a comparison
						pm := c.parentMap(f.File)
						if be, ok := pm[call].(*ast.BinaryExpr); ok && (be.Op == token.LSS || be.Op == token.GTR || be.Op == token.LEQ || be.Op == token.GEQ) {
							conv++
						}
					}
				}
			}
			return true
		})
		r.Check(conv == 0, "ytypes.checkJSONFloat64Range:range-on-float", c.Pos(f.Decl.Pos()), "range compared on the float itself", "the range test converts the float to an integer first: huge or NaN inputs wrap into range")
	}
	// every float→int conversion in ytypes/util_types.go + leaf.go is preceded by checkJSONFloat64Range.
	n := 0
	for _, f := range c.funcsInScope(func(s string) bool { return s == "ytypes/util_types.go" || s == "ytypes/leaf.go" }, libPkgs) {
		info := f.Info()
		ast.Inspect(f.Decl.Body, func(x ast.Node) bool {
			call, ok := x.(*ast.CallExpr)
			if !ok || len(call.Args) != 1 {
				return true
			}
			tv, ok := info.Types[call.Fun]
			if !ok || !tv.IsType() {
				return true
			}
			if _, isInt := isIntBasic(tv.Type); !isInt {
				return true
			}
			at := info.Types[call.Args[0]]
			ab, ok := at.Type.Underlying().(*types.Basic)
			if !ok || ab.Info()&types.IsFloat == 0 || at.Value != nil {
				return true
			}
			n++
			pre := false
			for _, ck := range CallsIn(info, f.Decl.Body, P("ytypes")+".checkJSONFloat64Range") {
				if ck.Pos() < call.Pos() && len(ck.Args) == 2 && sameExpr(info, ck.Args[1], call.Args[0]) {
					// and its error leads to a return
					pre = true
				}
			}
			inChecker := f.Name == "ytypes.checkJSONFloat64Range"
			r.Check(pre || inChecker, fmt.Sprintf("%s:float→int#%d", f.Name, n), c.Pos(call.Pos()), "preceded by checkJSONFloat64Range on the same value",
				f.Name+" converts a float to an integer without first passing it through checkJSONFloat64Range: out-of-range / fractional numbers are coerced")
			return true
		})
	}
}

// ruleDecodeDiscipline: per-arm must-use of the checked parsers in sanitizeGNMI/sanitizeJSON.
func ruleDecodeDiscipline(c *Ctx, r *Report) {
	r.Rule("R-DECODE", "in sanitizeGNMI every integer arm returns only values produced by StringToType (which range-checks), and in sanitizeJSON/stringToKeyType every strconv/base64/enum parse error leads to an error return; the gNMI type test precedes the dispatch", 12)
	if f := c.MustFunc(r, "ytypes", "sanitizeGNMI"); f != nil {
		info := f.Info()
		sws := KindSwitches(f, yangKind)
		if len(sws) != 1 {
			r.Und("ytypes.sanitizeGNMI:switch", c.Pos(f.Decl.Pos()), "dispatch shape not recognised")
		} else {
			facts := c.FactsAt(f, sws[0].Switch, false)
			guarded := false
			for _, ft := range facts {
				if ft.Kind == "cond" {
					if len(CallsIn(info, ft.Cond, P("ytypes")+".gNMIToYANGTypeMatches")) > 0 {
						guarded = true
					}
					if id, ok := ast.Unparen(ft.Cond).(*ast.Ident); ok && ft.Pos {
						// `ok` assigned from gNMIToYANGTypeMatches in the if-init
						obj := info.ObjectOf(id)
						ast.Inspect(f.Decl.Body, func(m ast.Node) bool {
							if as, ok := m.(*ast.AssignStmt); ok && len(as.Lhs) == 1 && ObjOf(info, as.Lhs[0]) == obj && IsCall(info, as.Rhs[0], P("ytypes")+".gNMIToYANGTypeMatches") {
								guarded = true
							}
							return true
						})
					}
				}
			}
			r.Check(guarded, "ytypes.sanitizeGNMI:type-test-precedes-dispatch", c.Pos(sws[0].Switch.Pos()), "a TypedValue of the wrong kind is rejected before any getter is used", "sanitizeGNMI no longer rejects mismatching TypedValues before dispatching: getters return zero values that are stored silently")
			for _, k := range []string{"yang.Yint8", "yang.Yint16", "yang.Yint32", "yang.Yint64", "yang.Yuint8", "yang.Yuint16", "yang.Yuint32", "yang.Yuint64"} {
				a := sws[0].ByKey[k]
				if a == nil {
					r.Bad("ytypes.sanitizeGNMI:"+k, c.Pos(sws[0].Switch.Pos()), "no arm for "+k)
					continue
				}
				// every non-error return value derives from a StringToType result.
				okAll, nret := true, 0
				var st types.Object
				ast.Inspect(a.Node, func(m ast.Node) bool {
					if as, ok := m.(*ast.AssignStmt); ok && len(as.Rhs) == 1 && IsCall(info, as.Rhs[0], P("ytypes")+".StringToType") {
						st = ObjOf(info, as.Lhs[0])
					}
					return true
				})
				ast.Inspect(a.Node, func(m ast.Node) bool {
					rs, ok := m.(*ast.ReturnStmt)
					if !ok || len(rs.Results) != 2 {
						return true
					}
					if constName(info, rs.Results[0]) == "nil" {
						return true
					}
					nret++
					uses := false
					ast.Inspect(rs.Results[0], func(z ast.Node) bool {
						if id, ok := z.(*ast.Ident); ok && st != nil && info.ObjectOf(id) == st {
							uses = true
						}
						return true
					})
					if !uses {
						okAll = false
					}
					return true
				})
				r.Check(okAll && nret > 0 && st != nil, "ytypes.sanitizeGNMI:"+k+":via-StringToType", c.Pos(a.Node.Pos()), "value range-checked by StringToType for the leaf's width",
					"the "+k+" arm of sanitizeGNMI returns a value that did not pass through StringToType: a TypedValue outside the leaf's range is wrapped instead of rejected")
			}
		}
	}
	// error discipline for parsers.
	parsers := []string{"strconv.ParseInt", "strconv.ParseUint", "strconv.ParseFloat", "encoding/base64.Encoding.DecodeString", P("ytypes") + ".castToEnumValue", P("ytypes") + ".yangFloatIntToGoType", P("ytypes") + ".checkJSONFloat64Range"}
	for _, name := range []string{"sanitizeJSON", "stringToKeyType", "StringToType", "enumStringToValue", "yangFloatIntToGoType"} {
		f := c.MustFunc(r, "ytypes", name)
		if f == nil {
			continue
		}
		info := f.Info()
		pm := c.parentMap(f.File)
		for i, call := range CallsIn(info, f.Decl.Body, parsers...) {
			key := fmt.Sprintf("ytypes.%s:parse#%d:%s", name, i+1, ShortName(Callee(info, call)))
			// the call's error result is bound and tested, with an error return in the test's body.
			var errObj types.Object
			var host ast.Node
			switch p := pm[call].(type) {
			case *ast.AssignStmt:
				if len(p.Lhs) >= 1 {
					errObj = ObjOf(info, p.Lhs[len(p.Lhs)-1])
					host = p
				}
			}
			checked := false
			if errObj != nil {
				ast.Inspect(f.Decl.Body, func(m ast.Node) bool {
					is, ok := m.(*ast.IfStmt)
					if !ok || is.Pos() < host.Pos() {
						return true
					}
					mentions := false
					ast.Inspect(is.Cond, func(z ast.Node) bool {
						if id, ok := z.(*ast.Ident); ok && info.ObjectOf(id) == errObj {
							mentions = true
						}
						return true
					})
					if mentions && terminates(info, is.Body.List) {
						checked = true
					}
					return true
				})
			}
			// or returned directly: `return x, err`
			if !checked && errObj != nil {
				ast.Inspect(f.Decl.Body, func(m ast.Node) bool {
					if rs, ok := m.(*ast.ReturnStmt); ok && rs.Pos() > host.Pos() {
						for _, res := range rs.Results {
							if ObjOf(info, res) == errObj {
								checked = true
							}
						}
					}
					return true
				})
			}
			if _, isRet := pm[call].(*ast.ReturnStmt); isRet {
				checked = true
			}
			r.Check(checked, key, c.Pos(call.Pos()), "parse error tested and returned", name+" ignores the error of "+ShortName(Callee(info, call))+": malformed input is stored as a zero/partial value")
		}
	}
}

// ---- C19: RFC7951 encodings ---------------------------------------------------------

func ruleFloatFmt(c *Ctx, r *Report, fs []*FuncInfo) {
	r.Rule("R-FLOATFMT", "floating-point values are rendered without exponent and at full precision: strconv.FormatFloat(x, 'f', -1, 64) for float64; no %v/%g/%e or fmt.Sprint on a float operand in the RFC7951 scalar writer", 1)
	n := 0
	for _, f := range fs {
		info := f.Info()
		for _, call := range CallsIn(info, f.Decl.Body, "strconv.FormatFloat") {
			n++
			key := fmt.Sprintf("%s:FormatFloat#%d", f.Name, n)
			verb, _ := ConstOf(info, call.Args[1])
			prec, _ := ConstOf(info, call.Args[2])
			bits, _ := ConstOf(info, call.Args[3])
			want := "64"
			if b, ok := info.Types[call.Args[0]].Type.Underlying().(*types.Basic); ok && b.Kind() == types.Float32 {
				want = "32"
			}
			r.Check(verb == "102" && prec == "-1" && bits == want, key, c.Pos(call.Pos()), "'f', -1, "+want,
				fmt.Sprintf("FormatFloat(fmt=%s, prec=%s, bitSize=%s) on a %s-bit value: must be 'f' (102), -1, %s — otherwise exponents appear or digits are lost", verb, prec, bits, want, want))
		}
	}
	// float arms of reflect kind dispatches that produce text (RFC7951 scalars, list key strings) must not use fmt verbs.
	seenArm := map[ast.Node]bool{}
	for _, f := range fs {
		info := f.Info()
		for _, sw := range KindSwitches(f, reflectKind) {
			for _, k := range []string{"reflect.Float64", "reflect.Float32"} {
				a := sw.ByKey[k]
				if a == nil || seenArm[a.Node] {
					continue
				}
				seenArm[a.Node] = true
				// only arms that render: they return or build a string.
				renders := len(CallsIn(info, a.Node, "fmt.Sprintf", "fmt.Sprint", "fmt.Sprintln", "strconv.FormatFloat")) > 0
				if !renders {
					continue
				}
				n++
				bad := len(CallsIn(info, a.Node, "fmt.Sprintf", "fmt.Sprint", "fmt.Sprintln")) > 0
				ff := len(CallsIn(info, a.Node, "strconv.FormatFloat")) > 0
				short := strings.TrimPrefix(f.Name, "")
				r.Check(!bad && ff, short+":"+k+":no-fmt-verb", c.Pos(a.Node.Pos()), "float arm uses strconv.FormatFloat only", "the float arm of "+f.Name+" formats through fmt (%v/%g give exponents such as 1e+06 / 1e+21, which are not decimal64 lexical forms and differ from the plain decimal string of the same number) instead of strconv.FormatFloat(…,'f',-1,64)")
			}
		}
	}
}

func ruleRFC7951Encodings(c *Ctx, r *Report) {
	r.Rule("R-RFC7951", "the RFC7951 arms of jsonValue reach the right encoders: Binary → base64, YANGEmpty → [null], enums → name lookup; the module prefix of a member is cleared exactly when its module equals the previous one, starting from the parent's module; recursive JSON calls forward the parent module they were given or the child module computed by prependmodsJSON", 8)
	Y := P("ygot")
	if f := c.MustFunc(r, "ygot", "jsonSlice"); f != nil {
		info := f.Info()
		ok := false
		for _, call := range CallsIn(info, f.Decl.Body, Y+".binaryBase64") {
			if factHasBinaryName(c, f, call) {
				ok = true
			}
		}
		r.Check(ok, "ygot.jsonSlice:Binary→base64", c.Pos(f.Decl.Pos()), "Binary values are base64 strings", "jsonSlice no longer renders Binary through binaryBase64")
	}
	if f := c.MustFunc(r, "ygot", "jsonValue"); f != nil {
		info := f.Info()
		// [null] literals under jType==RFC7951
		nulls := 0
		ast.Inspect(f.Decl.Body, func(n ast.Node) bool {
			cl, ok := n.(*ast.CompositeLit)
			if !ok || len(cl.Elts) != 1 || constName(info, cl.Elts[0]) != "nil" {
				return true
			}
			if _, isSlice := info.Types[cl].Type.Underlying().(*types.Slice); !isSlice {
				return true
			}
			rf := false
			for _, ft := range c.FactsAt(f, cl, false) {
				if ft.Kind == "cond" && ft.Pos {
					if be, ok := ast.Unparen(ft.Cond).(*ast.BinaryExpr); ok && be.Op == token.EQL && (constName(info, be.Y) == "ygot.RFC7951" || constName(info, be.X) == "ygot.RFC7951") {
						rf = true
					}
				}
			}
			if rf {
				nulls++
			}
			return true
		})
		r.Check(nulls >= 2, "ygot.jsonValue:YANGEmpty→[null]", c.Pos(f.Decl.Pos()), fmt.Sprintf("%d [null] sites under jType==RFC7951", nulls), "an empty leaf (plain or inside a union) is no longer rendered as [null] under RFC7951")
		r.Check(len(CallsIn(info, f.Decl.Body, Y+".enumFieldToString")) > 0, "ygot.jsonValue:enum→name", c.Pos(f.Decl.Pos()), "enums rendered by name", "jsonValue no longer maps enum values to names")
		// every writeIETFScalarJSON call is under jType == RFC7951
		for i, call := range CallsIn(info, f.Decl.Body, Y+".writeIETFScalarJSON") {
			rf := false
			for _, ft := range c.FactsAt(f, call, false) {
				if ft.Kind == "cond" && ft.Pos {
					if be, ok := ast.Unparen(ft.Cond).(*ast.BinaryExpr); ok && be.Op == token.EQL && (constName(info, be.Y) == "ygot.RFC7951" || constName(info, be.X) == "ygot.RFC7951") {
						rf = true
					}
				}
			}
			r.Check(rf, fmt.Sprintf("ygot.jsonValue:writeIETFScalarJSON#%d:only-RFC7951", i+1), c.Pos(call.Pos()), "64-bit stringification only for RFC7951", "scalar stringification applied outside RFC7951 mode")
		}
	}
	if f := c.MustFunc(r, "ygot", "prependmodsJSON"); f != nil {
		info := f.Info()
		// prevMod starts as the parentMod parameter; mod cleared iff mod == prevMod.
		pmod := info.ObjectOf(f.Decl.Type.Params.List[1].Names[0])
		var prev types.Object
		ast.Inspect(f.Decl.Body, func(n ast.Node) bool {
			if as, ok := n.(*ast.AssignStmt); ok && as.Tok == token.DEFINE && len(as.Rhs) == 1 && ObjOf(info, as.Rhs[0]) == pmod {
				prev = ObjOf(info, as.Lhs[0])
			}
			return true
		})
		cleared := false
		if prev != nil {
			ast.Inspect(f.Decl.Body, func(n ast.Node) bool {
				is, ok := n.(*ast.IfStmt)
				if !ok {
					return true
				}
				be, ok := ast.Unparen(is.Cond).(*ast.BinaryExpr)
				if !ok || be.Op != token.EQL {
					return true
				}
				if ObjOf(info, be.Y) == prev || ObjOf(info, be.X) == prev {
					// body assigns "" to the other operand; else assigns prev = mod
					body := false
					for _, s := range is.Body.List {
						if as, ok := s.(*ast.AssignStmt); ok && constName(info, as.Rhs[0]) == `""` {
							body = true
						}
					}
					els := false
					if eb, ok := is.Else.(*ast.BlockStmt); ok {
						for _, s := range eb.List {
							if as, ok := s.(*ast.AssignStmt); ok && ObjOf(info, as.Lhs[0]) == prev {
								els = true
							}
						}
					}
					cleared = body && els
				}
				return true
			})
		}
		r.Check(prev != nil && cleared, "ygot.prependmodsJSON:prefix-cleared⇔same-module", c.Pos(f.Decl.Pos()), "prefix omitted exactly when the module equals the previous element's (initially the parent's)",
			"prependmodsJSON no longer starts from the parent's module and clears the prefix exactly on equality: members get spurious or missing module prefixes")
	}
	// module forwarding in recursive JSON calls.
	modFuncs := map[string]bool{Y + ".structJSON": true, Y + ".jsonValue": true, Y + ".mapJSON": true, Y + ".jsonSlice": true, Y + ".mapValuePairsToJSON": true}
	for _, name := range []string{"jsonValue", "mapJSON", "jsonSlice", "mapValuePairsToJSON", "structJSON"} {
		f := c.MustFunc(r, "ygot", name)
		if f == nil {
			continue
		}
		info := f.Info()
		var pmod types.Object
		for _, fl := range f.Decl.Type.Params.List {
			if b, ok := info.Types[fl.Type].Type.Underlying().(*types.Basic); ok && b.Kind() == types.String {
				pmod = info.ObjectOf(fl.Names[0])
			}
		}
		i := 0
		ast.Inspect(f.Decl.Body, func(n ast.Node) bool {
			call, ok := n.(*ast.CallExpr)
			if !ok || !modFuncs[FullName(Callee(info, call))] || len(call.Args) < 2 {
				return true
			}
			i++
			arg := ast.Unparen(call.Args[1])
			ok2 := ObjOf(info, arg) == pmod
			if !ok2 {
				// child module computed by prependmodsJSON (structJSON) or the parent (fake root)
				if id, isID := arg.(*ast.Ident); isID {
					obj := info.ObjectOf(id)
					defs, good := 0, 0
					ast.Inspect(f.Decl.Body, func(m ast.Node) bool {
						if as, ok := m.(*ast.AssignStmt); ok {
							for j, l := range as.Lhs {
								if ObjOf(info, l) != obj {
									continue
								}
								defs++
								if len(as.Rhs) == 1 && IsCall(info, as.Rhs[0], Y+".prependmodsJSON") {
									good++
								} else if len(as.Rhs) == len(as.Lhs) && ObjOf(info, as.Rhs[j]) == pmod {
									good++
								}
							}
						}
						return true
					})
					ok2 = defs > 0 && defs == good
				}
				if v, isConst := info.Types[arg]; isConst && v.Value != nil && name != "structJSON" {
					ok2 = false
				}
			}
			r.Check(ok2, fmt.Sprintf("ygot.%s:module-forwarded#%d→%s", name, i, ShortName(Callee(info, call))), c.Pos(call.Pos()), "passes on the module it was given / the child module from prependmodsJSON",
				fmt.Sprintf("%s passes %s as the parent module to %s instead of the (possibly rewritten) module it received: prefixes are computed against the wrong parent", name, types.ExprString(arg), ShortName(Callee(info, call))))
			return true
		})
	}
}

func factHasBinaryName(c *Ctx, f *FuncInfo, n ast.Node) bool {
	info := f.Info()
	for _, ft := range c.FactsAt(f, n, false) {
		if ft.Kind == "cond" && ft.Pos {
			if be, ok := ast.Unparen(ft.Cond).(*ast.BinaryExpr); ok {
				for _, s := range []ast.Expr{be.X, be.Y} {
					if v, ok := info.Types[s]; ok && v.Value != nil && strings.Trim(v.Value.ExactString(), `"`) == "Binary" {
						return true
					}
				}
			}
		}
	}
	return false
}

// ruleEmptyExact: the Yempty arm of sanitizeJSON accepts exactly [null].
func ruleEmptyExact(c *Ctx, r *Report) {
	r.Rule("R-EMPTY-EXACT", "sanitizeJSON accepts an empty leaf only for a JSON array that is checked (comma-ok) to be an array, of length exactly 1, whose only element is null", 1)
	f := c.MustFunc(r, "ytypes", "sanitizeJSON")
	if f == nil {
		return
	}
	info := f.Info()
	sws := KindSwitches(f, yangKind)
	if len(sws) == 0 || sws[0].ByKey["yang.Yempty"] == nil {
		r.Und("ytypes.sanitizeJSON:yang.Yempty", c.Pos(f.Decl.Pos()), "Yempty arm not found")
		return
	}
	a := sws[0].ByKey["yang.Yempty"]
	ok := false
	for _, rs := range returnsOf(a.Node) {
		if len(rs.Results) != 2 || !isNilConst(info, rs.Results[1]) {
			continue
		}
		lenOne, nullElem, commaOk := false, false, false
		for _, ft := range c.FactsAt(f, rs, false) {
			if ft.Kind != "cond" {
				continue
			}
			e := ast.Unparen(ft.Cond)
			if u, isU := e.(*ast.UnaryExpr); isU && u.Op == token.NOT && !ft.Pos {
				if id, isID := ast.Unparen(u.X).(*ast.Ident); isID && info.ObjectOf(id) != nil && info.ObjectOf(id).Type().String() == "bool" {
					commaOk = true
				}
			}
			if id, isID := e.(*ast.Ident); isID && ft.Pos && info.ObjectOf(id) != nil && info.ObjectOf(id).Type().String() == "bool" {
				commaOk = true
			}
			be, isBE := e.(*ast.BinaryExpr)
			if !isBE {
				continue
			}
			if strings.HasPrefix(types.ExprString(be.X), "len(") {
				if v, isC := ConstOf(info, be.Y); isC && v == "1" && ((be.Op == token.NEQ && !ft.Pos) || (be.Op == token.EQL && ft.Pos)) {
					lenOne = true
				}
			}
			if isNilConst(info, be.Y) && ((be.Op == token.NEQ && !ft.Pos) || (be.Op == token.EQL && ft.Pos)) {
				if _, isIx := ast.Unparen(be.X).(*ast.IndexExpr); isIx {
					nullElem = true
				}
			}
		}
		if lenOne && nullElem && commaOk {
			ok = true
		}
	}
	r.Check(ok, "ytypes.sanitizeJSON:yang.Yempty:exactly-[null]", c.Pos(a.Node.Pos()), "array (comma-ok) ∧ len == 1 ∧ element == nil", "the empty-leaf arm of sanitizeJSON does not require a checked array of length exactly 1 holding null: values such as [null, 1] are accepted as a set empty leaf (or a non-array panics)")
}

// ruleWideKinds: R-WIDE-KINDS — every "64-bit wide" kind set in ygot/render.go equals the set writeIETFScalarJSON stringifies.
func ruleWideKinds(c *Ctx, r *Report) {
	r.Rule("R-WIDE-KINDS", "wherever ygot/render.go singles out the kinds that RFC 7951 encodes as strings, the set is the one writeIETFScalarJSON stringifies (int64, uint64, decimal64/float64): a dispatch that names Int64/Uint64 but not Float64 leaves decimal64 values as JSON numbers on that path", 1)
	w := c.MustFunc(r, "ygot", "writeIETFScalarJSON")
	if w == nil {
		return
	}
	wide := map[string]bool{}
	for _, sw := range KindSwitches(w, reflectKind) {
		for _, a := range sw.Arms {
			if !a.Deflt {
				for _, k := range a.Keys {
					wide[k] = true
				}
			}
		}
	}
	if !wide["reflect.Int64"] || !wide["reflect.Uint64"] {
		r.Und("ygot.writeIETFScalarJSON:wide-set", c.Pos(w.Decl.Pos()), "stringified kind set not recognised")
		return
	}
	r.OK("ygot.writeIETFScalarJSON:wide-set", c.Pos(w.Decl.Pos()), "stringified kinds: "+strings.Join(keysOf(wide), ", "))
	narrow := map[string]bool{"reflect.Int": true, "reflect.Int8": true, "reflect.Int16": true, "reflect.Int32": true, "reflect.Uint": true, "reflect.Uint8": true, "reflect.Uint16": true, "reflect.Uint32": true}
	for _, f := range c.funcsInScope(func(s string) bool { return s == "ygot/render.go" }, libPkgs) {
		if f.Name == "ygot.writeIETFScalarJSON" {
			continue
		}
		for ti, sw := range KindSwitches(f, reflectKind) {
			// an arm that names BOTH 64-bit integer kinds and no narrower one singles out the wide kinds;
			// per-kind dispatches (one arm per kind) are not this pattern.
			named := map[string]bool{}
			var pos token.Pos
			singled := false
			for _, a := range sw.Arms {
				has := map[string]bool{}
				hasNarrow := false
				for _, k := range a.Keys {
					has[k] = true
					if narrow[k] {
						hasNarrow = true
					}
				}
				if has["reflect.Int64"] && has["reflect.Uint64"] && !hasNarrow {
					singled = true
					pos = a.Node.Pos()
				}
				if !hasNarrow {
					for _, k := range a.Keys {
						named[k] = true
					}
				}
			}
			if !singled {
				continue
			}
			miss := ""
			for k := range wide {
				if !named[k] {
					miss = k
				}
			}
			r.Check(miss == "", fmt.Sprintf("%s:kind-switch#%d:wide-set", f.Name, ti+1), c.Pos(pos), "names all of "+strings.Join(keysOf(wide), ", "),
				f.Name+" singles out 64-bit integer kinds but not "+miss+": values of that kind skip the RFC 7951 string encoding on this path (e.g. a decimal64 leaf-list is emitted as JSON numbers)")
		}
	}
}
