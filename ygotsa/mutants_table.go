package main

// Overlay mutants: each re-introduces a defect (or drops a guard) in memory and
// the named rule must report the named construct. See mutants.go.
func init() {
	addMutant(Mutant{Name: "c02-keyvalue-int64", Property: "C02", File: "ygot/render.go",
		Old: "reflect.Int32, reflect.Int64, reflect.Uint,", New: "reflect.Int32, reflect.Uint,", Expect: "T8:yang.Yint64"})
	addMutant(Mutant{Name: "c16-keyvalue-int64", Property: "C16", File: "ygot/render.go",
		Old: "reflect.Int32, reflect.Int64, reflect.Uint,", New: "reflect.Int32, reflect.Uint,", Expect: "T8:yang.Yint64"})
	addMutant(Mutant{Name: "c02-gnmi-yempty", Property: "C02", File: "ytypes/leaf.go",
		Old: "case yang.Ybool, yang.Yempty:\n\t\t_, ok =", New: "case yang.Ybool:\n\t\t_, ok =", Expect: "T5:yang.Yempty"})
	addMutant(Mutant{Name: "c16-stringtotype-float", Property: "C16", File: "ytypes/util_types.go",
		Old: "case reflect.Float64:\n\t\t// decimal64 list keys.", New: "case reflect.Float32:\n\t\t// decimal64 list keys.", Expect: "T10:yang.Ydecimal64"})
	addMutant(Mutant{Name: "c16-stringtokey-bool", Property: "C16", File: "ytypes/util_types.go",
		Old: "\tcase yang.Ybool:\n\t\tswitch value {", New: "\tcase yang.Ybits:\n\t\tswitch value {", Expect: "T9:yang.Ybool"})
	addMutant(Mutant{Name: "c01-jsontype-uint64", Property: "C01", File: "ytypes/util_types.go",
		Old: "yang.Yidentityref, yang.Yint64, yang.Yuint64, yang.Ystring:", New: "yang.Yidentityref, yang.Yint64, yang.Ystring:",
		More:   []Edit{{"ytypes/util_types.go", "yang.Yuint8, yang.Yuint16, yang.Yuint32:\n\t\treturn reflect.TypeOf(float64(0))", "yang.Yuint8, yang.Yuint16, yang.Yuint32, yang.Yuint64:\n\t\treturn reflect.TypeOf(float64(0))"}},
		Expect: "yang.Yuint64"})
	addMutant(Mutant{Name: "c01-writeietf-int64", Property: "C01", File: "ygot/render.go",
		Old: "case reflect.Uint64, reflect.Int64:\n\t\treturn fmt.Sprintf(\"%v\", i)", New: "case reflect.Uint64:\n\t\treturn fmt.Sprintf(\"%v\", i)", Expect: "T11:reflect.Int64"})
	addMutant(Mutant{Name: "c01-builtin-decimal", Property: "C01", File: "ytypes/util_types.go",
		Old: "case yang.Ydecimal64:\n\t\treturn float64(0)", New: "case yang.Ydecimal64:\n\t\treturn float32(0)", Expect: "T2:yang.Ydecimal64"})
	addMutant(Mutant{Name: "c01-leaflist-uint16", Property: "C01", File: "ygot/render.go",
		Old: "\t\tcase reflect.Uint16:\n\t\t\tsval = append(sval, uint16(e.Uint()))\n", New: "", Expect: "T12:leaflistToSlice:yang.Yuint16"})
	addMutant(Mutant{Name: "c08-pathjoin", Property: "C08", File: "ygot/pathstrings.go",
		Old: "return \"/\" + strings.Join(s, \"/\"), err", New: "return \"/\" + stdpath.Join(s...), err", Expect: "lossy:"})
	addMutant(Mutant{Name: "c08-splitpath-escape", Property: "C08", File: "util/path.go",
		Old: "case ch == '\\\\' && !inEscape && inKey:", New: "case ch == '\\\\' && !inEscape && inKey && false:", Expect: "escapable"})
	addMutant(Mutant{Name: "c08-unsorted-keys", Property: "C08", File: "ygot/pathstrings.go",
		Old: "\tsort.Strings(keys)\n\n\tfor _, k := range keys {", New: "\t_ = sort.Strings\n\n\tfor _, k := range keys {", Expect: "collect-then-sort"})
	addMutant(Mutant{Name: "c08-unescaped-bracket", Property: "C08", File: "ygot/pathstrings.go",
		Old: "\t\tv = strings.Replace(v, `]`, `\\]`, -1)\n", New: "", Expect: "extractKV:value:']'"})
	addMutant(Mutant{Name: "c09-absorb", Property: "C09", File: "util/gnmi.go",
		Old: "\t\t\tif setRelation == Subset {\n\t\t\t\tpartial = true\n\t\t\t}\n\t\t\tsetRelation = Superset\n\t\tcase bVal", New: "\t\t\tif setRelation == Subset {\n\t\t\t\treturn PartialIntersect\n\t\t\t}\n\t\t\tsetRelation = Superset\n\t\tcase bVal", Expect: "return:util.PartialIntersect"})
	addMutant(Mutant{Name: "c09-wildcard-name", Property: "C09", File: "util/gnmi.go",
		Old: "if queryElem.Name != \"*\" && queryElem.Name != pathElem.Name {", New: "if queryElem.Name != pathElem.Name {", Expect: "wildcard:name-of-param#1"})
	addMutant(Mutant{Name: "c09-equal-maprange", Property: "C09", File: "util/gnmi.go",
		Old: "\t\tif vo, ok := b.Key[k]; !ok || v != vo {\n\t\t\treturn false\n\t\t}", New: "\t\tif vo, ok := b.Key[k]; !ok || v != vo {\n\t\t\treturn false\n\t\t} else if v == \"*\" {\n\t\t\treturn true\n\t\t}", Expect: "map-range"})
}
