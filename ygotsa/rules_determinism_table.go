package main

import (
	"fmt"
	"go/ast"
	"strings"
)

// Reviewed map loops of the generator packages (pinned tree: 20 of 62). Each was read by hand;
// Cats lists the order-sensitive effect categories the review covered.
func init() {
	rv := func(key string, reason string, cats ...string) {
		reviewedMapLoops[key] = reviewedLoop{Cats: cats, Reason: reason}
	}
	fileIO := "each iteration writes only the file(s) named after its own map key; file contents were computed before the loop"
	rv("generator.main:range(pathCode)", fileIO, "file-io", "branch-on-state:pathCode", "callee-mutates:generator.writePathPackage:pathCode", "callee-state:generator.writeGoPathCodeSingleFile", "callee-state:generator.writePathPackage")
	rv("generator.writeFiles:range(out)", fileIO, "file-io")
	rv("proto_generator.main:range(generatedProtoCode.Packages)", fileIO, "file-io")
	insertOrErr := "insert-if-absent keyed by the child's name; a duplicate name is an error whichever entry comes first (only the error text differs), and RFC 7950 §7.9.2 forbids equal names across the cases of a choice"
	rv("genutil.FindAllChildren:range(ch)", insertOrErr+"; the Annotation write is an idempotent initialisation keyed by the same name", "branch-on-state:directChildren", "callee-mutates:genutil.addNewChild:errs", "callee-mutates:genutil.addNewChild:shadowChildren", "callee-mutates:genutil.addNewChild:directChildren", "fixed-key-write:directChildren", "last-wins:errs")
	rv("genutil.addNonChoiceChildren:range(nch)", insertOrErr, "callee-mutates:genutil.addNewChild:errs", "callee-mutates:genutil.addNewChild:m", "last-wins:errs")
	rv("gogen.CodeGenerator.Generate:range(ir.Directories[directoryPath].Fields[fn].LangType.UnionTypes)", "nil-initialises enumTypeMap[schemaPath] and appends the union's enumerated types to it; the slice is sorted by schema index (sort.Slice) immediately after the loop", "branch-on-state:enumTypeMap", "fixed-key-write:enumTypeMap")
	importsSink := "the collected import paths only ever flow into set-maps (addNewKeys) and into proto3Header.Imports, which writeProto3Header sorts before rendering (checked by R-SORTED-SINK)"
	rv("protogen.stringKeys:range(m)", importsSink, "append-unsorted:ss")
	rv("protogen.writeProto3MsgNested:range(allImports)", importsSink, "append-unsorted:imports")
	rv("protogen.writeProtoEnums:range(enums)", "the rendered enum snippets are sorted by the only caller (CodeGenerator.Generate: sort.Strings(protoEnums), checked by R-SORTED-SINK)", "append-unsorted:genEnums")
	rv("ygen.GenerateIR:range(directoryMap)", "selects the fake root: createFakeRoot adds exactly one entry with IsFakeRoot, so at most one iteration assigns", "last-wins:rootEntry")
	rv("ygen.GenerateIR:range(genEnums)", "insert-if-absent into enumDefinitionMap keyed by the enum id, duplicate id is an error either way; PopulateEnumFlags receives the per-iteration value only (its implementations write nothing else: checked by R-SORTED-SINK)", "branch-on-state:enumDefinitionMap", "callee-state:ygen.LangMapperExt.PopulateEnumFlags")
	rv("ygen.createFakeRoot:range(findRootEntries(structs, compressPaths))", "insert-if-absent into fakeRoot.Dir keyed by the entry name; a duplicate is an error whichever comes first", "branch-on-state:fakeRoot")
	rv("ygen.enumGenState.resolveNameClashSet:range(nameClashSet)", "clashPaths is used only in error messages", "append-unsorted:clashPaths")
	rv("ygen.enumGenState.resolveNameClashSet:range(nameClashSet)#4", "candidate names are accepted only if all are distinct (addCandidateUniqueNames compares the count), so equal candidates — the only order-dependent case — are discarded; two module-level entries are an error either way", "branch-on-state:candidateUniqueNames", "value-from-state:candidateUniqueNames")
	rv("ygen.findMappableEntities:range(nonchoice)", "the recursion writes dirs/enums keyed by unique schema paths", "callee-mutates:ygen.findMappableEntities:dirs", "callee-mutates:ygen.findMappableEntities:enums", "callee-mutates:ygen.findMappableEntities:errs")
	rv("ygen.mappedDefinitions:range(module.Dir)", "the slices feed name-keyed inserts only (yangschema.BuildTree, createFakeRoot); names are unique within one module's Dir, and the modules themselves are processed in sorted order (checked by R-SORTED-SINK)", "append-unsorted:rootElems", "append-unsorted:treeElems")
	rv("ygen.processModules:range(moduleSet.Modules)", "de-duplicates goyang's module map, which registers the same *Module under `name` and `name@revision`; the collected names are sorted after the loop", "branch-on-state:mods")
	rv("ypathgen.generateDirectorySnippet:range(deps)", "snippet.Deps is only folded into the per-package set packages[…].Deps; writeHeader sorts the rendered imports (checked by R-SORTED-SINK)", "append-unsorted:snippet")
	rv("ypathgen.generateDirectorySnippet:range(listBuilderAPIBufs)", "yields one snippet per distinct package; the caller groups snippets by package, so the relative order of different packages' snippets is never observed", "append-unsorted:snippets")
}

// sortCallBefore: in f, a sort.* call whose first argument mentions `what` (as a selector/ident name) precedes pos.
func sortCallBefore(f *FuncInfo, what string, before ast.Node) bool {
	info := f.Info()
	found := false
	ast.Inspect(f.Decl.Body, func(n ast.Node) bool {
		call, ok := n.(*ast.CallExpr)
		if !ok || (before != nil && call.Pos() > before.Pos()) {
			return true
		}
		fn := FullName(Callee(info, call))
		if (strings.HasPrefix(fn, "sort.") || strings.HasPrefix(fn, "slices.Sort")) && len(call.Args) > 0 {
			s := exprKey(call.Args[0])
			if s == what || strings.HasSuffix(s, "."+what) {
				found = true
			}
		}
		return true
	})
	return found
}

// ruleSortedSinks: R-SORTED-SINK — the facts the reviewed table relies on.
func ruleSortedSinks(c *Ctx, r *Report) {
	r.Rule("R-SORTED-SINK", "the places where unordered collections reach rendered output sort them first: proto header imports, proto enum snippets, path-struct header imports, the module list; PopulateEnumFlags implementations write only their first argument", 5)
	if f := c.MustFunc(r, "protogen", "writeProto3Header"); f != nil {
		ex := CallsIn(f.Info(), f.Decl.Body, "text/template.Template.Execute")
		ok := len(ex) == 1 && sortCallBefore(f, "Imports", ex[0])
		r.Check(ok, "protogen.writeProto3Header:sorts-imports", c.Pos(f.Decl.Pos()), "sort.Strings(in.Imports) before rendering", "writeProto3Header renders the import list without sorting it: imports are collected from maps, so their order differs between runs")
	}
	if f := c.MustFunc(r, "protogen", "CodeGenerator.Generate"); f != nil {
		info := f.Info()
		calls := CallsIn(info, f.Decl.Body, P("protogen")+".writeProtoEnums")
		ok := false
		if len(calls) == 1 {
			if as, isAs := c.parentMap(f.File)[calls[0]].(*ast.AssignStmt); isAs {
				if id, isID := as.Lhs[0].(*ast.Ident); isID {
					ok = sortCallBefore(f, id.Name, nil)
				}
			}
		}
		r.Check(ok, "protogen.CodeGenerator.Generate:sorts-enums", c.Pos(f.Decl.Pos()), "result of writeProtoEnums sorted", "protogen's Generate uses the enum snippets of writeProtoEnums (built in map order) without sorting them")
	}
	if f := c.MustFunc(r, "ypathgen", "writeHeader"); f != nil {
		ex := CallsIn(f.Info(), f.Decl.Body, "text/template.Template.Execute")
		ok := len(ex) >= 1 && sortCallBefore(f, "ExtraImports", ex[0])
		r.Check(ok, "ypathgen.writeHeader:sorts-imports", c.Pos(f.Decl.Pos()), "ExtraImports sorted before rendering", "ypathgen.writeHeader renders ExtraImports (collected from a map) without sorting")
	}
	if f := c.MustFunc(r, "ygen", "processModules"); f != nil {
		r.Check(sortCallBefore(f, "modNames", nil), "ygen.processModules:sorted-modules", c.Pos(f.Decl.Pos()), "module names sorted after de-duplication", "processModules builds the module entries in the iteration order of goyang's module map: with two modules defining a top-level leaf of the same name, which one lands in the fake root differs between runs")
	}
	// PopulateEnumFlags implementations.
	n := 0
	for _, rel := range genPkgs {
		for _, f := range c.AllFuncs(rel) {
			if !strings.HasSuffix(f.Name, ".PopulateEnumFlags") || f.Obj == nil {
				continue
			}
			n++
			e := c.effectsOf(f.Obj, 0)
			bad := e.Global
			for idx := range e.Params {
				if idx != 0 {
					bad = fmt.Sprintf("writes through parameter %d", idx)
				}
			}
			r.Check(bad == "", f.Name+":effects", c.Pos(f.Decl.Pos()), "writes only the value it is given", f.Name+" "+bad+": called once per enum in map order from GenerateIR")
		}
	}
	if n == 0 {
		r.Und("PopulateEnumFlags:implementations", "-", "no implementation found")
	}
}
