package main

import (
	"fmt"
	"go/ast"
	"go/types"
	"strings"
)

// R-COPY-ALIAS: in the DeepCopy/Merge copy family (ygot/struct_validation_map.go) every
// value that reaches a destination sink (reflect.Value.Set / SetMapIndex / reflect.Append→Set /
// yreflect.AppendIntoOrderedMap) is either fresh (reflect.New/Zero/Make*, or the destination's
// own value) or a source-derived value proved non-reference by a dominating guard.

var copyFamily = []string{"copyStruct", "copyPtrField", "copyInterfaceField", "copyMapField", "copyOrderedMap", "copySliceField", "copyBinaryField"}

var scalarKinds = map[string]bool{
	"reflect.Bool": true, "reflect.Int": true, "reflect.Int8": true, "reflect.Int16": true, "reflect.Int32": true, "reflect.Int64": true,
	"reflect.Uint": true, "reflect.Uint8": true, "reflect.Uint16": true, "reflect.Uint32": true, "reflect.Uint64": true,
	"reflect.Float32": true, "reflect.Float64": true, "reflect.String": true,
}
var refKinds = []string{"reflect.Ptr", "reflect.Interface", "reflect.Map", "reflect.Slice"}

type provenance struct {
	kind string // "fresh", "dst", "src", "src-part", "unknown"
	root ast.Expr
}

// provOf classifies a reflect.Value expression inside a copy-family function.
// dstObj/srcObj are the first two parameters.
var provVisiting = map[types.Object]bool{}

func provOf(f *FuncInfo, e ast.Expr, dstObj, srcObj types.Object, depth int) provenance {
	info := f.Info()
	e = ast.Unparen(e)
	if depth > 6 {
		return provenance{"unknown", e}
	}
	switch x := e.(type) {
	case *ast.Ident:
		obj := info.ObjectOf(x)
		if obj == dstObj {
			return provenance{"dst", e}
		}
		if obj == srcObj {
			return provenance{"src", e}
		}
		// local: merge provenance over all definitions; a closure parameter bound by a Range* visitor is src-part.
		if provVisiting[obj] {
			return provenance{"fresh", e} // self-reference (x = f(x, …)): neutral
		}
		provVisiting[obj] = true
		defer delete(provVisiting, obj)
		var ps []provenance
		ast.Inspect(f.Decl.Body, func(n ast.Node) bool {
			switch s := n.(type) {
			case *ast.AssignStmt:
				for i, l := range s.Lhs {
					if ObjOf(info, l) == obj {
						if _, isID := l.(*ast.Ident); !isID {
							continue
						}
						if len(s.Rhs) == len(s.Lhs) {
							ps = append(ps, provOf(f, s.Rhs[i], dstObj, srcObj, depth+1))
						} else if len(s.Rhs) == 1 {
							ps = append(ps, provOf(f, s.Rhs[0], dstObj, srcObj, depth+1))
						}
					}
				}
			case *ast.ValueSpec:
				for i, nm := range s.Names {
					if info.ObjectOf(nm) == obj {
						if i < len(s.Values) {
							ps = append(ps, provOf(f, s.Values[i], dstObj, srcObj, depth+1))
						} else {
							ps = append(ps, provenance{"fresh", e}) // zero reflect.Value, assigned later
						}
					}
				}
			case *ast.RangeStmt:
				for _, kv := range []ast.Expr{s.Key, s.Value} {
					if kv != nil && ObjOf(info, kv) == obj {
						p := provOf(f, s.X, dstObj, srcObj, depth+1)
						if p.kind == "src" {
							p.kind = "src-part"
						}
						ps = append(ps, p)
					}
				}
			case *ast.FuncLit:
				for _, fl := range s.Type.Params.List {
					for _, nm := range fl.Names {
						if info.ObjectOf(nm) == obj {
							ps = append(ps, provenance{"src-part", e}) // visitor over the source ordered map
						}
					}
				}
			}
			return true
		})
		if len(ps) == 0 {
			return provenance{"unknown", e}
		}
		worst := provenance{"fresh", e}
		rank := map[string]int{"fresh": 0, "dst": 1, "src-part": 2, "src": 3, "unknown": 4}
		for _, p := range ps {
			if rank[p.kind] > rank[worst.kind] {
				worst = p
			}
		}
		return worst
	case *ast.CallExpr:
		fn := FullName(Callee(info, x))
		switch fn {
		case "reflect.New", "reflect.Zero", "reflect.MakeMap", "reflect.MakeMapWithSize", "reflect.MakeSlice", "reflect.Indirect":
			if fn == "reflect.Indirect" && len(x.Args) == 1 {
				return provOf(f, x.Args[0], dstObj, srcObj, depth+1)
			}
			return provenance{"fresh", e}
		case "reflect.ValueOf":
			if len(x.Args) == 1 {
				return provOf(f, x.Args[0], dstObj, srcObj, depth+1)
			}
		case P("internal/yreflect") + ".GetOrderedMapElement":
			if len(x.Args) == 2 {
				p := provOf(f, x.Args[0], dstObj, srcObj, depth+1)
				if p.kind == "src" {
					p.kind = "src-part"
				}
				return p
			}
		case "reflect.Append":
			// Append(base, elems…): reference content comes from base and elems.
			worst := provenance{"fresh", e}
			rank := map[string]int{"fresh": 0, "dst": 1, "src-part": 2, "src": 3, "unknown": 4}
			for i, a := range x.Args {
				p := provOf(f, a, dstObj, srcObj, depth+1)
				if i > 0 && p.kind == "src" {
					p.kind = "src-part"
				}
				if rank[p.kind] > rank[worst.kind] {
					worst = p
				}
			}
			return worst
		}
		// method on a reflect.Value: Elem/Index/MapIndex/Field → part of receiver; Interface → same.
		if sel, ok := x.Fun.(*ast.SelectorExpr); ok {
			if _, isMethod := info.Selections[sel]; isMethod {
				p := provOf(f, sel.X, dstObj, srcObj, depth+1)
				switch sel.Sel.Name {
				case "Elem", "Index", "MapIndex", "Field", "FieldByName":
					if p.kind == "src" {
						p.kind = "src-part"
					}
					return p
				case "Interface", "Addr", "Convert":
					return p
				case "Slice", "Slice3":
					// a re-slice shares the backing array of its operand whatever its bounds are,
					// and a later Append writes into that array when capacity allows: the whole
					// value counts as the source's own storage (never a "part" made of scalars).
					if p.kind == "src-part" {
						p.kind = "src"
					}
					return p
				}
				return p
			}
		}
		return provenance{"unknown", e}
	case *ast.TypeAssertExpr:
		return provOf(f, x.X, dstObj, srcObj, depth+1)
	}
	return provenance{"unknown", e}
}

// scalarGuarded: is the whole value V proved to be of a non-reference kind at node n?
func scalarGuarded(c *Ctx, f *FuncInfo, n ast.Node, v ast.Expr) (bool, string) {
	info := f.Info()
	facts := c.FactsAt(f, n, true)
	isKindOf := func(tag ast.Expr) bool {
		call, ok := ast.Unparen(tag).(*ast.CallExpr)
		if !ok {
			return false
		}
		sel, ok := call.Fun.(*ast.SelectorExpr)
		return ok && sel.Sel.Name == "Kind" && sameExpr(info, sel.X, v)
	}
	for _, ft := range facts {
		switch ft.Kind {
		case "switch":
			if !isKindOf(ft.Cond) {
				continue
			}
			if ft.Deflt {
				// default arm: the other arms must cover all reference kinds.
				covered := map[string]bool{}
				for _, a := range c.Ancestors(f, n) {
					if sw, ok := a.(*ast.SwitchStmt); ok && sw.Tag == ft.Cond {
						for _, cs := range sw.Body.List {
							for _, e := range cs.(*ast.CaseClause).List {
								covered[constName(info, e)] = true
							}
						}
					}
				}
				all := true
				for _, k := range refKinds {
					if !covered[k] {
						all = false
					}
				}
				if all {
					return true, "default arm of a Kind switch whose other arms cover Ptr/Interface/Map/Slice"
				}
				continue
			}
			all := len(ft.Vals) > 0
			for _, e := range ft.Vals {
				if !scalarKinds[constName(info, e)] {
					all = false
				}
			}
			if all {
				return true, "arm of a Kind switch listing scalar kinds only"
			}
		case "cond":
			if !ft.Pos {
				continue
			}
			if call, ok := ast.Unparen(ft.Cond).(*ast.CallExpr); ok && FullName(Callee(info, call)) == P("util")+".IsValueScalar" && len(call.Args) == 1 {
				a := ast.Unparen(call.Args[0])
				// a hoisted local (srcElem := srcField.Elem()) stands for its definition.
				if id, ok := a.(*ast.Ident); ok {
					if d := oneToOneDef(f, info.ObjectOf(id)); d != nil {
						a = ast.Unparen(d)
					}
				}
				if sameExpr(info, a, v) {
					return true, "util.IsValueScalar(value)"
				}
				if ce, ok := a.(*ast.CallExpr); ok {
					if sel, ok := ce.Fun.(*ast.SelectorExpr); ok && sel.Sel.Name == "Elem" && sameExpr(info, sel.X, v) {
						return true, "util.IsValueScalar(value.Elem()) — interface holding a scalar"
					}
				}
			}
		}
	}
	return false, ""
}

// partGuarded: a part (Elem/Index) of source value X may flow to dst only if X is proved not to
// hold struct pointers (so the part is a scalar / scalar element), or is a Binary (bytes are scalars).
func partGuarded(c *Ctx, f *FuncInfo, n ast.Node) (bool, string) {
	info := f.Info()
	for _, ft := range c.FactsAt(f, n, true) {
		if ft.Kind != "cond" {
			continue
		}
		str := types.ExprString(ft.Cond)
		_ = str
		if call, ok := ast.Unparen(ft.Cond).(*ast.CallExpr); ok {
			fn := FullName(Callee(info, call))
			if !ft.Pos && (fn == P("util")+".IsValueStructPtr" || fn == P("util")+".IsTypeStructPtr") {
				return true, "not a struct pointer: " + types.ExprString(ft.Cond) + " is false here"
			}
		}
		if ft.Pos {
			if be, ok := ast.Unparen(ft.Cond).(*ast.BinaryExpr); ok {
				for _, side := range []ast.Expr{be.X, be.Y} {
					if v, ok := info.Types[side]; ok && v.Value != nil && strings.Trim(v.Value.ExactString(), `"`) == "Binary" {
						return true, "Binary value: elements are bytes"
					}
				}
			}
		}
	}
	return false, ""
}

func ruleCopyAlias(c *Ctx, r *Report) {
	r.Rule("R-COPY-ALIAS", "in ygot's copy family every value written into the destination is fresh (reflect.New/Zero/Make*), the destination's own, or a source value proved to be of non-reference kind by a dominating guard", 14)
	for _, name := range copyFamily {
		f := c.MustFunc(r, "ygot", name)
		if f == nil {
			continue
		}
		info := f.Info()
		var params []types.Object
		for _, fl := range f.Decl.Type.Params.List {
			for _, n := range fl.Names {
				params = append(params, info.ObjectOf(n))
			}
		}
		if len(params) < 2 {
			r.Und("copy:"+name+":signature", c.Pos(f.Decl.Pos()), "expected (dst, src, …) parameters")
			continue
		}
		dstObj, srcObj := params[0], params[1]
		n := 0
		ast.Inspect(f.Decl.Body, func(x ast.Node) bool {
			call, ok := x.(*ast.CallExpr)
			if !ok {
				return true
			}
			var recv ast.Expr
			var vals []ast.Expr
			sink := ""
			switch fn := FullName(Callee(info, call)); fn {
			case "reflect.Value.Set":
				recv, vals, sink = call.Fun.(*ast.SelectorExpr).X, call.Args, "Set"
			case "reflect.Value.SetMapIndex":
				recv, vals, sink = call.Fun.(*ast.SelectorExpr).X, call.Args[1:], "SetMapIndex"
			case P("internal/yreflect") + ".AppendIntoOrderedMap":
				recv, vals, sink = call.Args[0], call.Args[1:], "AppendIntoOrderedMap"
			case "reflect.Copy":
				recv, vals, sink = call.Args[0], nil, "Copy"
			default:
				return true
			}
			rp := provOf(f, recv, dstObj, srcObj, 0)
			if rp.kind != "dst" && rp.kind != "fresh" {
				// writes into something else (e.g. p.Elem().Set where p is fresh) are classified by receiver below.
			}
			if rp.kind == "src" || rp.kind == "src-part" {
				n++
				r.Bad(fmt.Sprintf("ygot.%s:%s#%d:receiver-is-source", name, sink, n), c.Pos(call.Pos()), "a copy function writes into its source argument")
				return true
			}
			for _, v := range vals {
				n++
				key := fmt.Sprintf("ygot.%s:%s#%d(%s)", name, sink, n, exprKey(v))
				pos := c.Pos(call.Pos())
				p := provOf(f, v, dstObj, srcObj, 0)
				switch p.kind {
				case "fresh", "dst":
					r.OK(key, pos, "value is "+p.kind)
				case "src":
					ok, why := scalarGuarded(c, f, call, v)
					r.Check(ok, key, pos, "source value of non-reference kind: "+why,
						fmt.Sprintf("%s writes the source's own value %s into the destination without a guard proving it is a scalar: the copy shares pointers/maps/slices with its input", name, types.ExprString(v)))
				case "src-part":
					ok, why := scalarGuarded(c, f, call, v)
					if !ok {
						ok, why = partGuarded(c, f, call)
					}
					r.Check(ok, key, pos, "part of a source value proved not to hold struct pointers: "+why,
						fmt.Sprintf("%s writes a part of the source (%s) into the destination without a guard excluding struct pointers: entries are shared between copy and input", name, types.ExprString(v)))
				default:
					r.Und(key, pos, "provenance of "+types.ExprString(v)+" not understood")
				}
			}
			return true
		})
	}
	// pairing: deepCopy allocates a new root and MergeStructs merges into the deep copy.
	if f := c.MustFunc(r, "ygot", "deepCopy"); f != nil {
		info := f.Info()
		ok := false
		for _, call := range CallsIn(info, f.Decl.Body, P("ygot")+".copyStruct") {
			if len(call.Args) >= 2 {
				var params []types.Object
				p := provOf(f, call.Args[0], nil, info.ObjectOf(f.Decl.Type.Params.List[0].Names[0]), 0)
				_ = params
				if p.kind == "fresh" {
					ok = true
				}
			}
		}
		r.Check(ok, "ygot.deepCopy:copyStruct(dst=fresh)", c.Pos(f.Decl.Pos()), "copies into a freshly allocated root", "deepCopy no longer copies into a freshly allocated root")
	}
	if f := c.MustFunc(r, "ygot", "MergeStructs"); f != nil {
		info := f.Info()
		ok := false
		var dcObj types.Object
		ast.Inspect(f.Decl.Body, func(n ast.Node) bool {
			if as, ok := n.(*ast.AssignStmt); ok && len(as.Rhs) == 1 {
				if call, ok := as.Rhs[0].(*ast.CallExpr); ok && FullName(Callee(info, call)) == P("ygot")+".deepCopy" {
					dcObj = ObjOf(info, as.Lhs[0])
				}
			}
			return true
		})
		for _, call := range CallsIn(info, f.Decl.Body, P("ygot")+".MergeStructInto") {
			if len(call.Args) >= 2 && dcObj != nil && ObjOf(info, call.Args[0]) == dcObj {
				ok = true
			}
		}
		r.Check(ok, "ygot.MergeStructs:merge-into-deepcopy", c.Pos(f.Decl.Pos()), "merges b into a deep copy of a", "MergeStructs no longer merges into a deep copy of its first input: an input is mutated or shared")
	}
}
