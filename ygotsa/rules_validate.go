package main

import (
	"fmt"
	"go/ast"
	"go/token"
	"go/types"
	"strings"
)

// ---- R-ORDER-ENUM: isInRange is the closed interval --------------------------------

// boolean expression over X.Less(Y) / X.Equal(Y) with operands val, min, max.
func evalRangeExpr(info *types.Info, e ast.Expr, role func(ast.Expr) string, rank map[string]int) (bool, bool) {
	e = ast.Unparen(e)
	switch x := e.(type) {
	case *ast.BinaryExpr:
		a, ok1 := evalRangeExpr(info, x.X, role, rank)
		b, ok2 := evalRangeExpr(info, x.Y, role, rank)
		if !ok1 || !ok2 {
			return false, false
		}
		switch x.Op {
		case token.LAND:
			return a && b, true
		case token.LOR:
			return a || b, true
		}
		return false, false
	case *ast.UnaryExpr:
		if x.Op == token.NOT {
			a, ok := evalRangeExpr(info, x.X, role, rank)
			return !a, ok
		}
	case *ast.CallExpr:
		sel, ok := x.Fun.(*ast.SelectorExpr)
		if !ok || len(x.Args) != 1 {
			return false, false
		}
		l, r := role(sel.X), role(x.Args[0])
		if l == "" || r == "" {
			return false, false
		}
		switch sel.Sel.Name {
		case "Less":
			return rank[l] < rank[r], true
		case "Equal":
			return rank[l] == rank[r], true
		}
	}
	return false, false
}

func ruleOrderEnum(c *Ctx, r *Report) {
	r.Rule("R-ORDER-ENUM", "ytypes.isInRange touches val/Min/Max only through Less/Equal and equals Min ≤ val ≤ Max under all 13 weak orderings of three points; isInRanges is ∃ over the parts with empty ⇒ true", 15)
	f := c.MustFunc(r, "ytypes", "isInRange")
	if f != nil {
		info := f.Info()
		var ret ast.Expr
		if len(f.Decl.Body.List) == 1 {
			if rs, ok := f.Decl.Body.List[0].(*ast.ReturnStmt); ok && len(rs.Results) == 1 {
				ret = rs.Results[0]
			}
		}
		if ret == nil {
			r.Und("ytypes.isInRange:shape", c.Pos(f.Decl.Pos()), "expected a single return of a boolean expression")
		} else {
			p0 := info.ObjectOf(f.Decl.Type.Params.List[0].Names[0])
			p1 := info.ObjectOf(f.Decl.Type.Params.List[1].Names[0])
			role := func(e ast.Expr) string {
				e = ast.Unparen(e)
				if id, ok := e.(*ast.Ident); ok && info.ObjectOf(id) == p1 {
					return "val"
				}
				if sel, ok := e.(*ast.SelectorExpr); ok {
					if id, ok := sel.X.(*ast.Ident); ok && info.ObjectOf(id) == p0 {
						switch sel.Sel.Name {
						case "Min":
							return "min"
						case "Max":
							return "max"
						}
					}
				}
				return ""
			}
			// all weak orderings: ranks in {0,1,2}^3 normalised.
			n := 0
			for a := 0; a < 3; a++ {
				for b := 0; b < 3; b++ {
					for d := 0; d < 3; d++ {
						used := map[int]bool{a: true, b: true, d: true}
						// canonical: ranks used must be a prefix 0..k
						okCanon := true
						for k := 0; k < len(used); k++ {
							if !used[k] {
								okCanon = false
							}
						}
						if !okCanon {
							continue
						}
						n++
						rank := map[string]int{"val": a, "min": b, "max": d}
						got, ok := evalRangeExpr(info, ret, role, rank)
						want := b <= a && a <= d
						key := fmt.Sprintf("ytypes.isInRange:ordering(val=%d,min=%d,max=%d)", a, b, d)
						if !ok {
							r.Und(key, c.Pos(ret.Pos()), "expression uses something other than Less/Equal on val, Min, Max")
							continue
						}
						r.Check(got == want, key, c.Pos(ret.Pos()), fmt.Sprintf("= %v", want), fmt.Sprintf("isInRange yields %v for this ordering, the closed interval Min ≤ val ≤ Max requires %v", got, want))
					}
				}
			}
		}
	}
	if g := c.MustFunc(r, "ytypes", "isInRanges"); g != nil {
		info := g.Info()
		// empty ⇒ true
		emptyTrue, existsTrue, endFalse, otherRet := false, false, false, 0
		for i, s := range g.Decl.Body.List {
			switch x := s.(type) {
			case *ast.IfStmt:
				if be, ok := x.Cond.(*ast.BinaryExpr); ok && be.Op == token.EQL && len(x.Body.List) == 1 {
					if rs, ok := x.Body.List[0].(*ast.ReturnStmt); ok && constName(info, rs.Results[0]) == "true" && strings.HasPrefix(types.ExprString(be.X), "len(") && constName(info, be.Y) == "0" {
						emptyTrue = true
					}
				}
			case *ast.RangeStmt:
				ast.Inspect(x.Body, func(n ast.Node) bool {
					rs, ok := n.(*ast.ReturnStmt)
					if !ok {
						return true
					}
					facts := c.FactsAt(g, rs, false)
					if constName(info, rs.Results[0]) == "true" && factIsCall(info, facts, true, P("ytypes")+".isInRange") != nil {
						existsTrue = true
					} else {
						otherRet++
					}
					return true
				})
			case *ast.ReturnStmt:
				if i == len(g.Decl.Body.List)-1 && constName(info, x.Results[0]) == "false" {
					endFalse = true
				}
			}
		}
		r.Check(emptyTrue, "ytypes.isInRanges:empty⇒true", c.Pos(g.Decl.Pos()), "no restriction accepts everything", "isInRanges no longer returns true for an empty range list")
		r.Check(existsTrue && otherRet == 0 && endFalse, "ytypes.isInRanges:∃part", c.Pos(g.Decl.Pos()), "true iff some part contains the value", "isInRanges is no longer `exists part: isInRange(part, val)` (early success only under isInRange, false at the end)")
	}
}

// rulePatternForall: every pattern is compiled and must match (no early success).
func rulePatternForall(c *Ctx, r *Report) {
	r.Rule("R-PATTERN-FORALL", "ValidateStringRestrictions iterates every sanitized pattern; a failed match returns an error inside the loop and nothing returns success before the loop ends; patterns come from util.SanitizedPattern", 3)
	f := c.MustFunc(r, "ytypes", "ValidateStringRestrictions")
	if f == nil {
		return
	}
	info := f.Info()
	var loop *ast.RangeStmt
	ast.Inspect(f.Decl.Body, func(n ast.Node) bool {
		if rs, ok := n.(*ast.RangeStmt); ok && loop == nil {
			loop = rs
		}
		return true
	})
	if loop == nil {
		r.Bad("ytypes.ValidateStringRestrictions:pattern-loop", c.Pos(f.Decl.Pos()), "no loop over the patterns: pattern restrictions are not enforced")
		return
	}
	src := false
	if id, ok := loop.X.(*ast.Ident); ok {
		obj := info.ObjectOf(id)
		ast.Inspect(f.Decl.Body, func(n ast.Node) bool {
			if as, ok := n.(*ast.AssignStmt); ok && len(as.Rhs) == 1 && ObjOf(info, as.Lhs[0]) == obj && IsCall(info, as.Rhs[0], P("util")+".SanitizedPattern") {
				src = true
			}
			return true
		})
	}
	r.Check(src, "ytypes.ValidateStringRestrictions:patterns-from-SanitizedPattern", c.Pos(loop.Pos()), "iterates util.SanitizedPattern(type)", "the pattern loop no longer iterates the result of util.SanitizedPattern")
	matchErr, earlyOK := false, 0
	ast.Inspect(loop.Body, func(n ast.Node) bool {
		rs, ok := n.(*ast.ReturnStmt)
		if !ok {
			return true
		}
		if id, ok := rs.Results[0].(*ast.Ident); ok && id.Name == "nil" {
			earlyOK++
			return true
		}
		for _, ft := range c.FactsAt(f, rs, false) {
			if ft.Kind == "cond" && !ft.Pos {
				if call, ok := ast.Unparen(ft.Cond).(*ast.CallExpr); ok && strings.HasSuffix(FullName(Callee(info, call)), "regexp.Regexp.MatchString") {
					matchErr = true
				}
			}
		}
		return true
	})
	r.Check(matchErr, "ytypes.ValidateStringRestrictions:mismatch⇒error", c.Pos(loop.Pos()), "a pattern that does not match returns an error", "no error is returned when a pattern fails to match")
	r.Check(earlyOK == 0, "ytypes.ValidateStringRestrictions:no-early-success", c.Pos(loop.Pos()), "all patterns are checked", "the loop returns success before all patterns were checked")
}

// ---- C07 ------------------------------------------------------------------------

var validatorFuncs = []string{"Validate", "validateContainer", "validateList", "validateStructElems", "checkKeys", "checkBasicKeyValue", "checkStructKeyValues",
	"validateLeafList", "validateListAttr", "validateChoice", "IsCaseSelected", "validateLeaf", "validateUnion", "validateMatchingSchemas"}

// ruleValidatorSkip: a `continue` in a validator loop must follow an error record, or be one of
// the enumerated legitimate skips.
func ruleValidatorSkip(c *Ctx, r *Report) {
	r.Rule("R-VALIDATOR-SKIP", "inside ytypes' validators a loop iteration is abandoned (continue) only after recording an error, or for an annotation field; a silent skip makes Validate accept what that iteration would have rejected", 4)
	for _, name := range validatorFuncs {
		f := c.Func("ytypes", name)
		if f == nil {
			continue
		}
		info := f.Info()
		pm := c.parentMap(f.File)
		n := 0
		ast.Inspect(f.Decl.Body, func(x ast.Node) bool {
			bs, ok := x.(*ast.BranchStmt)
			if !ok || bs.Tok != token.CONTINUE {
				return true
			}
			n++
			key := fmt.Sprintf("ytypes.%s:continue#%d", name, n)
			// preceding statements in the same block record an error?
			recorded := false
			var list []ast.Stmt
			switch p := pm[bs].(type) {
			case *ast.BlockStmt:
				list = p.List
			case *ast.CaseClause:
				list = p.Body
			}
			for _, s := range list {
				if s == ast.Stmt(bs) {
					break
				}
				if len(CallsIn(info, s, P("util")+".AppendErr", P("util")+".AppendErrs", P("util")+".NewErrs")) > 0 {
					recorded = true
				}
			}
			if recorded {
				r.OK(key, c.Pos(bs.Pos()), "error recorded before continue")
				return true
			}
			facts := c.FactsAt(f, bs, false)
			if factIsCall(info, facts, true, P("util")+".IsYgotAnnotation") != nil {
				r.Exc(key, c.Pos(bs.Pos()), "annotation fields have no schema and are not data")
				return true
			}
			// schema-kind dispatch: `if !child.IsChoice() { continue }` over schema nodes is the
			// guard-clause form of `if child.IsChoice() { … }`; it selects which schema children
			// this loop is about, it does not skip data.
			if blk, ok := pm[bs].(*ast.BlockStmt); ok {
				if is, ok := pm[blk].(*ast.IfStmt); ok && is.Body == blk && len(blk.List) == 1 && schemaKindCond(info, is.Cond) {
					r.OK(key, c.Pos(bs.Pos()), "schema-kind dispatch on a schema node: "+types.ExprString(is.Cond))
					return true
				}
				// an unset field of the struct being validated (the library's own notion of unset,
				// util.IsValueNilOrDefault of the i-th field) has nothing to validate: the guard
				// form of `if !IsValueNilOrDefault(field) { … }`.
				if is, ok := pm[blk].(*ast.IfStmt); ok && is.Body == blk && len(blk.List) == 1 {
					if call, ok := ast.Unparen(is.Cond).(*ast.CallExpr); ok && FullName(Callee(info, call)) == P("util")+".IsValueNilOrDefault" && len(call.Args) == 1 {
						arg := types.ExprString(call.Args[0])
						if strings.Contains(arg, ".Field(") && strings.HasSuffix(arg, ".Interface()") {
							r.OK(key, c.Pos(bs.Pos()), "unset struct field (util.IsValueNilOrDefault): nothing to validate")
							return true
						}
					}
				}
			}
			r.Bad(key, c.Pos(bs.Pos()), name+" skips the rest of a loop iteration without recording an error: the element/key/field it was checking is silently accepted")
			return true
		})
	}
}

// ruleValidateReach: R-REACH.
func ruleValidateReach(c *Ctx, r *Report) {
	r.Rule("R-REACH", "each checker the property names is reachable (static calls) from ytypes.Validate through the dispatcher arm that owns it", 9)
	calls := func(from string, to ...string) bool {
		f := c.Func("ytypes", from)
		if f == nil {
			return false
		}
		var names []string
		for _, t := range to {
			names = append(names, P("ytypes")+"."+t)
		}
		return len(CallsIn(f.Info(), f.Decl.Body, names...)) > 0
	}
	type req struct {
		key, from string
		to       []string
		bad      string
	}
	for _, q := range []req{
		{"Validate→validateLeaf", "Validate", []string{"validateLeaf"}, "leaves are no longer validated"},
		{"Validate→validateContainer", "Validate", []string{"validateContainer"}, "containers are no longer validated"},
		{"Validate→validateLeafList", "Validate", []string{"validateLeafList"}, "leaf-lists are no longer validated"},
		{"Validate→validateList", "Validate", []string{"validateList"}, "lists are no longer validated"},
		{"Validate→ValidateLeafRefData", "Validate", []string{"ValidateLeafRefData"}, "leafrefs are no longer validated from the fake root"},
		{"validateList→checkKeys", "validateList", []string{"checkKeys"}, "list map keys are no longer compared with the entries' key leaves"},
		{"validateList→validateListAttr", "validateList", []string{"validateListAttr"}, "list min/max-elements are no longer checked"},
		{"validateList→validateStructElems", "validateList", []string{"validateStructElems"}, "list entries' fields are no longer validated"},
		{"validateContainer→validateChoice", "validateContainer", []string{"validateChoice"}, "choices are no longer checked for multiple populated cases"},
		{"validateContainer→Validate", "validateContainer", []string{"Validate"}, "container children are no longer validated"},
		{"validateStructElems→Validate", "validateStructElems", []string{"Validate"}, "list entry children are no longer validated"},
		{"validateLeafList→validateLeaf", "validateLeafList", []string{"validateLeaf"}, "leaf-list elements are no longer validated"},
		{"validateLeaf→validateUnion", "validateLeaf", []string{"validateUnion"}, "union values are no longer checked against member types"},
		{"checkKeys→checkBasicKeyValue", "checkKeys", []string{"checkBasicKeyValue"}, "single keys are no longer checked"},
		{"checkKeys→checkStructKeyValues", "checkKeys", []string{"checkStructKeyValues"}, "multi-keys are no longer checked"},
		{"validateLeafList→validateListAttr", "validateLeafList", []string{"validateListAttr"}, "leaf-list min/max-elements are never checked: Validate accepts leaf-lists violating them"},
		{"validateLeafList→uniqueness", "validateLeafList", []string{"validateStringSlice", "validateIntSlice", "validateBoolSlice", "validateDecimalSlice", "validateBinarySlice", "validateBitsetSlice"}, "leaf-list uniqueness is never checked: the only duplicate tests (validate*Slice) are unreachable from Validate, which accepts configuration leaf-lists holding duplicates"},
	} {
		r.Check(calls(q.from, q.to...), "reach:"+q.key, c.Pos(c.Func("ytypes", q.from).Decl.Pos()), "static call present", q.bad)
	}
	// enum membership: the Yenum/Yidentityref arm of validateLeaf consults the enum's value map.
	if f := c.Func("ytypes", "validateLeaf"); f != nil {
		ok := false
		for _, sw := range KindSwitches(f, yangKind) {
			if a := sw.ByKey["yang.Yenum"]; a != nil {
				ast.Inspect(a.Node, func(n ast.Node) bool {
					if call, isCall := n.(*ast.CallExpr); isCall {
						fn := FullName(Callee(f.Info(), call))
						if strings.Contains(fn, "EnumName") || strings.Contains(fn, "enumFieldToString") || strings.Contains(fn, "ΛMap") || strings.Contains(fn, "castToEnumValue") || strings.Contains(fn, "validateEnum") {
							ok = true
						}
					}
					return true
				})
			}
		}
		r.Check(ok, "reach:validateLeaf[Yenum]→enum-membership", c.Pos(f.Decl.Pos()), "enum membership looked up",
			"the enumeration/identityref arm of validateLeaf only checks the Go kind (int64): Validate never consults the enum's value map, so an undefined enum value is accepted")
	}
}

// schemaKindCond: e is built (with !, &&, ||) only from kind predicates of goyang schema nodes
// (yang.Entry.IsChoice/IsCase/IsDir/IsLeaf/IsLeafList/IsList/IsContainer) applied to a variable.
func schemaKindCond(info *types.Info, e ast.Expr) bool {
	switch x := ast.Unparen(e).(type) {
	case *ast.UnaryExpr:
		return x.Op == token.NOT && schemaKindCond(info, x.X)
	case *ast.BinaryExpr:
		return (x.Op == token.LAND || x.Op == token.LOR) && schemaKindCond(info, x.X) && schemaKindCond(info, x.Y)
	case *ast.CallExpr:
		fn := FullName(Callee(info, x))
		if !strings.HasPrefix(fn, "github.com/openconfig/goyang/pkg/yang.Entry.Is") || len(x.Args) != 0 {
			return false
		}
		sel, ok := x.Fun.(*ast.SelectorExpr)
		if !ok {
			return false
		}
		_, isID := ast.Unparen(sel.X).(*ast.Ident)
		return isID
	}
	return false
}
