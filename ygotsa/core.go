package main

import (
	"encoding/json"
	"fmt"
	"os"
	"path/filepath"
	"sort"
	"strings"
	"time"
)

// Status of an obligation.
const (
	Discharged = "discharged"
	Violated   = "violated"
	Undecided  = "undecided"
	Excepted   = "excepted"
	Info       = "info"
)

// Obligation is one decided instance of a rule. Construct is a stable key built
// from rule + resolved object path + structural discriminator; never a line number.
type Obligation struct {
	Property  string `json:"property"`
	Rule      string `json:"rule"`
	Construct string `json:"construct"`
	Status    string `json:"status"`
	Detail    string `json:"detail,omitempty"`
	Pos       string `json:"pos,omitempty"`
}

// RuleStat summarises one rule's run for evidence.
type RuleStat struct {
	Rule       string `json:"rule"`
	Text       string `json:"text"`
	Instances  int    `json:"instances"`
	Discharged int    `json:"discharged"`
	Excepted   int    `json:"excepted"`
	Violated   int    `json:"violated"`
	Undecided  int    `json:"undecided"`
	Floor      int    `json:"instance_floor"`
}

// Report collects obligations of one property check.
type Report struct {
	Property string
	Tier     string
	obs      []Obligation
	rules    map[string]*RuleStat
	order    []string
	curRule  string
	assume   []string
	decided  string
	undecidedClause string
	extra    map[string]any
}

func NewReport(prop, tier string) *Report {
	return &Report{Property: prop, Tier: tier, rules: map[string]*RuleStat{}, extra: map[string]any{}}
}

// Rule starts a rule section. floor is the minimal number of (non-info)
// obligations the rule must produce on a healthy tree; fewer => UNDECIDED.
func (r *Report) Rule(name, text string, floor int) {
	r.curRule = name
	if _, ok := r.rules[name]; !ok {
		r.rules[name] = &RuleStat{Rule: name, Text: text, Floor: floor}
		r.order = append(r.order, name)
	} else {
		r.rules[name].Floor += floor
	}
}

func (r *Report) add(status, construct, pos, detail string) {
	if r.curRule == "" {
		panic("obligation outside rule")
	}
	r.obs = append(r.obs, Obligation{Property: r.Property, Rule: r.curRule, Construct: construct, Status: status, Detail: detail, Pos: pos})
	st := r.rules[r.curRule]
	switch status {
	case Discharged:
		st.Instances++
		st.Discharged++
	case Violated:
		st.Instances++
		st.Violated++
	case Undecided:
		st.Instances++
		st.Undecided++
	case Excepted:
		st.Instances++
		st.Excepted++
	}
}

func (r *Report) OK(construct, pos, detail string)   { r.add(Discharged, construct, pos, detail) }
func (r *Report) Bad(construct, pos, detail string)  { r.add(Violated, construct, pos, detail) }
func (r *Report) Und(construct, pos, detail string)  { r.add(Undecided, construct, pos, detail) }
func (r *Report) Exc(construct, pos, detail string)  { r.add(Excepted, construct, pos, detail) }
func (r *Report) Note(construct, pos, detail string) { r.add(Info, construct, pos, detail) }

// Check adds a discharged or violated obligation according to ok.
func (r *Report) Check(ok bool, construct, pos, okDetail, badDetail string) {
	if ok {
		r.OK(construct, pos, okDetail)
	} else {
		r.Bad(construct, pos, badDetail)
	}
}

func (r *Report) Assume(s string) { r.assume = append(r.assume, s) }
func (r *Report) Decides(decided, notDecided string) {
	r.decided = decided
	r.undecidedClause = notDecided
}

// ---- known findings -------------------------------------------------------

type KnownFinding struct {
	Property  string `json:"property"`
	Rule      string `json:"rule"`
	Construct string `json:"construct"`
	What      string `json:"what"`
}

type KnownFile struct {
	Findings []KnownFinding `json:"findings"`
	Fixed    []string       `json:"fixed"`
}

func loadKnown(verifDir string) (*KnownFile, error) {
	b, err := os.ReadFile(filepath.Join(verifDir, "known_findings.json"))
	if err != nil {
		if os.IsNotExist(err) {
			return &KnownFile{}, nil
		}
		return nil, err
	}
	k := &KnownFile{}
	if err := json.Unmarshal(b, k); err != nil {
		return nil, err
	}
	return k, nil
}

// ---- finishing ---------------------------------------------------------------

type finishOpts struct {
	verifDir   string
	noEvidence bool
	start      time.Time
	seed       int
	stats      map[string]any
}

// Finish prints the verdict, writes evidence, and returns the exit code.
func (r *Report) Finish(o finishOpts) int {
	known, err := loadKnown(o.verifDir)
	if err != nil {
		fmt.Printf("UNDECIDED property=%s rule=plumbing reason=known_findings.json unreadable: %v\n", r.Property, err)
		return 2
	}
	isKnown := func(ob Obligation) *KnownFinding {
		for i := range known.Findings {
			k := &known.Findings[i]
			if k.Property == ob.Property && k.Rule == ob.Rule && k.Construct == ob.Construct {
				return k
			}
		}
		return nil
	}
	sort.SliceStable(r.obs, func(i, j int) bool {
		if r.obs[i].Rule != r.obs[j].Rule {
			return false
		}
		return r.obs[i].Construct < r.obs[j].Construct
	})
	var viol, undec []Obligation
	nKnown := 0
	for _, ob := range r.obs {
		switch ob.Status {
		case Violated:
			if k := isKnown(ob); k != nil {
				fmt.Printf("KNOWN-FINDING: property=%s %s %s — %s\n", ob.Property, ob.Rule, ob.Construct, k.What)
				nKnown++
			} else {
				viol = append(viol, ob)
			}
		case Undecided:
			undec = append(undec, ob)
		}
	}
	for _, name := range r.order {
		st := r.rules[name]
		if st.Instances < st.Floor {
			undec = append(undec, Obligation{Property: r.Property, Rule: name, Construct: "instance-floor", Status: Undecided,
				Detail: fmt.Sprintf("rule matched %d instances, floor confirmed by hand is %d: anchors moved or rule no longer recognises the code shape", st.Instances, st.Floor)})
		}
	}
	evDir := filepath.Join(o.verifDir, "evidence")
	replay := filepath.Join(evDir, r.Property+".violations.json")
	for _, name := range r.order {
		st := r.rules[name]
		fmt.Printf("rule %-28s instances=%-4d discharged=%-4d excepted=%-3d violated=%-3d undecided=%-3d floor=%d\n", name, st.Instances, st.Discharged, st.Excepted, st.Violated, st.Undecided, st.Floor)
	}
	if os.Getenv("YGOTSA_LIST") != "" {
		for _, ob := range r.obs {
			fmt.Printf("  %-10s [%s] %s at %s: %s\n", ob.Status, ob.Rule, ob.Construct, ob.Pos, ob.Detail)
		}
	}
	for _, ob := range viol {
		fmt.Printf("  violated: [%s] %s at %s: %s\n", ob.Rule, ob.Construct, ob.Pos, ob.Detail)
	}
	for _, ob := range undec {
		fmt.Printf("UNDECIDED property=%s rule=%s construct=%s reason=%s (%s)\n", ob.Property, ob.Rule, ob.Construct, ob.Detail, ob.Pos)
	}
	code := 0
	if len(viol) > 0 {
		code = 1
	} else if len(undec) > 0 {
		code = 1
	}
	if !o.noEvidence {
		os.MkdirAll(evDir, 0o755)
		if len(viol) > 0 || len(undec) > 0 {
			b, _ := json.MarshalIndent(map[string]any{"property": r.Property, "violations": viol, "undecided": undec,
				"how_to_replay": fmt.Sprintf("ygotsa check %s --tier %s (deterministic; re-derives each obligation from /repo's working tree)", r.Property, r.Tier)}, "", " ")
			os.WriteFile(replay, b, 0o644)
		} else {
			os.Remove(replay)
		}
		r.writeEvidence(o, evDir, len(viol), len(undec), nKnown)
	}
	if len(viol) > 0 || len(undec) > 0 {
		// an undecided obligation means the property could not be established on this tree
		// (anchor gone, code shape no longer recognised): reported as a violation, distinctly.
		fmt.Printf("VIOLATION property=%s replay=%s\n", r.Property, replay)
	}
	if code == 0 {
		fmt.Printf("OK property=%s tier=%s obligations=%d known_findings=%d\n", r.Property, r.Tier, r.total(), nKnown)
	}
	return code
}

func (r *Report) total() int {
	n := 0
	for _, st := range r.rules {
		n += st.Instances
	}
	return n
}

func (r *Report) writeEvidence(o finishOpts, evDir string, nviol, nundec, nknown int) {
	var stats []*RuleStat
	obl, dis := 0, 0
	for _, name := range r.order {
		st := r.rules[name]
		stats = append(stats, st)
		obl += st.Instances
		dis += st.Discharged + st.Excepted
	}
	// samples: up to 3 obligations per rule, verbatim.
	perRule := map[string]int{}
	var samples []Obligation
	for _, ob := range r.obs {
		if ob.Status == Info && perRule[ob.Rule] >= 1 {
			continue
		}
		if perRule[ob.Rule] < 3 || ob.Status == Violated {
			samples = append(samples, ob)
			perRule[ob.Rule]++
		}
	}
	distinct := map[string]bool{}
	for _, ob := range r.obs {
		if ob.Status != Info {
			distinct[ob.Rule+"|"+ob.Construct] = true
		}
	}
	cov := map[string]any{
		"explanation": "DECIDED (structural necessary condition, from /repo's current source, no code of /repo is executed; where a rule analyses generated code, the template constants of /repo are expanded by the standard library over analyser-built data first): " + r.decided +
			" NOT DECIDED: " + r.undecidedClause,
		"obligations":         obl,
		"discharged":          dis,
		"evaluations":         obl,
		"distinct_nontrivial": len(distinct),
		"rule":                "one obligation per (rule, construct) instance found in the type-checked program; distinct = distinct (rule, construct) keys; info notes are not counted",
		"samples":             samples,
		"rules":               stats,
		"known_findings":      nknown,
		"undecided":           nundec,
		"checker_cmd":         fmt.Sprintf("./bin/ygotsa check %s --tier %s", r.Property, r.Tier),
		"trusted_base":        []string{"go/types", "go/ssa", "go/cfg", "x/tools v0.29.0 callgraph (VTA over CHA)", "analyser's models of reflect/append/proto.Clone"},
		"exhaustive":          false,
	}
	for k, v := range o.stats {
		cov[k] = v
	}
	for k, v := range r.extra {
		cov[k] = v
	}
	ev := map[string]any{
		"property_id": r.Property,
		"tier":        r.Tier,
		"seed":        o.seed,
		"level":       "other",
		"coverage":    cov,
		"assumptions": append([]string{}, r.assume...),
		"wall_s":      time.Since(o.start).Seconds(),
		"violations":  nviol,
	}
	b, _ := json.MarshalIndent(ev, "", " ")
	os.WriteFile(filepath.Join(evDir, r.Property+".json"), b, 0o644)
}

func relpos(s string) string {
	s = strings.TrimPrefix(s, repoDir()+"/")
	return s
}

func repoDir() string {
	if d := os.Getenv("YGOT_REPO"); d != "" {
		return d
	}
	return "/repo"
}
