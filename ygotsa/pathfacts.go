package main

import (
	"go/ast"
	"go/token"
	"go/types"

	"golang.org/x/tools/go/cfg"
)

// Engine E4p: path facts. FactsAt reads conditions off the lexical structure around a node; that
// is exact for code written as nested if/switch, and blind to a statement that several branches
// fall into (a shared tail after `if a { if b { continue } }`). PathFactsAt enumerates, on the
// control-flow graph of the enclosing function body (golang.org/x/tools/go/cfg, which lowers
// &&, || and ! in conditions to edges), every acyclic path from the entry of the body to the
// node, and returns for each path the branch outcomes along it as Facts. A rule that needs
// "whenever this statement runs, X was established" asks for X on every path.
//
// Acyclic: a block is not revisited on a path, so for a node inside a loop the paths are those of
// one iteration (earlier iterations would have to pass the loop head again). The number of paths
// is capped; beyond the cap the answer is "not decided" and the caller falls back to its lexical
// reading.

const maxPaths = 4096

type bodyCFG struct {
	g     *cfg.CFG
	preds map[*cfg.Block][]*cfg.Block
}

func (c *Ctx) cfgOf(f *FuncInfo, body *ast.BlockStmt) *bodyCFG {
	if c.cfgs == nil {
		c.cfgs = map[*ast.BlockStmt]*bodyCFG{}
	}
	if b, ok := c.cfgs[body]; ok {
		return b
	}
	info := f.Info()
	mayReturn := func(call *ast.CallExpr) bool {
		if id, ok := call.Fun.(*ast.Ident); ok && id.Name == "panic" {
			return false
		}
		switch FullName(Callee(info, call)) {
		case "os.Exit", "log.Fatal", "log.Fatalf", "log.Fatalln", "log.Panic", "log.Panicf", "runtime.Goexit":
			return false
		}
		return true
	}
	g := cfg.New(body, mayReturn)
	b := &bodyCFG{g: g, preds: map[*cfg.Block][]*cfg.Block{}}
	for _, blk := range g.Blocks {
		for _, s := range blk.Succs {
			b.preds[s] = append(b.preds[s], blk)
		}
	}
	c.cfgs[body] = b
	return b
}

// enclosingBody: the innermost function body (FuncLit or the declaration) that contains n.
func (c *Ctx) enclosingBody(f *FuncInfo, n ast.Node) *ast.BlockStmt {
	pm := c.parentMap(f.File)
	for p := pm[n]; p != nil; p = pm[p] {
		switch x := p.(type) {
		case *ast.FuncLit:
			return x.Body
		case *ast.FuncDecl:
			return x.Body
		}
	}
	return f.Decl.Body
}

// PathFactsAt returns one fact list per acyclic path from the entry of the enclosing function body
// to target, and whether the enumeration is complete (false: too many paths, or target not found).
func (c *Ctx) PathFactsAt(f *FuncInfo, target ast.Node) ([][]Fact, bool) {
	body := c.enclosingBody(f, target)
	bc := c.cfgOf(f, body)
	pm := c.parentMap(f.File)
	// locate the block: smallest CFG node that contains the target.
	var at *cfg.Block
	var best ast.Node
	for _, blk := range bc.g.Blocks {
		if !blk.Live {
			continue
		}
		for _, n := range blk.Nodes {
			if n.Pos() <= target.Pos() && target.End() <= n.End() {
				if best == nil || (n.End()-n.Pos()) < (best.End()-best.Pos()) {
					best, at = n, blk
				}
			}
		}
	}
	if at == nil {
		return nil, false
	}
	entry := bc.g.Blocks[0]
	edgeFact := func(p, s *cfg.Block) ([]Fact, bool) {
		if len(p.Succs) != 2 || p.Succs[0] == p.Succs[1] || len(p.Nodes) == 0 {
			return nil, false
		}
		e, ok := p.Nodes[len(p.Nodes)-1].(ast.Expr)
		if !ok {
			return nil, false
		}
		pos := p.Succs[0] == s
		// a case expression of a tagged switch is one half of `tag == e`.
		if cc, ok := pm[e].(*ast.CaseClause); ok {
			if blk, ok := pm[cc].(*ast.BlockStmt); ok {
				if sw, ok := pm[blk].(*ast.SwitchStmt); ok && sw.Tag != nil {
					kind := "switch"
					if !pos {
						kind = "switch-not"
					}
					return []Fact{{Cond: sw.Tag, Pos: pos, Kind: kind, Vals: []ast.Expr{e}}}, true
				}
				if _, ok := pm[blk].(*ast.TypeSwitchStmt); ok {
					return nil, false
				}
			}
		}
		if tv, ok := f.Info().Types[e]; !ok || tv.Type == nil {
			return nil, false
		}
		var fs []Fact
		splitFact(e, pos, &fs) // normalises !, && (true edge) and || (false edge)
		return fs, true
	}
	var out [][]Fact
	complete := true
	onPath := map[*cfg.Block]bool{}
	var cur []Fact
	var walk func(b *cfg.Block)
	walk = func(b *cfg.Block) {
		if !complete {
			return
		}
		if b == entry {
			cp := make([]Fact, len(cur))
			copy(cp, cur)
			out = append(out, cp)
			if len(out) > maxPaths {
				complete = false
			}
			return
		}
		onPath[b] = true
		for _, p := range bc.preds[b] {
			if onPath[p] || !p.Live {
				continue
			}
			fts, has := edgeFact(p, b)
			if has {
				cur = append(cur, fts...)
			}
			walk(p)
			if has {
				cur = cur[:len(cur)-len(fts)]
			}
		}
		onPath[b] = false
	}
	walk(at)
	if !complete {
		return nil, false
	}
	// facts from conditions evaluated in the same block *after* the target do not hold at it;
	// edges are only taken from predecessors, so nothing to trim. Expand named booleans per path.
	for i := range out {
		out[i] = expandNamedBooleans(f, out[i])
	}
	return out, true
}

// EveryPath reports whether pred holds for the facts of every path to n. decided=false when the
// paths could not be enumerated.
func (c *Ctx) EveryPath(f *FuncInfo, n ast.Node, pred func([]Fact) bool) (holds, decided bool) {
	paths, ok := c.PathFactsAt(f, n)
	if !ok || len(paths) == 0 {
		return false, false
	}
	for _, p := range paths {
		if !pred(p) {
			return false, true
		}
	}
	return true, true
}

var _ = token.NoPos

// IterationBypass decides, on the CFG, whether one iteration of loop (a ForStmt or RangeStmt in f)
// can run from the start of the loop body to the loop's back edge without executing a node for
// which isCheck holds. checks is the number of CFG nodes in the loop body that satisfy isCheck;
// decided is false when the loop's blocks could not be identified.
func (c *Ctx) IterationBypass(f *FuncInfo, loop ast.Stmt, isCheck func(ast.Node) bool) (bypass bool, checks int, decided bool) {
	bc := c.cfgOf(f, c.enclosingBody(f, loop))
	var entry *cfg.Block
	head := map[*cfg.Block]bool{}
	for _, b := range bc.g.Blocks {
		if b.Stmt != loop {
			continue
		}
		switch b.Kind {
		case cfg.KindForBody, cfg.KindRangeBody:
			entry = b
		case cfg.KindForPost, cfg.KindForLoop, cfg.KindRangeLoop:
			head[b] = true
		}
	}
	if entry == nil || len(head) == 0 {
		return false, 0, false
	}
	has := func(b *cfg.Block) bool {
		found := false
		for _, n := range b.Nodes {
			ast.Inspect(n, func(x ast.Node) bool {
				if x == nil || found {
					return false
				}
				if _, isLit := x.(*ast.FuncLit); isLit {
					return false
				}
				if isCheck(x) {
					found = true
				}
				return !found
			})
		}
		return found
	}
	seen := map[*cfg.Block]bool{}
	var walk func(b *cfg.Block)
	walk = func(b *cfg.Block) {
		if seen[b] || bypass {
			return
		}
		seen[b] = true
		if head[b] {
			bypass = true
			return
		}
		if has(b) {
			checks++
			return
		}
		for _, s := range b.Succs {
			walk(s)
		}
	}
	walk(entry)
	return bypass, checks, true
}

// FuncBypass decides whether the body of f can reach a return statement for which okReturn is
// false (a "success" exit) without executing a node for which isCheck holds.
func (c *Ctx) FuncBypass(f *FuncInfo, isCheck func(ast.Node) bool, failure func(*ast.ReturnStmt) bool) (bypass, decided bool) {
	if f.Decl.Body == nil {
		return false, false
	}
	bc := c.cfgOf(f, f.Decl.Body)
	if len(bc.g.Blocks) == 0 {
		return false, false
	}
	has := func(b *cfg.Block) (check bool, success bool) {
		for _, n := range b.Nodes {
			if check {
				break
			}
			if rs, ok := n.(*ast.ReturnStmt); ok && !failure(rs) {
				// a check inside the returned expression itself counts as executed.
				inRet := false
				ast.Inspect(rs, func(x ast.Node) bool {
					if x != nil && isCheck(x) {
						inRet = true
					}
					return !inRet
				})
				if !inRet {
					success = true
				}
				return
			}
			ast.Inspect(n, func(x ast.Node) bool {
				if x == nil || check {
					return false
				}
				if _, isLit := x.(*ast.FuncLit); isLit {
					return false
				}
				if isCheck(x) {
					check = true
				}
				return !check
			})
		}
		return
	}
	seen := map[*cfg.Block]bool{}
	var walk func(b *cfg.Block)
	walk = func(b *cfg.Block) {
		if seen[b] || bypass {
			return
		}
		seen[b] = true
		chk, succ := has(b)
		if succ {
			bypass = true
			return
		}
		if chk {
			return
		}
		if len(b.Succs) == 0 && b.Live {
			// fell off the end without a return statement in this block (implicit return).
			if len(b.Nodes) == 0 || !isReturn(b.Nodes[len(b.Nodes)-1]) {
				if f.Obj.Type().(*types.Signature).Results().Len() == 0 {
					bypass = true
				}
			}
			return
		}
		for _, s := range b.Succs {
			walk(s)
		}
	}
	walk(bc.g.Blocks[0])
	return bypass, true
}

func isReturn(n ast.Node) bool {
	_, ok := n.(*ast.ReturnStmt)
	return ok
}
