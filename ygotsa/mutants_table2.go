package main

// Overlay mutants for the properties built in round 2.
func init() {
	// C30
	addMutant(Mutant{Name: "c30-errorlog-optnil", Property: "C30", File: "ytypes/leafref.go",
		Old: "if opt == nil || !opt.IgnoreMissingData {\n\t\treturn e\n\t}", New: "if opt == nil {\n\t\treturn e\n\t}", Expect: "leafrefErrOrLog:drop#1"})
	addMutant(Mutant{Name: "c30-iter-match-err", Property: "C30", File: "ytypes/leafref.go",
		Old: "\t\tif !match {\n\t\t\te := fmt.Errorf(", New: "\t\tif !match && len(matchNodes) > 0 {\n\t\t\te := fmt.Errorf(", Expect: "nil-return"})
	addMutant(Mutant{Name: "c30-match-empty", Property: "C30", File: "ytypes/leafref.go",
		Old: "\tif len(matchNodes) == 0 {\n\t\treturn false, util.NewErrs(", New: "\tif len(matchNodes) == 0 {\n\t\treturn true, util.NewErrs(", Expect: "matchesNodes:"})
	addMutant(Mutant{Name: "c30-memo-cursor", Property: "C30", File: "ytypes/leafref.go",
		Old: "\t\t\t\troot = root.Parent\n\t\t\t\tpathQueryRoot = pathQueryRoot.Parent\n\t\t\t\tcontinue", New: "\t\t\t\troot = root.Parent\n\t\t\t\tcontinue", Expect: "dataNodesAtPath:block"})
	addMutant(Mutant{Name: "c30-memo-key", Property: "C30", File: "ytypes/leafref.go",
		Old: "qVal, ok := pathQueryRoot.Memo[strPath]", New: "qVal, ok := pathQueryNode.Memo[strPath]", Expect: "memo-access"})
	addMutant(Mutant{Name: "c30-partial-empty", Property: "C30", File: "ytypes/node.go",
		Old: "case !ok && args.partialKeyMatch:", New: "case (!ok || pathKey == \"\") && args.partialKeyMatch:", Expect: "partialKeyMatch"})
}

func init() {
	// C32
	addMutant(Mutant{Name: "c32-isconfig-guard", Property: "C32", File: "ygot/gostruct.go",
		Old: "\t\tif util.IsConfig(ni.Schema) {\n\t\t\treturn nil\n\t\t}\n", New: "", Expect: "iter:write#1"})
	addMutant(Mutant{Name: "c32-skip-leaves", Property: "C32", File: "ygot/gostruct.go",
		Old: "if ni.Parent == nil {", New: "if ni.Parent == nil || ni.Schema.IsLeaf() {", Expect: "iter:skip"})
	addMutant(Mutant{Name: "c32-isconfig-own", Property: "C32", File: "util/yang.go",
		Old: "return !e.ReadOnly()", New: "return e.Config != yang.TSFalse", Expect: "util.IsConfig:definition"})
	// C31
	addMutant(Mutant{Name: "c31-makefield-always", Property: "C31", File: "ytypes/container.go",
		Old: "\t\tif util.IsNilOrInvalidValue(f) {\n\t\t\tmakeField(destv, ft)\n\t\t}", New: "\t\tmakeField(destv, ft)", Expect: "makeField#1"})
	addMutant(Mutant{Name: "c31-gnmi-noclear", Property: "C31", File: "ytypes/leaf_list.go",
		Old: "\t\tclearSliceField(parent, fieldName)\n\t\tfor _, v := range sa", New: "\t\tfor _, v := range sa", Expect: "clear-before-elements"})
	addMutant(Mutant{Name: "c31-list-replace", Property: "C31", File: "ytypes/list.go",
		Old: "if !val.IsValid() || val.IsZero() {\n\t\t\t\tval = newVal\n\t\t\t} else {", New: "if !val.IsValid() || val.IsZero() || len(jt) > 1 {\n\t\t\t\tval = newVal\n\t\t\t} else {", Expect: "new-entry#1"})
	addMutant(Mutant{Name: "c31-extra-fields-inverted", Property: "C31", File: "ytypes/container.go",
		Old: "if !hasIgnoreExtraFields(opts) {", New: "if !hasIgnoreExtraFields(opts) && len(allSchemaPaths) > 0 {", Expect: "extra-fields-check:guard"})
	addMutant(Mutant{Name: "c31-opts-dropped", Property: "C31", File: "ytypes/container.go",
		Old: "return unmarshalStruct(schema, parent, jt, enc, opts...)", New: "return unmarshalStruct(schema, parent, jt, enc)", Expect: "unmarshalStruct"})
}

func init() {
	// C28
	addMutant(Mutant{Name: "c28-tag-zero", Property: "C28", File: "protogen/protogen.go",
		Old: "|| v <= 1000 {", New: "|| (v >= 1 && v <= 1000) {", Expect: "fieldTag:returned-set"})
	addMutant(Mutant{Name: "c28-tag-reserved", Property: "C28", File: "protogen/protogen.go",
		Old: "if (v >= 19000 && v <= 19999) || v <= 1000 {", New: "if (v > 19000 && v <= 19999) || v <= 1000 {", Expect: "fieldTag:returned-set"})
	addMutant(Mutant{Name: "c28-tag-mask", Property: "C28", File: "protogen/protogen.go",
		Old: "h.Sum32() & 0x1fffffff", New: "h.Sum32() & 0x3fffffff", Expect: "fieldTag:mask"})
	addMutant(Mutant{Name: "c28-no-collision-check", Property: "C28", File: "protogen/protogen.go",
		Old: "\t\tif err := checkUniqueFieldTags(msgDef); err != nil {\n\t\t\terrs = append(errs, err)\n\t\t\tcontinue\n\t\t}\n", New: "", Expect: "render#1:checked"})
	addMutant(Mutant{Name: "c28-collision-check-logged", Property: "C28", File: "protogen/protogen.go",
		Old: "\t\tif err := checkUniqueFieldTags(msgDef); err != nil {\n\t\t\terrs = append(errs, err)\n\t\t\tcontinue\n\t\t}\n", New: "\t\tif err := checkUniqueFieldTags(msgDef); err != nil {\n\t\t\t_ = err\n\t\t}\n", Expect: "render#1:checked"})
	addMutant(Mutant{Name: "c28-identity-overwrite", Property: "C28", File: "protogen/protogen.go",
		Old: "\t\t\t\tif other, ok := values[int64(tag)]; ok {", New: "\t\t\t\tif other, ok := values[int64(tag)]; ok && tag == 0 {", Expect: "identity-value-store"})
	addMutant(Mutant{Name: "c28-tag-counter-arg", Property: "C28", File: "protogen/protogen.go",
		Old: "ft, err := fieldTag(fmt.Sprintf(\"%s_%s\", path, strings.ToLower(tn)))", New: "ft, err := fieldTag(fmt.Sprintf(\"%s_%d\", path, len(oofs)))", Expect: "fieldTag-arg"})
	addMutant(Mutant{Name: "c28-keytag-cond", Property: "C28", File: "protogen/protogen.go",
		Old: "\t\tkm.Fields = append(km.Fields, fd)\n\t\tctag++", New: "\t\tkm.Fields = append(km.Fields, fd)\n\t\tif !fd.IsOneOf {\n\t\t\tctag++\n\t\t}", Expect: "genListKeyProto:counter"})
	addMutant(Mutant{Name: "c28-oneof-not-checked", Property: "C28", File: "protogen/protogen.go",
		Old: "\t\t\tif f.IsOneOf {\n\t\t\t\tif err := check(f.OneOfFields); err != nil {\n\t\t\t\t\treturn err\n\t\t\t\t}\n\t\t\t\tcontinue\n\t\t\t}\n", New: "\t\t\tif f.IsOneOf {\n\t\t\t\tcontinue\n\t\t\t}\n", Expect: "checkUniqueFieldTags:shape"})
}

func init() {
	// C24
	addMutant(Mutant{Name: "c24-uint64-rejected", Property: "C24", File: "protomap/proto.go",
		Old: "\t\t\tcase uint64:\n\t\t\t\tnsv = iv\n", New: "", Expect: "wrapper:*ywrapper.UintValue"})
	addMutant(Mutant{Name: "c24-leaflist-any-rejected", Property: "C24", File: "protomap/proto.go",
		Old: "\tif av, ok := chv.([]any); ok {", New: "\tif av, ok := chv.([]any); ok && false {", Expect: "leaflist:"})
	addMutant(Mutant{Name: "c24-enum-by-index", Property: "C24", File: "protomap/proto.go",
		Old: "fd.Enum().Values().ByNumber(val.(protoreflect.EnumNumber))", New: "fd.Enum().Values().Get(int(val.(protoreflect.EnumNumber)))", Expect: "Get#"})
	addMutant(Mutant{Name: "c24-key-empty-missing", Property: "C24", File: "protomap/proto.go",
		Old: "\t\t\t\tif _, ok := key[keyName]; !ok {", New: "\t\t\t\tif key[keyName] == \"\" {", Expect: "key-lookup"})
	addMutant(Mutant{Name: "c24-union-bool-dropped", Property: "C24", File: "protomap/proto.go",
		Old: "\t\t\tcase reflect.Bool:\n\t\t\t\tif fd.Kind() == protoreflect.BoolKind {", New: "\t\t\tcase reflect.Bool:\n\t\t\t\tif fd.Kind() == protoreflect.Int64Kind {", Expect: "union-leaflist:protoreflect.BoolKind"})
	addMutant(Mutant{Name: "c24-unresolved-path", Property: "C24", File: "protomap/proto.go",
		Old: "\t\tvals[resolvedPath(basePath, path)] = val\n", New: "\t\tvals[path] = val\n", Expect: "result-store"})
	addMutant(Mutant{Name: "c24-key-parse-signed", Property: "C24", File: "protomap/proto.go",
		Old: "v, err := strconv.ParseUint(val, 10, 64)", New: "x, err := strconv.ParseInt(val, 10, 64)\n\t\tv := uint64(x)", Expect: "list-key:protoreflect.Uint64Kind"})
}

func init() {
	// C22
	addMutant(Mutant{Name: "c22-unescaped-keys", Property: "C22", File: "gnmidiff/json.go",
		Old: "\t\t\t\t\t\tlistelepath = strings.TrimPrefix(elemStr, \"/_\")\n", New: "\t\t\t\t\t\tlistelepath = \"\"\n\t\t\t\t\t\tfor k, v := range keyVals {\n\t\t\t\t\t\t\tlistelepath += fmt.Sprintf(\"[%s=%s]\", k, v)\n\t\t\t\t\t\t}\n\t\t\t\t\t\t_ = elemStr\n", Expect: "format#"})
	addMutant(Mutant{Name: "c22-writeupdate-eq", Property: "C22", File: "gnmidiff/intent.go",
		Old: "errorOnOverwrite && ok && !reflect.DeepEqual(val, prevVal)", New: "errorOnOverwrite && ok && val != prevVal", Expect: "writeUpdate"})
	addMutant(Mutant{Name: "c22-mismatch-swapped", Property: "C22", File: "gnmidiff/setrequest.go",
		Old: "MismatchedUpdate{A: vA, B: vB}", New: "MismatchedUpdate{A: vB, B: vA}", Expect: "mismatch-sides"})
	addMutant(Mutant{Name: "c22-extra-from-a", Property: "C22", File: "gnmidiff/setrequest.go",
		Old: "diff.ExtraUpdates = intentB.Updates", New: "diff.ExtraUpdates = intentA.Updates", Expect: "ExtraUpdates"})
	addMutant(Mutant{Name: "c22-leaf-replace-kept", Property: "C22", File: "gnmidiff/intent.go",
		Old: "\t\tdelete(intent.Deletes, path)\n\t\tif err := intent.writeUpdate(path, leafVal, errorOnOverwrite); err != nil {", New: "\t\tif err := intent.writeUpdate(path, leafVal, errorOnOverwrite); err != nil {", Expect: "populateUpdateNoSchema:leaf-replace"})
	addMutant(Mutant{Name: "c22-update-no-prefix", Property: "C22", File: "gnmidiff/setrequest.go",
		Old: "\tfor _, upd := range req.Update {\n\t\tpath, err := fullPathStr(prefix, upd.GetPath())", New: "\tfor _, upd := range req.Update {\n\t\tpath, err := fullPathStr(\"\", upd.GetPath())", Expect: "Update:path"})
	addMutant(Mutant{Name: "c22-nil-leaflist", Property: "C22", File: "gnmidiff/intent.go",
		Old: "\t\tss := make([]interface{}, len(elems))\n\t\tfor x, e := range elems {\n\t\t\tvar err error\n\t\t\tif ss[x], err = protoLeafToJSON(e); err != nil {\n\t\t\t\treturn nil, err\n\t\t\t}\n\t\t}", New: "\t\tvar ss []interface{}\n\t\tfor _, e := range elems {\n\t\t\ts, err := protoLeafToJSON(e)\n\t\t\tif err != nil {\n\t\t\t\treturn nil, err\n\t\t\t}\n\t\t\tss = append(ss, s)\n\t\t}", Expect: "TypedValue_LeaflistVal"})
	addMutant(Mutant{Name: "c22-int-as-int64", Property: "C22", File: "gnmidiff/intent.go",
		Old: "return float64(tv.GetIntVal()), nil", New: "return tv.GetIntVal(), nil", Expect: "TypedValue_IntVal"})
}

func init() {
	// C25
	addMutant(Mutant{Name: "c25-unsorted-modules", Property: "C25", File: "ygen/codegen.go",
		Old: "\tsort.Strings(modNames)\n", New: "\tsort.Strings(nil)\n", Expect: "processModules"})
	addMutant(Mutant{Name: "c25-fields-in-map-order", Property: "C25", File: "gogen/codegen.go",
		Old: "\t\tfor _, fn := range dir.OrderedFieldNames() {\n\t\t\tfield := dir.Fields[fn]\n", New: "\t\tfor _, field := range dir.Fields {\n", Expect: "Fields)"})
	addMutant(Mutant{Name: "c25-dirs-in-map-order", Property: "C25", File: "ygen/genstate.go",
		Old: "\tfor _, entryKey := range genutil.GetOrderedEntryKeys(entries) {\n\t\te := entries[entryKey]\n", New: "\tfor _, e := range entries {\n", Expect: "range(entries)"})
	addMutant(Mutant{Name: "c25-header-imports-unsorted", Property: "C25", File: "protogen/protogen.go",
		Old: "\tsort.Strings(in.Imports)\n", New: "", Expect: "writeProto3Header:sorts-imports"})
	addMutant(Mutant{Name: "c25-proto-fields-unsorted", Property: "C25", File: "protogen/protogen.go",
		Old: "\tsort.Strings(fNames)\n", New: "", Expect: "range(msg.Fields)"})
	addMutant(Mutant{Name: "c25-timestamp", Property: "C25", File: "gogen/codegen.go",
		Old: "\t\tdefinedUnionTypes := map[string]bool{}\n", New: "\t\tdefinedUnionTypes := map[string]bool{}\n\t\t_ = fmt.Sprint(time.Now())\n", Expect: "no-ambient-state",
		More: []Edit{{"gogen/codegen.go", "import (\n", "import (\n\t\"time\"\n"}}})
}

func init() {
	// C15
	addMutant(Mutant{Name: "c15-append-no-dup-check", Property: "C15", File: "gogen/ordered_list.go",
		Old: "\tif _, ok := o.valueMap[key]; ok {\n\t\treturn fmt.Errorf(\"duplicate key for list Statement %v\", key)\n\t}\n\to.keys = append(o.keys, key)\n\to.init()\n\to.valueMap[key] = v", New: "\to.keys = append(o.keys, key)\n\to.init()\n\to.valueMap[key] = v", Expect: "Append:duplicate-rejected"})
	addMutant(Mutant{Name: "c15-append-write-before-check", Property: "C15", File: "gogen/ordered_list.go",
		Old: "\tif _, ok := o.valueMap[key]; ok {\n\t\treturn fmt.Errorf(\"duplicate key for list Statement %v\", key)\n\t}\n\to.keys = append(o.keys, key)\n\to.init()\n\to.valueMap[key] = v", New: "\to.keys = append(o.keys, key)\n\tif _, ok := o.valueMap[key]; ok {\n\t\treturn fmt.Errorf(\"duplicate key for list Statement %v\", key)\n\t}\n\to.init()\n\to.valueMap[key] = v", Expect: "Append:errors-before-writes"})
	addMutant(Mutant{Name: "c15-keys-aliased", Property: "C15", File: "gogen/ordered_list.go",
		Old: "\treturn append([]{{ .KeyName }}{}, o.keys...)", New: "\treturn o.keys", Expect: "Keys:copy"})
	addMutant(Mutant{Name: "c15-delete-map-only", Property: "C15", File: "gogen/ordered_list.go",
		Old: "\t\t\to.keys = append(o.keys[:i], o.keys[i+1:]...)\n", New: "\t\t\t_ = i\n", Expect: "Delete:both-or-neither"})
	addMutant(Mutant{Name: "c15-appendnew-key-leaf-unset", Property: "C15", File: "gogen/ordered_list.go",
		Old: "\t\t{{- if $key.IsScalarField }}\n\t\t{{ $key.Name }}: &{{ $key.Name }},\n\t\t{{- else }}\n\t\t{{ $key.Name }}: {{ $key.Name }},\n\t\t{{- end -}}\n\t\t{{- end }}\n\t}\n\to.init()", New: "\t\t{{- if $key.IsScalarField }}\n\t\t{{ $key.Name }}: &{{ $key.Name }},\n\t\t{{- end -}}\n\t\t{{- end }}\n\t}\n\to.init()", Expect: "AppendNew:new-element-keys"})
	addMutant(Mutant{Name: "c15-values-map-order", Property: "C15", File: "gogen/ordered_list.go",
		Old: "\tfor _, key := range o.keys {\n\t\tvalues = append(values, o.valueMap[key])\n\t}", New: "\tfor _, v := range o.valueMap {\n\t\tvalues = append(values, v)\n\t}", Expect: "Values:in-key-order"})
	addMutant(Mutant{Name: "c15-parent-get-creates", Property: "C15", File: "gogen/ordered_list.go",
		Old: "\tif s == nil {\n\t\treturn nil\n\t}\n\t{{ if gt (len .Keys) 1 -}}", New: "\tif s == nil {\n\t\treturn nil\n\t}\n\tif s.{{ .ListFieldName }} == nil {\n\t\ts.{{ .ListFieldName }} = &{{ .StructName }}{}\n\t}\n\t{{ if gt (len .Keys) 1 -}}", Expect: "GetL:read-only"})
	addMutant(Mutant{Name: "c15-keys-reversed", Property: "C15", File: "internal/yreflect/reflect_orderedmap.go",
		Old: "\tfor i := 0; i != keys.Len(); i++ {\n\t\tkeySlice = append(keySlice, keys.Index(i))\n\t}", New: "\tfor i := keys.Len() - 1; i >= 0; i-- {\n\t\tkeySlice = append(keySlice, keys.Index(i))\n\t}", Expect: "OrderedMapKeys:in-order"})
	// C34
	addMutant(Mutant{Name: "c34-get-creates-map", Property: "C34", File: "gogen/unordered_list.go",
		Old: "\tif t == nil {\n\t\treturn nil\n\t}\n\n  {{ if ne .KeyStruct \"\" -}}", New: "\tif t == nil {\n\t\treturn nil\n\t}\n\tif t.{{ .ListName }} == nil {\n\t\tt.{{ .ListName }} = nil\n\t}\n\n  {{ if ne .KeyStruct \"\" -}}", Expect: "Get:read-only"})
	addMutant(Mutant{Name: "c34-new-overwrites", Property: "C34", File: "gogen/unordered_list.go",
		Old: "\tif _, ok := t.{{ .ListName }}[key]; ok {\n\t\treturn nil, fmt.Errorf(\"duplicate key %v for list {{ .ListName }}\", key)\n\t}\n", New: "", Expect: "New:duplicate-rejected"})
	addMutant(Mutant{Name: "c34-rename-no-delete", Property: "C34", File: "gogen/unordered_list.go",
		Old: "\tt.{{ .ListName }}[newK] = e\n\tdelete(t.{{ .ListName }}, oldK)\n", New: "\tt.{{ .ListName }}[newK] = e\n", Expect: "Rename:moves-entry"})
	addMutant(Mutant{Name: "c34-append-nil-unchecked", Property: "C34", File: "gogen/unordered_list.go",
		Old: "\t{{- if $key.IsScalarField -}}\n\tif v.{{ $key.Name }} == nil {\n\t\treturn fmt.Errorf(\"invalid nil key for {{ $key.Name }}\")\n\t}\n\n\t{{ end -}}\n\t{{- end -}}\n\tkey := {{ .KeyStruct }}{", New: "\t{{- end -}}\n\tkey := {{ .KeyStruct }}{", Expect: "Append:nil-keys-rejected"})
	addMutant(Mutant{Name: "c34-getorcreate-always-new", Property: "C34", File: "gogen/unordered_list.go",
		Old: "\tif v, ok := t.{{ .ListName }}[key]; ok {\n\t\treturn v\n\t}\n", New: "\tif v, ok := t.{{ .ListName }}[key]; ok && v == nil {\n\t\treturn v\n\t}\n", Expect: "GetOrCreate:new-only-on-miss"})
}

func init() {
	// C33
	addMutant(Mutant{Name: "c33-string-unquoted", Property: "C33", File: "gogen/goelements.go",
		Old: "\t\tvalue := fmt.Sprintf(\"%q\", value)\n\t\treturn value, ykind, nil\n\tcase yang.Ybool:", New: "\t\treturn `\"` + value + `\"`, ykind, nil\n\tcase yang.Ybool:", Expect: "yang.Ystring:literal"})
	addMutant(Mutant{Name: "c33-decimal-unparsed", Property: "C33", File: "gogen/goelements.go",
		Old: "\t\tval, err := strconv.ParseFloat(value, 64)\n\t\tif err != nil {\n\t\t\treturn \"\", yang.Ynone, fmt.Errorf(\"default value conversion: unable to convert default value %q to %v: %v\", value, ykind, err)\n\t\t}\n\t\tif err := ytypes.ValidateDecimalRestrictions(args.yangType, val); err != nil {", New: "\t\tval := float64(len(value))\n\t\tif err := ytypes.ValidateDecimalRestrictions(args.yangType, val); err != nil {", Expect: "yang.Ydecimal64:literal"})
	addMutant(Mutant{Name: "c33-string-not-validated", Property: "C33", File: "gogen/goelements.go",
		Old: "\t\tif err := ytypes.ValidateStringRestrictions(args.yangType, value); err != nil {\n\t\t\treturn \"\", yang.Ynone, fmt.Errorf(\"default value conversion: %q doesn't match string restrictions: %v\", value, err)\n\t\t}\n", New: "", Expect: "yang.Ystring:validated"})
	addMutant(Mutant{Name: "c33-overwrites-set-leaf", Property: "C33", File: "gogen/gogen.go",
		Old: "\tif t.{{ $Leaf.Name }} == {{ if $Leaf.IsPtr -}} nil {{- else }} {{ $Leaf.Zero }} {{- end }} {\n\t\t{{- if $Leaf.IsPtr }}\n\t\tvar v", New: "\tif t != nil {\n\t\t{{- if $Leaf.IsPtr }}\n\t\tvar v", Expect: "populateDefaults[template]:stores"})
	addMutant(Mutant{Name: "c33-ordered-children-skipped", Property: "C33", File: "gogen/gogen.go",
		Old: "\t{{- range $listName := .ChildOrderedListNames }}\n\tfor _, e := range t.{{ $listName }}.Values() {\n\t\te.PopulateDefaults()\n\t}\n\t{{- end }}\n}", New: "}", Expect: "populateDefaults[template]:descends"})
	addMutant(Mutant{Name: "c33-key-substring", Property: "C33", File: "gogen/goelements.go",
		Old: "\tmtype.DefaultValue = defaultValue\n\treturn mtype, nil", New: "\tif p := e.Parent; p != nil && p.IsList() && strings.Contains(p.Key, e.Name) {\n\t\tdefaultValue = nil\n\t}\n\tmtype.DefaultValue = defaultValue\n\treturn mtype, nil", Expect: "Entry.Key#"})
	addMutant(Mutant{Name: "c33-nonptr-default-dropped", Property: "C33", File: "gogen/gogen.go",
		Old: "\t\t{{- else }}\n\t\tt.{{ $Leaf.Name }} = {{ $Leaf.Default }}\n\t\t{{- end }}\n\t}", New: "\t\t{{- end }}\n\t}", Expect: "exactly-defaulted-leaves"})
}

func init() {
	// C29
	addMutant(Mutant{Name: "c29-parent-dropped", Property: "C29", File: "ypathgen/pathgen.go",
		Old: "\t\t\tmap[string]interface{}{ {{- .KeyEntriesStr -}} },\n\t\t\tn,\n", New: "\t\t\tmap[string]interface{}{ {{- .KeyEntriesStr -}} },\n\t\t\tnil,\n", Expect: "childConstructor[template]:parent"})
	addMutant(Mutant{Name: "c29-key-by-varname", Property: "C29", File: "ypathgen/pathgen.go",
		Old: "keyEntryStrs = append(keyEntryStrs, fmt.Sprintf(`\"%s\": %s`, param.name, param.varName))", New: "keyEntryStrs = append(keyEntryStrs, fmt.Sprintf(`\"%s\": %s`, param.varName, param.varName))", Expect: "KeyEntriesStr#"})
	addMutant(Mutant{Name: "c29-simplify-any-combo", Property: "C29", File: "ypathgen/pathgen.go",
		Old: "if simplifyWildcardPaths && comboIndex == 0 {", New: "if simplifyWildcardPaths && len(combo) == 0 || simplifyWildcardPaths && keyN == 1 {", Expect: "KeyEntriesStr#"})
	addMutant(Mutant{Name: "c29-modifykey-wrong-node", Property: "C29", File: "ygot/path_types.go",
		Old: "\tn.keys[name] = value\n", New: "\tkeys := map[string]interface{}{}\n\tfor k, v := range n.keys {\n\t\tkeys[k] = v\n\t}\n\tkeys[name] = value\n", Expect: "ModifyKey:writes-key"})
	addMutant(Mutant{Name: "c29-relpath-cache", Property: "C29", File: "ygot/path_types.go",
		Old: "\tif len(n.keys) == 0 {\n\t\treturn pathElems, nil\n\t}\n", New: "\tif len(n.keys) == 0 {\n\t\tn.keys = nil\n\t\treturn pathElems, nil\n\t}\n", Expect: "relPath:pure"})
	addMutant(Mutant{Name: "c29-append-not-prepend", Property: "C29", File: "ygot/path_types.go",
		Old: "\t\tp = append(rel, p...)\n", New: "\t\tp = append(p, rel...)\n", Expect: "ResolvePath:prepend"})
	addMutant(Mutant{Name: "c29-builder-flag", Property: "C29", File: "ypathgen/pathgen.go",
		Old: "\tfor i := 0; i != keyN; i++ {\n\t\tkeyEntryStrs = append(keyEntryStrs, fmt.Sprintf(`\"%s\": \"*\"`, keyParams[i].name))\n\t}\n\tfieldData.KeyEntriesStr = strings.Join(keyEntryStrs, \", \")\n\n\t// There are no initial", New: "\tfor i := 0; i != keyN; i++ {\n\t\tkeyEntryStrs = append(keyEntryStrs, fmt.Sprintf(`\"%s\": \"*\"`, keyParams[i].name))\n\t}\n\tfieldData.KeyEntriesStr = strings.Join(keyEntryStrs[:keyN/2], \", \")\n\n\t// There are no initial", Expect: "KeyEntriesStr#"})
}

func init() {
	// C27
	addMutant(Mutant{Name: "c27-names-by-dirpath", Property: "C27", File: "ygen/ir.go",
		Old: "\tfor p, d := range ir.Directories {\n\t\tdirNames[p] = d.Name\n\t}", New: "\tfor _, d := range ir.Directories {\n\t\tdirNames[d.Path] = d.Name\n\t}", Expect: "names-keyed-by-directory-key"})
	addMutant(Mutant{Name: "c27-toplevel-filter", Property: "C27", File: "ygen/schemaparse.go",
		Old: "\t\tfor _, ch := range util.Children(m) {\n\t\t\tif _, ex := rootEntry.Dir[ch.Name]; ex {", New: "\t\tfor _, ch := range util.Children(m) {\n\t\t\tif ch.Kind != yang.DirectoryEntry {\n\t\t\t\tcontinue\n\t\t\t}\n\t\t\tif _, ex := rootEntry.Dir[ch.Name]; ex {", Expect: "no-filter"})
	addMutant(Mutant{Name: "c27-config-normalised", Property: "C27", File: "ygen/schemaparse.go",
		Old: "\tif e.IsDir() {\n\t\te.Annotation[\"schemapath\"] = e.Path()\n\t}\n}", New: "\tif e.IsDir() {\n\t\te.Annotation[\"schemapath\"] = e.Path()\n\t}\n\tif e.Config == yang.TSUnset {\n\t\te.Config = yang.TSTrue\n\t}\n}", Expect: "writes-only-description-annotation"})
	addMutant(Mutant{Name: "c27-parent-only-dirs", Property: "C27", File: "ygot/schema.go",
		Old: "\te.Parent = parent\n", New: "\tif e.IsDir() {\n\t\te.Parent = parent\n\t}\n", Expect: "rebuildSchemaMap:parent"})
	addMutant(Mutant{Name: "c27-gzip-no-close", Property: "C27", File: "ygen/schemaparse.go",
		Old: "\tgzw.Flush()\n\tgzw.Close()\n", New: "\tgzw.Flush()\n", Expect: "WriteGzippedByteSlice:complete"})
	addMutant(Mutant{Name: "c27-runtime-reads-node", Property: "C27", File: "util/yang.go",
		Old: "func IsConfig(e *yang.Entry) bool {\n\treturn !e.ReadOnly()", New: "func IsConfig(e *yang.Entry) bool {\n\tif e.Node != nil && e.Node.Kind() == \"notification\" {\n\t\treturn false\n\t}\n\treturn !e.ReadOnly()", Expect: "util.IsConfig:entry-fields"})
}

func init() {
	// C26
	addMutant(Mutant{Name: "c26-ordered-by-yang", Property: "C26", File: "gogen/gogen.go",
		Old: "\t\t\tif orderedMapSpec != nil {\n\t\t\t\tassociatedOrderedMapStructs = append(associatedOrderedMapStructs, orderedMapSpec)\n\t\t\t\tassociatedDefaultMethod.ChildOrderedListNames", New: "\t\t\tif orderedMapSpec != nil {\n\t\t\t\tassociatedOrderedMapStructs = append(associatedOrderedMapStructs, orderedMapSpec)\n\t\t\t}\n\t\t\tif field.YANGDetails.OrderedByUser {\n\t\t\t\tassociatedDefaultMethod.ChildOrderedListNames", Expect: "list:ordered-choice"})
	addMutant(Mutant{Name: "c26-root-leaflists-dropped", Property: "C26", File: "ygen/codegen.go",
		Old: "\t\tif l.IsLeaf() || l.IsLeafList() {\n\t\t\tfakeRoot.Dir[l.Name] = l\n\t\t}", New: "\t\tif l.Kind != yang.LeafEntry || l.ListAttr != nil {\n\t\t\tcontinue\n\t\t}\n\t\tfakeRoot.Dir[l.Name] = l", Expect: "root-leaves-and-leaf-lists"})
	addMutant(Mutant{Name: "c26-getter-wrong-type", Property: "C26", File: "gogen/gogen.go",
		Old: "\tt.{{ .Field.Name }} = &{{ stripAsteriskPrefix .Field.Type }}{}\n", New: "\tt.{{ .Field.Name }} = {{ stripAsteriskPrefix .Field.Type }}{}\n", Expect: "compiles"})
	addMutant(Mutant{Name: "c26-struct-names-not-unique", Property: "C26", File: "gogen/goelements.go",
		Old: "uniqName := genutil.MakeNameUnique(pathToCamelCaseName(e, compressBehaviour.CompressEnabled()), s.definedGlobals)", New: "uniqName := pathToCamelCaseName(e, compressBehaviour.CompressEnabled())\n\ts.definedGlobals[uniqName] = true", Expect: "DirectoryName:unique"})
	addMutant(Mutant{Name: "c26-leaflist-not-slice", Property: "C26", File: "gogen/gogen.go",
		Old: "\t\t\t\tfType = fmt.Sprintf(\"[]%s\", fType)\n", New: "\t\t\t\tfType = fmt.Sprintf(\"*%s\", fType)\n", Expect: "leaf-list:type"})
	addMutant(Mutant{Name: "c26-validate-missing-opts", Property: "C26", File: "gogen/gogen.go",
		Old: "func (t *{{ .StructName }}) ΛValidate(opts ...ygot.ValidationOption) error {", New: "func (t *{{ .StructName }}) ΛValidate() error {\n\tvar opts []ygot.ValidationOption", Expect: "compiles"})
}

func init() {
	addMutant(Mutant{Name: "c22-float-key-exponent", Property: "C22", File: "ygot/render.go",
		Old: "\t\treturn strconv.FormatFloat(kv.Float(), 'f', -1, 64), nil", New: "\t\treturn fmt.Sprintf(\"%g\", v), nil", Expect: "KeyValueAsString:reflect.Float64"})
	addMutant(Mutant{Name: "c16-float-key-exponent", Property: "C16", File: "ygot/render.go",
		Old: "\t\treturn strconv.FormatFloat(kv.Float(), 'f', -1, 64), nil", New: "\t\treturn fmt.Sprintf(\"%g\", v), nil", Expect: "KeyValueAsString:reflect.Float64"})
}

func init() {
	// C23
	addMutant(Mutant{Name: "c23-sides-swapped", Property: "C23", File: "gnmidiff/set_to_get.go",
		Old: "diff.MismatchedUpdates[pathA] = MismatchedUpdate{A: vA, B: vB}", New: "diff.MismatchedUpdates[pathA] = MismatchedUpdate{A: vB, B: vA}", Expect: "class:mismatched"})
	addMutant(Mutant{Name: "c23-handled-not-removed", Property: "C23", File: "gnmidiff/set_to_get.go",
		Old: "\t\tdelete(updates, pathA)\n", New: "", Expect: "handled-removed"})
	addMutant(Mutant{Name: "c23-removed-only-common", Property: "C23", File: "gnmidiff/set_to_get.go",
		Old: "\t\tcase ok:\n\t\t\tdiff.CommonUpdates[pathA] = vA\n\t\tdefault:\n\t\t\tdiff.MissingUpdates[pathA] = vA\n\t\t}\n\t\tdelete(updates, pathA)\n", New: "\t\tcase ok:\n\t\t\tdiff.CommonUpdates[pathA] = vA\n\t\t\tdelete(updates, pathA)\n\t\tdefault:\n\t\t\tdiff.MissingUpdates[pathA] = vA\n\t\t}\n", Expect: "handled-removed"})
	addMutant(Mutant{Name: "c23-prefix-no-slash", Property: "C23", File: "gnmidiff/set_to_get.go",
		Old: "t.PrefixSearch(delPath + \"/\")", New: "t.PrefixSearch(delPath)", Expect: "extras-under-deletes"})
	addMutant(Mutant{Name: "c23-mismatch-eq", Property: "C23", File: "gnmidiff/set_to_get.go",
		Old: "\t\tcase ok && !reflect.DeepEqual(vA, vB):", New: "\t\tcase ok && fmt.Sprint(vA) != fmt.Sprint(vB) && !reflect.DeepEqual(vA, nil):", Expect: "class:"})
	addMutant(Mutant{Name: "c23-common-any", Property: "C23", File: "gnmidiff/set_to_get.go",
		Old: "\t\tcase ok:\n\t\t\tdiff.CommonUpdates[pathA] = vA", New: "\t\tcase ok || vA == nil:\n\t\t\tdiff.CommonUpdates[pathA] = vA", Expect: "class:"})
	addMutant(Mutant{Name: "c23-notif-prefix-ignored", Property: "C23", File: "gnmidiff/set_to_get.go",
		Old: "\t\t\tpath, err := fullPathStr(prefix, upd.GetPath())", New: "\t\t\tpath, err := fullPathStr(prefix[:0], upd.GetPath())", Expect: "notification-leaves"})
	// C10
	addMutant(Mutant{Name: "c10-write-not-at-target", Property: "C10", File: "ytypes/node.go",
		Old: "\t\t\tif !util.IsValueNil(args.val) && len(path.Elem) == to {", New: "\t\t\tif !util.IsValueNil(args.val) && len(path.Elem) <= to+1 {", Expect: "value-write"})
	addMutant(Mutant{Name: "c10-wrong-schema", Property: "C10", File: "ytypes/node.go",
		Old: "if err := unmarshalGeneric(cschema, root, val, encoding, opts...); err != nil {", New: "if err := unmarshalGeneric(schema, root, val, encoding, opts...); err != nil {", Expect: "value-write#2:target"})
}

func init() {
	addMutant(Mutant{Name: "c18-empty-prefix", Property: "C18", File: "ytypes/leaf.go",
		Old: "if !ok || len(v) != 1 || v[0] != nil {", New: "if !ok || len(v) < 1 || v[0] != nil {", Expect: "exactly-[null]"})
	addMutant(Mutant{Name: "c17-lookup-before-unset", Property: "C17", File: "ygot/struct_validation_map.go",
		Old: "\tif e.Int() == 0 {\n\t\t// Enumerations are always derived int64 types", New: "\tif _, known := enumVal.ΛMap()[e.Type().Name()][e.Int()]; !known && e.Int() == 0 {\n\t\t// Enumerations are always derived int64 types", Expect: "unset-before-lookup"})
	addMutant(Mutant{Name: "c14-empty-om-keeps-parent", Property: "C14", File: "ygot/struct_validation_map.go",
		Old: "\t\t\tcase om.Len() == 0:\n\t\t\t\tfVal.Set(reflect.Zero(fType.Type))\n", New: "\t\t\tcase om.Len() == 0:\n\t\t\t\tallChildrenPruned = false\n\t\t\t\tfVal.Set(reflect.Zero(fType.Type))\n", Expect: "keeps-parent"})
}

func init() {
	// rules added after batch 5 of the seeded changes
	addMutant(Mutant{Name: "c02-skip-empty-slice", Property: "C02", File: "ygot/render.go",
		Old: "\t\tmapPaths, err := structTagToLibPaths(ftype, parent, preferShadowPath)\n\t\tif err != nil {\n\t\t\terrs.Add(fmt.Errorf(\"%v->%s: %v\", parent, ftype.Name, err))\n\t\t\tcontinue\n\t\t}\n\n\t\tswitch fval.Kind() {\n\t\tcase reflect.Map:",
		New: "\t\tmapPaths, err := structTagToLibPaths(ftype, parent, preferShadowPath)\n\t\tif err != nil {\n\t\t\terrs.Add(fmt.Errorf(\"%v->%s: %v\", parent, ftype.Name, err))\n\t\t\tcontinue\n\t\t}\n\t\tif fval.Kind() == reflect.Slice && fval.Len() == 0 {\n\t\t\tcontinue\n\t\t}\n\n\t\tswitch fval.Kind() {\n\t\tcase reflect.Map:", Expect: "findUpdatedLeaves:continue"})
	addMutant(Mutant{Name: "c04-binary-reslice", Property: "C04", File: "ygot/struct_validation_map.go",
		Old: "\t\tns := reflect.MakeSlice(srcVal.Type(), 0, srcVal.Len())", New: "\t\tns := srcVal.Slice3(0, 0, srcVal.Len())", Expect: "copyInterfaceField"})
	addMutant(Mutant{Name: "c05-unique-by-identity", Property: "C05", File: "ygot/struct_validation_map.go",
		Old: "\t\t\tif reflect.DeepEqual(a.Index(i).Interface(), b.Index(j).Interface()) {", New: "\t\t\tif a.Index(i).Interface() == b.Index(j).Interface() {", Expect: "uniqueSlices:identity"})
	addMutant(Mutant{Name: "c06-cache-key-flavourless", Property: "C06", File: "ytypes/string_type.go",
		Old: "\t\tregexCache = c.posix\n", New: "", Expect: "compilePattern:"})
	addMutant(Mutant{Name: "c06-bytes-then-runes", Property: "C06", File: "ytypes/string_type.go",
		Old: "\tstrLen := uint64(utf8.RuneCountInString(stringVal))\n\tif !lengthOk(allowedRanges, strLen) {", New: "\tstrLen := uint64(len(stringVal))\n\tif !lengthOk(allowedRanges, strLen) {\n\t\tstrLen = uint64(utf8.RuneCountInString(stringVal))\n\t}\n\tif !lengthOk(allowedRanges, strLen) {", Expect: "lengthOk#"})
	addMutant(Mutant{Name: "c08-format-from-data", Property: "C08", File: "ygot/pathstrings.go",
		Old: "name = fmt.Sprintf(\"%s[%s=%s]\", name, k, v)", New: "name = fmt.Sprintf(name+\"[%s=%s]\", k, v)", Expect: "elemToString:format"})
	addMutant(Mutant{Name: "c10-key-compare-fold", Property: "C10", File: "ytypes/node.go",
		Old: "\t\t\tif keyAsString == canonicalPathKey(pathKey, reflect.TypeOf(kv)) {", New: "\t\t\tif keyAsString == util.StripModulePrefix(canonicalPathKey(pathKey, reflect.TypeOf(kv))) {", Expect: "retrieveNodeList:key-compare"})
	addMutant(Mutant{Name: "c10-decimal-float-div", Property: "C10", File: "ytypes/leaf.go",
		Old: "\t\t\tfv, _ := new(big.Rat).SetFrac(big.NewInt(v.DecimalVal.Digits), prec).Float64()", New: "\t\t\tpf, _ := new(big.Float).SetInt(prec).Float64()\n\t\t\tfv := float64(v.DecimalVal.Digits) / pf", Expect: "sanitizeGNMI:float-of-int64"})
	addMutant(Mutant{Name: "c16-parse-any-base", Property: "C16", File: "ytypes/util_types.go",
		Old: "u, err := strconv.ParseUint(s, 10, int(t.Size())*8)", New: "u, err := strconv.ParseUint(s, 0, int(t.Size())*8)", Expect: "ParseUint#"})
}

func init() {
	// R-EMPTY-LEAFLIST (C02, C03)
	addMutant(Mutant{Name: "c02-empty-leaflist-emitted", Property: "C02", File: "ygot/render.go",
		Old: "\t\t\tif fval.Len() == 0 && fval.Type().Name() != BinaryTypeName {", New: "\t\t\tif fval.Len() == 0 && fval.Type().Name() != BinaryTypeName && preferShadowPath {", Expect: "leaf-list-emission"})
	addMutant(Mutant{Name: "c02-empty-binary-dropped", Property: "C02", File: "ygot/render.go",
		Old: "\t\t\tif fval.Len() == 0 && fval.Type().Name() != BinaryTypeName {", New: "\t\t\tif fval.Len() == 0 {", Expect: "findUpdatedLeaves:continue"})
	addMutant(Mutant{Name: "c03-empty-leaflist-recorded", Property: "C03", File: "ygot/diff.go",
		Old: "if ni.FieldValue.Kind() == reflect.Slice && ni.FieldValue.Len() == 0 && ni.FieldValue.Type().Name() != BinaryTypeName {", New: "if ni.FieldValue.Kind() == reflect.Slice && ni.FieldValue.Len() == 0 && ni.FieldValue.Type().Name() != BinaryTypeName && orderedMapAsLeaf {", Expect: "leaf-list-emission"})
	addMutant(Mutant{Name: "c03-decoder-accepts-then-writers-free", Property: "C03", File: "ygot/diff.go",
		Old: "if ni.FieldValue.Kind() == reflect.Slice && ni.FieldValue.Len() == 0 && ni.FieldValue.Type().Name() != BinaryTypeName {", New: "if ni.FieldValue.Kind() == reflect.Slice && ni.FieldValue.Len() == 0 {", Expect: "skip#"})
}

func init() {
	// R-ANCHOR-GROUP (C06)
	addMutant(Mutant{Name: "c06-own-caret-ungrouped", Property: "C06", File: "util/yang.go",
		Old: "\t\tif i == 0 && groupAfterCaret {\n\t\t\tbuf.WriteRune('(')\n\t\t\taddParens = true\n\t\t}\n", New: "\t\t_ = groupAfterCaret\n", Expect: "group-open:own-caret"})
	addMutant(Mutant{Name: "c06-group-without-close-flag", Property: "C06", File: "util/yang.go",
		Old: "\t\tif i == 0 && groupAfterCaret {\n\t\t\tbuf.WriteRune('(')\n\t\t\taddParens = true\n\t\t}\n", New: "\t\tif i == 0 && groupAfterCaret {\n\t\t\tbuf.WriteRune('(')\n\t\t}\n", Expect: "group-open#"})
}

func init() {
	// R-PREFIX-PAIR (C02)
	addMutant(Mutant{Name: "c02-update-path-not-stripped", Property: "C02", File: "ygot/render.go",
		Old: "\tpath, err := pk.p.StripPrefix(pfx)\n\tif err != nil {\n\t\treturn err\n\t}\n\n\tppath, err := path.ToProto()",
		New: "\t_, err := pk.p.StripPrefix(pfx)\n\tif err != nil {\n\t\treturn err\n\t}\n\n\tppath, err := pk.p.ToProto()", Expect: "addToNotification:Update.Path"})
	addMutant(Mutant{Name: "c02-prefix-not-published", Property: "C02", File: "ygot/render.go",
		Old: "\tp, err := pfx.ToProto()\n\tif err != nil {\n\t\treturn nil, err\n\t}\n\tn.Prefix = p", New: "\tp, err := newPathElemGNMIPath(nil).ToProto()\n\tif err != nil {\n\t\treturn nil, err\n\t}\n\tn.Prefix = p", Expect: "leavesToNotifications:Prefix"})
}

func init() {
	// R-MERGE-UNSET (C05)
	addMutant(Mutant{Name: "c05-by-value-overwrites", Property: "C05", File: "ygot/struct_validation_map.go",
		Old: "\t\t\tif !srcField.IsZero() {\n\t\t\t\tdstField.Set(srcField)\n\t\t\t}", New: "\t\t\tif !srcField.IsZero() || fieldOverwriteEnabled(opts) {\n\t\t\t\tdstField.Set(srcField)\n\t\t\t}", Expect: "copyStruct:by-value-write"})
	addMutant(Mutant{Name: "c05-map-replaced", Property: "C05", File: "ygot/struct_validation_map.go",
		Old: "\tif dstField.Len() == 0 {\n\t\tdstField.Set(reflect.MakeMapWithSize(reflect.MapOf(m.key, m.value), srcField.Len()))\n\t}", New: "\tif dstField.Len() == 0 || fieldOverwriteEnabled(opts) {\n\t\tdstField.Set(reflect.MakeMapWithSize(reflect.MapOf(m.key, m.value), srcField.Len()))\n\t}", Expect: "copyMapField:whole-field-write"})
}

func init() {
	// R-BINARY-LEAF (C05)
	addMutant(Mutant{Name: "c05-binary-as-list", Property: "C05", File: "ygot/struct_validation_map.go",
		Old: "\t\t\tif srcField.Type().Name() == BinaryTypeName {\n\t\t\t\terrs.Add(copyBinaryField(dstField, srcField, accessPath, opts...))\n\t\t\t} else {", New: "\t\t\tif srcField.Type().Name() == BinaryTypeName && fieldOverwriteEnabled(opts) {\n\t\t\t\terrs.Add(copyBinaryField(dstField, srcField, accessPath, opts...))\n\t\t\t} else {", Expect: "copySliceField#1:not-binary"})
	addMutant(Mutant{Name: "c05-binary-no-conflict", Property: "C05", File: "ygot/struct_validation_map.go",
		Old: "\tif !dstField.IsNil() && !fieldOverwriteEnabled(opts) && !reflect.DeepEqual(srcField.Interface(), dstField.Interface()) {", New: "\tif !dstField.IsNil() && !fieldOverwriteEnabled(opts) && srcField.Len() != dstField.Len() {", Expect: "copyBinaryField:conflict"})
	addMutant(Mutant{Name: "c04-binary-leaf-shared", Property: "C04", File: "ygot/struct_validation_map.go",
		Old: "\tnv := reflect.MakeSlice(srcField.Type(), srcField.Len(), srcField.Len())\n\treflect.Copy(nv, srcField)\n\tdstField.Set(nv)\n\treturn nil\n}\n\n// copySliceField", New: "\tdstField.Set(srcField)\n\treturn nil\n}\n\n// copySliceField", Expect: "copyBinaryField:Set"})
}

func init() {
	// R-ENC-PAIR (C20)
	addMutant(Mutant{Name: "c20-gnmi-encoding-unproven", Property: "C20", File: "ytypes/node.go",
		Old: "\t\t\t\t\tcase isTypedValue:\n\t\t\t\t\t\tencoding = GNMIEncoding\n\t\t\t\t\t\tval = args.val\n\t\t\t\t\tdefault:\n\t\t\t\t\t\treturn nil, status.Errorf(codes.InvalidArgument, \"invalid input data received, type %T\", args.val)\n",
		New: "\t\t\t\t\tdefault:\n\t\t\t\t\t\tencoding = GNMIEncoding\n\t\t\t\t\t\tval = args.val\n", Expect: "retrieveNodeContainer:call#1"})
	addMutant(Mutant{Name: "c20-json-element-as-gnmi", Property: "C20", File: "ytypes/leaf_list.go",
		Old: "\t\tfor _, leaf := range leafList {\n\t\t\tif err := unmarshalGeneric(&leafSchema, parent, leaf, enc, opts...); err != nil {", New: "\t\tfor _, leaf := range leafList {\n\t\t\tif err := unmarshalGeneric(&leafSchema, parent, leaf, GNMIEncoding, opts...); err != nil {", Expect: "unmarshalLeafList:call#2"})
}

func init() {
	// R-SLICE-EMPTINESS (C14)
	addMutant(Mutant{Name: "c14-zero-length-binary-pruned", Property: "C14", File: "ygot/struct_validation_map.go",
		Old: "\t\t\tif fVal.Len() != 0 || (fType.Type.Name() == BinaryTypeName && !fVal.IsNil()) {", New: "\t\t\tif fVal.Len() != 0 {", Expect: "slice-emptiness"})
}

func init() {
	// R-SCHEMATREE-KEY (C26)
	addMutant(Mutant{Name: "c26-schematree-goyang-path", Property: "C26", File: "yangschema/yangschema.go",
		Old: "chPath := strings.Split(util.SchemaTreePath(ch), \"/\")", New: "chPath := strings.Split(ch.Path(), \"/\")", Expect: "schemaTreeChildrenAdd:Add#1:key"})
	addMutant(Mutant{Name: "c26-relative-from-goyang-path", Property: "C26", File: "yangschema/yangschema.go",
		Old: "cpathparts := strings.Split(util.SchemaTreePath(caller), \"/\")", New: "cpathparts := strings.Split(caller.Path(), \"/\")", Expect: "fixSchemaTreePath:caller-path"})
}

func init() {
	// R-UNION-MEMBER (C07)
	addMutant(Mutant{Name: "c07-unionbool-rejected", Property: "C07", File: "ytypes/leaf.go",
		Old: "\t\tif ykind != yang.Yempty && ykind != yang.Yunion {", New: "\t\tif ykind != yang.Yempty {", Expect: "kind-arm(reflect.Bool):admits-union"})
	addMutant(Mutant{Name: "c07-decimal-asserts-float64", Property: "C07", File: "ytypes/decimal_type.go",
		Old: "\tvv := reflect.ValueOf(value)\n\tif vv.Kind() != reflect.Float64 {", New: "\tvv := reflect.ValueOf(value)\n\tif _, isFloat := value.(float64); !isFloat {", Expect: "validateDecimal:accepts-named-member-types"})
}

func init() {
	// R-UNSET-KEY (C20, C12)
	addMutant(Mutant{Name: "c20-by-value-key-unchecked", Property: "C20", File: "ytypes/list.go",
		Old: "\t\t\tif fv.IsZero() {\n\t\t\t\t// A key leaf that is stored by value (an enumeration or a\n\t\t\t\t// union) is unset when it has its zero value.\n\t\t\t\treturn nil, fmt.Errorf(\"key field %s (%s) is not set\", key, fv.Type())\n\t\t\t}\n", New: "", Expect: "getKeyValue:by-value-return"})
	addMutant(Mutant{Name: "c12-multikey-by-value-unchecked", Property: "C12", File: "ytypes/list.go",
		Old: "if !nv.IsValid() || (fv.Type().Kind() != reflect.Ptr && fv.IsZero()) {", New: "if !nv.IsValid() {", Expect: "makeKeyForInsert:key-field-copy"})
}

func init() {
	// R-UNION-CONV (C01)
	addMutant(Mutant{Name: "c01-wrapper-binary-arm-dropped", Property: "C01", File: "gogen/gogen.go",
		Old: "\t{{ if eq $type \"Binary\" -}}\n\tcase []byte:\n\t\t// Unmarshalling hands a binary value over as a plain byte slice.\n\t\treturn &{{ $intfName }}_{{ $typeName }}{v}, nil\n\t{{ end -}}\n", New: "", Expect: "unionHelper:arm(Ybinary)"})
}

func init() {
	// rules added after the sixth seed batch
	addMutant(Mutant{Name: "c05-opts-dropped-in-helper", Property: "C05", File: "ygot/struct_validation_map.go",
		Old: "\t\tif err := copyStruct(d.Elem(), v.Elem(), fmt.Sprintf(\"%s[%#v]\", accessPath, k.Interface()), opts...); err != nil {\n\t\t\terrs.Add(err)\n\t\t\treturn true\n\t\t}",
		New: "\t\tif err := mergeOMElem(d, v, fmt.Sprintf(\"%s[%#v]\", accessPath, k.Interface())); err != nil {\n\t\t\terrs.Add(err)\n\t\t\treturn true\n\t\t}",
		More: []Edit{{File: "ygot/struct_validation_map.go", Old: "// copyBinaryField copies srcField", New: "func mergeOMElem(d, v reflect.Value, accessPath string) error {\n\treturn copyStruct(d.Elem(), v.Elem(), accessPath)\n}\n\n// copyBinaryField copies srcField"}},
		Expect: "via:ygot.mergeOMElem"})
	addMutant(Mutant{Name: "c07-keycheck-skips-default-key", Property: "C07", File: "ytypes/list.go",
		Old: "\tif util.IsValueNil(keyValue.Interface()) {\n\t\treturn nil\n\t}\n\n\tif !structElems.FieldByName(keyFieldName).IsValid() {", New: "\tif util.IsValueNilOrDefault(keyValue.Interface()) {\n\t\treturn nil\n\t}\n\n\tif !structElems.FieldByName(keyFieldName).IsValid() {", Expect: "checkBasicKeyValue:skip#1"})
	addMutant(Mutant{Name: "c09-compare-skips-after-partial", Property: "C09", File: "util/gnmi.go",
		Old: "\t\telemRelation := comparePathElem(a.Elem[i], b.Elem[i])", New: "\t\tif partial && a.Elem[i].Name == b.Elem[i].Name {\n\t\t\tcontinue\n\t\t}\n\t\telemRelation := comparePathElem(a.Elem[i], b.Elem[i])", Expect: "ComparePaths:every-element"})
	addMutant(Mutant{Name: "c09-query-wildcard-name-skips-keys", Property: "C09", File: "util/gnmi.go",
		Old: "\t\tif queryElem.Name != \"*\" && queryElem.Name != pathElem.Name {\n\t\t\treturn false\n\t\t}", New: "\t\tif queryElem.Name == \"*\" {\n\t\t\tcontinue\n\t\t}\n\t\tif queryElem.Name != pathElem.Name {\n\t\t\treturn false\n\t\t}", Expect: "PathMatchesQuery:every-element"})
	addMutant(Mutant{Name: "c10-insert-writes-through-pointer", Property: "C10", File: "util/reflect.go",
		Old: "\t\tn = reflect.New(t)\n\t\tn.Elem().Set(v)\n\t}\n\n\tif !n.IsValid() {", New: "\t\tif f := pv.Elem().FieldByName(fieldName); !f.IsNil() && f.Type().Elem() == t {\n\t\t\tf.Elem().Set(v)\n\t\t\treturn nil\n\t\t}\n\t\tn = reflect.New(t)\n\t\tn.Elem().Set(v)\n\t}\n\n\tif !n.IsValid() {", Expect: "InsertIntoStruct:Set#"})
	addMutant(Mutant{Name: "c20-decimal-scale-table", Property: "C20", File: "ytypes/leaf.go",
		Old: "\t\t\tprec := new(big.Int).Exp(big.NewInt(10), big.NewInt(int64(v.DecimalVal.Precision)), nil)", New: "\t\t\tprec := big.NewInt(decimal64ScaleTable[v.DecimalVal.Precision])",
		More: []Edit{{File: "ytypes/leaf.go", Old: "\t\t\tif v.DecimalVal.Precision > 18 {\n\t\t\t\treturn nil, fmt.Errorf(\"received DecimalVal has precision %d, a decimal64 has at most 18 fraction digits\", v.DecimalVal.Precision)\n\t\t\t}\n", New: ""}, {File: "ytypes/leaf.go", Old: "// sanitizeGNMI decodes the GNMI TypedValue", New: "var decimal64ScaleTable = [...]int64{1, 10, 100, 1000, 10000, 100000, 1000000, 10000000, 100000000, 1000000000, 10000000000, 100000000000, 1000000000000, 10000000000000, 100000000000000, 1000000000000000, 10000000000000000, 100000000000000000, 1000000000000000000}\n\n// sanitizeGNMI decodes the GNMI TypedValue"}},
		Expect: "table-index#1:decimal64ScaleTable"})
	addMutant(Mutant{Name: "c26-listkey-name-not-uniquified", Property: "C26", File: "gogen/unordered_list.go",
		Old: "\t\t\tkeyElemNames[fName] = genutil.MakeNameUnique(key.Name, usedFieldNames)\n", New: "\t\t\tkeyElemNames[fName] = key.Name\n\t\t\tusedFieldNames[key.Name] = true\n",
		Expect: "yangListFieldToGoType:goStructField#1:Name"})
	addMutant(Mutant{Name: "c33-prefix-strip-hoisted", Property: "C33", File: "gogen/goelements.go",
		Old: "\tif isTypedef {\n\t\tif strings.Contains(value, \":\") {\n\t\t\tvalue = strings.Split(value, \":\")[1]\n\t\t}\n\t\tswitch args.yangType.Kind {", New: "\tif strings.Contains(value, \":\") {\n\t\tvalue = strings.Split(value, \":\")[1]\n\t}\n\tif isTypedef {\n\t\tswitch args.yangType.Kind {", Expect: "yangDefaultValueToGo:rewrite#1"})
	addMutant(Mutant{Name: "c33-emptytree-skips-presence", Property: "C33", File: "ygot/struct_validation_map.go",
		Old: "\t\t\tpVal := reflect.New(fType.Type.Elem())\n\t\t\tinitialiseTree(pVal.Elem().Type(), pVal.Elem())", New: "\t\t\tif util.IsYangPresence(fType) {\n\t\t\t\tcontinue\n\t\t\t}\n\t\t\tpVal := reflect.New(fType.Type.Elem())\n\t\t\tinitialiseTree(pVal.Elem().Type(), pVal.Elem())", Expect: "initialiseTree:create#1:conditions"})
}

func init() {
	// rules added after the seventh seed batch
	addMutant(Mutant{Name: "c02-orderedlist-empty-key-as-missing", Property: "C02", File: "ytypes/node.go",
		Old: "\t\tif pathKey, ok := path.GetElem()[0].GetKey()[schema.Key]; ok {\n\t\t\tpathKeyVals[schema.Key] = canonicalPathKey(pathKey, keyType)", New: "\t\tif pathKey := path.GetElem()[0].GetKey()[schema.Key]; pathKey != \"\" {\n\t\t\tpathKeyVals[schema.Key] = canonicalPathKey(pathKey, keyType)", Expect: "retrieveNodeOrderedList:key-lookup"})
	addMutant(Mutant{Name: "c02-parseint-for-unsigned", Property: "C02", File: "ytypes/util_types.go",
		Old: "\t\tu, err := strconv.ParseUint(s, 10, int(t.Size())*8)\n\t\tif err != nil {\n\t\t\treturn reflect.ValueOf(nil), fmt.Errorf(\"unable to convert %q to %v\", s, t.Kind())\n\t\t}\n\t\t// Although Convert can panic, we know that the type is an unsigned", New: "\t\tu, err := strconv.ParseInt(s, 10, 64)\n\t\tif err != nil || u < 0 {\n\t\t\treturn reflect.ValueOf(nil), fmt.Errorf(\"unable to convert %q to %v\", s, t.Kind())\n\t\t}\n\t\t// Although Convert can panic, we know that the type is an unsigned", Expect: "StringToType:kind-switch"})
	addMutant(Mutant{Name: "c29-relpath-by-name-search", Property: "C29", File: "ygen/directory.go",
		Old: "\treturn fieldSlicePath[len(parent.Path)-1:], fieldSliceModules[len(parent.Path)-1:], nil", New: "\tidx := len(parent.Path) - 1\n\tfor i, e := range fieldSlicePath {\n\t\tif i > 0 && e == parent.Path[len(parent.Path)-1] {\n\t\t\tidx = i + 1\n\t\t\tbreak\n\t\t}\n\t}\n\treturn fieldSlicePath[idx:], fieldSliceModules[idx:], nil", Expect: "findSchemaPath:cut#"})
	addMutant(Mutant{Name: "c01-base64-unpadded", Property: "C01", File: "ygot/struct_validation_map.go",
		Old: "base64.NewEncoder(base64.StdEncoding, &b)", New: "base64.NewEncoder(base64.RawStdEncoding, &b)", Expect: "base64#RawStdEncoding"})
	addMutant(Mutant{Name: "c31-generic-skips-empty-array", Property: "C31", File: "ytypes/unmarshal.go",
		Old: "\tswitch {\n\tcase schema.IsLeaf():\n\t\treturn unmarshalLeaf(schema, parent, value, enc, opts...)", New: "\tif a, ok := value.([]interface{}); ok && len(a) == 0 && schema.IsLeafList() {\n\t\treturn nil\n\t}\n\tswitch {\n\tcase schema.IsLeaf():\n\t\treturn unmarshalLeaf(schema, parent, value, enc, opts...)", Expect: "unmarshalGeneric:return#"})
	addMutant(Mutant{Name: "c34-keys-named-apart-from-fields", Property: "C34", File: "gogen/unordered_list.go",
		Old: "\t\tgenutil.MakeNameUnique(listElem.Fields[fName].Name, usedFieldNames)\n", New: "\t\t_ = listElem.Fields[fName].Name\n", Expect: "key-field#1:name"})
}

func init() {
	addMutant(Mutant{Name: "c26-orderedmap-name-unguarded", Property: "C26", File: "gogen/unordered_list.go",
		Old: "\t\tif names[structName] {\n\t\t\tstructName = fmt.Sprintf(\"%s_%s_YANGOrderedMap\", parent.Name, listFieldName)\n\t\t\tif names[structName] {", New: "\t\tif len(names) < 0 {\n\t\t\tstructName = fmt.Sprintf(\"%s_%s_YANGOrderedMap\", parent.Name, listFieldName)\n\t\t\tif len(names) < 0 {", Expect: "ordered-map-name"})
}

func init() {
	addMutant(Mutant{Name: "c26-union-name-reuse-unchecked", Property: "C26", File: "gogen/gogen.go",
		Old: "if seenUnion && len(field.LangType.UnionTypes) > 1 && !reflect.DeepEqual(prevUnionTypes, field.LangType.UnionTypes) {", New: "if seenUnion && len(field.LangType.UnionTypes) > 1 && len(prevUnionTypes) != len(field.LangType.UnionTypes) && !reflect.DeepEqual(prevUnionTypes, prevUnionTypes) {", Expect: "union-name-reuse"})
}

func init() {
	addMutant(Mutant{Name: "c28-enum-label-not-uniquified", Property: "C28", File: "protogen/protogen.go",
		Old: "\t\tlabel := genutil.MakeNameUnique(safeProtoIdentifierName(enumDef.Name), usedLabels)\n", New: "\t\tlabel := safeProtoIdentifierName(enumDef.Name)\n\t\tusedLabels[label] = true\n", Expect: "genProtoEnum:enum-label"})
}

func init() {
	addMutant(Mutant{Name: "c28-enum-prefix-from-name", Property: "C28", File: "protogen/protogen.go",
		Old: "    {{ $enum.ValuePrefix }}_{{ $val.ProtoLabel }} = {{ $i }}", New: "    {{ toUpper $ename }}_{{ $val.ProtoLabel }} = {{ $i }}", Expect: "protoMessageTemplate:enum-value-prefix"})
	addMutant(Mutant{Name: "c28-keymsg-name-unchecked", Property: "C28", File: "protogen/protogen.go",
		Old: "\tn := genutil.MakeNameUnique(fmt.Sprintf(\"%s%s\", listName, protoListKeyMessageSuffix), msgNames)", New: "\tn := fmt.Sprintf(\"%s%s\", listName, protoListKeyMessageSuffix)\n\t_ = msgNames", Expect: "genListKeyProto:key-message-name"})
}

func init() {
	addMutant(Mutant{Name: "c26-enum-goname-unchecked", Property: "C26", File: "gogen/goenums.go",
		Old: "\t\t\t\tif other, ok := goNames[goName]; ok {\n\t\t\t\t\treturn nil, fmt.Errorf(", New: "\t\t\t\tif other, ok := goNames[goName]; ok && other == \"\" {\n\t\t\t\t\treturn nil, fmt.Errorf(", Expect: "genGoEnumeratedTypes:value-name"})
}

func init() {
	addMutant(Mutant{Name: "c28-oneof-members-not-uniquified", Property: "C28", File: "protogen/protogen.go",
		Old: "\t\tfor _, f := range d.oneofs {\n\t\t\tf.Name = genutil.MakeNameUnique(f.Name, args.definedFieldNames)\n\t\t}\n", New: "", Expect: "oneof-members#"})
}

func init() {
	addMutant(Mutant{Name: "c14-unkeyed-entries-not-visited", Property: "C14", File: "ygot/struct_validation_map.go",
		Old: "\t\t\t\tsv := e.Elem()\n\t\t\t\t_ = pruneBranchesInternal(sv.Type(), sv)\n", New: "\t\t\t\tsv := e.Elem()\n\t\t\t\t_ = sv\n", Expect: "descends:slice"})
}

func init() {
	addMutant(Mutant{Name: "c18-decimal-no-lexical-check", Property: "C18", File: "ytypes/leaf.go",
		Old: "\t\tif !decimal64Regexp.MatchString(value.(string)) {\n\t\t\treturn nil, fmt.Errorf(\"error parsing %v for schema %s: not a decimal64 value\", value, schema.Name)\n\t\t}\n", New: "\t\t_ = decimal64Regexp\n", Expect: "decimal64:lexical"})
	addMutant(Mutant{Name: "c18-decimal-pattern-allows-exponent", Property: "C18", File: "ytypes/leaf.go",
		Old: "regexp.MustCompile(`^[+-]?[0-9]+(\\.[0-9]+)?$`)", New: "regexp.MustCompile(`^[+-]?[0-9]+(\\.[0-9]+)?(e[0-9]+)?$`)", Expect: "decimal64:pattern"})
}

func init() {
	addMutant(Mutant{Name: "c01-map-entries-single-stage-sort", Property: "C01", File: "ygot/render.go",
		Old: "\t\treturn strings.Compare(fmt.Sprintf(\"%#v\", a.key.Interface()), fmt.Sprintf(\"%#v\", b.key.Interface()))\n", New: "\t\treturn 0\n", Expect: "mapJSON:comparator"})
}

func init() {
	addMutant(Mutant{Name: "c30-leafref-lookup-with-wildcards", Property: "C30", File: "ytypes/leafref.go",
		Old: "path, &GetPartialKeyMatch{}, &GetTolerateNil{})", New: "path, &GetPartialKeyMatch{}, &GetHandleWildcards{}, &GetTolerateNil{})", Expect: "no-wildcards"})
}

func init() {
	// rules added after the eighth seed batch
	addMutant(Mutant{Name: "c14-range-orderedmap-skips-empty-key", Property: "C14", File: "internal/yreflect/reflect_orderedmap.go",
		Old: "\tfor _, k := range keys {\n\t\tret := getMethod.Call([]reflect.Value{k})", New: "\tfor _, k := range keys {\n\t\tif k.Kind() == reflect.String && k.Len() == 0 {\n\t\t\tcontinue\n\t\t}\n\t\tret := getMethod.Call([]reflect.Value{k})", Expect: "RangeOrderedMap:exit#"})
	addMutant(Mutant{Name: "c18-binary-cast-nil-for-empty", Property: "C18", File: "util/reflect.go",
		Old: "\t\tnv.SetBytes(v.Bytes())", New: "\t\tnv.SetBytes(append([]uint8(nil), v.Bytes()...))", Expect: "InsertIntoStruct:nil-for-empty"})
	addMutant(Mutant{Name: "c03-opts-scan-returns-early", Property: "C03", File: "ygot/diff.go",
		Old: "\t\tcase *IgnoreAdditions:\n\t\t\treturn v\n", New: "\t\tcase *IgnoreAdditions:\n\t\t\treturn v\n\t\tcase *DiffPathOpt:\n\t\t\treturn nil\n", Expect: "hasIgnoreAdditions:opts-loop"})
	addMutant(Mutant{Name: "c30-deepequal-by-string", Property: "C30", File: "util/reflect.go",
		Old: "\treturn reflect.DeepEqual(aa, bb)", New: "\treturn fmt.Sprint(aa) == fmt.Sprint(bb)", Expect: "DeepEqualDerefPtrs:result"})
	addMutant(Mutant{Name: "c17-enum-key-arm-misnamed", Property: "C17", File: "ygot/render.go",
		Old: "\t\tcase reflect.Int64:\n\t\t\tkeyval, err := keyValue(k, false)", New: "\t\tcase reflect.Int32:\n\t\t\tkeyval, err := keyValue(k, false)", Expect: "mapKeyToJSONString:raw-key"})
	addMutant(Mutant{Name: "c01-jsonpath-direct-lookup-below-first", Property: "C01", File: "ytypes/util_json.go",
		Old: "\tfor k, v := range t {\n\t\tif path[0] == util.StripModulePrefix(k) {", New: "\tif v, ok := t[path[0]]; ok {\n\t\treturn getJSONTreeValForPath(v, path[1:])\n\t} else if len(path) > 1 {\n\t\treturn nil, false\n\t}\n\tfor k, v := range t {\n\t\tif path[0] == util.StripModulePrefix(k) {", Expect: "not-found-after-search"})
	addMutant(Mutant{Name: "c18-strip-prefix-last-segment", Property: "C18", File: "util/path.go",
		Old: "\tcase 2:\n\t\treturn ps[1]\n\tdefault:\n\t\treturn name\n\t}\n}\n\n// ReplacePathSuffix", New: "\tdefault:\n\t\treturn ps[len(ps)-1]\n\t}\n}\n\n// ReplacePathSuffix", Expect: "StripModulePrefix:return#"})
}

func init() {
	addMutant(Mutant{Name: "c17-leaflist-enum-set-discarded", Property: "C17", File: "ygot/render.go",
		Old: "\t\t\t\tname, set, err := enumFieldToString(e, prependModuleNameIref)\n\t\t\t\tif err != nil {\n\t\t\t\t\treturn nil, err\n\t\t\t\t}\n\t\t\t\tif !set {\n\t\t\t\t\treturn nil, fmt.Errorf(\"leaf-list has an unset enumeration of type %T as a member\", e.Interface())\n\t\t\t\t}\n", New: "\t\t\t\tname, _, err := enumFieldToString(e, prependModuleNameIref)\n\t\t\t\tif err != nil {\n\t\t\t\t\treturn nil, err\n\t\t\t\t}\n", Expect: "leaflistToSlice:enumFieldToString#1:set-read"})
	addMutant(Mutant{Name: "c12-orderedmap-emptiness-by-struct-zero", Property: "C12", File: "ytypes/node.go",
		Old: "\t\t\t\t\tif om, isOrderedMap := fv.Interface().(ygot.GoOrderedMap); isOrderedMap {", New: "\t\t\t\t\tif om, isOrderedMap := fv.Interface().(ygot.GoOrderedMap); isOrderedMap && om.Len() < 0 {", Expect: "struct-zero-test"})
}

func init() {
	addMutant(Mutant{Name: "c22-prefix-without-separator", Property: "C22", File: "gnmidiff/intent.go",
		Old: "if pathToLeaf != path && !strings.HasPrefix(pathToLeaf, path+\"/\") {", New: "if !strings.HasPrefix(pathToLeaf, path) {", Expect: "path-prefix#"})
	addMutant(Mutant{Name: "c09-lookup-compared-before-ok", Property: "C09", File: "util/gnmi.go",
		Old: "\t\tcase ok && aVal == bVal, aVal == \"*\" && !ok:", New: "\t\tcase aVal == bVal, aVal == \"*\" && !ok:", Expect: "comparePathElem:key-lookup"})
}

func init() {
	addMutant(Mutant{Name: "c13-create-entry-on-empty-result", Property: "C13", File: "ytypes/node.go",
		Old: "\tif len(matches) == 0 && !matchedEntry && args.modifyRoot {\n\t\tkey, err := insertAndGetKey(", New: "\tif len(matches) == 0 && (!matchedEntry || len(matches) == 0) && args.modifyRoot {\n\t\tkey, err := insertAndGetKey(", Expect: "retrieveNodeList:create#1"})
}

func init() {
	addMutant(Mutant{Name: "c04-union-leaflist-members-shared", Property: "C04", File: "ygot/struct_validation_map.go",
		Old: "\t\t\t\tnv := reflect.New(v.Type()).Elem()\n\t\t\t\tif err := copyInterfaceField(nv, v, fmt.Sprintf(\"%s[%v]\", accessPath, i), opts...); err != nil {\n\t\t\t\t\treturn err\n\t\t\t\t}\n\t\t\t\tv = nv\n", New: "\t\t\t\t_ = opts\n", Expect: "interface-elements-copied"})
	addMutant(Mutant{Name: "c05-union-binary-copy-nil-for-empty", Property: "C05", File: "ygot/struct_validation_map.go",
		Old: "\t\tns := reflect.MakeSlice(srcVal.Type(), 0, srcVal.Len())", New: "\t\tns := reflect.Zero(srcVal.Type())", Expect: "copyInterfaceField:binary-arm"})
}

func init() {
	addMutant(Mutant{Name: "c20-nil-update-dereferenced", Property: "C20", File: "ytypes/gnmi.go",
		Old: "\tif update == nil {\n\t\treturn nil, fmt.Errorf(\"nil gpb.Update in input\")\n\t}\n", New: "", Expect: "R-NIL-ENTRY"})
	addMutant(Mutant{Name: "c20-key-float-without-lexical-check", Property: "C20", File: "ytypes/util_types.go",
		Old: "\t\tif err != nil || !decimal64Regexp.MatchString(s) {", New: "\t\tif err != nil {", Expect: "StringToType:ParseFloat"})
	addMutant(Mutant{Name: "c20-precision-unbounded", Property: "C20", File: "ytypes/leaf.go",
		Old: "\t\t\tif v.DecimalVal.Precision > 18 {", New: "\t\t\tif v.DecimalVal.Digits > 1<<62 {", Expect: "precision-use#"})
}

func init() {
	addMutant(Mutant{Name: "c05-ordered-disjoint-by-scan-counter", Property: "C05", File: "ygot/struct_validation_map.go",
		Old: "\tcase si == len(srcKeys), disjoint:", New: "\tcase si == len(srcKeys), si == 0 || disjoint:", Expect: "orderedMapKeysMergeable:accept"})
}

func init() {
	addMutant(Mutant{Name: "c06-final-dollar-ignores-escape", Property: "C06", File: "util/yang.go",
		Old: "\t\tfinalAnchor := i == last && ch == '$' && !inEscape", New: "\t\tfinalAnchor := i == last && ch == '$'", Expect: "final-dollar#"})
}

func init() {
	addMutant(Mutant{Name: "c28-list-entry-field-not-uniquified", Property: "C28", File: "protogen/protogen.go",
		Old: "\t\tName: genutil.MakeNameUnique(safeProtoIdentifierName(args.field.Name), definedFieldNames),", New: "\t\tName: safeProtoIdentifierName(args.field.Name),", Expect: "genListKeyProto:field-name#"})
	addMutant(Mutant{Name: "c28-enum-number-unbounded", Property: "C28", File: "protogen/protogen.go",
		Old: "\t\tif int64(enumDef.Value)+1 > math.MaxInt32 || int64(enumDef.Value)+1 < math.MinInt32 {", New: "\t\tif int64(enumDef.Value)+1 > math.MaxInt64-1 {", Expect: "genProtoEnum:value-number"})
}

func init() {
	addMutant(Mutant{Name: "c19-leaflist-bool-asserted", Property: "C19", File: "ygot/render.go",
		Old: "\t\treturn append(l, v.Bool()), nil", New: "\t\treturn append(l, ival.(bool)), nil", Expect: "assert-bool#"})
}

func init() {
	// R-DECIMAL-EXACT (C06)
	addMutant(Mutant{Name: "c06-decimal-fromfloat", Property: "C06", File: "ytypes/decimal_type.go",
		Old: "isInRanges(schemaType.Range, decimalNumber(floatVal))", New: "isInRanges(schemaType.Range, yang.FromFloat(floatVal))", Expect: "ValidateDecimalRestrictions:FromFloat"})
}

func init() {
	// R-CHOICE-TAG-LOOKUP (C02, C10)
	addMutant(Mutant{Name: "c02-choice-only-single-element", Property: "C02", File: "util/reflect.go",
		Old: "\t\t\tns, ok = choiceCaseChild(childSchema, p)\n", New: "\t\t\tns, ok = nil, false\n", Expect: "util.childSchema:descent-loop"})
	addMutant(Mutant{Name: "c02-choice-below-root-only", Property: "C02", File: "util/reflect.go",
		Old: "\t\t\tns, ok = choiceCaseChild(childSchema, p)\n", New: "\t\t\tns, ok = choiceCaseChild(schema, p)\n", Expect: "util.childSchema:descent-loop"})
	addMutant(Mutant{Name: "c10-relpath-counts-choice", Property: "C10", File: "ytypes/util_schema.go",
		Old: "\t\t\tif util.IsChoiceOrCase(s) {", New: "\t\t\tif false {", Expect: "ytypes.hasRelativePath:skips-choice-case"})
}

func init() {
	// R-CHOICE-FIRSTCHILD (C32)
	addMutant(Mutant{Name: "c32-firstchild-plain-dir", Property: "C32", File: "util/path.go",
		Old: "\t\t\tns, ok = choiceCaseChild(s, path[i])\n", New: "\t\t\tns, ok = nil, false\n", Expect: "util.firstMatching:descent-loop"})
}

func init() {
	// R-PATHKEY-CANON (C10, C13)
	addMutant(Mutant{Name: "c10-pathkey-raw-compare", Property: "C10", File: "ytypes/node.go",
		Old: "if keyAsString == canonicalPathKey(pathKey, reflect.TypeOf(kv)) {", New: "if keyAsString == pathKey {", Expect: "retrieveNodeList:path-key(pathKey)#1"})
	addMutant(Mutant{Name: "c13-pathkey-trimmed-not-parsed", Property: "C13", File: "ytypes/node.go",
		Old: "pathKeyVals[schema.Key] = canonicalPathKey(pathKey, keyType)", New: "pathKeyVals[schema.Key] = strings.TrimSpace(pathKey)", Expect: "retrieveNodeOrderedList:path-key(pathKey)#2",
		More: []Edit{{File: "ytypes/node.go", Old: "import (\n", New: "import (\n\t\"strings\"\n"}}})
}
