package main

import (
	"fmt"
	"go/ast"
	"go/token"
	"go/types"
	"strings"
)

// Rules added after the seventh batch of seeded changes.

// ---- R-RELPATH-POSITIONAL (C29, C26) -----------------------------------------------------------

// positionalIndex: e is an arithmetic expression over constants and len(...) only — an index that
// depends on how long the paths are, never on which names they contain.
func positionalIndex(f *FuncInfo, e ast.Expr, depth int) bool {
	info := f.Info()
	if depth > 5 {
		return false
	}
	if tv, ok := info.Types[e]; ok && tv.Value != nil {
		return true
	}
	switch x := ast.Unparen(e).(type) {
	case *ast.BinaryExpr:
		switch x.Op {
		case token.ADD, token.SUB:
			return positionalIndex(f, x.X, depth+1) && positionalIndex(f, x.Y, depth+1)
		}
	case *ast.CallExpr:
		if id, ok := x.Fun.(*ast.Ident); ok && id.Name == "len" {
			if _, isB := info.Uses[id].(*types.Builtin); isB {
				return true
			}
		}
	case *ast.Ident:
		obj := info.ObjectOf(x)
		if obj == nil {
			return false
		}
		defs := allDefs(f, obj)
		if len(defs) == 0 {
			return false
		}
		for _, d := range defs {
			if !positionalIndex(f, d, depth+1) {
				return false
			}
		}
		return true
	}
	return false
}

// ruleRelPathPositional: a field's path relative to its directory is the field's schema path with
// the directory's elements cut off the front. Element names repeat along a path
// (/group/members/group), so the cut is positional: an index computed from the lengths of the two
// paths, never from a search for a name.
func ruleRelPathPositional(c *Ctx, r *Report) {
	r.Rule("R-RELPATH-POSITIONAL", "ygen.findSchemaPath cuts the directory's prefix off a field's schema path at an index computed from path lengths and constants only; an index found by searching for an element name is wrong whenever an ancestor has the same name as the directory, and both the GoStruct path tags and the path-struct relative paths are taken from this result", 2)
	f := c.MustFunc(r, "ygen", "findSchemaPath")
	if f == nil {
		return
	}
	info := f.Info()
	n := 0
	for _, rs := range returnsOf(f.Decl.Body) {
		for _, res := range rs.Results {
			se, ok := ast.Unparen(res).(*ast.SliceExpr)
			if !ok || se.Low == nil {
				continue
			}
			if tv, ok := info.Types[se.Low]; ok && tv.Value != nil {
				continue // constant cut (absolute path: drop the module name)
			}
			n++
			r.Check(positionalIndex(f, se.Low, 0), fmt.Sprintf("ygen.findSchemaPath:cut#%d", n), c.Pos(se.Pos()), "index computed from lengths and constants",
				"findSchemaPath cuts the field's path at "+types.ExprString(se.Low)+", which is not computed from path lengths alone: with a directory below an ancestor of the same name (container group { container members { list group … } }) the relative path of its children starts at the wrong element, so the generated path tags and ResolvePath results are wrong")
		}
	}
	if n == 0 {
		r.Bad("ygen.findSchemaPath:cut", c.Pos(f.Decl.Pos()), "findSchemaPath no longer returns a slice of the field's path cut at a computed index: the rule does not recognise how the relative path is derived")
	}
}

// ---- R-BASE64-STD (C01, C29, C16) --------------------------------------------------------------

// ruleBase64Std: YANG binary is base64 of RFC 4648 §4 (RFC 7950 §9.8.2). Every encoder and decoder
// of binary text in the library must use that one alphabet, or what one side writes the other
// rejects (or decodes to different bytes).
func ruleBase64Std(c *Ctx, r *Report) {
	r.Rule("R-BASE64-STD", "every use of encoding/base64 in the library (JSON and key rendering of binary values, their decoders, default-value validation, gnmidiff) names base64.StdEncoding: writer and readers agree on the RFC 4648 §4 alphabet with padding", 4)
	n := 0
	for _, rel := range libPkgs {
		for _, f := range c.AllFuncs(rel) {
			info := f.Info()
			ast.Inspect(f.Decl.Body, func(x ast.Node) bool {
				se, ok := x.(*ast.SelectorExpr)
				if !ok {
					return true
				}
				obj := info.ObjectOf(se.Sel)
				if obj == nil || obj.Pkg() == nil || obj.Pkg().Path() != "encoding/base64" {
					return true
				}
				switch obj.(type) {
				case *types.Var:
					n++
					r.Check(obj.Name() == "StdEncoding", fmt.Sprintf("%s:base64#%s", f.Name, obj.Name()), c.Pos(se.Pos()), "base64.StdEncoding",
						fmt.Sprintf("%s uses base64.%s: binary values containing the symbols that differ between the alphabets (+ / vs - _, padding) are rendered in a form the library's own decoders (base64.StdEncoding) reject or misread", f.Name, obj.Name()))
				case *types.Func:
					if obj.Name() == "NewEncoding" {
						n++
						r.Bad(fmt.Sprintf("%s:base64#NewEncoding", f.Name), c.Pos(se.Pos()), f.Name+" builds its own base64 alphabet")
					}
				}
				return true
			})
		}
	}
}

// ---- R-DISPATCH-TOTAL (C31, C13) ---------------------------------------------------------------

// ruleDispatchTotal: ytypes.unmarshalGeneric hands every value to the unmarshaller of the schema's
// kind. It has no success of its own: a literal `return nil` before the dispatch means that some
// mentioned node is silently not applied (an empty JSON array that should clear a leaf-list).
func ruleDispatchTotal(c *Ctx, r *Report) {
	r.Rule("R-DISPATCH-TOTAL", "ytypes.unmarshalGeneric succeeds only with the result of a per-kind unmarshaller (or under a nil test of the value): it never returns a literal success for a non-nil value, so every mentioned node reaches the code that applies it (clear-before-fill for leaf-lists included)", 5)
	f := c.MustFunc(r, "ytypes", "unmarshalGeneric")
	if f == nil {
		return
	}
	info := f.Info()
	ps := paramObjs(f)
	var val types.Object
	if len(ps) >= 3 {
		val = ps[2]
	}
	n := 0
	for _, rs := range returnsOf(f.Decl.Body) {
		if len(rs.Results) != 1 {
			continue
		}
		n++
		key := fmt.Sprintf("ytypes.unmarshalGeneric:return#%d", n)
		res := ast.Unparen(rs.Results[0])
		if !isNilIdent(info, res) {
			r.OK(key, c.Pos(rs.Pos()), "error or per-kind result: "+shortExpr(res))
			continue
		}
		okNil := false
		for _, ft := range c.FactsAt(f, rs, false) {
			if ft.Kind == "cond" && ft.Pos && isNilTest(info, ft.Cond) && val != nil && mentionsObj(info, ft.Cond, val) {
				okNil = true
			}
		}
		r.Check(okNil, key, c.Pos(rs.Pos()), "success for a nil value only",
			"unmarshalGeneric returns success without calling a per-kind unmarshaller for a value that is not nil: the node the JSON mentions is not applied (an empty array no longer clears a leaf-list; a mentioned leaf is not written)")
	}
}

func shortExpr(e ast.Expr) string {
	s := types.ExprString(e)
	if len(s) > 60 {
		s = s[:60]
	}
	return s
}

var _ = strings.HasPrefix

// ---- R-FIELD-METHOD-CLASH (C26) ----------------------------------------------------------------

// ruleFieldMethodClash: Go rejects a struct type that has a field and a method of the same name.
// The generator emits methods with fixed names (IsYANGGoStruct, PopulateDefaults, the Validate
// proxy) and with names derived from sibling fields (Get<F>, GetOrCreate<F>, New<F>, …) on every
// struct; the field names come from ygen.GoFieldNameMap, which makes them unique among themselves.
// The structural condition checked: the set of used names that uniquification starts from is not
// empty — something reserves the method names. (On this tree nothing does: known finding.)
func ruleFieldMethodClash(c *Ctx, r *Report) {
	r.Rule("R-FIELD-METHOD-CLASH", "the used-name set from which ygen.GoFieldNameMap makes a struct's field names unique is seeded with the names of the methods the generator emits on that struct; otherwise a YANG name whose CamelCase form is a generated method name (populate-defaults, get-<sibling>, validate) yields a field and a method of the same name and the package does not compile", 1)
	f := c.MustFunc(r, "ygen", "GoFieldNameMap")
	if f == nil {
		return
	}
	info := f.Info()
	calls := CallsIn(info, f.Decl.Body, P("genutil")+".MakeNameUnique")
	if len(calls) == 0 || len(calls[0].Args) != 2 {
		r.Und("ygen.GoFieldNameMap:reserved-method-names", c.Pos(f.Decl.Pos()), "no MakeNameUnique call found: the rule does not recognise how field names are made unique")
		return
	}
	set := ObjOf(info, calls[0].Args[1])
	seeded := false
	for _, d := range allDefs(f, set) {
		switch x := ast.Unparen(d).(type) {
		case *ast.CompositeLit:
			seeded = seeded || len(x.Elts) > 0
		case *ast.CallExpr:
			if id, ok := x.Fun.(*ast.Ident); !ok || id.Name != "make" {
				seeded = true // built by a helper: assumed to reserve names
			}
		}
	}
	if rhs, _ := storesOf(f, set); len(rhs) > 0 {
		seeded = true
	}
	r.Check(seeded, "ygen.GoFieldNameMap:reserved-method-names", c.Pos(calls[0].Pos()), "used-name set seeded before the fields are named",
		"GoFieldNameMap starts from an empty set of used names: field names are unique among themselves only, nothing keeps them apart from the names of the methods generated on the same struct")
}

// ---- R-TYPE-NAME-GUARD (C26) -------------------------------------------------------------------

// checkedAgainstDirectories: somewhere in f the string variable obj is tested against the names of
// the generated structs: compared with `<d>.Name` inside a range over a map of *ygen.ParsedDirectory,
// or used to index a set that such a range fills with `<d>.Name`.
func checkedAgainstDirectories(c *Ctx, f *FuncInfo, obj types.Object) bool {
	info := f.Info()
	isDirMap := func(e ast.Expr) bool {
		tv, ok := info.Types[e]
		if !ok || tv.Type == nil {
			return false
		}
		m, ok := tv.Type.Underlying().(*types.Map)
		return ok && strings.HasSuffix(m.Elem().String(), "ygen.ParsedDirectory")
	}
	found := false
	nameSets := map[types.Object]bool{}
	ast.Inspect(f.Decl.Body, func(n ast.Node) bool {
		rs, ok := n.(*ast.RangeStmt)
		if !ok || !isDirMap(rs.X) || rs.Value == nil {
			return true
		}
		d := ObjOf(info, rs.Value)
		isDName := func(e ast.Expr) bool {
			se, ok := ast.Unparen(e).(*ast.SelectorExpr)
			return ok && se.Sel.Name == "Name" && ObjOf(info, se.X) == d
		}
		ast.Inspect(rs.Body, func(m ast.Node) bool {
			switch x := m.(type) {
			case *ast.BinaryExpr:
				if (x.Op == token.EQL || x.Op == token.NEQ) && ((isDName(x.X) && ObjOf(info, x.Y) == obj) || (isDName(x.Y) && ObjOf(info, x.X) == obj)) {
					found = true
				}
			case *ast.AssignStmt:
				for _, l := range x.Lhs {
					if ix, ok := ast.Unparen(l).(*ast.IndexExpr); ok && isDName(ix.Index) {
						if s := ObjOf(info, ix.X); s != nil {
							nameSets[s] = true
						}
					}
				}
			}
			return true
		})
		return true
	})
	if found {
		return true
	}
	ast.Inspect(f.Decl.Body, func(n ast.Node) bool {
		ix, ok := n.(*ast.IndexExpr)
		if ok && nameSets[ObjOf(info, ix.X)] && ObjOf(info, ix.Index) == obj {
			found = true
		}
		return !found
	})
	return found
}

// ruleTypeNameGuard: besides one struct per directory, gogen declares helper types whose names it
// derives from a struct's name with a fixed suffix (<List>_Key, <List>_OrderedMap). A schema node
// can have exactly that name (container `key` / `ordered-map` inside the list), so each derived
// name must be tested against the names of the generated structs before it is used.
func ruleTypeNameGuard(c *Ctx, r *Report) {
	r.Rule("R-TYPE-NAME-GUARD", "each helper type name gogen derives from a list's struct name with a fixed suffix (multi-key struct <List>_Key, ordered map <List>_OrderedMap) is tested against the names of the structs generated for schema nodes before use; an untested name is declared twice when the list contains a container of that name, and the package does not compile", 2)
	type site struct{ fn, suffix, what, node string }
	for _, st := range []site{
		{"UnorderedMapTypeName", "_Key", "multi-key-struct", "key"},
		{"yangListFieldToGoType", "_OrderedMap", "ordered-map", "ordered-map"},
	} {
		f := c.MustFunc(r, "gogen", st.fn)
		if f == nil {
			continue
		}
		info := f.Info()
		key := "gogen." + st.fn + ":" + st.what + "-name"
		// the variable first assigned the suffixed name: fmt.Sprintf("%s<suffix>", …) or a call of
		// a module function that returns such a Sprintf (OrderedMapTypeName).
		producesSuffix := func(e ast.Expr) bool {
			call, ok := ast.Unparen(e).(*ast.CallExpr)
			if !ok {
				return false
			}
			isSprintf := func(inf *types.Info, cl *ast.CallExpr) bool {
				if FullName(Callee(inf, cl)) != "fmt.Sprintf" || len(cl.Args) == 0 {
					return false
				}
				v, isC := ConstOf(inf, cl.Args[0])
				return isC && strings.HasSuffix(strings.Trim(v, `"`), st.suffix)
			}
			if isSprintf(info, call) {
				return true
			}
			if g := c.funcOfCallee(Callee(info, call)); g != nil && g.Decl.Body != nil {
				for _, rs := range returnsOf(g.Decl.Body) {
					for _, res := range rs.Results {
						if cl, ok := ast.Unparen(res).(*ast.CallExpr); ok && isSprintf(g.Info(), cl) {
							return true
						}
					}
				}
			}
			return false
		}
		var nameVar types.Object
		var at token.Pos
		ast.Inspect(f.Decl.Body, func(n ast.Node) bool {
			as, ok := n.(*ast.AssignStmt)
			if !ok || len(as.Lhs) != len(as.Rhs) || nameVar != nil {
				return nameVar == nil
			}
			for i, rhs := range as.Rhs {
				if producesSuffix(rhs) {
					nameVar = ObjOf(info, as.Lhs[i])
					at = as.Pos()
				}
			}
			return nameVar == nil
		})
		if nameVar == nil {
			r.Und(key, c.Pos(f.Decl.Pos()), "the statement that forms the "+st.suffix+" name was not found")
			continue
		}
		r.Check(checkedAgainstDirectories(c, f, nameVar), key, c.Pos(at), "name tested against the generated structs' names",
			fmt.Sprintf("%s uses the %s type name %s (…%s) without testing it against the names of the structs generated for schema nodes: a container named %q inside the list gets a struct of the same name and the generated package declares the type twice", st.fn, st.what, nameVar.Name(), st.suffix, st.node))
	}
}
