package main

import (
	"fmt"
	"go/ast"
	"go/constant"
	"go/token"
	"go/types"
	"regexp"
	"strings"
)

// Rules added after the seventh batch of seeded changes.

// ---- R-RELPATH-POSITIONAL (C29, C26) -----------------------------------------------------------

// positionalIndex: e is an arithmetic expression over constants and len(...) only — an index that
// depends on how long the paths are, never on which names they contain.
func positionalIndex(f *FuncInfo, e ast.Expr, depth int) bool {
	info := f.Info()
	if depth > 5 {
		return false
	}
	if tv, ok := info.Types[e]; ok && tv.Value != nil {
		return true
	}
	switch x := ast.Unparen(e).(type) {
	case *ast.BinaryExpr:
		switch x.Op {
		case token.ADD, token.SUB:
			return positionalIndex(f, x.X, depth+1) && positionalIndex(f, x.Y, depth+1)
		}
	case *ast.CallExpr:
		if id, ok := x.Fun.(*ast.Ident); ok && id.Name == "len" {
			if _, isB := info.Uses[id].(*types.Builtin); isB {
				return true
			}
		}
	case *ast.Ident:
		obj := info.ObjectOf(x)
		if obj == nil {
			return false
		}
		defs := allDefs(f, obj)
		if len(defs) == 0 {
			return false
		}
		for _, d := range defs {
			if !positionalIndex(f, d, depth+1) {
				return false
			}
		}
		return true
	}
	return false
}

// ruleRelPathPositional: a field's path relative to its directory is the field's schema path with
// the directory's elements cut off the front. Element names repeat along a path
// (/group/members/group), so the cut is positional: an index computed from the lengths of the two
// paths, never from a search for a name.
func ruleRelPathPositional(c *Ctx, r *Report) {
	r.Rule("R-RELPATH-POSITIONAL", "ygen.findSchemaPath cuts the directory's prefix off a field's schema path at an index computed from path lengths and constants only; an index found by searching for an element name is wrong whenever an ancestor has the same name as the directory, and both the GoStruct path tags and the path-struct relative paths are taken from this result", 2)
	f := c.MustFunc(r, "ygen", "findSchemaPath")
	if f == nil {
		return
	}
	info := f.Info()
	n := 0
	for _, rs := range returnsOf(f.Decl.Body) {
		for _, res := range rs.Results {
			se, ok := ast.Unparen(res).(*ast.SliceExpr)
			if !ok || se.Low == nil {
				continue
			}
			if tv, ok := info.Types[se.Low]; ok && tv.Value != nil {
				continue // constant cut (absolute path: drop the module name)
			}
			n++
			r.Check(positionalIndex(f, se.Low, 0), fmt.Sprintf("ygen.findSchemaPath:cut#%d", n), c.Pos(se.Pos()), "index computed from lengths and constants",
				"findSchemaPath cuts the field's path at "+types.ExprString(se.Low)+", which is not computed from path lengths alone: with a directory below an ancestor of the same name (container group { container members { list group … } }) the relative path of its children starts at the wrong element, so the generated path tags and ResolvePath results are wrong")
		}
	}
	if n == 0 {
		r.Bad("ygen.findSchemaPath:cut", c.Pos(f.Decl.Pos()), "findSchemaPath no longer returns a slice of the field's path cut at a computed index: the rule does not recognise how the relative path is derived")
	}
}

// ---- R-BASE64-STD (C01, C29, C16) --------------------------------------------------------------

// ruleBase64Std: YANG binary is base64 of RFC 4648 §4 (RFC 7950 §9.8.2). Every encoder and decoder
// of binary text in the library must use that one alphabet, or what one side writes the other
// rejects (or decodes to different bytes).
func ruleBase64Std(c *Ctx, r *Report) {
	r.Rule("R-BASE64-STD", "every use of encoding/base64 in the library (JSON and key rendering of binary values, their decoders, default-value validation, gnmidiff) names base64.StdEncoding: writer and readers agree on the RFC 4648 §4 alphabet with padding", 4)
	n := 0
	for _, rel := range libPkgs {
		for _, f := range c.AllFuncs(rel) {
			info := f.Info()
			ast.Inspect(f.Decl.Body, func(x ast.Node) bool {
				se, ok := x.(*ast.SelectorExpr)
				if !ok {
					return true
				}
				obj := info.ObjectOf(se.Sel)
				if obj == nil || obj.Pkg() == nil || obj.Pkg().Path() != "encoding/base64" {
					return true
				}
				switch obj.(type) {
				case *types.Var:
					n++
					r.Check(obj.Name() == "StdEncoding", fmt.Sprintf("%s:base64#%s", f.Name, obj.Name()), c.Pos(se.Pos()), "base64.StdEncoding",
						fmt.Sprintf("%s uses base64.%s: binary values containing the symbols that differ between the alphabets (+ / vs - _, padding) are rendered in a form the library's own decoders (base64.StdEncoding) reject or misread", f.Name, obj.Name()))
				case *types.Func:
					if obj.Name() == "NewEncoding" {
						n++
						r.Bad(fmt.Sprintf("%s:base64#NewEncoding", f.Name), c.Pos(se.Pos()), f.Name+" builds its own base64 alphabet")
					}
				}
				return true
			})
		}
	}
}

// ---- R-DISPATCH-TOTAL (C31, C13) ---------------------------------------------------------------

// ruleDispatchTotal: ytypes.unmarshalGeneric hands every value to the unmarshaller of the schema's
// kind. It has no success of its own: a literal `return nil` before the dispatch means that some
// mentioned node is silently not applied (an empty JSON array that should clear a leaf-list).
func ruleDispatchTotal(c *Ctx, r *Report) {
	r.Rule("R-DISPATCH-TOTAL", "ytypes.unmarshalGeneric succeeds only with the result of a per-kind unmarshaller (or under a nil test of the value): it never returns a literal success for a non-nil value, so every mentioned node reaches the code that applies it (clear-before-fill for leaf-lists included)", 5)
	f := c.MustFunc(r, "ytypes", "unmarshalGeneric")
	if f == nil {
		return
	}
	info := f.Info()
	ps := paramObjs(f)
	var val types.Object
	if len(ps) >= 3 {
		val = ps[2]
	}
	n := 0
	for _, rs := range returnsOf(f.Decl.Body) {
		if len(rs.Results) != 1 {
			continue
		}
		n++
		key := fmt.Sprintf("ytypes.unmarshalGeneric:return#%d", n)
		res := ast.Unparen(rs.Results[0])
		if !isNilIdent(info, res) {
			r.OK(key, c.Pos(rs.Pos()), "error or per-kind result: "+shortExpr(res))
			continue
		}
		okNil := false
		for _, ft := range c.FactsAt(f, rs, false) {
			if ft.Kind == "cond" && ft.Pos && isNilTest(info, ft.Cond) && val != nil && mentionsObj(info, ft.Cond, val) {
				okNil = true
			}
		}
		r.Check(okNil, key, c.Pos(rs.Pos()), "success for a nil value only",
			"unmarshalGeneric returns success without calling a per-kind unmarshaller for a value that is not nil: the node the JSON mentions is not applied (an empty array no longer clears a leaf-list; a mentioned leaf is not written)")
	}
}

func shortExpr(e ast.Expr) string {
	s := types.ExprString(e)
	if len(s) > 60 {
		s = s[:60]
	}
	return s
}

var _ = strings.HasPrefix

// ---- R-FIELD-METHOD-CLASH (C26) ----------------------------------------------------------------

// ruleFieldMethodClash: Go rejects a struct type that has a field and a method of the same name.
// The generator emits methods with fixed names (IsYANGGoStruct, PopulateDefaults, the Validate
// proxy) and with names derived from sibling fields (Get<F>, GetOrCreate<F>, New<F>, …) on every
// struct; the field names come from ygen.GoFieldNameMap, which makes them unique among themselves.
// The structural condition checked: the set of used names that uniquification starts from is not
// empty — something reserves the method names. (On this tree nothing does: known finding.)
func ruleFieldMethodClash(c *Ctx, r *Report) {
	r.Rule("R-FIELD-METHOD-CLASH", "the used-name set from which ygen.GoFieldNameMap makes a struct's field names unique is seeded with the names of the methods the generator emits on that struct; otherwise a YANG name whose CamelCase form is a generated method name (populate-defaults, get-<sibling>, validate) yields a field and a method of the same name and the package does not compile", 1)
	f := c.MustFunc(r, "ygen", "GoFieldNameMap")
	if f == nil {
		return
	}
	info := f.Info()
	calls := CallsIn(info, f.Decl.Body, P("genutil")+".MakeNameUnique")
	if len(calls) == 0 || len(calls[0].Args) != 2 {
		r.Und("ygen.GoFieldNameMap:reserved-method-names", c.Pos(f.Decl.Pos()), "no MakeNameUnique call found: the rule does not recognise how field names are made unique")
		return
	}
	set := ObjOf(info, calls[0].Args[1])
	seeded := false
	for _, d := range allDefs(f, set) {
		switch x := ast.Unparen(d).(type) {
		case *ast.CompositeLit:
			seeded = seeded || len(x.Elts) > 0
		case *ast.CallExpr:
			if id, ok := x.Fun.(*ast.Ident); !ok || id.Name != "make" {
				seeded = true // built by a helper: assumed to reserve names
			}
		}
	}
	if rhs, _ := storesOf(f, set); len(rhs) > 0 {
		seeded = true
	}
	r.Check(seeded, "ygen.GoFieldNameMap:reserved-method-names", c.Pos(calls[0].Pos()), "used-name set seeded before the fields are named",
		"GoFieldNameMap starts from an empty set of used names: field names are unique among themselves only, nothing keeps them apart from the names of the methods generated on the same struct")
}

// ---- R-TYPE-NAME-GUARD (C26) -------------------------------------------------------------------

// checkedAgainstDirectories: somewhere in f the string variable obj is tested against the names of
// the generated structs: compared with `<d>.Name` inside a range over a map of *ygen.ParsedDirectory,
// or used to index a set that such a range fills with `<d>.Name`.
func checkedAgainstDirectories(c *Ctx, f *FuncInfo, obj types.Object) bool {
	info := f.Info()
	isDirMap := func(e ast.Expr) bool {
		tv, ok := info.Types[e]
		if !ok || tv.Type == nil {
			return false
		}
		m, ok := tv.Type.Underlying().(*types.Map)
		return ok && strings.HasSuffix(m.Elem().String(), "ygen.ParsedDirectory")
	}
	found := false
	nameSets := map[types.Object]bool{}
	ast.Inspect(f.Decl.Body, func(n ast.Node) bool {
		rs, ok := n.(*ast.RangeStmt)
		if !ok || !isDirMap(rs.X) || rs.Value == nil {
			return true
		}
		d := ObjOf(info, rs.Value)
		isDName := func(e ast.Expr) bool {
			se, ok := ast.Unparen(e).(*ast.SelectorExpr)
			return ok && se.Sel.Name == "Name" && ObjOf(info, se.X) == d
		}
		ast.Inspect(rs.Body, func(m ast.Node) bool {
			switch x := m.(type) {
			case *ast.BinaryExpr:
				if (x.Op == token.EQL || x.Op == token.NEQ) && ((isDName(x.X) && ObjOf(info, x.Y) == obj) || (isDName(x.Y) && ObjOf(info, x.X) == obj)) {
					found = true
				}
			case *ast.AssignStmt:
				for _, l := range x.Lhs {
					if ix, ok := ast.Unparen(l).(*ast.IndexExpr); ok && isDName(ix.Index) {
						if s := ObjOf(info, ix.X); s != nil {
							nameSets[s] = true
						}
					}
				}
			}
			return true
		})
		return true
	})
	if found {
		return true
	}
	ast.Inspect(f.Decl.Body, func(n ast.Node) bool {
		ix, ok := n.(*ast.IndexExpr)
		if ok && nameSets[ObjOf(info, ix.X)] && ObjOf(info, ix.Index) == obj {
			found = true
		}
		return !found
	})
	return found
}

// ruleTypeNameGuard: besides one struct per directory, gogen declares helper types whose names it
// derives from a struct's name with a fixed suffix (<List>_Key, <List>_OrderedMap). A schema node
// can have exactly that name (container `key` / `ordered-map` inside the list), so each derived
// name must be tested against the names of the generated structs before it is used.
func ruleTypeNameGuard(c *Ctx, r *Report) {
	r.Rule("R-TYPE-NAME-GUARD", "each helper type name gogen derives from a list's struct name with a fixed suffix (multi-key struct <List>_Key, ordered map <List>_OrderedMap) is tested against the names of the structs generated for schema nodes before use; an untested name is declared twice when the list contains a container of that name, and the package does not compile", 2)
	type site struct{ fn, suffix, what, node string }
	for _, st := range []site{
		{"UnorderedMapTypeName", "_Key", "multi-key-struct", "key"},
		{"yangListFieldToGoType", "_OrderedMap", "ordered-map", "ordered-map"},
	} {
		f := c.MustFunc(r, "gogen", st.fn)
		if f == nil {
			continue
		}
		info := f.Info()
		key := "gogen." + st.fn + ":" + st.what + "-name"
		// the variable first assigned the suffixed name: fmt.Sprintf("%s<suffix>", …) or a call of
		// a module function that returns such a Sprintf (OrderedMapTypeName).
		producesSuffix := func(e ast.Expr) bool {
			call, ok := ast.Unparen(e).(*ast.CallExpr)
			if !ok {
				return false
			}
			isSprintf := func(inf *types.Info, cl *ast.CallExpr) bool {
				if FullName(Callee(inf, cl)) != "fmt.Sprintf" || len(cl.Args) == 0 {
					return false
				}
				v, isC := ConstOf(inf, cl.Args[0])
				return isC && strings.HasSuffix(strings.Trim(v, `"`), st.suffix)
			}
			if isSprintf(info, call) {
				return true
			}
			if g := c.funcOfCallee(Callee(info, call)); g != nil && g.Decl.Body != nil {
				for _, rs := range returnsOf(g.Decl.Body) {
					for _, res := range rs.Results {
						if cl, ok := ast.Unparen(res).(*ast.CallExpr); ok && isSprintf(g.Info(), cl) {
							return true
						}
					}
				}
			}
			return false
		}
		var nameVar types.Object
		var at token.Pos
		ast.Inspect(f.Decl.Body, func(n ast.Node) bool {
			as, ok := n.(*ast.AssignStmt)
			if !ok || len(as.Lhs) != len(as.Rhs) || nameVar != nil {
				return nameVar == nil
			}
			for i, rhs := range as.Rhs {
				if producesSuffix(rhs) {
					nameVar = ObjOf(info, as.Lhs[i])
					at = as.Pos()
				}
			}
			return nameVar == nil
		})
		if nameVar == nil {
			r.Und(key, c.Pos(f.Decl.Pos()), "the statement that forms the "+st.suffix+" name was not found")
			continue
		}
		r.Check(checkedAgainstDirectories(c, f, nameVar), key, c.Pos(at), "name tested against the generated structs' names",
			fmt.Sprintf("%s uses the %s type name %s (…%s) without testing it against the names of the structs generated for schema nodes: a container named %q inside the list gets a struct of the same name and the generated package declares the type twice", st.fn, st.what, nameVar.Name(), st.suffix, st.node))
	}
}

// ---- R-UNION-NAME-CLASH (C26, C01) -------------------------------------------------------------

// ruleUnionNameClash: writeGoStruct generates a multi-type union once per name and lets every later
// field with the same union name share it (a leafref to the same leaf). The name is the CamelCase
// of the leaf's path, so two different leaves can have it (foo-bar / foo_bar). Sharing is only sound
// for equal unions: the reuse must compare the member types and record an error when they differ.
func ruleUnionNameClash(c *Ctx, r *Report) {
	r.Rule("R-UNION-NAME-CLASH", "when gogen.writeGoStruct meets a union name it has already generated in the struct, it compares the two fields' member types (UnionTypes) and records an error when they differ; without the comparison the second field silently gets the first field's union type, whose members are not those of its YANG type", 1)
	f := c.MustFunc(r, "gogen", "writeGoStruct")
	if f == nil {
		return
	}
	info := f.Info()
	found := false
	var at token.Pos
	ast.Inspect(f.Decl.Body, func(n ast.Node) bool {
		is, ok := n.(*ast.IfStmt)
		if !ok || found {
			return !found
		}
		// condition: an (in)equality test — reflect.DeepEqual, cmp.Equal or a module helper — one
		// of whose operands is <field>.LangType.UnionTypes.
		cmpUnion := false
		ast.Inspect(is.Cond, func(m ast.Node) bool {
			call, ok := m.(*ast.CallExpr)
			if !ok {
				return true
			}
			fn := FullName(Callee(info, call))
			if fn != "reflect.DeepEqual" && !strings.HasSuffix(fn, "cmp.Equal") && !strings.HasPrefix(fn, modPath) {
				return true
			}
			for _, a := range call.Args {
				if se, ok := ast.Unparen(a).(*ast.SelectorExpr); ok && se.Sel.Name == "UnionTypes" {
					cmpUnion = true
				}
			}
			return true
		})
		if !cmpUnion {
			return true
		}
		// body: records or returns an error.
		errRecorded := false
		ast.Inspect(is.Body, func(m ast.Node) bool {
			switch x := m.(type) {
			case *ast.CallExpr:
				if id, ok := x.Fun.(*ast.Ident); ok && id.Name == "append" && len(x.Args) >= 2 {
					if tv, ok := info.Types[x.Args[0]]; ok && tv.Type != nil && tv.Type.String() == "[]error" {
						errRecorded = true
					}
				}
			case *ast.ReturnStmt:
				for _, res := range x.Results {
					if tv, ok := info.Types[res]; ok && tv.Type != nil && (tv.Type.String() == "error" || tv.Type.String() == "[]error") && !isNilIdent(info, res) {
						errRecorded = true
					}
				}
			}
			return true
		})
		if errRecorded {
			found = true
			at = is.Pos()
		}
		return !found
	})
	pos := f.Decl.Pos()
	if found {
		pos = at
	}
	r.Check(found, "gogen.writeGoStruct:union-name-reuse", c.Pos(pos), "member types compared, difference is an error",
		"writeGoStruct reuses a union name already generated in the struct without comparing the member types: for sibling leaves whose names share a CamelCase form (foo-bar: union{uint8,string}, foo_bar: union{boolean,int32}) the second field is typed with the first field's union and cannot hold or round-trip its own values")
}

// ---- R-ENUM-LABEL-UNIQ (C28) -------------------------------------------------------------------

// ruleEnumLabelUniq: the label of a generated enum value is the YANG name with every character
// outside [A-Za-z0-9_] replaced by '_' (safeProtoIdentifierName), which is not injective
// (A-B, A_B, A.B). Within one enum the labels must nevertheless be distinct, so each label handed
// to toProtoEnumValue inside a loop over the enum's values must come out of a uniquifier whose
// memory spans the loop.
func ruleEnumLabelUniq(c *Ctx, r *Report) {
	r.Rule("R-ENUM-LABEL-UNIQ", "every enum value label protogen builds per iteration of a loop over an enum's values (toProtoEnumValue's first argument) is a genutil.MakeNameUnique result over a set declared outside that loop; safeProtoIdentifierName alone maps distinct YANG names (A-B, A_B) to one protobuf identifier and yields an enum with duplicate value names", 2)
	n := 0
	for _, f := range c.AllFuncs("protogen") {
		info := f.Info()
		for _, call := range CallsIn(info, f.Decl.Body, P("protogen")+".toProtoEnumValue") {
			loop := c.EnclosingLoop(f, call)
			if loop == nil || len(call.Args) == 0 {
				continue
			}
			n++
			why := uniqueNameSource(c, f, call.Args[0], loop, 0)
			r.Check(why != "", fmt.Sprintf("%s:enum-label#%d", f.Name, n), c.Pos(call.Pos()), why,
				fmt.Sprintf("%s labels an enum value %s inside a loop over the enum's values without a uniquifier that remembers earlier labels: two YANG names that differ only in characters outside [A-Za-z0-9_] give the enum two values of the same name, which is not valid proto3", f.Name, types.ExprString(call.Args[0])))
		}
	}
}

// ---- R-ENUM-PREFIX-UNIQ and R-KEYMSG-NAME (C28) ------------------------------------------------

// ruleProtoScopeNames: two naming obligations that follow from protobuf's scoping rules.
//   - the values of all enums embedded in one message share the message's scope, so the prefix
//     that keeps them apart must be unique among the message's enums: it is a field set from
//     genutil.MakeNameUnique before the message is rendered, and the message template reads it;
//   - the key message of a list is a sibling of the messages of the list's package, so its name
//     is made unique against the names of the directories of that package.
func ruleProtoScopeNames(c *Ctx, r *Report) {
	r.Rule("R-PROTO-SCOPE", "names protogen derives with a fixed transformation are kept unique in the protobuf scope they land in: the value prefix of each enum embedded in a message is a MakeNameUnique result over the message's enums, set before the (single) render and read by the message template; the name of a list's key message is a MakeNameUnique result over the names of the IR directories of its package; the fields of a oneof are renamed by MakeNameUnique over the message's field names before they are attached; the message for a leaf-list of unions is named through a uniquifier; every field of a key message is named through the used-name set; enum value numbers are tested against the int32 range", 9)
	// (1) every store to protoMsgEnum.ValuePrefix is a uniquifier result with memory across the loop.
	var setter *FuncInfo
	n := 0
	for _, f := range c.AllFuncs("protogen") {
		info := f.Info()
		ast.Inspect(f.Decl.Body, func(x ast.Node) bool {
			as, ok := x.(*ast.AssignStmt)
			if !ok || len(as.Lhs) != len(as.Rhs) {
				return true
			}
			for i, l := range as.Lhs {
				se, ok := ast.Unparen(l).(*ast.SelectorExpr)
				if !ok || se.Sel.Name != "ValuePrefix" {
					continue
				}
				tv, ok := info.Types[se.X]
				if !ok || tv.Type == nil || !strings.HasSuffix(strings.TrimPrefix(tv.Type.String(), "*"), "protogen.protoMsgEnum") {
					continue
				}
				n++
				loop := c.EnclosingLoop(f, as)
				why := ""
				if loop != nil {
					why = uniqueNameSource(c, f, as.Rhs[i], loop, 0)
				}
				r.Check(why != "", fmt.Sprintf("%s:enum-value-prefix#%d", f.Name, n), c.Pos(as.Pos()), why,
					f.Name+" sets the value prefix of an embedded enum to "+types.ExprString(as.Rhs[i])+", which is not made unique among the enums of the message: enums whose names differ only in case share a prefix and declare the same value names in one scope")
				if why != "" {
					setter = f
				}
			}
			return true
		})
	}
	if n == 0 {
		r.Bad("protogen:enum-value-prefix", "-", "no function sets protoMsgEnum.ValuePrefix: the prefix of embedded enum values is not computed per message (enums whose names differ only in case would share value names in one scope)")
	}
	// (2) the setter runs before the message template is executed, in the same statement list.
	if setter != nil {
		done := false
		for _, f := range c.AllFuncs("protogen") {
			info := f.Info()
			pm := c.parentMap(f.File)
			ast.Inspect(f.Decl.Body, func(x ast.Node) bool {
				call, ok := x.(*ast.CallExpr)
				if !ok || done {
					return !done
				}
				se, ok := call.Fun.(*ast.SelectorExpr)
				if !ok || se.Sel.Name != "Execute" || types.ExprString(se.X) != "protoMessageTemplate" {
					return true
				}
				done = true
				// enclosing statement list
				var stmt ast.Node = call
				for pm[stmt] != nil {
					if _, isBlock := pm[stmt].(*ast.BlockStmt); isBlock {
						break
					}
					stmt = pm[stmt]
				}
				blk, _ := pm[stmt].(*ast.BlockStmt)
				before := false
				if blk != nil {
					for _, s := range blk.List {
						if ast.Node(s) == stmt {
							break
						}
						if es, ok := s.(*ast.ExprStmt); ok {
							if cl, ok := es.X.(*ast.CallExpr); ok && Callee(info, cl) != nil && Callee(info, cl).Origin() == setter.Obj.Origin() {
								before = true
							}
						}
					}
				}
				r.Check(before, f.Name+":prefixes-before-render", c.Pos(call.Pos()), "enum value prefixes set unconditionally before the message is rendered",
					f.Name+" renders a message without first setting the value prefixes of its enums ("+setter.Name+")")
				return false
			})
		}
		if !done {
			r.Und("protogen:render-site", "-", "protoMessageTemplate.Execute not found")
		}
	}
	// (3) the message template emits the prefix field: expanded (standard library text/template)
	// over a message with two enums whose names differ only in case and whose prefixes differ.
	var mt *tmplSrc
	for _, t := range c.templatesOf("protogen") {
		if t.Var == "protoMessageTemplate" {
			mt = t
		}
	}
	if mt == nil {
		r.Und("protogen.protoMessageTemplate:enum-value-prefix", "-", "template not found")
	} else {
		val := func(l string) map[string]any { return map[string]any{"ProtoLabel": l, "YANGLabel": ""} }
		data := map[string]any{
			"Name": "M", "YANGPath": "/m", "PathComment": false,
			"ChildMsgs": []any{}, "Fields": []any{},
			"Enums": map[string]any{
				"EnUm": map[string]any{"ValuePrefix": "PFXA", "Values": map[int64]any{0: val("UNSET"), 1: val("X")}},
				"ENum": map[string]any{"ValuePrefix": "PFXB", "Values": map[int64]any{0: val("UNSET"), 1: val("X")}},
			},
		}
		out, err := instantiate(mt, data)
		switch {
		case err != nil:
			r.Und("protogen.protoMessageTemplate:enum-value-prefix", c.Pos(mt.Pos), "template does not expand over the analyser's message shape: "+err.Error())
		default:
			good := strings.Contains(out, "PFXA_UNSET") && strings.Contains(out, "PFXB_UNSET") && strings.Contains(out, "PFXA_X") && !strings.Contains(out, "ENUM_UNSET")
			r.Check(good, "protogen.protoMessageTemplate:enum-value-prefix", c.Pos(mt.Pos), "expanded template prefixes each value with its enum's ValuePrefix",
				"expanded over a message with enums EnUm/ENum (prefixes PFXA/PFXB) the message template does not emit PFXA_UNSET and PFXB_UNSET: the prefix of embedded enum values is not the uniquified ValuePrefix, so enums whose names differ only in case declare the same value names in one scope")
		}
	}
	// (5) oneof members: wherever generated oneof fields are attached to a field of a message
	// (append(<f>.OneOfFields, <members>...)), the members were renamed, earlier in the same
	// statement list, by MakeNameUnique over the set of the message's field names.
	for _, f := range c.AllFuncs("protogen") {
		info := f.Info()
		pm := c.parentMap(f.File)
		k := 0
		ast.Inspect(f.Decl.Body, func(x ast.Node) bool {
			call, ok := x.(*ast.CallExpr)
			if !ok || len(call.Args) != 2 || !call.Ellipsis.IsValid() {
				return true
			}
			if id, ok := call.Fun.(*ast.Ident); !ok || id.Name != "append" {
				return true
			}
			se, ok := ast.Unparen(call.Args[0]).(*ast.SelectorExpr)
			if !ok || se.Sel.Name != "OneOfFields" {
				return true
			}
			members := call.Args[1]
			k++
			key := fmt.Sprintf("%s:oneof-members#%d", f.Name, k)
			var stmt ast.Node = call
			for pm[stmt] != nil {
				if _, isBlock := pm[stmt].(*ast.BlockStmt); isBlock {
					break
				}
				if _, isCase := pm[stmt].(*ast.CaseClause); isCase {
					break
				}
				stmt = pm[stmt]
			}
			var list []ast.Stmt
			switch p := pm[stmt].(type) {
			case *ast.BlockStmt:
				list = p.List
			case *ast.CaseClause:
				list = p.Body
			}
			renamed := false
			for _, st := range list {
				if ast.Node(st) == stmt {
					break
				}
				rs, ok := st.(*ast.RangeStmt)
				if !ok || rs.Value == nil || !sameExpr(info, rs.X, members) {
					continue
				}
				el := ObjOf(info, rs.Value)
				ast.Inspect(rs.Body, func(y ast.Node) bool {
					as, ok := y.(*ast.AssignStmt)
					if !ok || len(as.Lhs) != 1 || len(as.Rhs) != 1 {
						return true
					}
					ls, ok := ast.Unparen(as.Lhs[0]).(*ast.SelectorExpr)
					if !ok || ls.Sel.Name != "Name" || ObjOf(info, ls.X) != el {
						return true
					}
					if cl, ok := ast.Unparen(as.Rhs[0]).(*ast.CallExpr); ok && FullName(Callee(info, cl)) == P("genutil")+".MakeNameUnique" && len(cl.Args) == 2 {
						if strings.Contains(types.ExprString(cl.Args[1]), "definedFieldNames") {
							renamed = true
						}
					}
					return true
				})
			}
			r.Check(renamed, key, c.Pos(call.Pos()), "oneof members renamed by MakeNameUnique over the message's field names before being attached",
				f.Name+" attaches the fields of a oneof to a message without making their names (<leaf>_<type>) unique among the message's fields: a union leaf foo-bar with a string member next to a leaf foo-bar-string yields two fields named foo_bar_string")
			return true
		})
	}
	// (7) the message generated for a leaf-list of unions (<Leaf>Union) is a sibling of the
	// messages of the enclosing scope as well: its name needs the same treatment as the key message.
	if f := c.MustFunc(r, "protogen", "unionFieldToOneOf"); f != nil {
		info := f.Info()
		var nameExpr ast.Expr
		ast.Inspect(f.Decl.Body, func(x ast.Node) bool {
			cl, ok := x.(*ast.CompositeLit)
			if !ok || nameExpr != nil {
				return nameExpr == nil
			}
			tv, ok := info.Types[cl]
			if !ok || tv.Type == nil || !strings.HasSuffix(tv.Type.String(), "protogen.protoMsg") {
				return true
			}
			for _, el := range cl.Elts {
				if kv, ok := el.(*ast.KeyValueExpr); ok {
					if id, ok := kv.Key.(*ast.Ident); ok && id.Name == "Name" {
						nameExpr = kv.Value
					}
				}
			}
			return nameExpr == nil
		})
		good := false
		if nameExpr != nil {
			exprs := []ast.Expr{nameExpr}
			if id, ok := ast.Unparen(nameExpr).(*ast.Ident); ok {
				exprs = allDefs(f, info.ObjectOf(id))
			}
			for _, e := range exprs {
				if call, ok := ast.Unparen(e).(*ast.CallExpr); ok && FullName(Callee(info, call)) == P("genutil")+".MakeNameUnique" {
					good = true
				}
			}
		}
		r.Check(good, "protogen.unionFieldToOneOf:repeated-union-message-name", c.Pos(f.Decl.Pos()), "name made unique",
			"the message generated for a leaf-list of unions is named <Leaf>Union (and a union's inline enumeration <Leaf>Enum) without a test against the other type names of the scope it is emitted in")
	}
	// (8) every field of the key message (the keys, and the field for the list entry) is named
	// through the message's set of used field names.
	if f := c.MustFunc(r, "protogen", "genListKeyProto"); f != nil {
		info := f.Info()
		k := 0
		ast.Inspect(f.Decl.Body, func(x ast.Node) bool {
			cl, ok := x.(*ast.CompositeLit)
			if !ok {
				return true
			}
			tv, ok := info.Types[cl]
			if !ok || tv.Type == nil || !strings.HasSuffix(tv.Type.String(), "protogen.protoMsgField") {
				return true
			}
			for _, el := range cl.Elts {
				kv, ok := el.(*ast.KeyValueExpr)
				if !ok {
					continue
				}
				if id, ok := kv.Key.(*ast.Ident); !ok || id.Name != "Name" {
					continue
				}
				k++
				exprs := []ast.Expr{kv.Value}
				if id, ok := ast.Unparen(kv.Value).(*ast.Ident); ok {
					exprs = allDefs(f, info.ObjectOf(id))
				}
				good := len(exprs) > 0
				for _, e := range exprs {
					call, ok := ast.Unparen(e).(*ast.CallExpr)
					if !ok || FullName(Callee(info, call)) != P("genutil")+".MakeNameUnique" {
						good = false
					}
				}
				r.Check(good, fmt.Sprintf("protogen.genListKeyProto:field-name#%d", k), c.Pos(kv.Value.Pos()), "field name drawn from the message's used-name set",
					"genListKeyProto names a field of the key message "+types.ExprString(kv.Value)+" without making it unique among the message's fields: list foo with keys foo and foo_key yields two fields foo_key; list k_string with a union key k yields the oneof member k_string next to the list-entry field k_string")
			}
			return true
		})
	}
	// (9) an enum value number (YANG value + 1) is tested against the int32 range before it is stored.
	if f := c.MustFunc(r, "protogen", "genProtoEnum"); f != nil {
		info := f.Info()
		k := 0
		ast.Inspect(f.Decl.Body, func(x ast.Node) bool {
			as, ok := x.(*ast.AssignStmt)
			if !ok || len(as.Lhs) != 1 {
				return true
			}
			ix, ok := ast.Unparen(as.Lhs[0]).(*ast.IndexExpr)
			if !ok {
				return true
			}
			if tv, ok := info.Types[ix.Index]; !ok || tv.Value != nil {
				return true // constant index (the zero value)
			}
			k++
			bounded := false
			for _, ft := range c.FactsAt(f, as, false) {
				if ft.Kind == "cond" && strings.Contains(types.ExprString(ft.Cond), "MaxInt32") {
					bounded = true
				}
			}
			r.Check(bounded, fmt.Sprintf("protogen.genProtoEnum:value-number#%d", k), c.Pos(as.Pos()), "number tested against the int32 range",
				"genProtoEnum stores the enum value number "+types.ExprString(ix.Index)+" without testing it against the int32 range: the legal YANG value 2147483647 is written as 2147483648, which protoc rejects")
			return true
		})
	}
	// (4) key message name.
	if f := c.MustFunc(r, "protogen", "genListKeyProto"); f != nil {
		info := f.Info()
		var nameExpr ast.Expr
		ast.Inspect(f.Decl.Body, func(x ast.Node) bool {
			cl, ok := x.(*ast.CompositeLit)
			if !ok || nameExpr != nil {
				return nameExpr == nil
			}
			tv, ok := info.Types[cl]
			if !ok || tv.Type == nil || !strings.HasSuffix(tv.Type.String(), "protogen.protoMsg") {
				return true
			}
			for _, el := range cl.Elts {
				if kv, ok := el.(*ast.KeyValueExpr); ok {
					if id, ok := kv.Key.(*ast.Ident); ok && id.Name == "Name" {
						nameExpr = kv.Value
					}
				}
			}
			return nameExpr == nil
		})
		good, why := false, "the key message's Name was not found"
		if nameExpr != nil {
			why = "the key message is named " + types.ExprString(nameExpr) + " without a test against the names of the messages of its package"
			exprs := []ast.Expr{nameExpr}
			if id, ok := ast.Unparen(nameExpr).(*ast.Ident); ok {
				exprs = allDefs(f, info.ObjectOf(id))
			}
			for _, e := range exprs {
				call, ok := ast.Unparen(e).(*ast.CallExpr)
				if !ok || FullName(Callee(info, call)) != P("genutil")+".MakeNameUnique" || len(call.Args) != 2 {
					continue
				}
				set := ObjOf(info, call.Args[1])
				// the set is filled with <d>.Name in a range over a map of *ygen.ParsedDirectory.
				ast.Inspect(f.Decl.Body, func(x ast.Node) bool {
					rs, ok := x.(*ast.RangeStmt)
					if !ok || rs.Value == nil {
						return true
					}
					tv, ok := info.Types[rs.X]
					if !ok || tv.Type == nil {
						return true
					}
					m, ok := tv.Type.Underlying().(*types.Map)
					if !ok || !strings.HasSuffix(m.Elem().String(), "ygen.ParsedDirectory") {
						return true
					}
					d := ObjOf(info, rs.Value)
					ast.Inspect(rs.Body, func(y ast.Node) bool {
						as, ok := y.(*ast.AssignStmt)
						if !ok {
							return true
						}
						for _, l := range as.Lhs {
							if ix, ok := ast.Unparen(l).(*ast.IndexExpr); ok && ObjOf(info, ix.X) == set {
								if se, ok := ast.Unparen(ix.Index).(*ast.SelectorExpr); ok && se.Sel.Name == "Name" && ObjOf(info, se.X) == d {
									good, why = true, "MakeNameUnique against the names of the IR directories"
								}
							}
						}
						return true
					})
					return true
				})
			}
		}
		r.Check(good, "protogen.genListKeyProto:key-message-name", c.Pos(f.Decl.Pos()), why,
			"genListKeyProto: "+why+": a sibling container named <list>-key gets a message of the same name and the .proto declares it twice")
	}
}

// ---- R-ENUM-GONAME-UNIQ (C26, C17) -------------------------------------------------------------

// ruleEnumGoNameUniq: the Go constant of an enum value is <Enum>_<sanitised YANG name>, and the
// sanitiser is not injective ('.', '-', '/' and ' ' all become '_'). Inside the loop that fills an
// enum's value names, each name must be tested against the names already given (an error on a
// repeat) or come out of a uniquifier; otherwise one constant is declared twice.
func ruleEnumGoNameUniq(c *Ctx, r *Report) {
	r.Rule("R-ENUM-GONAME-UNIQ", "gogen.genGoEnumeratedTypes gives each value of an enum a Go name that is tested against the names already given in that enum (a clash is a generation error) or produced by a uniquifier; the sanitiser alone maps v.1 and v-1 to one identifier and the generated package declares a constant twice", 1)
	f := c.MustFunc(r, "gogen", "genGoEnumeratedTypes")
	if f == nil {
		return
	}
	info := f.Info()
	n := 0
	ast.Inspect(f.Decl.Body, func(x ast.Node) bool {
		as, ok := x.(*ast.AssignStmt)
		if !ok || len(as.Lhs) != 1 || len(as.Rhs) != 1 {
			return true
		}
		ix, ok := ast.Unparen(as.Lhs[0]).(*ast.IndexExpr)
		if !ok {
			return true
		}
		tv, ok := info.Types[ix.X]
		if !ok || tv.Type == nil || tv.Type.String() != "map[int64]string" {
			return true
		}
		loop := c.EnclosingLoop(f, as)
		if loop == nil {
			return true
		}
		n++
		key := fmt.Sprintf("gogen.genGoEnumeratedTypes:value-name#%d", n)
		if why := uniqueNameSource(c, f, as.Rhs[0], loop, 0); why != "" {
			r.OK(key, c.Pos(as.Pos()), why)
			return true
		}
		// membership test: the stored name (a local) is looked up, comma-ok, in a map declared
		// outside the loop, the hit returns/records an error, and the name is then recorded in it.
		obj := ObjOf(info, as.Rhs[0])
		tested := false
		if obj != nil {
			ast.Inspect(loop, func(y ast.Node) bool {
				is, ok := y.(*ast.IfStmt)
				if !ok || is.Init == nil {
					return true
				}
				init, ok := is.Init.(*ast.AssignStmt)
				if !ok || len(init.Lhs) != 2 || len(init.Rhs) != 1 {
					return true
				}
				lk, ok := ast.Unparen(init.Rhs[0]).(*ast.IndexExpr)
				if !ok || ObjOf(info, lk.Index) != obj {
					return true
				}
				set := ObjOf(info, lk.X)
				if set == nil || (loop.Pos() <= set.Pos() && set.Pos() <= loop.End()) {
					return true
				}
				if ObjOf(info, is.Cond) != ObjOf(info, init.Lhs[1]) {
					return true
				}
				errExit := false
				for _, rs := range returnsOf(is.Body) {
					for _, res := range rs.Results {
						if tv, ok := info.Types[res]; ok && tv.Type != nil && tv.Type.String() == "error" && !isNilIdent(info, res) {
							errExit = true
						}
					}
				}
				recorded := false
				if rhs, sites := storesOf(f, set); len(rhs) > 0 {
					for _, s := range sites {
						for _, l := range s.Lhs {
							if six, ok := ast.Unparen(l).(*ast.IndexExpr); ok && ObjOf(info, six.Index) == obj && loop.Pos() <= s.Pos() && s.End() <= loop.End() {
								recorded = true
							}
						}
					}
				}
				if errExit && recorded && is.Pos() < as.Pos() {
					tested = true
				}
				return true
			})
		}
		r.Check(tested, key, c.Pos(as.Pos()), "name tested against the names already given in the enum; a repeat is an error",
			"genGoEnumeratedTypes stores the Go name "+types.ExprString(as.Rhs[0])+" of an enum value without testing it against the names already given in the same enum: values v.1 and v-1 (or a value named UNSET) yield one constant declared twice")
		return true
	})
	if n == 0 {
		r.Und("gogen.genGoEnumeratedTypes:value-name", c.Pos(f.Decl.Pos()), "the store of value names (map[int64]string) inside a loop was not found")
	}
}

// ---- R-PRUNE-DESCEND (C14) ---------------------------------------------------------------------

// rulePruneDescend: a GoStruct holds its child structs in four shapes — a struct pointer
// (container), a map of struct pointers (keyed list), an ordered map (ordered-by-user list) and a
// slice of struct pointers (unkeyed list). pruneBranchesInternal removes empty containers only
// where it recurses, so each shape needs a recursive call on its elements; three of the four
// having one and the fourth not is the contradiction this rule looks for.
func rulePruneDescend(c *Ctx, r *Report) {
	r.Rule("R-PRUNE-DESCEND", "pruneBranchesInternal calls itself on the children held in each of the four shapes a GoStruct uses: the struct pointer, the entries of a map (range over MapKeys/MapIndex), the entries of an ordered map (yreflect.RangeOrderedMap) and the entries of a slice (Index in a loop); a shape without a recursive call keeps the empty containers below it", 4)
	f := c.MustFunc(r, "ygot", "pruneBranchesInternal")
	if f == nil {
		return
	}
	info := f.Info()
	got := map[string]bool{}
	var visit func(body ast.Node, inOM bool)
	visit = func(body ast.Node, inOM bool) {
		ast.Inspect(body, func(x ast.Node) bool {
			call, ok := x.(*ast.CallExpr)
			if !ok {
				return true
			}
			if fn := Callee(info, call); fn != nil && fn.Origin() == f.Obj.Origin() && len(call.Args) == 2 {
				// classify by where the value argument comes from.
				shape := "struct-pointer"
				if inOM {
					shape = "ordered-map"
				}
				src := call.Args[1]
				for depth := 0; depth < 4; depth++ {
					id, ok := ast.Unparen(src).(*ast.Ident)
					if !ok {
						break
					}
					defs := allDefs(f, info.ObjectOf(id))
					if len(defs) != 1 {
						break
					}
					src = defs[0]
					if recv, m, ok := reflectMethod(info, src); ok {
						switch m {
						case "MapIndex":
							shape = "map"
						case "Index":
							shape = "slice"
						case "Elem":
							src = recv
							continue
						}
					}
				}
				if recv, m, ok := reflectMethod(info, src); ok {
					_ = recv
					switch m {
					case "MapIndex":
						shape = "map"
					case "Index":
						shape = "slice"
					}
				}
				got[shape] = true
				return true
			}
			if FullName(Callee(info, call)) == P("internal/yreflect")+".RangeOrderedMap" {
				for _, a := range call.Args {
					if fl, ok := a.(*ast.FuncLit); ok {
						visit(fl.Body, true)
					}
				}
				return false
			}
			return true
		})
	}
	visit(f.Decl.Body, false)
	for _, shape := range []string{"struct-pointer", "map", "ordered-map", "slice"} {
		r.Check(got[shape], "ygot.pruneBranchesInternal:descends:"+shape, c.Pos(f.Decl.Pos()), "recursive call on the children held in a "+shape,
			"pruneBranchesInternal never calls itself on children held in a "+shape+": empty containers below that kind of field (e.g. created by BuildEmptyTree) survive PruneEmptyBranches")
	}
}

// ---- R-DECIMAL-LEXICAL (C18) -------------------------------------------------------------------

// ruleDecimalLexical: strconv.ParseFloat accepts NaN, Inf, exponents, hexadecimal floats and
// digit separators; a decimal64 is [+-]digits[.digits] (RFC 7950 §9.3.1). The decimal64 arm of the
// JSON decoder may return a parsed value only after the string matched a pattern, and the pattern
// (a constant of the repository, evaluated here with the standard regexp package) must accept
// exactly that lexical form on a table of witnesses.
func ruleDecimalLexical(c *Ctx, r *Report) {
	r.Rule("R-DECIMAL-LEXICAL", "the decimal64 arm of ytypes.sanitizeJSON returns a parsed value only where a regular expression matched the string, and that (constant) expression accepts [+-]digits[.digits] and rejects NaN, Inf, exponent, hexadecimal and separator forms", 2)
	f := c.MustFunc(r, "ytypes", "sanitizeJSON")
	if f == nil {
		return
	}
	info := f.Info()
	var arm *Arm
	for _, t := range KindSwitches(f, yangKind) {
		if a := t.ByKey["yang.Ydecimal64"]; a != nil {
			arm = a
		}
	}
	if arm == nil {
		r.Und("ytypes.sanitizeJSON:decimal64:lexical", c.Pos(f.Decl.Pos()), "decimal64 arm not found")
		return
	}
	var pattern string
	havePattern := false
	okAll, n := true, 0
	for _, rs := range returnsOf(arm.Node) {
		if len(rs.Results) != 2 || isNilIdent(info, rs.Results[0]) {
			continue
		}
		n++
		matched := false
		for _, ft := range c.FactsAt(f, rs, false) {
			if ft.Kind != "cond" || !ft.Pos {
				continue
			}
			call, ok := ast.Unparen(ft.Cond).(*ast.CallExpr)
			if !ok || FullName(Callee(info, call)) != "regexp.Regexp.MatchString" {
				continue
			}
			matched = true
			if se, ok := call.Fun.(*ast.SelectorExpr); ok {
				if v, ok := ObjOf(info, se.X).(*types.Var); ok {
					if src, ok := c.regexpSourceOf(v); ok {
						pattern, havePattern = src, true
					}
				}
			}
		}
		if !matched {
			okAll = false
		}
	}
	r.Check(n > 0 && okAll, "ytypes.sanitizeJSON:decimal64:lexical", c.Pos(arm.Node.Pos()), "every parsed value is returned under a successful pattern match",
		"the decimal64 arm of sanitizeJSON returns what strconv.ParseFloat produced without a lexical check of the string: \"NaN\", \"Inf\", \"1e3\", \"0x1p-2\" and \"1_0\" are stored as NaN, +Inf, 1000, 0.25 and 10 instead of being rejected")
	if !havePattern {
		if n > 0 && okAll {
			r.Und("ytypes.sanitizeJSON:decimal64:pattern", c.Pos(arm.Node.Pos()), "the pattern matched against is not a package-level regexp.MustCompile(<constant>)")
		}
		return
	}
	re, err := regexp.Compile(pattern)
	if err != nil {
		r.Bad("ytypes.sanitizeJSON:decimal64:pattern", c.Pos(arm.Node.Pos()), "the decimal64 pattern "+pattern+" does not compile: "+err.Error())
		return
	}
	var wrong []string
	for _, w := range []struct {
		s    string
		want bool
	}{{"0", true}, {"42", true}, {"-0.25", true}, {"+3", true}, {"1.50", true}, {"9223372036854775.807", true},
		{"NaN", false}, {"Inf", false}, {"-infinity", false}, {"1e3", false}, {"0x1p-2", false}, {"1_0", false}, {"", false}, {".5", false}, {"5.", false}, {"+-1", false}, {" 1", false}, {"1 ", false}, {"1.2.3", false}, {"1\n", false}} {
		if re.MatchString(w.s) != w.want {
			wrong = append(wrong, fmt.Sprintf("%q", w.s))
		}
	}
	r.Check(len(wrong) == 0, "ytypes.sanitizeJSON:decimal64:pattern", c.Pos(arm.Node.Pos()), "pattern "+pattern+" accepts exactly the decimal64 lexical form on the witness table",
		"the decimal64 pattern "+pattern+" decides these witnesses wrongly: "+strings.Join(wrong, ", "))
}

// regexpSourceOf: the constant pattern of a package-level `var v = regexp.MustCompile(<const>)`.
func (c *Ctx) regexpSourceOf(v *types.Var) (string, bool) {
	if v.Pkg() == nil {
		return "", false
	}
	for _, p := range c.All {
		if p.Types != v.Pkg() {
			continue
		}
		for _, file := range p.Syntax {
			for _, d := range file.Decls {
				gd, ok := d.(*ast.GenDecl)
				if !ok {
					continue
				}
				for _, sp := range gd.Specs {
					vs, ok := sp.(*ast.ValueSpec)
					if !ok {
						continue
					}
					for i, nm := range vs.Names {
						if p.TypesInfo.ObjectOf(nm) != v || i >= len(vs.Values) {
							continue
						}
						call, ok := vs.Values[i].(*ast.CallExpr)
						if !ok || len(call.Args) != 1 {
							return "", false
						}
						if fn := FullName(Callee(p.TypesInfo, call)); fn != "regexp.MustCompile" && fn != "regexp.Compile" {
							return "", false
						}
						tv, ok := p.TypesInfo.Types[call.Args[0]]
						if !ok || tv.Value == nil || tv.Value.Kind() != constant.String {
							return "", false
						}
						return constant.StringVal(tv.Value), true
					}
				}
			}
		}
	}
	return "", false
}

// ---- R-SORT-TOTAL (C01) ------------------------------------------------------------------------

// ruleSortTotal: the entries of a Go map reach the JSON renderer in the order a comparator gives
// them. The comparator's first stage compares the keys' display strings, which is not injective
// (multi-key {"a b","c"} vs {"a","b c"}; union "1" vs 1). For the output to be a function of the
// tree, the comparator must go on to a second stage over an injective rendering of the key itself
// whenever the first stage says "equal".
func ruleSortTotal(c *Ctx, r *Report) {
	r.Rule("R-SORT-TOTAL", "the comparator ygot.mapJSON sorts map entries with is total on distinct keys: after the comparison of the keys' display strings it compares an injective rendering (%#v) of the key values; a single-stage comparison leaves entries with equal display strings in map-iteration order and the same tree renders to different JSON", 1)
	f := c.MustFunc(r, "ygot", "mapJSON")
	if f == nil {
		return
	}
	info := f.Info()
	var cmpLit *ast.FuncLit
	var at token.Pos
	ast.Inspect(f.Decl.Body, func(x ast.Node) bool {
		call, ok := x.(*ast.CallExpr)
		if !ok {
			return true
		}
		fn := Callee(info, call)
		if fn == nil || fn.Pkg() == nil {
			return true
		}
		pkgPath := fn.Pkg().Path()
		if i := strings.LastIndex(pkgPath, "/"); i >= 0 {
			pkgPath = pkgPath[i+1:] // slices is imported from golang.org/x/exp on this tree
		}
		switch pkgPath + "." + fn.Name() {
		case "slices.SortFunc", "slices.SortStableFunc", "sort.Slice", "sort.SliceStable":
			if len(call.Args) == 2 {
				if fl, ok := call.Args[1].(*ast.FuncLit); ok {
					cmpLit, at = fl, call.Pos()
				}
			}
		}
		return true
	})
	if cmpLit == nil {
		r.Bad("ygot.mapJSON:comparator", c.Pos(f.Decl.Pos()), "mapJSON no longer sorts the entries collected from the map with a comparator literal: their order is the order of map iteration (or the rule does not recognise how they are ordered)")
		return
	}
	stages, injective := 0, false
	ast.Inspect(cmpLit.Body, func(x ast.Node) bool {
		call, ok := x.(*ast.CallExpr)
		if !ok {
			return true
		}
		switch FullName(Callee(info, call)) {
		case "strings.Compare", "cmp.Compare":
			stages++
			for _, a := range call.Args {
				if sp, ok := ast.Unparen(a).(*ast.CallExpr); ok && FullName(Callee(info, sp)) == "fmt.Sprintf" && len(sp.Args) == 2 {
					if v, isC := ConstOf(info, sp.Args[0]); isC && strings.Contains(v, "%#v") {
						injective = true
					}
				}
			}
		}
		return true
	})
	r.Check(stages >= 2 && injective, "ygot.mapJSON:comparator", c.Pos(at), "two-stage comparator with an injective tie-break on the key",
		"mapJSON orders map entries by their keys' display strings only: two keys with the same display string ({\"a b\",\"c\"} and {\"a\",\"b c\"}, or union keys \"1\" and 1) are rendered in map-iteration order, so re-rendering is not byte-identical")
}

// ---- R-LEAFREF-NO-WILDCARD (C30) ---------------------------------------------------------------

// ruleLeafrefNoWildcard: every key value in the gNMI path built for a leafref is a data value or a
// quoted literal of the schema — never a pattern. The lookup of the selected nodes must therefore
// not enable "*"-as-wildcard, or a predicate whose value happens to be "*" selects every entry.
func ruleLeafrefNoWildcard(c *Ctx, r *Report) {
	r.Rule("R-LEAFREF-NO-WILDCARD", "the leafref resolver (ytypes/leafref.go) never passes GetHandleWildcards to GetNode: key values in a leafref path are data values or quoted literals, so \"*\" must be compared literally", 1)
	n := 0
	for _, f := range c.AllFuncs("ytypes") {
		if c.relFile(f.Decl.Pos()) != "ytypes/leafref.go" {
			continue
		}
		info := f.Info()
		for _, call := range CallsIn(info, f.Decl.Body, P("ytypes")+".GetNode") {
			n++
			bad := false
			for _, a := range call.Args {
				ast.Inspect(a, func(x ast.Node) bool {
					if cl, ok := x.(*ast.CompositeLit); ok {
						if tv, ok := info.Types[cl]; ok && tv.Type != nil && strings.HasSuffix(tv.Type.String(), "ytypes.GetHandleWildcards") {
							bad = true
						}
					}
					return true
				})
			}
			r.Check(!bad, fmt.Sprintf("%s:GetNode#%d:no-wildcards", f.Name, n), c.Pos(call.Pos()), "lookup without wildcard handling",
				f.Name+" looks up the nodes a leafref path selects with GetHandleWildcards: a predicate whose value is the string \"*\" (current()/../sel with sel=\"*\", or a literal) selects every list entry, and a reference whose value exists only under another key is accepted")
		}
	}
	if n == 0 {
		r.Und("ytypes/leafref.go:GetNode", "-", "no GetNode call found in the leafref resolver")
	}
}
