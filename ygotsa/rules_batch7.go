package main

import (
	"fmt"
	"go/ast"
	"go/token"
	"go/types"
	"strings"
)

// Rules added after the seventh batch of seeded changes.

// ---- R-RELPATH-POSITIONAL (C29, C26) -----------------------------------------------------------

// positionalIndex: e is an arithmetic expression over constants and len(...) only — an index that
// depends on how long the paths are, never on which names they contain.
func positionalIndex(f *FuncInfo, e ast.Expr, depth int) bool {
	info := f.Info()
	if depth > 5 {
		return false
	}
	if tv, ok := info.Types[e]; ok && tv.Value != nil {
		return true
	}
	switch x := ast.Unparen(e).(type) {
	case *ast.BinaryExpr:
		switch x.Op {
		case token.ADD, token.SUB:
			return positionalIndex(f, x.X, depth+1) && positionalIndex(f, x.Y, depth+1)
		}
	case *ast.CallExpr:
		if id, ok := x.Fun.(*ast.Ident); ok && id.Name == "len" {
			if _, isB := info.Uses[id].(*types.Builtin); isB {
				return true
			}
		}
	case *ast.Ident:
		obj := info.ObjectOf(x)
		if obj == nil {
			return false
		}
		defs := allDefs(f, obj)
		if len(defs) == 0 {
			return false
		}
		for _, d := range defs {
			if !positionalIndex(f, d, depth+1) {
				return false
			}
		}
		return true
	}
	return false
}

// ruleRelPathPositional: a field's path relative to its directory is the field's schema path with
// the directory's elements cut off the front. Element names repeat along a path
// (/group/members/group), so the cut is positional: an index computed from the lengths of the two
// paths, never from a search for a name.
func ruleRelPathPositional(c *Ctx, r *Report) {
	r.Rule("R-RELPATH-POSITIONAL", "ygen.findSchemaPath cuts the directory's prefix off a field's schema path at an index computed from path lengths and constants only; an index found by searching for an element name is wrong whenever an ancestor has the same name as the directory, and both the GoStruct path tags and the path-struct relative paths are taken from this result", 2)
	f := c.MustFunc(r, "ygen", "findSchemaPath")
	if f == nil {
		return
	}
	info := f.Info()
	n := 0
	for _, rs := range returnsOf(f.Decl.Body) {
		for _, res := range rs.Results {
			se, ok := ast.Unparen(res).(*ast.SliceExpr)
			if !ok || se.Low == nil {
				continue
			}
			if tv, ok := info.Types[se.Low]; ok && tv.Value != nil {
				continue // constant cut (absolute path: drop the module name)
			}
			n++
			r.Check(positionalIndex(f, se.Low, 0), fmt.Sprintf("ygen.findSchemaPath:cut#%d", n), c.Pos(se.Pos()), "index computed from lengths and constants",
				"findSchemaPath cuts the field's path at "+types.ExprString(se.Low)+", which is not computed from path lengths alone: with a directory below an ancestor of the same name (container group { container members { list group … } }) the relative path of its children starts at the wrong element, so the generated path tags and ResolvePath results are wrong")
		}
	}
	if n == 0 {
		r.Bad("ygen.findSchemaPath:cut", c.Pos(f.Decl.Pos()), "findSchemaPath no longer returns a slice of the field's path cut at a computed index: the rule does not recognise how the relative path is derived")
	}
}

// ---- R-BASE64-STD (C01, C29, C16) --------------------------------------------------------------

// ruleBase64Std: YANG binary is base64 of RFC 4648 §4 (RFC 7950 §9.8.2). Every encoder and decoder
// of binary text in the library must use that one alphabet, or what one side writes the other
// rejects (or decodes to different bytes).
func ruleBase64Std(c *Ctx, r *Report) {
	r.Rule("R-BASE64-STD", "every use of encoding/base64 in the library (JSON and key rendering of binary values, their decoders, default-value validation, gnmidiff) names base64.StdEncoding: writer and readers agree on the RFC 4648 §4 alphabet with padding", 4)
	n := 0
	for _, rel := range libPkgs {
		for _, f := range c.AllFuncs(rel) {
			info := f.Info()
			ast.Inspect(f.Decl.Body, func(x ast.Node) bool {
				se, ok := x.(*ast.SelectorExpr)
				if !ok {
					return true
				}
				obj := info.ObjectOf(se.Sel)
				if obj == nil || obj.Pkg() == nil || obj.Pkg().Path() != "encoding/base64" {
					return true
				}
				switch obj.(type) {
				case *types.Var:
					n++
					r.Check(obj.Name() == "StdEncoding", fmt.Sprintf("%s:base64#%s", f.Name, obj.Name()), c.Pos(se.Pos()), "base64.StdEncoding",
						fmt.Sprintf("%s uses base64.%s: binary values containing the symbols that differ between the alphabets (+ / vs - _, padding) are rendered in a form the library's own decoders (base64.StdEncoding) reject or misread", f.Name, obj.Name()))
				case *types.Func:
					if obj.Name() == "NewEncoding" {
						n++
						r.Bad(fmt.Sprintf("%s:base64#NewEncoding", f.Name), c.Pos(se.Pos()), f.Name+" builds its own base64 alphabet")
					}
				}
				return true
			})
		}
	}
}

// ---- R-DISPATCH-TOTAL (C31, C13) ---------------------------------------------------------------

// ruleDispatchTotal: ytypes.unmarshalGeneric hands every value to the unmarshaller of the schema's
// kind. It has no success of its own: a literal `return nil` before the dispatch means that some
// mentioned node is silently not applied (an empty JSON array that should clear a leaf-list).
func ruleDispatchTotal(c *Ctx, r *Report) {
	r.Rule("R-DISPATCH-TOTAL", "ytypes.unmarshalGeneric succeeds only with the result of a per-kind unmarshaller (or under a nil test of the value): it never returns a literal success for a non-nil value, so every mentioned node reaches the code that applies it (clear-before-fill for leaf-lists included)", 5)
	f := c.MustFunc(r, "ytypes", "unmarshalGeneric")
	if f == nil {
		return
	}
	info := f.Info()
	ps := paramObjs(f)
	var val types.Object
	if len(ps) >= 3 {
		val = ps[2]
	}
	n := 0
	for _, rs := range returnsOf(f.Decl.Body) {
		if len(rs.Results) != 1 {
			continue
		}
		n++
		key := fmt.Sprintf("ytypes.unmarshalGeneric:return#%d", n)
		res := ast.Unparen(rs.Results[0])
		if !isNilIdent(info, res) {
			r.OK(key, c.Pos(rs.Pos()), "error or per-kind result: "+shortExpr(res))
			continue
		}
		okNil := false
		for _, ft := range c.FactsAt(f, rs, false) {
			if ft.Kind == "cond" && ft.Pos && isNilTest(info, ft.Cond) && val != nil && mentionsObj(info, ft.Cond, val) {
				okNil = true
			}
		}
		r.Check(okNil, key, c.Pos(rs.Pos()), "success for a nil value only",
			"unmarshalGeneric returns success without calling a per-kind unmarshaller for a value that is not nil: the node the JSON mentions is not applied (an empty array no longer clears a leaf-list; a mentioned leaf is not written)")
	}
}

func shortExpr(e ast.Expr) string {
	s := types.ExprString(e)
	if len(s) > 60 {
		s = s[:60]
	}
	return s
}

var _ = strings.HasPrefix
