package main

import (
	"fmt"
	"go/ast"
	"go/token"
	"go/types"
	"os"
	"sort"
	"strings"

	"golang.org/x/tools/go/callgraph"
	"golang.org/x/tools/go/callgraph/cha"
	"golang.org/x/tools/go/callgraph/vta"
	"golang.org/x/tools/go/packages"
	"golang.org/x/tools/go/ssa"
	"golang.org/x/tools/go/ssa/ssautil"
	"golang.org/x/tools/go/types/typeutil"
)

const modPath = "github.com/openconfig/ygot"

var libPkgs = []string{"ygot", "ygot/pathtranslate", "ytypes", "util", "internal/yreflect", "gnmidiff", "protomap", "testutil"}
var genPkgs = []string{"ygen", "gogen", "gogen/internal/gotypes", "protogen", "ypathgen", "genutil", "generator", "proto_generator", "internal/igenutil", "yangschema"}
var corpusPkgs = []string{"integration_tests/schemaops/ctestschema", "integration_tests/schemaops/utestschema"}

// Ctx is the loaded, type-checked program plus lazily built SSA and call graph.
type Ctx struct {
	Fset    *token.FileSet
	Roots   []*packages.Package
	All     map[string]*packages.Package // by import path, including deps
	Overlay map[string][]byte

	prog    *ssa.Program
	ssaPkgs map[string]*ssa.Package
	cgVTA   *callgraph.Graph
	cgCHA   *callgraph.Graph

	parents map[*ast.File]map[ast.Node]ast.Node
	stats   map[string]any

	fnIndex       map[*types.Func]*FuncInfo
	cfgs          map[*ast.BlockStmt]*bodyCFG
	effMemo       map[*types.Func]*modEffect
}

func P(rel string) string { return modPath + "/" + rel }

// Load loads L ∪ G ∪ K with all dependency syntax.
func Load(overlay map[string][]byte) (*Ctx, error) {
	os.Unsetenv("GOWORK")
	var pats []string
	for _, l := range [][]string{libPkgs, genPkgs, corpusPkgs} {
		for _, p := range l {
			pats = append(pats, P(p))
		}
	}
	cfg := &packages.Config{
		Mode:    packages.LoadAllSyntax,
		Dir:     repoDir(),
		Tests:   false,
		Overlay: overlay,
		Env:     append(os.Environ(), "GOFLAGS=-mod=mod", "GOPROXY=off", "GOSUMDB=off", "GOTOOLCHAIN=local", "GOWORK=off"),
	}
	if a := os.Getenv("YGOTSA_GOARCH"); a != "" {
		cfg.Env = append(cfg.Env, "GOARCH="+a)
	}
	roots, err := packages.Load(cfg, pats...)
	if err != nil {
		return nil, err
	}
	if len(roots) != len(pats) {
		return nil, fmt.Errorf("loaded %d root packages, expected %d", len(roots), len(pats))
	}
	c := &Ctx{Roots: roots, All: map[string]*packages.Package{}, Overlay: overlay, parents: map[*ast.File]map[ast.Node]ast.Node{}, stats: map[string]any{}}
	var errs []string
	packages.Visit(roots, nil, func(p *packages.Package) {
		c.All[p.PkgPath] = p
		if strings.HasPrefix(p.PkgPath, modPath) {
			for _, e := range p.Errors {
				errs = append(errs, e.Error())
			}
			if p.IllTyped {
				errs = append(errs, p.PkgPath+": ill-typed")
			}
		}
	})
	if len(errs) > 0 {
		sort.Strings(errs)
		if len(errs) > 8 {
			errs = errs[:8]
		}
		return nil, fmt.Errorf("load errors: %s", strings.Join(errs, "; "))
	}
	c.Fset = roots[0].Fset
	nfiles := 0
	for _, p := range roots {
		nfiles += len(p.Syntax)
	}
	c.stats["packages_root"] = len(roots)
	c.stats["packages_total"] = len(c.All)
	c.stats["root_files"] = nfiles
	return c, nil
}

func (c *Ctx) Pkg(rel string) *packages.Package {
	if p, ok := c.All[P(rel)]; ok {
		return p
	}
	return c.All[rel]
}

func (c *Ctx) Pos(p token.Pos) string {
	if !p.IsValid() {
		return "-"
	}
	pos := c.Fset.Position(p)
	return fmt.Sprintf("%s:%d", relpos(pos.Filename), pos.Line)
}

// FuncInfo is a resolved source function.
type FuncInfo struct {
	Pkg  *packages.Package
	Decl *ast.FuncDecl
	Obj  *types.Func
	File *ast.File
	Name string // pkgrel.Recv.Name
}

func (f *FuncInfo) Info() *types.Info { return f.Pkg.TypesInfo }

// Func resolves "Name" or "Recv.Name" in package rel (relative to the module, or a full path).
func (c *Ctx) Func(rel, name string) *FuncInfo {
	p := c.Pkg(rel)
	if p == nil {
		return nil
	}
	recv, fn := "", name
	if i := strings.LastIndex(name, "."); i >= 0 {
		recv, fn = name[:i], name[i+1:]
	}
	for _, f := range p.Syntax {
		for _, d := range f.Decls {
			fd, ok := d.(*ast.FuncDecl)
			if !ok || fd.Name.Name != fn || fd.Body == nil {
				continue
			}
			r := ""
			if fd.Recv != nil && len(fd.Recv.List) > 0 {
				r = recvName(fd.Recv.List[0].Type)
			}
			if r != recv {
				continue
			}
			obj, _ := p.TypesInfo.Defs[fd.Name].(*types.Func)
			return &FuncInfo{Pkg: p, Decl: fd, Obj: obj, File: f, Name: rel + "." + name}
		}
	}
	return nil
}

func recvName(e ast.Expr) string {
	switch t := e.(type) {
	case *ast.StarExpr:
		return recvName(t.X)
	case *ast.Ident:
		return t.Name
	case *ast.IndexExpr:
		return recvName(t.X)
	case *ast.IndexListExpr:
		return recvName(t.X)
	}
	return ""
}

// AllFuncs lists all source functions with bodies in package rel.
func (c *Ctx) AllFuncs(rel string) []*FuncInfo {
	p := c.Pkg(rel)
	if p == nil {
		return nil
	}
	var out []*FuncInfo
	for _, f := range p.Syntax {
		for _, d := range f.Decls {
			fd, ok := d.(*ast.FuncDecl)
			if !ok || fd.Body == nil {
				continue
			}
			n := fd.Name.Name
			if fd.Recv != nil && len(fd.Recv.List) > 0 {
				n = recvName(fd.Recv.List[0].Type) + "." + n
			}
			obj, _ := p.TypesInfo.Defs[fd.Name].(*types.Func)
			out = append(out, &FuncInfo{Pkg: p, Decl: fd, Obj: obj, File: f, Name: rel + "." + n})
		}
	}
	return out
}

// MustFunc resolves or records an undecided obligation.
func (c *Ctx) MustFunc(r *Report, rel, name string) *FuncInfo {
	f := c.Func(rel, name)
	if f == nil {
		r.Und("anchor:"+rel+"."+name, "-", "anchor function not found (renamed or removed): the rule cannot be decided")
	}
	return f
}

// Parent map for a file.
func (c *Ctx) parentMap(f *ast.File) map[ast.Node]ast.Node {
	if m, ok := c.parents[f]; ok {
		return m
	}
	m := map[ast.Node]ast.Node{}
	var stack []ast.Node
	ast.Inspect(f, func(n ast.Node) bool {
		if n == nil {
			stack = stack[:len(stack)-1]
			return true
		}
		if len(stack) > 0 {
			m[n] = stack[len(stack)-1]
		}
		stack = append(stack, n)
		return true
	})
	c.parents[f] = m
	return m
}

// Callee resolves the static callee of a call (function, method, or nil).
func Callee(info *types.Info, call *ast.CallExpr) *types.Func {
	if f, ok := typeutil.Callee(info, call).(*types.Func); ok {
		return f
	}
	return nil
}

// FullName: pkgpath.Name or pkgpath.Recv.Name, pointer receivers normalised.
func FullName(f *types.Func) string {
	if f == nil {
		return ""
	}
	sig, _ := f.Type().(*types.Signature)
	pk := ""
	if f.Pkg() != nil {
		pk = f.Pkg().Path()
	}
	if sig != nil && sig.Recv() != nil {
		t := sig.Recv().Type()
		if p, ok := t.(*types.Pointer); ok {
			t = p.Elem()
		}
		if n, ok := t.(*types.Named); ok {
			if n.Obj().Pkg() != nil {
				pk = n.Obj().Pkg().Path()
			}
			return pk + "." + n.Obj().Name() + "." + f.Name()
		}
		return pk + ".(" + t.String() + ")." + f.Name()
	}
	return pk + "." + f.Name()
}

// ShortName strips the module path.
func ShortName(f *types.Func) string {
	return strings.TrimPrefix(FullName(f), modPath+"/")
}

// IsCall reports whether call's callee has the given full name (e.g. "strings.Replace",
// P("util")+".IsValueNil", "reflect.Value.Set").
func IsCall(info *types.Info, n ast.Node, names ...string) bool {
	call, ok := n.(*ast.CallExpr)
	if !ok {
		return false
	}
	fn := FullName(Callee(info, call))
	for _, nm := range names {
		if fn == nm {
			return true
		}
	}
	return false
}

// CallsIn returns all calls within n to any of names (in source order).
func CallsIn(info *types.Info, n ast.Node, names ...string) []*ast.CallExpr {
	var out []*ast.CallExpr
	if n == nil {
		return nil
	}
	ast.Inspect(n, func(x ast.Node) bool {
		if c, ok := x.(*ast.CallExpr); ok && IsCall(info, c, names...) {
			out = append(out, c)
		}
		return true
	})
	return out
}

// ConstOf returns the constant value of e if any.
func ConstOf(info *types.Info, e ast.Expr) (string, bool) {
	tv, ok := info.Types[e]
	if !ok || tv.Value == nil {
		return "", false
	}
	return tv.Value.ExactString(), true
}

// ObjOf resolves an identifier or selector to its object.
func ObjOf(info *types.Info, e ast.Expr) types.Object {
	switch x := e.(type) {
	case *ast.Ident:
		return info.ObjectOf(x)
	case *ast.SelectorExpr:
		return info.ObjectOf(x.Sel)
	case *ast.ParenExpr:
		return ObjOf(info, x.X)
	}
	return nil
}

// QualObj renders a package-level object as pkgpath.Name.
func QualObj(o types.Object) string {
	if o == nil {
		return ""
	}
	if o.Pkg() == nil {
		return o.Name()
	}
	return o.Pkg().Path() + "." + o.Name()
}

// ---- SSA -------------------------------------------------------------------

func (c *Ctx) SSA() *ssa.Program {
	if c.prog != nil {
		return c.prog
	}
	prog, pkgs := ssautil.AllPackages(c.Roots, ssa.InstantiateGenerics)
	prog.Build()
	c.prog = prog
	c.ssaPkgs = map[string]*ssa.Package{}
	for _, p := range pkgs {
		if p != nil {
			c.ssaPkgs[p.Pkg.Path()] = p
		}
	}
	for _, p := range prog.AllPackages() {
		c.ssaPkgs[p.Pkg.Path()] = p
	}
	return prog
}

func (c *Ctx) SSAPkg(rel string) *ssa.Package {
	c.SSA()
	if p, ok := c.ssaPkgs[P(rel)]; ok {
		return p
	}
	return c.ssaPkgs[rel]
}

// SSAFunc resolves "Name" or "Recv.Name".
func (c *Ctx) SSAFunc(rel, name string) *ssa.Function {
	p := c.SSAPkg(rel)
	if p == nil {
		return nil
	}
	if i := strings.LastIndex(name, "."); i >= 0 {
		recv, fn := name[:i], name[i+1:]
		tn, _ := p.Pkg.Scope().Lookup(recv).(*types.TypeName)
		if tn == nil {
			return nil
		}
		for _, t := range []types.Type{tn.Type(), types.NewPointer(tn.Type())} {
			ms := c.prog.MethodSets.MethodSet(t)
			for i := 0; i < ms.Len(); i++ {
				if ms.At(i).Obj().Name() == fn {
					if f := c.prog.MethodValue(ms.At(i)); f != nil && f.Synthetic == "" {
						return f
					}
				}
			}
		}
		return nil
	}
	return p.Func(name)
}

func (c *Ctx) SSAOf(f *FuncInfo) *ssa.Function {
	c.SSA()
	if f == nil || f.Obj == nil {
		return nil
	}
	return c.prog.FuncValue(f.Obj)
}

func (c *Ctx) CHA() *callgraph.Graph {
	if c.cgCHA == nil {
		c.cgCHA = cha.CallGraph(c.SSA())
	}
	return c.cgCHA
}

func (c *Ctx) VTA() *callgraph.Graph {
	if c.cgVTA == nil {
		prog := c.SSA()
		c.cgVTA = vta.CallGraph(ssautil.AllFunctions(prog), c.CHA())
		c.stats["call_graph_nodes"] = len(c.cgVTA.Nodes)
		ne := 0
		for _, n := range c.cgVTA.Nodes {
			ne += len(n.Out)
		}
		c.stats["call_graph_edges"] = ne
	}
	return c.cgVTA
}

// Reachable returns the set of functions reachable from roots in g.
func Reachable(g *callgraph.Graph, roots ...*ssa.Function) map[*ssa.Function]bool {
	seen := map[*ssa.Function]bool{}
	var stack []*ssa.Function
	for _, r := range roots {
		if r != nil && !seen[r] {
			seen[r] = true
			stack = append(stack, r)
		}
	}
	for len(stack) > 0 {
		f := stack[len(stack)-1]
		stack = stack[:len(stack)-1]
		n := g.Nodes[f]
		if n == nil {
			continue
		}
		for _, e := range n.Out {
			if !seen[e.Callee.Func] {
				seen[e.Callee.Func] = true
				stack = append(stack, e.Callee.Func)
			}
		}
		// anonymous functions defined inside f are considered reachable (closures passed around).
		for _, an := range f.AnonFuncs {
			if !seen[an] {
				seen[an] = true
				stack = append(stack, an)
			}
		}
	}
	return seen
}

// SSAFullName gives pkgpath.Recv.Name for an ssa function (source-level name).
func SSAFullName(f *ssa.Function) string {
	if f == nil {
		return ""
	}
	if o, ok := f.Object().(*types.Func); ok && o != nil {
		return FullName(o)
	}
	if f.Parent() != nil {
		return SSAFullName(f.Parent()) + "$" + strings.TrimPrefix(f.Name(), f.Parent().Name()+"$")
	}
	return f.String()
}

func short(s string) string { return strings.ReplaceAll(s, modPath+"/", "") }
